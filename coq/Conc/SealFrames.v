(* SealFrames.v -- frame lemmas for SealInv.Inv4: what a step can do to "the tail of the
   current open version is sealed", to awaitRotate, to the closed flag, to the classes of
   the stepping thread *)
From Coq Require Import List Arith Bool Lia.
From RW Require Import Conc.Sys Conc.SysFacts Conc.Close Conc.ListX Conc.CloseInv Conc.CloseFacts Conc.CloseK
     Conc.CloseSafe Conc.CloseSafeStep Conc.CloseStep1 Conc.CloseFrames Conc.CloseStepInv Conc.CloseReach Conc.SealInv.
Import ListNotations.

Lemma close_all_sealed : forall hs l h, h_sealed (nth h (close_all l hs) dh) = h_sealed (nth h l dh).
Proof.
  induction hs as [|a hs IH]; intros l h; cbn [close_all]; [reflexivity|].
  rewrite IH. destruct (Nat.eq_dec a h) as [->|N].
  - destruct (Nat.lt_ge_cases h (length l)).
    + rewrite nth_upd_eq by assumption. reflexivity.
    + rewrite upd_oob by assumption. reflexivity.
  - now rewrite nth_upd_neq.
Qed.

Lemma sealed_ext g g' :
  g_cur g' = g_cur g ->
  s_open (getst g' (g_cur g)) = s_open (getst g (g_cur g)) -> s_segs (getst g' (g_cur g)) = s_segs (getst g (g_cur g)) ->
  (forall h, h_sealed (geth g' h) = h_sealed (geth g h)) -> sealed_cur g' = sealed_cur g.
Proof. intros E1 E2 E3 E4. unfold sealed_cur, tail_of. now rewrite E1, E2, E3, E4. Qed.

Lemma sealed_upd_st g x (f : st -> st) :
  (forall s0, s_segs (f s0) = s_segs s0) -> (forall s0, s_open (f s0) = s_open s0) ->
  sealed_cur (upd_st g x (f (getst g x))) = sealed_cur g.
Proof.
  intros H1 H2. apply sealed_ext; try reflexivity.
  - rewrite getst_upd_st. destruct ((x =? _) && _) eqn:B; [|reflexivity].
    apply andb_true_iff in B. destruct B as [B _]. apply Nat.eqb_eq in B. subst. apply H2.
  - rewrite getst_upd_st. destruct ((x =? _) && _) eqn:B; [|reflexivity].
    apply andb_true_iff in B. destruct B as [B _]. apply Nat.eqb_eq in B. subst. apply H1.
Qed.

Lemma sealed_upd_h g t v : h_sealed v = h_sealed (geth g t) -> sealed_cur (upd_h g t v) = sealed_cur g.
Proof.
  intros Q. apply sealed_ext; try reflexivity. intros h. rewrite geth_upd_h.
  destruct ((t =? h) && _) eqn:B; [|reflexivity]. apply andb_true_iff in B. destruct B as [B _]. apply Nat.eqb_eq in B. now subst.
Qed.

Lemma sealed_close g hs : sealed_cur (set_hnds g (close_all (g_hnds g) hs)) = sealed_cur g.
Proof. apply sealed_ext; try reflexivity. intros h. unfold geth; cbn. apply close_all_sealed. Qed.

Lemma sealed_ctl g g' : g_states g' = g_states g -> g_cur g' = g_cur g -> g_hnds g' = g_hnds g -> sealed_cur g' = sealed_cur g.
Proof. intros E1 E2 E3. unfold sealed_cur, getst, geth. now rewrite E1, E2, E3. Qed.

(* the pcs whose step needs an individual argument *)
Definition special4 (p : pc) : bool :=
  match p with
  | PIdle | PBody _ | PApp3 _ | PTrig _ | PM2 _ _ | PM3 _ _ | PCLocked | PC6 _ | PRT3 => true
  | _ => false
  end.

Lemma plain4 g t th g' th' :
  step_thread g t th = Some (g', th') -> t_pc th' <> PPanic -> special4 (t_pc th) = false ->
  sealed_cur g' = sealed_cur g /\ g_await g' = g_await g /\ g_closed g' = g_closed g /\
  inW1 th' = inW1 th /\ (forall g0, inW2 g0 th = false) /\ (forall g0, inW2 g0 th' = false) /\
  (inR th' = true -> inR th = true).
Proof.
  intros F NP Sp.
  destruct (t_pc th) eqn:P; try discriminate Sp; unfold step_thread in F; rewrite P in F; crack F; inversion F; subst g' th'; clear F.
  all: try (exfalso; apply NP; reflexivity).
  all: unfold inW1, inW2, inR; rewrite ?P; cbn [t_pc setpc finish].
  all: try (match goal with |- context [continue _ _ ?k0] => destruct k0; cbn [continue t_pc setpc finish] end).
  all: repeat split; auto; try (intros; discriminate).
  all: try (apply (sealed_upd_st g _ (fun s0 => st_ref s0 _)); auto; fail).
  all: try (apply (sealed_upd_st g _ (fun s0 => st_fin s0 _)); auto; fail).
  all: try (apply (sealed_upd_st g _ (fun s0 => st_retire s0 _)); auto; fail).
  all: try (apply sealed_upd_h; reflexivity).
  all: try (apply sealed_close).
  all: try (apply sealed_ctl; reflexivity).
Qed.

(* a thread that is quiet stays quiet once the closed flag is set *)
Lemma quiet_step g t th g' th' :
  step_thread g t th = Some (g', th') -> t_pc th' <> PPanic -> g_closed g = true -> quiet th = true -> quiet th' = true.
Proof.
  intros F NP C Q. unfold quiet in *.
  assert (Fin : forall res, negb (op_locking (finish th res)) || true = true) by (intros; apply orb_true_r).
  unfold step_thread in F; crack F; try (destruct (pm3_tx _ _ _ _) eqn:?); inversion F; subst g' th'; clear F.
  all: try (exfalso; apply NP; reflexivity).
  all: try congruence.
  all: try (cbn [t_pc finish]; apply orb_true_r).
  all: repeat match goal with H : t_pc _ = _ |- _ => rewrite H in Q end.
  all: try (match goal with |- context [continue _ _ ?k0] => destruct k0; cbn [continue] end).
  all: change (op_locking (setpc th ?p)) with (op_locking th); cbn [t_pc setpc finish] in *.
  all: try (apply orb_true_r).
  all: try exact Q.
  all: try (rewrite orb_false_r in Q; rewrite Q; reflexivity).
  all: try (destruct (negb (op_locking th)); [reflexivity | cbn in Q; discriminate Q]).
Qed.

Section SF.
  Variables (w r : tid).

  (* the stage of Close never goes back below 3 *)
  Lemma K3_step s t s' : Full w r s -> step s t = Some s' -> 3 <= K (sh s) (ths s) -> 3 <= K (sh s') (ths s').
  Proof.
    intros F0 H L. pose proof F0 as [SA I]. destruct (full_step w r s t s' F0 H) as [SA' I'].
    destruct (Nat.le_gt_cases (K (sh s') (ths s')) 9) as [L9|L9]; [|lia].
    destruct (Nat.le_gt_cases 1 (K (sh s') (ths s'))) as [L1|L1].
    2: { exfalso. assert (C : g_closed (sh s) = true) by (unfold K in L; destruct (g_closed (sh s)); [reflexivity | lia]).
         pose proof (closed_mono s t s' H C) as C'. unfold K in L1. rewrite C' in L1.
         destruct (Nat.eqb_spec (nact (ths s')) 0) as [Zn|Zn]; [lia|].
         destruct (sum_pos_ex (fun th => b2n (0 <? cstage th)) (ths s')) as (u & thu & Eu & P); [fold (nact (ths s')); lia|].
         pose proof (sum_ge_nth cstage (ths s') u thu Eu) as Gs. fold (gstage (ths s')) in Gs.
         destruct (Nat.ltb_spec 0 (cstage thu)); cbn in P; lia. }
    destruct (closer_of w r s' I' ltac:(lia)) as (u & thu & Eu & Cu).
    destruct (step_decomp _ _ _ H) as (th & g' & th' & E & F & ->). cbn [sh ths] in *.
    destruct (nth_error_upd_inv _ _ _ _ _ Eu) as [(-> & -> & _)|(Nu & Eu')].
    - pose proof (no_panic w r _ _ _ _ _ SA I E F) as NP.
      pose proof (stage_step _ _ _ _ _ (i_wf _ _ _ I _ _ E) F NP) as ST.
      destruct (K_after w r s t th g' th' I E) as (K1 & K2 & K3).
      destruct (Nat.eq_dec (cstage th) 0) as [Z|Z].
      + (* the stepping thread was not closing: it cannot become the closer now *)
        exfalso. destruct (t_pc th) eqn:P.
        1: { destruct ST as (_ & [(A & _)|(A & _ & C & _)]); [lia|]. unfold K in L. rewrite C in L. cbn in L. lia. }
        all: unfold stage_after in ST; unfold cstage in Z; rewrite P in ST, Z; try lia; destruct (op_close th); lia.
      + destruct (K_active w r s t th I E ltac:(lia)) as [_ Kq].
        assert (cstage th <= cstage th').
        { destruct (t_pc th) eqn:P.
          1: { unfold cstage in Z. rewrite P in Z. lia. }
          all: unfold stage_after in ST; unfold cstage in Z |- * at 1; rewrite P in *; try lia; destruct (op_close th); lia. }
        lia.
    - destruct (Nat.eq_dec (cstage thu) 0) as [Z|Z]; [lia|].
      destruct (K_active w r s u thu I Eu' ltac:(lia)) as [_ Kq]. lia.
  Qed.
End SF.

Lemma min_step g t th g' th' x :
  step_thread g t th = Some (g', th') -> x < length (g_states g) -> s_min (getst g' x) = s_min (getst g x).
Proof.
  intros F L.
  assert (U : forall z (f : st -> st), (forall s0, s_min (f s0) = s_min s0) ->
                s_min (getst (upd_st g z (f (getst g z))) x) = s_min (getst g x)).
  { intros z f Hf. rewrite getst_upd_st. destruct ((z =? x) && _) eqn:B; [|reflexivity].
    apply andb_true_iff in B. destruct B as [B _]. apply Nat.eqb_eq in B. subst. apply Hf. }
  step_cases F; try reflexivity.
  all: try (apply (U _ (fun s0 => st_ref s0 _)); auto; fail).
  all: try (apply (U _ (fun s0 => st_fin s0 _)); auto; fail).
  all: try (apply (U _ (fun s0 => st_retire s0 _)); auto; fail).
  all: unfold getst, publish; cbn; now rewrite app_nth1.
Qed.

Lemma classify_ext g g' y o :
  s_segs (getst g' y) = s_segs (getst g y) -> s_min (getst g' y) = s_min (getst g y) ->
  (forall h, io (geth g' h) = io (geth g h)) -> classify g' (getst g' y) o = classify g (getst g y) o.
Proof.
  intros E1 E2 E3.
  assert (Ef : first_index g' (getst g' y) = first_index g (getst g y)).
  { unfold first_index, tail_of. rewrite E1, E2. pose proof (E3 (last (s_segs (getst g y)) 0)) as Q. unfold io in Q. injection Q as Qb Qe Qw Qs Qc. now rewrite Qc. }
  assert (El : last_index g' (getst g' y) = last_index g (getst g y)).
  { unfold last_index, tail_of. rewrite E1. pose proof (E3 (last (s_segs (getst g y)) 0)) as Q. unfold io in Q. injection Q as Qb Qe Qw Qs Qc. now rewrite Qb, Qc. }
  unfold classify. now rewrite Ef, El.
Qed.

(* another thread's step does not disturb a tail truncation between force-seal and commit *)
Lemma inW2_other w r s t th g' th' u thu :
  Safe s -> Inv1 w r s -> nth_error (ths s) t = Some th -> step_thread (sh s) t th = Some (g', th') -> t_pc th' <> PPanic ->
  nth_error (ths s) u = Some thu -> u <> t -> inW2 (sh s) thu = true -> inW2 g' thu = true.
Proof.
  intros SA I E F NP Eu N W2. unfold inW2 in *.
  destruct (t_pc thu) eqn:Pu; try discriminate W2. destruct k; try discriminate W2.
  destruct (cur_op thu) as [[]|]; try discriminate W2.
  assert (Hu : holds_mu thu = true) by (unfold holds_mu; now rewrite Pu).
  destruct (core_step s t th g' th' SA E F NP) as (Fr & _ & _ & _ & [Hm|Io] & _).
  { exfalso. pose proof (a_mu1 _ SA _ _ E Hm). pose proof (a_mu1 _ SA _ _ Eu Hu). congruence. }
  assert (Ly : y < length (g_states (sh s))).
  { pose proof (i_thr _ _ _ I _ _ Eu) as TF. unfold th_facts1 in TF. rewrite Pu in TF. pose proof (a_last _ SA). lia. }
  rewrite (classify_ext (sh s) g' y (OTrunc n)); [exact W2 | apply (f_segs _ _ Fr y Ly) | apply (min_step _ _ _ _ _ y F Ly) | exact Io].
Qed.
