(* CloseStep3.v -- preservation of the finalizer clauses of CloseInv2.Inv2 *)
From Coq Require Import List Arith Bool Lia.
From RW Require Import Conc.Sys Conc.SysFacts Conc.Close Conc.ListX Conc.CloseInv Conc.CloseInv2 Conc.CloseFacts
     Conc.CloseK Conc.CloseSafe Conc.CloseSafeStep Conc.CloseStep1 Conc.CloseFrames Conc.CloseFrames2
     Conc.CloseStepInv Conc.CloseStepThr Conc.CloseStepOwn Conc.CloseReach Conc.CloseCount Conc.CloseStep2.
Import ListNotations.

(* a thread that holds a reference on x: x is a valid state index *)
Lemma held_lt orig s t th x :
  Inv2 orig s -> nth_error (ths s) t = Some th -> 0 < href th x -> x < length (g_states (sh s)).
Proof.
  intros J E Hh. destruct (Nat.lt_ge_cases x (length (g_states (sh s)))) as [L|L]; [exact L|].
  destruct (j_oob _ _ J x L) as [Q _].
  pose proof (sum_ge_nth (fun th0 => href th0 x) (ths s) t th E) as G. cbn beta in G. lia.
Qed.

Lemma getst_upd_other g z v x : z <> x -> getst (upd_st g z v) x = getst g x.
Proof. intros N. rewrite getst_upd_st. destruct (Nat.eqb_spec z x); [congruence | reflexivity]. Qed.

Lemma getst_upd_same g z v : z < length (g_states g) -> getst (upd_st g z v) z = v.
Proof. intros L. rewrite getst_upd_st, Nat.eqb_refl. apply Nat.ltb_lt in L. now rewrite L. Qed.

Lemma upd_props g z (f : st -> st) :
  z < length (g_states g) ->
  (forall s0, s_open (f s0) = s_open s0) -> (forall s0, s_segs (f s0) = s_segs s0) ->
  let g' := upd_st g z (f (getst g z)) in
  (forall x, s_open (getst g' x) = s_open (getst g x)) /\
  (forall x, s_segs (getst g' x) = s_segs (getst g x)) /\
  length (g_states g') = length (g_states g) /\ g_cur g' = g_cur g /\
  (forall x, x <> z -> getst g' x = getst g x) /\ getst g' z = f (getst g z).
Proof.
  intros L Ho Hs. cbn zeta.
  assert (A : forall x, x <> z -> getst (upd_st g z (f (getst g z))) x = getst g x)
    by (intros x N; apply getst_upd_other; congruence).
  assert (B : getst (upd_st g z (f (getst g z))) z = f (getst g z)) by (now apply getst_upd_same).
  split; [|split; [|split; [|split; [|split]]]]; auto.
  - intros x. destruct (Nat.eq_dec x z) as [->|N]; [now rewrite B, Ho | now rewrite A].
  - intros x. destruct (Nat.eq_dec x z) as [->|N]; [now rewrite B, Hs | now rewrite A].
  - cbn. now rewrite upd_length.
Qed.

Definition fin_ok (g : shared) (T : list thread) (x : nat) : Prop :=
  forall hs sc, s_fin (getst g x) = FSet hs sc ->
    sc = S x /\ sc < length (g_states g) /\ s_ret (getst g x) = true /\
    1 <= s_ref (getst g x) + sum (fun th => nlast th x) T /\
    (forall h, In h (s_segs (getst g x)) -> In h (s_segs (getst g sc)) \/ In h hs).

Definition p3 (g : shared) (T : list thread) : Prop :=
  (forall x, s_open (getst g x) = false -> s_segs (getst g x) = []) /\
  (forall x, x < length (g_states g) -> s_ret (getst g x) = true -> x < g_cur g) /\
  (forall x, x < length (g_states g) -> fin_ok g T x).

Lemma nlast_sum_upd T t th th' x :
  nth_error T t = Some th ->
  sum (fun th0 => nlast th0 x) (upd T t th') + nlast th x = sum (fun th0 => nlast th0 x) T + nlast th' x.
Proof. intros E. apply (sum_upd (fun th0 => nlast th0 x) T t th th' E). Qed.

(* the reference count of state z changes *)
Lemma p3_ref g T t th th' z n :
  nth_error T t = Some th -> z < length (g_states g) -> (forall x, nlast th x = 0) ->
  (forall hs sc, s_fin (getst g z) = FSet hs sc -> 1 <= s_ref (getst g z) + sum (fun th0 => nlast th0 z) T ->
                 1 <= n + sum (fun th0 => nlast th0 z) (upd T t th')) ->
  p3 g T -> p3 (upd_st g z (st_ref (getst g z) n)) (upd T t th').
Proof.
  intros E Lz N0 Hz (JN & JRt & JF).
  destruct (upd_props g z (fun s0 => st_ref s0 n) Lz ltac:(reflexivity) ltac:(reflexivity)) as (Uo & Us & Ul & Uc & Ux & Uz).
  cbn beta in Uo, Us, Ul, Uc, Ux, Uz. split; [|split].
  - intros x O. rewrite Us. apply JN. now rewrite <- Uo.
  - intros x L R0. rewrite Uc. rewrite Ul in L. apply (JRt x L).
    destruct (Nat.eq_dec x z) as [->|N]; [now rewrite Uz in R0 | now rewrite Ux in R0].
  - intros x L hs sc Q. rewrite Ul in L. rewrite Ul, !Us.
    destruct (Nat.eq_dec x z) as [->|N].
    + rewrite Uz in Q |- *. cbn [s_fin s_ret s_ref st_ref] in Q |- *.
      destruct (JF z Lz hs sc Q) as (A1 & A2 & A3 & A4 & A5). repeat split; auto. apply (Hz hs sc Q A4).
    + rewrite Ux in Q |- * by exact N. destruct (JF x L hs sc Q) as (A1 & A2 & A3 & A4 & A5).
      pose proof (nlast_sum_upd T t th th' x E) as HN. rewrite N0 in HN. repeat split; auto. lia.
Qed.

(* the finalizer of z is swapped out *)
Lemma p3_swap g T t th th' z :
  nth_error T t = Some th -> z < length (g_states g) -> (forall x, x <> z -> nlast th x = 0) ->
  p3 g T -> p3 (upd_st g z (st_fin (getst g z) FNil)) (upd T t th').
Proof.
  intros E Lz N0 (JN & JRt & JF).
  destruct (upd_props g z (fun s0 => st_fin s0 FNil) Lz ltac:(reflexivity) ltac:(reflexivity)) as (Uo & Us & Ul & Uc & Ux & Uz).
  cbn beta in Uo, Us, Ul, Uc, Ux, Uz. split; [|split].
  - intros x O. rewrite Us. apply JN. now rewrite <- Uo.
  - intros x L R0. rewrite Uc. rewrite Ul in L. apply (JRt x L).
    destruct (Nat.eq_dec x z) as [->|N]; [now rewrite Uz in R0 | now rewrite Ux in R0].
  - intros x L hs sc Q. rewrite Ul in L. rewrite Ul, !Us.
    destruct (Nat.eq_dec x z) as [->|N]; [rewrite Uz in Q; discriminate Q|].
    rewrite Ux in Q |- * by exact N. destruct (JF x L hs sc Q) as (A1 & A2 & A3 & A4 & A5).
    pose proof (nlast_sum_upd T t th th' x E) as HN. rewrite (N0 x N) in HN. repeat split; auto. lia.
Qed.

(* state z is retired with finalizer FSet hs (S z) *)
Lemma p3_retire g T t th th' z hs0 :
  nth_error T t = Some th -> S z < length (g_states g) -> z < g_cur g -> (forall x, nlast th x = 0) ->
  1 <= s_ref (getst g z) ->
  (forall h, In h (s_segs (getst g z)) -> In h (s_segs (getst g (S z))) \/ In h hs0) ->
  p3 g T -> p3 (upd_st g z (st_retire (getst g z) (FSet hs0 (S z)))) (upd T t th').
Proof.
  intros E Lz Lc N0 R1 Inc (JN & JRt & JF).
  destruct (upd_props g z (fun s0 => st_retire s0 (FSet hs0 (S z))) ltac:(lia) ltac:(reflexivity) ltac:(reflexivity))
    as (Uo & Us & Ul & Uc & Ux & Uz).
  cbn beta in Uo, Us, Ul, Uc, Ux, Uz. split; [|split].
  - intros x O. rewrite Us. apply JN. now rewrite <- Uo.
  - intros x L R0. rewrite Uc. rewrite Ul in L.
    destruct (Nat.eq_dec x z) as [->|N]; [exact Lc | rewrite Ux in R0 by exact N; apply (JRt x L R0)].
  - intros x L hs sc Q. rewrite Ul in L. rewrite Ul, !Us.
    destruct (Nat.eq_dec x z) as [->|N].
    + rewrite Uz in Q |- *. cbn [s_fin s_ret s_ref st_retire] in Q |- *. inversion Q; subst.
      repeat split; auto. lia.
    + rewrite Ux in Q |- * by exact N. destruct (JF x L hs sc Q) as (A1 & A2 & A3 & A4 & A5).
      pose proof (nlast_sum_upd T t th th' x E) as HN. rewrite N0 in HN. repeat split; auto. lia.
Qed.

(* a new state is appended and becomes current *)
Lemma p3_publish g nh st0 T t th th' :
  nth_error T t = Some th -> S (g_cur g) = length (g_states g) -> (forall x, nlast th x = 0) ->
  s_fin st0 = FUnset -> s_ret st0 = false -> (s_open st0 = false -> s_segs st0 = []) ->
  p3 g T -> p3 (publish (set_hnds g (g_hnds g ++ nh)) st0) (upd T t th').
Proof.
  intros E La N0 F0 R0 S0 (JN & JRt & JF).
  destruct (publish_shape g nh st0) as (Hl & Hg & Hn & _).
  assert (Hc : g_cur (publish (set_hnds g (g_hnds g ++ nh)) st0) = length (g_states g)) by reflexivity.
  split; [|split].
  - intros x O. destruct (Nat.lt_ge_cases x (length (g_states g))) as [L|L].
    + rewrite Hg in O |- * by exact L. now apply JN.
    + destruct (Nat.eq_dec x (length (g_states g))) as [->|N]; [rewrite Hn in O |- *; now apply S0|].
      unfold getst. rewrite nth_overflow; [reflexivity | rewrite Hl; lia].
  - intros x L Rx. rewrite Hc. rewrite Hl in L.
    destruct (Nat.eq_dec x (length (g_states g))) as [->|N]; [rewrite Hn in Rx; congruence | lia].
  - intros x L hs sc Q. rewrite Hl in L. rewrite Hl.
    destruct (Nat.eq_dec x (length (g_states g))) as [->|N]; [rewrite Hn in Q; congruence|].
    assert (Lx : x < length (g_states g)) by lia. rewrite Hg in Q |- * by exact Lx.
    destruct (JF x Lx hs sc Q) as (A1 & A2 & A3 & A4 & A5).
    pose proof (nlast_sum_upd T t th th' x E) as HN. rewrite N0 in HN.
    rewrite Hg by lia. repeat split; auto; lia.
Qed.

Section P3.
  Variables (w r : tid) (orig : list (list op)).

  Lemma nlast_continue th res k x : nlast (continue th res k) x = 0.
  Proof. destruct k; reflexivity. Qed.

  Lemma p3_threads g T T' :
    (forall x, sum (fun th0 => nlast th0 x) T <= sum (fun th0 => nlast th0 x) T') -> p3 g T -> p3 g T'.
  Proof.
    intros Hs (JN & JRt & JF). split; [exact JN|]. split; [exact JRt|].
    intros x L hs sc Q. destruct (JF x L hs sc Q) as (A1 & A2 & A3 & A4 & A5). specialize (Hs x).
    repeat split; auto. lia.
  Qed.

  Lemma fin_step s t s' :
    Full w r s -> Inv2 orig s -> step s t = Some s' -> p3 (sh s') (ths s').
  Proof.
    intros [SA I] J H. destruct (step_decomp _ _ _ H) as (th & g' & th' & E & F & ->). cbn [sh ths].
    pose proof (no_panic w r _ _ _ _ _ SA I E F) as NP.
    pose proof (i_thr _ _ _ I _ _ E) as TF. pose proof (j_thr _ _ J _ _ E) as TJ. pose proof (a_thr _ SA _ _ E) as FB.
    pose proof (a_last _ SA) as La.
    assert (P0 : p3 (sh s) (ths s)).
    { split; [apply (j_nseg _ _ J)|]. split; [apply (j_ret _ _ J)|].
      intros x L hs sc Q. apply (j_fin _ _ J x hs sc L Q). }
    assert (HR : forall x, 0 < href th x -> x < length (g_states (sh s)) /\ 1 <= s_ref (getst (sh s) x)).
    { intros x Hh. pose proof (held_lt orig s t th x J E Hh) as L. split; [exact L|]. rewrite (j_ref _ _ J x L).
      pose proof (sum_ge_nth (fun th0 => href th0 x) (ths s) t th E) as G. cbn beta in G. lia. }
    destruct (special2 (t_pc th)) eqn:Sp.
    2: { destruct (frame2_plain _ _ _ _ _ F NP Sp) as [Qs Qc _ _ _ Qn _].
      assert (Q : p3 g' (ths s)).
      { destruct P0 as (JN & JRt & JF). unfold p3, fin_ok, getst in *. rewrite Qs, Qc. auto. }
      apply (p3_threads g' (ths s)); [|exact Q]. intros x.
      pose proof (nlast_sum_upd (ths s) t th th' x E) as HN. destruct (Qn x) as [N1 N2]. lia. }
    unfold th_facts1 in TF. unfold th_facts2 in TJ. unfold factsB in FB.
    destruct (t_pc th) eqn:P; try discriminate Sp;
      unfold step_thread in F; rewrite P in F; crack F;
      try (match goal with Q : pm3_tx ?g ?o ?y ?k = (?a, ?b) |- _ =>
             destruct (pm3_shape g o y k) as (segs & mn & nh & Q1 & Q2); rewrite Q in Q1; cbn [fst] in Q1; subst a end);
      inversion F; subst g' th'; clear F.
    all: try (exfalso; apply NP; reflexivity).
    all: assert (N0 : forall x0, nlast th x0 = match t_pc th with PLast x' _ _ => b2n (x' =? x0) | _ => 0 end) by reflexivity;
      rewrite P in N0.
    - (* acquire *) apply (p3_ref (sh s) (ths s) t th _ _ _ E); auto. intros; lia.
    - (* mutate acquire *) destruct TF as (Yc & _). apply (p3_ref (sh s) (ths s) t th _ _ _ E); auto; [lia | intros; lia].
    - (* publish *) apply (p3_publish (sh s) _ _ (ths s) t th _ E); auto. intros Q; discriminate Q.
    - (* retire *)
      destruct TF as (Yc & _). destruct TJ as (hz & Qf & _ & _ & Inc). subst f.
      destruct (HR y) as [Ly Ry]; [unfold href; rewrite P; rewrite Nat.eqb_refl; cbn; lia|].
      apply (p3_retire (sh s) (ths s) t th _ _ _ E); auto; lia.
    - (* release -> last reference *)
      destruct (HR x) as [Lx Rx]; [unfold href; rewrite P; rewrite Nat.eqb_refl; cbn; lia|].
      apply (p3_ref (sh s) (ths s) t th _ _ _ E); auto. intros hs sc Q A4.
      pose proof (nlast_sum_upd (ths s) t th (setpc th (PLast x r0 k)) x E) as HN. rewrite N0 in HN.
      change (nlast (setpc th (PLast x r0 k)) x) with (b2n (x =? x)) in HN. rewrite Nat.eqb_refl in HN. cbn in HN. lia.
    - (* release *)
      destruct (HR x) as [Lx Rx]; [unfold href; rewrite P; rewrite Nat.eqb_refl; cbn; lia|].
      apply (p3_ref (sh s) (ths s) t th _ _ _ E); auto. intros hs sc Q A4.
      destruct P0 as (_ & _ & JF). destruct (JF x Lx hs sc Q) as (_ & _ & Rt & _).
      rewrite Rt, andb_true_r in Heqb. apply Nat.eqb_neq in Heqb. lia.
    - (* swap, nothing stored *)
      destruct TJ as (_ & Lx & _). apply (p3_swap (sh s) (ths s) t th _ _ E); auto.
      intros x0 N. rewrite N0. destruct (Nat.eqb_spec x x0); [congruence | reflexivity].
    - destruct TJ as (_ & Lx & _). apply (p3_swap (sh s) (ths s) t th _ _ E); auto.
      intros x0 N. rewrite N0. destruct (Nat.eqb_spec x x0); [congruence | reflexivity].
    - destruct TJ as (_ & Lx & _). apply (p3_swap (sh s) (ths s) t th _ _ E); auto.
      intros x0 N. rewrite N0. destruct (Nat.eqb_spec x x0); [congruence | reflexivity].
    - (* run the finalizer *)
      change (p3 (sh s) (upd (ths s) t (setpc th (PRel sc r0 k)))).
      apply (p3_threads (sh s) (ths s)); [|exact P0]. intros x0.
      pose proof (nlast_sum_upd (ths s) t th (setpc th (PRel sc r0 k)) x0 E) as HN. rewrite N0 in HN.
      change (nlast (setpc th (PRel sc r0 k)) x0) with 0 in HN. lia.
    - (* Close acquires *) apply (p3_ref (sh s) (ths s) t th _ _ _ E); auto; [lia | intros; lia].
    - (* Close publishes the empty state *)
      replace (publish (sh s) empty_state) with (publish (set_hnds (sh s) (g_hnds (sh s) ++ [])) empty_state)
        by (rewrite app_nil_r; destruct (sh s); reflexivity).
      apply (p3_publish (sh s) _ _ (ths s) t th _ E); auto.
    - (* Close retires the old state *)
      destruct TF as (Xc & Ec & _). try subst e. rewrite <- ?Xc.
      destruct (HR x) as [Lx Rx]; [unfold href; rewrite P; rewrite Nat.eqb_refl; cbn; lia|].
      apply (p3_retire (sh s) (ths s) t th _ _ _ E); auto; lia.
  Qed.
End P3.
