(* CloseFrames.v -- frame lemmas: which shared control field a step may change, and how.
   Each lemma is one case analysis of the thread-level step function with trivial
   leaves; the preservation proofs of the protocol invariant use only these. *)
From Coq Require Import List Arith Bool Lia.
From RW Require Import Conc.Sys Conc.Close Conc.ListX Conc.CloseInv Conc.CloseFacts Conc.CloseSafe.
Import ListNotations.

Ltac step_cases F :=
  unfold step_thread in F; crack F;
  try (match goal with Q : pm3_tx ?g ?o ?y ?k = (?a, ?b) |- _ =>
         let segs := fresh "segs" in let mn := fresh "mn" in let nh := fresh "nh" in
         let Q1 := fresh "Q1" in let Q2 := fresh "Q2" in
         destruct (pm3_shape g o y k) as (segs & mn & nh & Q1 & Q2); rewrite Q in Q1; cbn [fst] in Q1; subst a end);
  inversion F; subst; clear F.

Lemma frame_closed g t th g' th' :
  step_thread g t th = Some (g', th') ->
  g_closed g' = g_closed g \/
  (t_pc th = PIdle /\ cur_op th = Some OClose /\ g_closed g = false /\ g_closed g' = true /\ th' = setpc th PCFlag).
Proof.
  intros F. step_cases F; cbn; auto.
  right. repeat split; auto.
Qed.

Lemma frame_trig g t th g' th' :
  step_thread g t th = Some (g', th') ->
  (g_trig g' = g_trig g /\ g_trig_closed g' = g_trig_closed g) \/
  (exists x, t_pc th = PSend x /\ g_trig g = false /\ g_trig g' = true /\
             g_trig_closed g = false /\ g_trig_closed g' = false) \/
  (t_pc th = PRIdle /\ g_trig g = true /\ g_trig g' = false /\ g_trig_closed g' = g_trig_closed g) \/
  (t_pc th = PC3 /\ g_trig g' = g_trig g /\ g_trig_closed g = false /\ g_trig_closed g' = true).
Proof.
  intros F. step_cases F; cbn; auto.
  all: try (right; left; eexists; repeat split; eauto; fail).
  all: try (right; right; left; repeat split; auto; fail).
  all: try (right; right; right; repeat split; auto; fail).
Qed.

Lemma frame_await g t th g' th' :
  step_thread g t th = Some (g', th') ->
  (g_await g' = g_await g /\ g_chans g' = g_chans g) \/
  (exists x, t_pc th = PTrig x /\ g_closed g = false /\ g_await g' = Some (length (g_chans g)) /\
             g_chans g' = g_chans g ++ [false] /\ th' = setpc th (PSend x)) \/
  (t_pc th = PRT3 /\ g_await g' = None /\ g_chans g' = g_chans g /\ th' = setpc th (PRT4 (g_await g))) \/
  (t_pc th = PCLocked /\ g_await g' = None /\ th' = setpc th PC3 /\
   match g_await g with Some c => g_chans g' = upd (g_chans g) c true | None => g_chans g' = g_chans g end) \/
  (exists c, t_pc th = PRT5 (Some c) /\ g_await g' = g_await g /\ g_chans g' = upd (g_chans g) c true /\
             th' = setpc th PRIdle).
Proof.
  intros F. step_cases F; cbn; auto.
  all: try (right; left; eexists; repeat split; eauto; fail).
  all: try (right; right; left; repeat split; auto; fail).
  all: try (right; right; right; left; repeat split; auto;
            repeat match goal with H : g_await _ = _ |- _ => rewrite H end; auto; fail).
  all: try (right; right; right; right; eexists; repeat split; eauto; fail).
Qed.

Lemma frame_meta g t th g' th' :
  step_thread g t th = Some (g', th') ->
  g_meta_closes g' = g_meta_closes g \/
  (exists x, t_pc th = PC8 x /\ g_meta_closes g' = S (g_meta_closes g)).
Proof.
  intros F. step_cases F; cbn; auto.
  right. eexists; eauto.
Qed.

(* the state pointer and the state objects *)
Lemma open_upd g x f y :
  (forall st0, s_open (f st0) = s_open st0) ->
  s_open (getst (upd_st g x (f (getst g x))) y) = s_open (getst g y).
Proof.
  intros Hf. rewrite getst_upd_st. destruct ((x =? y) && (x <? length (g_states g))) eqn:B; [|reflexivity].
  apply andb_true_iff in B. destruct B as [B _]. apply Nat.eqb_eq in B. subst. apply Hf.
Qed.
Lemma open_ref g x n y : s_open (getst (upd_st g x (st_ref (getst g x) n)) y) = s_open (getst g y).
Proof. apply (open_upd g x (fun s0 => st_ref s0 n)). reflexivity. Qed.
Lemma open_fin g x f y : s_open (getst (upd_st g x (st_fin (getst g x) f)) y) = s_open (getst g y).
Proof. apply (open_upd g x (fun s0 => st_fin s0 f)). reflexivity. Qed.
Lemma open_retire g x f y : s_open (getst (upd_st g x (st_retire (getst g x) f)) y) = s_open (getst g y).
Proof. apply (open_upd g x (fun s0 => st_retire s0 f)). reflexivity. Qed.

Lemma frame_cur g t th g' th' :
  step_thread g t th = Some (g', th') ->
  (g_cur g' = g_cur g /\ length (g_states g') = length (g_states g) /\
   forall x, s_open (getst g' x) = s_open (getst g x)) \/
  (exists y k st0, t_pc th = PM3 y k /\ s_open st0 = true /\
                   g_cur g' = length (g_states g) /\ g_states g' = g_states g ++ [st0]) \/
  (exists x, t_pc th = PC6 x /\ g_cur g' = length (g_states g) /\
             g_states g' = g_states g ++ [empty_state] /\ th' = setpc th (PCSwapped x (length (g_states g)))).
Proof.
  intros F. step_cases F.
  all: try (left; split; [reflexivity|]; split; [cbn; now rewrite ?upd_length|]; intros x0;
            first [reflexivity | apply open_ref | apply open_fin | apply open_retire]; fail).
  all: try (right; left; exists y, k, (mk_state segs mn); repeat split; eauto; fail).
  all: try (right; right; eexists; repeat split; eauto; fail).
Qed.

(* ---- steps from all other program counters leave the control fields alone ------------- *)
Definition special (p : pc) : bool :=
  match p with
  | PIdle | PSend _ | PRIdle | PC3 | PTrig _ | PRT3 | PCLocked | PRT5 _ | PC8 _ | PM3 _ _ | PC6 _ => true
  | _ => false
  end.

Record ctl_same (g g' : shared) : Prop := {
  cs_closed : g_closed g' = g_closed g;
  cs_trig : g_trig g' = g_trig g;
  cs_tc : g_trig_closed g' = g_trig_closed g;
  cs_await : g_await g' = g_await g;
  cs_chans : g_chans g' = g_chans g;
  cs_meta : g_meta_closes g' = g_meta_closes g;
  cs_cur : g_cur g' = g_cur g;
  cs_len : length (g_states g') = length (g_states g);
  cs_open : forall x, s_open (getst g' x) = s_open (getst g x)
}.

Ltac absurd_special S H :=
  exfalso;
  repeat match type of H with
         | _ \/ _ => destruct H as [H|H]
         | exists _, _ => let x := fresh in destruct H as [x H]
         | _ /\ _ => let H1 := fresh in destruct H as [H1 H];
                      try (rewrite H1 in S; discriminate S)
         end;
  try (rewrite H in S; discriminate S).

Lemma frame_plain g t th g' th' :
  step_thread g t th = Some (g', th') -> special (t_pc th) = false -> ctl_same g g'.
Proof.
  intros F S.
  pose proof (frame_closed _ _ _ _ _ F) as Fc. pose proof (frame_trig _ _ _ _ _ F) as Ft.
  pose proof (frame_await _ _ _ _ _ F) as Fa. pose proof (frame_meta _ _ _ _ _ F) as Fm.
  pose proof (frame_cur _ _ _ _ _ F) as Fu.
  destruct Fc as [Fc|Fc]; [|absurd_special S Fc].
  destruct Ft as [[Ft1 Ft2]|Ft]; [|absurd_special S Ft].
  destruct Fa as [[Fa1 Fa2]|Fa]; [|absurd_special S Fa].
  destruct Fm as [Fm|Fm]; [|absurd_special S Fm].
  destruct Fu as [(Fu1 & Fu2 & Fu3)|Fu]; [|absurd_special S Fu].
  split; auto.
Qed.
