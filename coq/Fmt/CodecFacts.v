From RW Require Import Base.Bytes Base.BytesFacts Fmt.Codec.
From Coq Require Import ZifyN ZifyNat ZifyBool.
Open Scope N_scope.

(* ---------------- uvarint ---------------- *)
Lemma put_uvarint_aux_nonempty f v : put_uvarint_aux (S f) v <> [].
Proof. simpl. destruct (v <? 128); discriminate. Qed.

Lemma put_uvarint_aux_S f v :
  put_uvarint_aux (S f) v =
  if v <? 128 then [v] else (v mod 128 + 128) :: put_uvarint_aux f (v / 128).
Proof. reflexivity. Qed.

Lemma uvarint_aux_roundtrip :
  forall f v i x s rest,
    s = 7 * N.of_nat i -> x < 2 ^ s -> (i + S f = 10)%nat ->
    v < 128 ^ N.of_nat (S f) -> x + v * 2 ^ s < two64 ->
    get_uvarint_aux (put_uvarint_aux (S f) v ++ rest) i x s
    = (x + v * 2 ^ s, Z.of_nat (i + length (put_uvarint_aux (S f) v))).
Proof.
  induction f as [|f IH]; intros v i x s rest Hs Hx Hi Hv Hsum.
  - (* fuel 1: i = 9 *)
    assert (i = 9%nat) by lia. subst i.
    assert (Hs' : s = 63) by lia. subst s.
    change (128 ^ N.of_nat 1) with 128 in Hv.
    cbn [put_uvarint_aux]. apply N.ltb_lt in Hv as Hv'. rewrite Hv'.
    cbn [app get_uvarint_aux Nat.eqb]. rewrite Hv'.
    assert (v <= 1).
    { unfold two64 in Hsum. change (2 ^ 63) with 9223372036854775808 in Hsum. lia. }
    replace (1 <? v) with false by (symmetry; apply N.ltb_ge; lia).
    cbn [andb length]. rewrite N.mod_small by exact Hsum. f_equal.
  - rewrite (put_uvarint_aux_S (S f) v). destruct (v <? 128) eqn:E.
    + cbn [app get_uvarint_aux]. rewrite E.
      replace (Nat.eqb i 10) with false by (symmetry; apply Nat.eqb_neq; lia).
      replace (Nat.eqb i 9) with false by (symmetry; apply Nat.eqb_neq; lia).
      cbn [andb length]. rewrite N.mod_small by exact Hsum. f_equal. lia.
    + apply N.ltb_ge in E.
      cbn [app get_uvarint_aux].
      replace (Nat.eqb i 10) with false by (symmetry; apply Nat.eqb_neq; lia).
      replace (v mod 128 + 128 <? 128) with false by (symmetry; apply N.ltb_ge; lia).
      assert (Hm : (v mod 128 + 128) mod 128 = v mod 128).
      { rewrite N.add_mod by lia. rewrite N.mod_same by lia. rewrite N.add_0_r.
        rewrite N.mod_mod by lia. apply N.mod_mod; lia. }
      rewrite Hm.
      assert (Hp : 2 ^ (s + 7) = 2 ^ s * 128) by (rewrite N.pow_add_r; reflexivity).
      assert (Hdm : v = 128 * (v / 128) + v mod 128) by (apply N.div_mod; lia).
      assert (Hlt : v mod 128 < 128) by (apply N.mod_lt; lia).
      assert (Hsum2 : x + v mod 128 * 2 ^ s < two64).
      { assert (v mod 128 <= v) by (apply N.mod_le; lia). nia. }
      rewrite N.mod_small by exact Hsum2.
      rewrite (IH (v / 128) (S i) (x + v mod 128 * 2 ^ s) (s + 7) rest).
      * f_equal.
        -- rewrite Hp. nia.
        -- cbn [length]. lia.
      * lia.
      * rewrite Hp. nia.
      * lia.
      * apply N.div_lt_upper_bound; [lia|].
        replace (N.of_nat (S (S f))) with (N.succ (N.of_nat (S f))) in Hv by lia.
        rewrite N.pow_succ_r' in Hv. exact Hv.
      * rewrite Hp. nia.
Qed.

Lemma uvarint_roundtrip v rest :
  v < two64 ->
  get_uvarint (put_uvarint v ++ rest) = (v, Z.of_nat (length (put_uvarint v))).
Proof.
  intros Hv. unfold get_uvarint, put_uvarint.
  rewrite (uvarint_aux_roundtrip 9 v 0 0 0 rest).
  - change (2 ^ 0) with 1. f_equal. lia.
  - reflexivity.
  - reflexivity.
  - reflexivity.
  - change (128 ^ N.of_nat 10) with 1180591620717411303424. unfold two64 in Hv. lia.
  - change (2 ^ 0) with 1. lia.
Qed.

Lemma put_uvarint_length_pos v : (0 < length (put_uvarint v))%nat.
Proof. unfold put_uvarint. simpl. destruct (v <? 128); simpl; lia. Qed.

Lemma dec_varint_put v rest :
  v < two64 -> dec_varint (put_uvarint v ++ rest) = DOk v rest.
Proof.
  intros Hv. unfold dec_varint. rewrite uvarint_roundtrip by exact Hv.
  pose proof (put_uvarint_length_pos v) as Hp.
  replace (Z.of_nat (length (put_uvarint v)) <=? 0)%Z with false by (symmetry; apply Z.leb_gt; lia).
  rewrite Nat2Z.id. rewrite skipn_app, skipn_all, Nat.sub_diag. reflexivity.
Qed.

Lemma dec_bytes_enc bs rest :
  len bs < two64 -> dec_bytes (enc_bytes bs ++ rest) = DOk bs rest.
Proof.
  intros Hl. unfold dec_bytes, enc_bytes. rewrite <- app_assoc.
  rewrite dec_varint_put by exact Hl.
  destruct (len bs =? 0) eqn:E.
  - apply N.eqb_eq in E. unfold len in E. destruct bs; [reflexivity|simpl in E; lia].
  - replace (len (bs ++ rest) <? len bs) with false.
    + unfold len. rewrite Nat2N.id. rewrite firstn_app, firstn_all, Nat.sub_diag, firstn_O, app_nil_r.
      rewrite skipn_app, skipn_all, Nat.sub_diag. reflexivity.
    + symmetry. apply N.ltb_ge. unfold len. rewrite app_length. lia.
Qed.

(* ---------------- two's complement ---------------- *)
Lemma u_to_z_to_u w half z :
  w = 2 * half -> (- Z.of_N half <= z < Z.of_N half)%Z -> 0 < half ->
  u_to_z w half (z_to_u w z) = z.
Proof.
  intros Hw Hz Hh. unfold u_to_z, z_to_u.
  assert (Hpos : (0 < Z.of_N w)%Z) by lia.
  pose proof (Z.mod_pos_bound z (Z.of_N w) Hpos) as Hb.
  destruct (Z.to_N (z mod Z.of_N w) <? half) eqn:E.
  - apply N.ltb_lt in E. rewrite Z2N.id by lia.
    destruct (Z_lt_le_dec z 0) as [Hn|Hn].
    + exfalso. assert (z mod Z.of_N w = z + Z.of_N w)%Z.
      { symmetry. apply Z.mod_unique with (q := (-1)%Z); lia. }
      lia.
    + apply Z.mod_small. lia.
  - apply N.ltb_ge in E. rewrite Z2N.id by lia.
    destruct (Z_lt_le_dec z 0) as [Hn|Hn].
    + assert (z mod Z.of_N w = z + Z.of_N w)%Z.
      { symmetry. apply Z.mod_unique with (q := (-1)%Z); lia. }
      lia.
    + exfalso. rewrite Z.mod_small in E by lia. lia.
Qed.

Lemma z_to_u_lt w z : 0 < w -> z_to_u w z < w.
Proof.
  intros Hw. unfold z_to_u.
  pose proof (Z.mod_pos_bound z (Z.of_N w) ltac:(lia)). lia.
Qed.

(* ---------------- time ---------------- *)
Lemma rdbe32_be32_app v r : v < 4294967296 -> rdbe32 (be32 v ++ r) = v.
Proof.
  intros H. unfold rdbe32, be32.
  change (firstn 4 (rev (le32 v) ++ r)) with (rev (le32 v)).
  rewrite rev_involutive. apply rd32_le32. exact H.
Qed.

Lemma rdbe16_be16_app v r : v < 65536 -> rdbe16 (be16 v ++ r) = v.
Proof.
  intros H. unfold rdbe16, be16, nth0. cbn [app nth].
  rewrite (N.mod_small (v / 256)) by (apply N.div_lt_upper_bound; lia).
  pose proof (N.div_mod v 256 ltac:(lia)). lia.
Qed.

Lemma be32_length v : length (be32 v) = 4%nat.
Proof. reflexivity. Qed.
Lemma be16_length v : length (be16 v) = 2%nat.
Proof. reflexivity. Qed.

Lemma skip8_be64 a b : skipn 8 (be64 a ++ b) = b.
Proof.
  rewrite skipn_app. rewrite skipn_all2 by (rewrite be64_length; lia).
  rewrite be64_length. reflexivity.
Qed.

Definition mk_zone (off : Z) : option Z := if (off =? -60)%Z then None else Some off.

Lemma unmarshal_v1 s n m :
  s < 18446744073709551616 -> n < 4294967296 -> m < 65536 ->
  unmarshal_time (1 :: be64 s ++ be32 n ++ be16 m) =
  Some {| t_sec := u_to_z two64 two63 s; t_nsec := u_to_z two32 two31 n;
          t_zone := mk_zone (u_to_z two16 two15 m * 60 + 0) |}.
Proof.
  intros Hs Hn Hm. unfold unmarshal_time.
  change (1 =? 1) with true. change (1 =? 2) with false. cbn [orb negb].
  assert (L : length (1 :: be64 s ++ be32 n ++ be16 m) = 15%nat).
  { cbn [length]. repeat rewrite app_length. rewrite be64_length, be32_length, be16_length. reflexivity. }
  rewrite L. cbn [Nat.eqb negb].
  rewrite rdbe64_be64_app by exact Hs. rewrite skip8_be64.
  rewrite rdbe32_be32_app by exact Hn.
  replace (skipn 12 (be64 s ++ be32 n ++ be16 m)) with (be16 m ++ []).
  2:{ change 12%nat with (8 + 4)%nat. rewrite <- skipn_skipn'. rewrite skip8_be64.
      rewrite app_nil_r. reflexivity. }
  rewrite rdbe16_be16_app by exact Hm. reflexivity.
Qed.

Lemma unmarshal_v2 s n m b :
  s < 18446744073709551616 -> n < 4294967296 -> m < 65536 ->
  unmarshal_time (2 :: be64 s ++ be32 n ++ be16 m ++ [b]) =
  Some {| t_sec := u_to_z two64 two63 s; t_nsec := u_to_z two32 two31 n;
          t_zone := mk_zone (u_to_z two16 two15 m * 60 + Z.of_N b) |}.
Proof.
  intros Hs Hn Hm. unfold unmarshal_time.
  change (2 =? 1) with false. change (2 =? 2) with true. cbn [orb negb].
  assert (L : length (2 :: be64 s ++ be32 n ++ be16 m ++ [b]) = 16%nat).
  { cbn [length]. repeat rewrite app_length. rewrite be64_length, be32_length, be16_length. reflexivity. }
  rewrite L. cbn [Nat.eqb negb].
  rewrite rdbe64_be64_app by exact Hs. rewrite skip8_be64.
  rewrite rdbe32_be32_app by exact Hn.
  replace (skipn 12 (be64 s ++ be32 n ++ be16 m ++ [b])) with (be16 m ++ [b]).
  2:{ change 12%nat with (8 + 4)%nat. rewrite <- skipn_skipn'. rewrite skip8_be64. reflexivity. }
  rewrite rdbe16_be16_app by exact Hm.
  replace (nth0 14 (be64 s ++ be32 n ++ be16 m ++ [b])) with b by reflexivity.
  reflexivity.
Qed.

Lemma wf_time_hdr v s n m :
  v < 256 -> wf_bytes ([v] ++ be64 s ++ be32 n ++ be16 m).
Proof.
  intros Hv. apply wf_bytes_app; split; [repeat constructor; exact Hv|].
  apply wf_bytes_app; split; [apply wf_be64|].
  apply wf_bytes_app; split; [unfold be32; apply Forall_rev; apply wf_le32|].
  unfold be16. repeat constructor; unfold wf_byte; apply N.mod_lt; lia.
Qed.

Lemma time_roundtrip t :
  wf_time t ->
  exists tb, marshal_time t = Some tb /\ unmarshal_time tb = Some t /\ wf_bytes tb.
Proof.
  intros (Hsec & Hns & Hz). destruct t as [sec nsec zone]. cbn [t_sec t_nsec t_zone] in *.
  unfold marshal_time. cbn [t_sec t_nsec t_zone].
  assert (Hsec' : u_to_z two64 two63 (z_to_u two64 sec) = sec)
    by (apply u_to_z_to_u; [reflexivity | exact Hsec | reflexivity]).
  assert (Hns' : u_to_z two32 two31 (z_to_u two32 nsec) = nsec)
    by (apply u_to_z_to_u; [reflexivity | unfold two31; lia | reflexivity]).
  assert (L64 : z_to_u two64 sec < 18446744073709551616) by (apply z_to_u_lt; reflexivity).
  assert (L32 : z_to_u two32 nsec < 4294967296) by (apply z_to_u_lt; reflexivity).
  destruct zone as [off|].
  - destruct Hz as (Hq & Hq1 & Hr).
    replace ((Z.quot off 60 <? -32768) || (Z.quot off 60 =? -1) || (32767 <? Z.quot off 60))%Z with false
      by (symmetry; apply orb_false_iff; split; [apply orb_false_iff; split|]; lia).
    assert (Hmin' : u_to_z two16 two15 (z_to_u two16 (Z.quot off 60)) = Z.quot off 60)
      by (apply u_to_z_to_u; [reflexivity | unfold two15; lia | reflexivity]).
    assert (L16 : z_to_u two16 (Z.quot off 60) < 65536) by (apply z_to_u_lt; reflexivity).
    pose proof (Z.quot_rem' off 60) as Hqr.
    pose proof (Z.rem_bound_abs off 60 ltac:(lia)) as Hrb.
    assert (Hne : off <> (-60)%Z).
    { intros ->. apply Hq1. reflexivity. }
    destruct (Z.rem off 60 =? 0)%Z eqn:E.
    + eexists; split; [reflexivity|]. split.
      * change (Z.to_N 1) with 1. cbn [app].
        rewrite unmarshal_v1 by assumption. rewrite Hsec', Hns', Hmin'.
        apply Z.eqb_eq in E.
        replace (Z.quot off 60 * 60 + 0)%Z with off by lia.
        unfold mk_zone. replace (off =? -60)%Z with false by (symmetry; apply Z.eqb_neq; exact Hne).
        reflexivity.
      * apply wf_time_hdr. reflexivity.
    + apply Z.eqb_neq in E.
      assert (Lr : z_to_u 256 (Z.rem off 60) = Z.to_N (Z.rem off 60)).
      { unfold z_to_u. rewrite Z.mod_small; [reflexivity|]. change (Z.of_N 256) with 256%Z. lia. }
      eexists; split; [reflexivity|]. split.
      * change (Z.to_N 2) with 2. cbn [app]. repeat rewrite <- app_assoc.
        rewrite unmarshal_v2 by assumption. rewrite Hsec', Hns', Hmin', Lr.
        rewrite Z2N.id by lia.
        replace (Z.quot off 60 * 60 + Z.rem off 60)%Z with off by lia.
        unfold mk_zone. replace (off =? -60)%Z with false by (symmetry; apply Z.eqb_neq; exact Hne).
        reflexivity.
      * apply wf_bytes_app; split; [apply wf_time_hdr; reflexivity|].
        repeat constructor. unfold wf_byte. apply z_to_u_lt. reflexivity.
  - eexists; split; [reflexivity|]. split.
    + change (Z.to_N 1) with 1. cbn [app].
      assert (L16 : z_to_u two16 (-1) < 65536) by (apply z_to_u_lt; reflexivity).
      rewrite unmarshal_v1 by assumption. rewrite Hsec', Hns'. reflexivity.
    + apply wf_time_hdr. reflexivity.
Qed.

(* ---------------- the codec round trip ---------------- *)
Theorem decode_encode l :
  wf_log l -> exists bs, encode_log l = Some bs /\ decode_log bs = Some l.
Proof.
  intros (Hi & Ht & Hty & Hd & He & Hld & Hle & Htm).
  destruct (time_roundtrip _ Htm) as (tb & Hm & Hu & _).
  unfold encode_log. rewrite Hm. eexists; split; [reflexivity|].
  unfold decode_log.
  rewrite dec_varint_put by exact Hi.
  rewrite dec_varint_put by exact Ht.
  rewrite dec_varint_put by (unfold two64; lia).
  rewrite dec_bytes_enc by exact Hld.
  rewrite dec_bytes_enc by exact Hle.
  rewrite Hu. rewrite N.mod_small by exact Hty.
  destruct l; reflexivity.
Qed.

(* ---------------- damaged encodings (C11) ---------------- *)
(* A valid encoding cut short anywhere, or followed by extra bytes, does not
   decode: every field is self-delimiting and the time field is last and
   length-exact. *)
Lemma get_uvarint_aux_cut f : forall v n i x s,
  (n < length (put_uvarint_aux (S f) v))%nat -> (i + S f <= 10)%nat ->
  get_uvarint_aux (firstn n (put_uvarint_aux (S f) v)) i x s = (0, 0%Z).
Proof.
  induction f as [|f IH]; intros v n i x s Hn Hi.
  - cbn [put_uvarint_aux] in *. destruct (v <? 128); cbn [length] in Hn.
    + destruct n; [reflexivity|lia].
    + destruct n; [reflexivity|lia].
  - rewrite put_uvarint_aux_S in *. destruct (v <? 128) eqn:E.
    + cbn [length] in Hn. destruct n; [reflexivity|lia].
    + cbn [length] in Hn. destruct n as [|n]; [reflexivity|].
      cbn [firstn get_uvarint_aux].
      replace (Nat.eqb i 10) with false by (symmetry; apply Nat.eqb_neq; lia).
      replace (v mod 128 + 128 <? 128) with false by (symmetry; apply N.ltb_ge; lia).
      apply IH; lia.
Qed.

Lemma dec_varint_cut v n : (n < length (put_uvarint v))%nat -> dec_varint (firstn n (put_uvarint v)) = DErr.
Proof.
  intros H. unfold dec_varint, get_uvarint, put_uvarint in *.
  rewrite get_uvarint_aux_cut by (assumption || lia). reflexivity.
Qed.

Lemma firstn_app_cases {A} n (a b : list A) :
  ((n < length a)%nat /\ firstn n (a ++ b) = firstn n a) \/
  ((length a <= n)%nat /\ firstn n (a ++ b) = a ++ firstn (n - length a) b).
Proof.
  destruct (Nat.lt_ge_cases n (length a)) as [H|H]; [left|right]; split; try assumption.
  - rewrite firstn_app. replace (n - length a)%nat with 0%nat by lia. rewrite firstn_O, app_nil_r. reflexivity.
  - rewrite firstn_app. rewrite firstn_all2 by lia. reflexivity.
Qed.

Lemma dec_bytes_cut d n :
  len d < two64 -> (n < length (enc_bytes d))%nat -> dec_bytes (firstn n (enc_bytes d)) = DErr.
Proof.
  intros Hl Hn. unfold enc_bytes in *. rewrite app_length in Hn.
  destruct (firstn_app_cases n (put_uvarint (len d)) d) as [[H E]|[H E]]; rewrite E; unfold dec_bytes.
  - rewrite dec_varint_cut by exact H. reflexivity.
  - rewrite dec_varint_put by exact Hl.
    replace (len d =? 0) with false by (symmetry; apply N.eqb_neq; unfold len in *; lia).
    replace (len (firstn (n - length (put_uvarint (len d))) d) <? len d) with true; [reflexivity|].
    symmetry. apply N.ltb_lt. unfold len in *. rewrite firstn_length. lia.
Qed.

Lemma marshal_time_shape t tb :
  marshal_time t = Some tb ->
  exists v rest, tb = v :: rest /\ ((v = 1 /\ length tb = 15%nat) \/ (v = 2 /\ length tb = 16%nat)).
Proof.
  unfold marshal_time. intros H.
  destruct (t_zone t) as [off|].
  - destruct ((Z.quot off 60 <? -32768) || (Z.quot off 60 =? -1) || (32767 <? Z.quot off 60))%Z; [discriminate|].
    destruct (Z.rem off 60 =? 0)%Z; injection H as <-.
    + do 2 eexists. split; [reflexivity|]. left. split; reflexivity.
    + do 2 eexists. split; [reflexivity|]. right. split; reflexivity.
  - injection H as <-. do 2 eexists. split; [reflexivity|]. left. split; reflexivity.
Qed.

Lemma unmarshal_wrong_length v rest n :
  (v = 1 /\ n <> 15%nat) \/ (v = 2 /\ n <> 16%nat) -> length (v :: rest) = n ->
  unmarshal_time (v :: rest) = None.
Proof.
  intros H L. unfold unmarshal_time. destruct H as [[-> Hn]|[-> Hn]].
  - change (negb ((1 =? 1) || (1 =? 2))) with false. change (1 =? 2) with false. cbv iota.
    rewrite L. replace (Nat.eqb n 15) with false by (symmetry; apply Nat.eqb_neq; exact Hn). reflexivity.
  - change (negb ((2 =? 1) || (2 =? 2))) with false. change (2 =? 2) with true. cbv iota.
    rewrite L. replace (Nat.eqb n 16) with false by (symmetry; apply Nat.eqb_neq; exact Hn). reflexivity.
Qed.

Lemma unmarshal_time_cut t tb n :
  marshal_time t = Some tb -> (n < length tb)%nat -> unmarshal_time (firstn n tb) = None.
Proof.
  intros H Hn. destruct (marshal_time_shape t tb H) as (v & rest & -> & Hs).
  destruct n as [|n]; [reflexivity|]. cbn [firstn].
  apply (unmarshal_wrong_length v (firstn n rest) (S (length (firstn n rest)))); [|reflexivity].
  rewrite firstn_length. cbn [length] in Hn, Hs.
  destruct Hs as [[-> L]|[-> L]]; [left|right]; split; try reflexivity; lia.
Qed.

Lemma unmarshal_time_extra t tb extra :
  marshal_time t = Some tb -> extra <> [] -> unmarshal_time (tb ++ extra) = None.
Proof.
  intros H Hn. destruct (marshal_time_shape t tb H) as (v & rest & -> & Hs).
  assert (Le : (0 < length extra)%nat) by (destruct extra; [congruence|cbn; lia]).
  cbn [app]. apply (unmarshal_wrong_length v (rest ++ extra) (S (length (rest ++ extra)))); [|reflexivity].
  rewrite app_length. cbn [length] in Hs.
  destruct Hs as [[-> L]|[-> L]]; [left|right]; split; try reflexivity; lia.
Qed.

Theorem decode_trailing_fails l bs extra :
  wf_log l -> encode_log l = Some bs -> extra <> [] -> decode_log (bs ++ extra) = None.
Proof.
  intros (Hi & Ht & Hty & Hd & He & Hld & Hle & Htm) Henc Hne.
  unfold encode_log in Henc. destruct (marshal_time (l_time l)) as [tb|] eqn:Hm; [|discriminate].
  inversion Henc; subst bs. clear Henc. rewrite <- !app_assoc. unfold decode_log.
  rewrite dec_varint_put by exact Hi.
  rewrite dec_varint_put by exact Ht.
  rewrite dec_varint_put by (unfold two64; lia).
  rewrite dec_bytes_enc by exact Hld.
  rewrite dec_bytes_enc by exact Hle.
  rewrite (unmarshal_time_extra _ _ _ Hm Hne). reflexivity.
Qed.

Theorem decode_prefix_fails l bs n :
  wf_log l -> encode_log l = Some bs -> (n < length bs)%nat -> decode_log (firstn n bs) = None.
Proof.
  intros (Hi & Ht & Hty & Hd & He & Hld & Hle & Htm) Henc Hn.
  unfold encode_log in Henc. destruct (marshal_time (l_time l)) as [tb|] eqn:Hm; [|discriminate].
  inversion Henc; subst bs. clear Henc. unfold decode_log.
  rewrite !app_length in Hn.
  destruct (firstn_app_cases n (put_uvarint (l_index l)) (put_uvarint (l_term l) ++ put_uvarint (l_type l) ++
              enc_bytes (l_data l) ++ enc_bytes (l_ext l) ++ tb)) as [[H E]|[H E]]; rewrite E; clear E.
  { rewrite dec_varint_cut by exact H. reflexivity. }
  rewrite dec_varint_put by exact Hi.
  set (n1 := (n - length (put_uvarint (l_index l)))%nat).
  destruct (firstn_app_cases n1 (put_uvarint (l_term l)) (put_uvarint (l_type l) ++
              enc_bytes (l_data l) ++ enc_bytes (l_ext l) ++ tb)) as [[H1 E]|[H1 E]]; rewrite E; clear E.
  { rewrite dec_varint_cut by exact H1. reflexivity. }
  rewrite dec_varint_put by exact Ht.
  set (n2 := (n1 - length (put_uvarint (l_term l)))%nat).
  destruct (firstn_app_cases n2 (put_uvarint (l_type l)) (enc_bytes (l_data l) ++ enc_bytes (l_ext l) ++ tb))
    as [[H2 E]|[H2 E]]; rewrite E; clear E.
  { rewrite dec_varint_cut by exact H2. reflexivity. }
  rewrite dec_varint_put by (unfold two64; lia).
  set (n3 := (n2 - length (put_uvarint (l_type l)))%nat).
  destruct (firstn_app_cases n3 (enc_bytes (l_data l)) (enc_bytes (l_ext l) ++ tb)) as [[H3 E]|[H3 E]]; rewrite E; clear E.
  { rewrite dec_bytes_cut by assumption. reflexivity. }
  rewrite dec_bytes_enc by exact Hld.
  set (n4 := (n3 - length (enc_bytes (l_data l)))%nat).
  destruct (firstn_app_cases n4 (enc_bytes (l_ext l)) tb) as [[H4 E]|[H4 E]]; rewrite E; clear E.
  { rewrite dec_bytes_cut by assumption. reflexivity. }
  rewrite dec_bytes_enc by exact Hle.
  rewrite (unmarshal_time_cut _ _ _ Hm); [reflexivity|]. unfold n4, n3, n2, n1 in *. lia.
Qed.
