(* ReadmeSpecFacts.v -- the independent decoder reads everything the
   independent encoder lays out:  parse (layout h bs ++ zeros k) = Some (h, bs). *)
From RW Require Import Base.Bytes Base.BytesFacts Base.Crc32c Base.Crc32cFacts Fmt.Frame Fmt.FrameFacts Fmt.ReadmeSpec.
From Coq Require Import ZifyN ZifyNat ZifyBool.
Open Scope N_scope.

(* ---------------- slices ---------------- *)
Lemma rs_slice_app a r n : rs_slice (a ++ r) (len a) n = firstn (N.to_nat n) r.
Proof. unfold rs_slice. rewrite to_nat_len, skipn_app_exact. reflexivity. Qed.

Lemma rs_slice_exact a x r : rs_slice (a ++ x ++ r) (len a) (len x) = x.
Proof. rewrite rs_slice_app, to_nat_len. apply firstn_app_exact. Qed.

Lemma rs_slice_0 f n : rs_slice f 0 n = firstn (N.to_nat n) f.
Proof. reflexivity. Qed.

(* ---------------- sizes ---------------- *)
Lemma rs_pad_lt n : rs_pad n < 8.
Proof. unfold rs_pad. lia. Qed.

Lemma len_rs_frame t p : len (rs_frame t p) = rs_frame_size (len p).
Proof.
  unfold rs_frame, rs_frame_size. rewrite !len_app, len_zeros, len_le32.
  change (len [t; 0; 0; 0]) with 4. lia.
Qed.

Lemma rs_frame_size_ge n : 8 <= rs_frame_size n.
Proof. unfold rs_frame_size. lia. Qed.

Lemma len_rs_entries_cons p ps : len (rs_entries (p :: ps)) = rs_frame_size (len p) + len (rs_entries ps).
Proof. unfold rs_entries. cbn [flat_map]. rewrite len_app, len_rs_frame. reflexivity. Qed.

Lemma len_flat_le32 offs : len (flat_map le32 offs) = 4 * len offs.
Proof.
  induction offs as [|o r IH]; [reflexivity|]. cbn [flat_map]. rewrite len_app, len_le32, IH, len_cons. lia.
Qed.

Lemma wf_rs_frame t p : t < 256 -> wf_bytes p -> wf_bytes (rs_frame t p).
Proof.
  intros Ht Hp. unfold rs_frame. apply wf_bytes_app; split.
  - repeat constructor; unfold wf_byte; lia.
  - apply wf_bytes_app; split; [apply wf_le32|]. apply wf_bytes_app; split; [exact Hp|apply wf_zeros].
Qed.

Lemma wf_flat_le32 offs : wf_bytes (flat_map le32 offs).
Proof. induction offs as [|o r IH]; [constructor|]. cbn [flat_map]. apply wf_bytes_app; split; [apply wf_le32|exact IH]. Qed.

Lemma wf_rs_entries ps : Forall wf_bytes ps -> wf_bytes (rs_entries ps).
Proof.
  induction 1 as [|p r Hp _ IH]; [constructor|]. unfold rs_entries. cbn [flat_map].
  apply wf_bytes_app; split; [apply wf_rs_frame; [reflexivity|exact Hp]|exact IH].
Qed.

Lemma wf_rs_file_header h : wf_bytes (rs_file_header h).
Proof.
  unfold rs_file_header. repeat (apply wf_bytes_app; split); try apply wf_le32; try apply wf_le64;
    repeat constructor; unfold wf_byte, rs_version; lia.
Qed.

(* ---------------- one frame at a time ---------------- *)
Definition mk_pst cur seal offs start done : rs_pst :=
  {| p_cur := cur; p_seal := seal; p_offs := offs; p_start := start; p_done := done |}.

Lemma hdr_slice t v x r a :
  rs_slice (a ++ ([t; 0; 0; 0] ++ le32 v ++ x) ++ r) (len a) 8 = [t; 0; 0; 0] ++ le32 v.
Proof.
  rewrite rs_slice_app. rewrite <- !app_assoc.
  change (N.to_nat 8) with (length ([t; 0; 0; 0] ++ le32 v)).
  rewrite (app_assoc [t; 0; 0; 0] (le32 v)). apply firstn_app_exact.
Qed.

Lemma pad_ok_zeros a n r : rs_pad_ok (a ++ zeros (N.to_nat n) ++ r) (len a) n = true.
Proof.
  unfold rs_pad_ok.
  assert (E : rs_slice (a ++ zeros (N.to_nat n) ++ r) (len a) n = zeros (N.to_nat n)).
  { replace n with (len (zeros (N.to_nat n))) at 2 by (rewrite len_zeros; lia). apply rs_slice_exact. }
  rewrite E. rewrite len_zeros, all_zero_zeros, N2Nat.id, N.eqb_refl. reflexivity.
Qed.

Lemma parse_entry_step fuel a p r st :
  len p <= rs_max_entry -> p_seal st = false ->
  rs_parse_frames (S fuel) (a ++ rs_frame rs_t_entry p ++ r) (len a) st =
  rs_parse_frames fuel (a ++ rs_frame rs_t_entry p ++ r) (len a + rs_frame_size (len p))
    (mk_pst (p_cur st ++ [p]) false (p_offs st ++ [len a]) (p_start st) (p_done st)).
Proof.
  intros Hp Hs.
  remember (a ++ rs_frame rs_t_entry p ++ r) as f eqn:Ef.
  assert (E0 : rs_slice f (len a) 8 = [rs_t_entry; 0; 0; 0] ++ le32 (len p)).
  { rewrite Ef. unfold rs_frame. apply hdr_slice. }
  assert (E1 : rs_slice f (len a + 8) (len p) = p).
  { rewrite Ef. unfold rs_frame. rewrite <- !app_assoc.
    replace (len a + 8) with (len (a ++ [rs_t_entry; 0; 0; 0] ++ le32 (len p)))
      by (rewrite !len_app, len_le32; reflexivity).
    rewrite (app_assoc [rs_t_entry; 0; 0; 0]), (app_assoc a). apply rs_slice_exact. }
  assert (E2 : rs_pad_ok f (len a + 8 + len p) (rs_pad (len p)) = true).
  { rewrite Ef. unfold rs_frame. rewrite <- !app_assoc.
    replace (len a + 8 + len p) with (len (a ++ [rs_t_entry; 0; 0; 0] ++ le32 (len p) ++ p))
      by (rewrite !len_app, len_le32; change (len [rs_t_entry; 0; 0; 0]) with 4; lia).
    replace (a ++ [rs_t_entry; 0; 0; 0] ++ le32 (len p) ++ p ++ zeros (N.to_nat (rs_pad (len p))) ++ r)
      with ((a ++ [rs_t_entry; 0; 0; 0] ++ le32 (len p) ++ p) ++ zeros (N.to_nat (rs_pad (len p))) ++ r)
      by (rewrite <- !app_assoc; reflexivity).
    apply pad_ok_zeros. }
  clear Ef. cbn [rs_parse_frames]. rewrite E0.
  replace (len ([rs_t_entry; 0; 0; 0] ++ le32 (len p)) <? 8) with false by reflexivity.
  replace (nth 0 ([rs_t_entry; 0; 0; 0] ++ le32 (len p)) 0) with rs_t_entry by reflexivity.
  replace (rs_t_entry =? rs_t_invalid) with false by reflexivity.
  replace (rs_t_entry =? rs_t_entry) with true by reflexivity.
  change (skipn 4 ([rs_t_entry; 0; 0; 0] ++ le32 (len p))) with (le32 (len p)).
  rewrite rd32_le32 by (unfold rs_max_entry in Hp; lia).
  replace (rs_max_entry <? len p) with false by (symmetry; apply N.ltb_ge; exact Hp).
  rewrite E1, N.ltb_irrefl, E2, Hs. reflexivity.
Qed.

Lemma parse_entries ps : forall fuel a r st,
  Forall (fun p => len p <= rs_max_entry) ps -> p_seal st = false ->
  rs_parse_frames (length ps + fuel) (a ++ rs_entries ps ++ r) (len a) st =
  rs_parse_frames fuel (a ++ rs_entries ps ++ r) (len a + len (rs_entries ps))
    (mk_pst (p_cur st ++ ps) false (p_offs st ++ rs_offsets (len a) ps) (p_start st) (p_done st)).
Proof.
  induction ps as [|p ps IH]; intros fuel a r st Hb Hs.
  - cbn [length Nat.add rs_entries flat_map rs_offsets app]. rewrite N.add_0_r, !app_nil_r.
    destruct st; cbn in Hs; subst; reflexivity.
  - inversion Hb as [|? ? Hp Hps]; subst.
    cbn [length Nat.add]. unfold rs_entries. cbn [flat_map]. fold (rs_entries ps). rewrite <- app_assoc.
    rewrite parse_entry_step by assumption.
    replace (len a + rs_frame_size (len p)) with (len (a ++ rs_frame rs_t_entry p))
      by (rewrite len_app, len_rs_frame; reflexivity).
    rewrite (app_assoc a). rewrite IH by (assumption || reflexivity).
    cbn [mk_pst p_cur p_offs p_start p_done rs_offsets]. rewrite <- !app_assoc. cbn [app].
    rewrite !len_app, len_rs_frame. f_equal. lia.
Qed.

Lemma parse_index_step fuel a offs r st :
  4 * len offs < two32 -> p_seal st = false -> p_offs st = offs ->
  rs_parse_frames (S fuel) (a ++ rs_index offs ++ r) (len a) st =
  rs_parse_frames fuel (a ++ rs_index offs ++ r) (len a + len (rs_index offs))
    (mk_pst (p_cur st) true (p_offs st) (p_start st) (p_done st)).
Proof.
  intros Hl Hs Ho.
  set (pl := flat_map le32 offs).
  assert (Lpl : len pl = 4 * len offs) by apply len_flat_le32.
  assert (Li : len (rs_index offs) = rs_frame_size (len pl)) by (unfold rs_index; apply len_rs_frame).
  remember (a ++ rs_index offs ++ r) as f eqn:Ef.
  assert (E0 : rs_slice f (len a) 8 = [rs_t_index; 0; 0; 0] ++ le32 (len pl)).
  { rewrite Ef. unfold rs_index, rs_frame. apply hdr_slice. }
  assert (E1 : rs_slice f (len a + 8) (len pl) = pl).
  { rewrite Ef. unfold rs_index, rs_frame. fold pl. rewrite <- !app_assoc.
    replace (len a + 8) with (len (a ++ [rs_t_index; 0; 0; 0] ++ le32 (len pl)))
      by (rewrite !len_app, len_le32; reflexivity).
    rewrite (app_assoc [rs_t_index; 0; 0; 0]), (app_assoc a). apply rs_slice_exact. }
  assert (E2 : rs_pad_ok f (len a + 8 + len pl) (rs_pad (len pl)) = true).
  { rewrite Ef. unfold rs_index, rs_frame. fold pl. rewrite <- !app_assoc.
    replace (len a + 8 + len pl) with (len (a ++ [rs_t_index; 0; 0; 0] ++ le32 (len pl) ++ pl))
      by (rewrite !len_app, len_le32; change (len [rs_t_index; 0; 0; 0]) with 4; lia).
    replace (a ++ [rs_t_index; 0; 0; 0] ++ le32 (len pl) ++ pl ++ zeros (N.to_nat (rs_pad (len pl))) ++ r)
      with ((a ++ [rs_t_index; 0; 0; 0] ++ le32 (len pl) ++ pl) ++ zeros (N.to_nat (rs_pad (len pl))) ++ r)
      by (rewrite <- !app_assoc; reflexivity).
    apply pad_ok_zeros. }
  clear Ef. cbn [rs_parse_frames]. rewrite E0.
  replace (len ([rs_t_index; 0; 0; 0] ++ le32 (len pl)) <? 8) with false by reflexivity.
  replace (nth 0 ([rs_t_index; 0; 0; 0] ++ le32 (len pl)) 0) with rs_t_index by reflexivity.
  replace (rs_t_index =? rs_t_invalid) with false by reflexivity.
  replace (rs_t_index =? rs_t_entry) with false by reflexivity.
  replace (rs_t_index =? rs_t_index) with true by reflexivity.
  change (skipn 4 ([rs_t_index; 0; 0; 0] ++ le32 (len pl))) with (le32 (len pl)).
  rewrite rd32_le32 by (unfold two32 in Hl; lia).
  rewrite E1, Ho. fold pl. rewrite beq_bytes_refl, E2, Hs. cbn [negb orb].
  rewrite Li, <- Ho. reflexivity.
Qed.

Lemma parse_commit_step fuel a0 mid r st :
  p_start st = len a0 -> wf_bytes mid ->
  rs_parse_frames (S fuel) ((a0 ++ mid) ++ rs_commit (crc32c mid) ++ r) (len (a0 ++ mid)) st =
  rs_parse_frames fuel ((a0 ++ mid) ++ rs_commit (crc32c mid) ++ r) (len (a0 ++ mid) + 8)
    (mk_pst [] false (p_offs st) (len (a0 ++ mid) + 8) (p_done st ++ [(p_cur st, p_seal st)])).
Proof.
  intros Hst Hw.
  remember ((a0 ++ mid) ++ rs_commit (crc32c mid) ++ r) as f eqn:Ef.
  assert (E0 : rs_slice f (len (a0 ++ mid)) 8 = [rs_t_commit; 0; 0; 0] ++ le32 (crc32c mid)).
  { rewrite Ef. unfold rs_commit. rewrite rs_slice_app.
    change (N.to_nat 8) with (length ([rs_t_commit; 0; 0; 0] ++ le32 (crc32c mid))).
    apply firstn_app_exact. }
  assert (E1 : rs_slice f (len a0) (len (a0 ++ mid) - len a0) = mid).
  { rewrite Ef. replace (len (a0 ++ mid) - len a0) with (len mid) by (rewrite len_app; lia).
    rewrite <- app_assoc. apply rs_slice_exact. }
  clear Ef. cbn [rs_parse_frames]. rewrite E0.
  replace (len ([rs_t_commit; 0; 0; 0] ++ le32 (crc32c mid)) <? 8) with false by reflexivity.
  replace (nth 0 ([rs_t_commit; 0; 0; 0] ++ le32 (crc32c mid)) 0) with rs_t_commit by reflexivity.
  replace (rs_t_commit =? rs_t_invalid) with false by reflexivity.
  replace (rs_t_commit =? rs_t_entry) with false by reflexivity.
  replace (rs_t_commit =? rs_t_index) with false by reflexivity.
  replace (rs_t_commit =? rs_t_commit) with true by reflexivity.
  change (skipn 4 ([rs_t_commit; 0; 0; 0] ++ le32 (crc32c mid))) with (le32 (crc32c mid)).
  pose proof (crc32c_lt mid Hw) as Hc. rewrite rd32_le32 by (unfold two32 in Hc; exact Hc).
  rewrite Hst, E1, N.eqb_refl. reflexivity.
Qed.

(* ---------------- all batches ---------------- *)
Definition rs_batch_wf (b : rs_batch) : Prop :=
  Forall (fun p => wf_bytes p /\ len p <= rs_max_entry) (fst b).

Definition rs_nframes (bs : list rs_batch) : nat :=
  fold_right (fun (b : rs_batch) (n : nat) => (length (fst b) + (if snd b then 1 else 0) + 1 + n)%nat) 0%nat bs.

Lemma parse_batches bs : forall fuel a0 pend offs done k,
  Forall rs_batch_wf bs ->
  len (a0 ++ pend ++ rs_batches (len (a0 ++ pend)) pend offs bs) < two32 ->
  wf_bytes pend ->
  rs_parse_frames (rs_nframes bs + S fuel)
    ((a0 ++ pend) ++ rs_batches (len (a0 ++ pend)) pend offs bs ++ zeros k) (len (a0 ++ pend))
    (mk_pst [] false offs (len a0) done) = Some (done ++ bs).
Proof.
  induction bs as [|[ps seal] bs IH]; intros fuel a0 pend offs done k Hwf Hlen Hpw.
  - cbn [rs_nframes fold_right Nat.add rs_batches app]. rewrite app_nil_r.
    cbn [rs_parse_frames]. rewrite rs_slice_app.
    destruct (Nat.lt_ge_cases k 8) as [Hk|Hk].
    + replace (len (firstn (N.to_nat 8) (zeros k)) <? 8) with true; [reflexivity|].
      symmetry. apply N.ltb_lt. unfold len. rewrite firstn_length, zeros_length. lia.
    + replace k with (8 + (k - 8))%nat by lia. rewrite zeros_app.
      change (N.to_nat 8) with (length (zeros 8)). rewrite firstn_app_exact. reflexivity.
  - inversion Hwf as [|? ? Hb Hbs]; subst. unfold rs_batch_wf in Hb. cbn [fst] in Hb.
    cbn [rs_batches] in *.
    set (pos := len (a0 ++ pend)) in *.
    set (offs' := offs ++ rs_offsets pos ps) in *.
    set (body := rs_entries ps ++ (if seal then rs_index offs' else [])) in *.
    set (rest := rs_batches (pos + len body + 8) [] offs' bs) in *.
    assert (Hbnd : Forall (fun p => len p <= rs_max_entry) ps)
      by (eapply Forall_impl; [|exact Hb]; intros p [_ H]; exact H).
    assert (Hpw2 : Forall wf_bytes ps)
      by (eapply Forall_impl; [|exact Hb]; intros p [H _]; exact H).
    cbn [rs_nframes fold_right fst snd]. fold (rs_nframes bs).
    (* entries *)
    replace (length ps + (if seal then 1 else 0) + 1 + rs_nframes bs + S fuel)%nat
      with (length ps + ((if seal then 1 else 0) + (1 + (rs_nframes bs + S fuel))))%nat by lia.
    set (cfr := rs_commit (crc32c (pend ++ body))) in *.
    assert (Efile : (a0 ++ pend) ++ (body ++ cfr ++ rest) ++ zeros k =
                    (a0 ++ pend) ++ rs_entries ps ++ (if seal then rs_index offs' else []) ++ cfr ++ rest ++ zeros k)
      by (unfold body; rewrite <- !app_assoc; reflexivity).
    rewrite Efile. unfold pos at 1. rewrite parse_entries by (assumption || reflexivity).
    cbn [mk_pst p_cur p_offs p_start p_done app]. fold pos. fold offs'.
    (* index *)
    assert (Hstep2 :
      rs_parse_frames ((if seal then 1 else 0) + (1 + (rs_nframes bs + S fuel)))
        ((a0 ++ pend) ++ rs_entries ps ++ (if seal then rs_index offs' else []) ++
           cfr ++ rest ++ zeros k)
        (pos + len (rs_entries ps)) (mk_pst ps false offs' (len a0) done) =
      rs_parse_frames (1 + (rs_nframes bs + S fuel))
        ((a0 ++ pend) ++ rs_entries ps ++ (if seal then rs_index offs' else []) ++
           cfr ++ rest ++ zeros k)
        (pos + len body) (mk_pst ps seal offs' (len a0) done)).
    { unfold body. destruct seal.
      - cbn [Nat.add]. rewrite (app_assoc (a0 ++ pend) (rs_entries ps)).
        replace (pos + len (rs_entries ps)) with (len ((a0 ++ pend) ++ rs_entries ps))
          by (rewrite (len_app (a0 ++ pend)); reflexivity).
        rewrite parse_index_step; [| |reflexivity|reflexivity].
        + cbn [mk_pst p_cur p_offs p_start p_done]. f_equal. unfold pos. rewrite !len_app. lia.
        + unfold body in Hlen. rewrite !len_app in Hlen. unfold rs_index in Hlen.
          rewrite len_rs_frame, len_flat_le32 in Hlen. unfold rs_frame_size in Hlen. lia.
      - cbn [Nat.add app]. rewrite app_nil_r. reflexivity. }
    rewrite Hstep2. clear Hstep2.
    (* commit *)
    assert (Ef : (a0 ++ pend) ++ rs_entries ps ++ (if seal then rs_index offs' else []) ++
                   cfr ++ rest ++ zeros k
                 = (a0 ++ (pend ++ body)) ++ rs_commit (crc32c (pend ++ body)) ++ rest ++ zeros k).
    { unfold body, cfr. rewrite <- !app_assoc. reflexivity. }
    rewrite Ef.
    replace (pos + len body) with (len (a0 ++ pend ++ body))
      by (unfold pos; rewrite !len_app; lia).
    cbn [Nat.add].
    assert (Hbw : wf_bytes (pend ++ body)).
    { apply wf_bytes_app; split; [exact Hpw|]. unfold body. apply wf_bytes_app; split.
      - apply wf_rs_entries. exact Hpw2.
      - destruct seal; [|constructor]. unfold rs_index. apply wf_rs_frame; [reflexivity|apply wf_flat_le32]. }
    rewrite parse_commit_step by (reflexivity || exact Hbw).
    cbn [mk_pst p_cur p_seal p_offs p_done].
    (* remaining batches *)
    set (a0' := a0 ++ pend ++ body ++ rs_commit (crc32c (pend ++ body))).
    assert (E1 : len (a0 ++ pend ++ body) + 8 = len a0').
    { unfold a0'. rewrite !len_app. change (len (rs_commit (crc32c (pend ++ body)))) with 8. lia. }
    assert (E2 : (a0 ++ pend ++ body) ++ rs_commit (crc32c (pend ++ body)) ++ rest ++ zeros k
                 = a0' ++ rest ++ zeros k).
    { unfold a0'. rewrite <- !app_assoc. reflexivity. }
    assert (E3 : pos + len body + 8 = len a0').
    { rewrite <- E1. unfold pos. rewrite !len_app. lia. }
    rewrite E1, E2. unfold rest. rewrite E3.
    pose proof (IH fuel a0' [] offs' (done ++ [(ps, seal)]) k Hbs) as IH'.
    rewrite !app_nil_r in IH'. cbn [app] in IH'. rewrite <- app_assoc in IH'. cbn [app] in IH'.
    apply IH'; [|constructor].
    rewrite <- E3. fold rest. unfold a0'. fold cfr. rewrite <- !app_assoc. exact Hlen.
Qed.

Lemma len_rs_entries_ge ps : 8 * N.of_nat (length ps) <= len (rs_entries ps).
Proof.
  induction ps as [|p r IH]; [change (len (rs_entries [])) with 0; cbn [length]; lia|].
  rewrite len_rs_entries_cons. cbn [length].
  pose proof (rs_frame_size_ge (len p)). lia.
Qed.

Lemma nframes_bound bs : forall pos pend offs,
  8 * N.of_nat (rs_nframes bs) <= len (rs_batches pos pend offs bs).
Proof.
  induction bs as [|[ps seal] bs IH]; intros pos pend offs; [cbn; lia|].
  cbn [rs_batches rs_nframes fold_right fst snd]. fold (rs_nframes bs).
  rewrite !len_app. change (len (rs_commit _)) with 8.
  match goal with |- context [rs_batches ?p [] ?o bs] => pose proof (IH p [] o) as IH' end.
  pose proof (len_rs_entries_ge ps).
  destruct seal.
  - unfold rs_index in *. rewrite len_rs_frame in *.
    pose proof (rs_frame_size_ge (len (flat_map le32 (offs ++ rs_offsets pos ps)))). lia.
  - change (len []) with 0 in *. lia.
Qed.

Definition rs_header_wf (h : rs_header) : Prop := h_base h < two64 /\ h_id h < two64 /\ h_codec h < two64.

Lemma parse_header_layout h r :
  rs_header_wf h -> rs_parse_header (rs_file_header h ++ r) = Some h.
Proof.
  intros (Hb & Hi & Hc). unfold rs_parse_header. rewrite rs_slice_0.
  change (N.to_nat rs_header_len) with (length (rs_file_header h)). rewrite firstn_app_exact.
  replace (len (rs_file_header h) <? rs_header_len) with false by reflexivity.
  unfold rs_file_header.
  rewrite rd32_le32_app by (unfold rs_magic; lia). rewrite N.eqb_refl. cbn [negb].
  replace (nth 7 (le32 rs_magic ++ [0; 0; 0] ++ [rs_version] ++ le64 (h_base h) ++ le64 (h_id h) ++ le64 (h_codec h)) 0)
    with rs_version by reflexivity.
  rewrite N.eqb_refl. cbn [negb].
  change (skipn 8 (le32 rs_magic ++ [0; 0; 0] ++ [rs_version] ++ ?x)) with x.
  change (skipn 16 (le32 rs_magic ++ [0; 0; 0] ++ [rs_version] ++ le64 (h_base h) ++ ?x)) with x.
  change (skipn 24 (le32 rs_magic ++ [0; 0; 0] ++ [rs_version] ++ le64 (h_base h) ++ le64 (h_id h) ++ ?x)) with x.
  unfold two64 in *. rewrite !rd64_le64_app by assumption. rewrite rd64_le64 by assumption.
  destruct h; reflexivity.
Qed.

(* the independent decoder reads everything the independent encoder lays out,
   whatever the amount of preallocated zero space behind it *)
Theorem parse_layout h bs k :
  bs <> [] -> rs_header_wf h -> Forall rs_batch_wf bs -> len (layout h bs) < two32 ->
  parse (layout h bs ++ zeros k) = Some (h, bs).
Proof.
  intros Hne Hh Hwf Hlen. unfold layout in *. destruct bs as [|b0 bs0] eqn:Eb; [congruence|].
  rewrite <- Eb in *. clear Eb Hne.
  unfold parse. rewrite <- app_assoc. rewrite parse_header_layout by exact Hh.
  set (hd := rs_file_header h) in *.
  set (f := hd ++ rs_batches rs_header_len hd [] bs ++ zeros k).
  pose proof (nframes_bound bs rs_header_len hd []) as Hn.
  assert (Hfuel : exists fuel, S (S (length f / 8)) = (rs_nframes bs + S fuel)%nat).
  { exists (S (length f / 8) - rs_nframes bs)%nat.
    assert (8 * rs_nframes bs <= length f)%nat.
    { unfold f. rewrite !app_length. unfold len in Hn. lia. }
    pose proof (Nat.div_mod (length f) 8 ltac:(lia)).
    pose proof (Nat.mod_upper_bound (length f) 8 ltac:(lia)). lia. }
  destruct Hfuel as [fuel ->].
  pose proof (parse_batches bs fuel [] hd [] [] k Hwf) as P. cbn [app] in P.
  change (len hd) with rs_header_len in P. unfold f.
  change (mk_pst [] false [] (len []) []) with
    {| p_cur := []; p_seal := false; p_offs := []; p_start := 0; p_done := [] |} in P.
  rewrite P; [reflexivity|exact Hlen|apply wf_rs_file_header].
Qed.
