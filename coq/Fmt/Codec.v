(* Codec.v -- model of codec.go (BinaryCodec) incl. encoding/binary Uvarint and
   time.Time Marshal/UnmarshalBinary (projected to sec/nsec/zone offset). *)
From RW Require Import Base.Bytes.
Open Scope N_scope.

(* ---- binary.PutUvarint / binary.Uvarint --------------------------------- *)
Fixpoint put_uvarint_aux (fuel : nat) (v : N) : bytes :=
  match fuel with
  | O => []
  | S f => if v <? 128 then [v] else (v mod 128 + 128) :: put_uvarint_aux f (v / 128)
  end.
Definition put_uvarint (v : N) : bytes := put_uvarint_aux 10 v.

(* result (value, n) exactly as binary.Uvarint: n = 0 buffer too small,
   n < 0 overflow with -n bytes read *)
Fixpoint get_uvarint_aux (buf : bytes) (i : nat) (x : N) (s : N) : N * Z :=
  match buf with
  | [] => (0, 0%Z)
  | b :: r =>
      if Nat.eqb i 10 then (0, (- (Z.of_nat i + 1))%Z)
      else if b <? 128 then
             if Nat.eqb i 9 && (1 <? b) then (0, (- (Z.of_nat i + 1))%Z)
             else ((x + b * 2 ^ s) mod two64, (Z.of_nat i + 1)%Z)
           else get_uvarint_aux r (S i) ((x + (b mod 128) * 2 ^ s) mod two64) (s + 7)
  end.
Definition get_uvarint (buf : bytes) : N * Z := get_uvarint_aux buf 0 0 0.

(* ---- time.Time projection ------------------------------------------------ *)
Record gotime := { t_sec : Z;            (* seconds since year 1 (internal)   *)
                   t_nsec : Z;           (* int32 as stored                   *)
                   t_zone : option Z }.  (* None = UTC, Some off = seconds east *)

Definition marshal_time (t : gotime) : option bytes :=
  let hdr (version offmin : Z) :=
      [Z.to_N version] ++ be64 (z_to_u two64 (t_sec t)) ++ be32 (z_to_u two32 (t_nsec t))
        ++ be16 (z_to_u two16 offmin) in
  match t_zone t with
  | None => Some (hdr 1%Z (-1)%Z)
  | Some off =>
      let offsec := Z.rem off 60 in
      let offmin := Z.quot off 60 in
      if ((offmin <? -32768) || (offmin =? -1) || (32767 <? offmin))%Z then None
      else if (offsec =? 0)%Z then Some (hdr 1%Z offmin)
           else Some (hdr 2%Z offmin ++ [z_to_u 256 offsec])
  end.

Definition unmarshal_time (buf : bytes) : option gotime :=
  match buf with
  | [] => None
  | version :: rest =>
      if negb ((version =? 1) || (version =? 2)) then None
      else
        let want := if version =? 2 then 16%nat else 15%nat in
        if negb (Nat.eqb (length buf) want) then None
        else
          let sec := u_to_z two64 two63 (rdbe64 rest) in
          let nsec := u_to_z two32 two31 (rdbe32 (skipn 8 rest)) in
          let offmin := u_to_z two16 two15 (rdbe16 (skipn 12 rest)) in
          let offs := if version =? 2 then Z.of_N (nth0 14 rest) else 0%Z in
          let off := ((offmin * 60) + offs)%Z in
          Some {| t_sec := sec; t_nsec := nsec;
                  t_zone := if (off =? -60)%Z then None else Some off |}
  end.

(* ---- raft.Log and BinaryCodec ------------------------------------------- *)
Record log := { l_index : N; l_term : N; l_type : N;
                l_data : bytes; l_ext : bytes; l_time : gotime }.

Definition enc_bytes (bs : bytes) : bytes := put_uvarint (len bs) ++ bs.

Definition encode_log (l : log) : option bytes :=
  match marshal_time (l_time l) with
  | None => None
  | Some tb =>
      Some (put_uvarint (l_index l) ++ put_uvarint (l_term l) ++ put_uvarint (l_type l)
              ++ enc_bytes (l_data l) ++ enc_bytes (l_ext l) ++ tb)
  end.

Inductive dres (A : Type) := DOk (a : A) (rest : bytes) | DErr.
Arguments DOk {A}. Arguments DErr {A}.

(* decoder.varint with the n <= 0 guard (see fix for the uvarint panic) *)
Definition dec_varint (buf : bytes) : dres N :=
  let '(v, n) := get_uvarint buf in
  if (n <=? 0)%Z then DErr else DOk v (skipn (Z.to_nat n) buf).

Definition dec_bytes (buf : bytes) : dres bytes :=
  match dec_varint buf with
  | DErr => DErr
  | DOk n rest =>
      if n =? 0 then DOk [] rest
      else if len rest <? n then DErr
           else DOk (firstn (N.to_nat n) rest) (skipn (N.to_nat n) rest)
  end.

Definition decode_log (buf : bytes) : option log :=
  match dec_varint buf with DErr => None | DOk idx r1 =>
  match dec_varint r1 with DErr => None | DOk term r2 =>
  match dec_varint r2 with DErr => None | DOk typ r3 =>
  match dec_bytes r3 with DErr => None | DOk data r4 =>
  match dec_bytes r4 with DErr => None | DOk ext r5 =>
  match unmarshal_time r5 with None => None | Some t =>
    Some {| l_index := idx; l_term := term; l_type := typ mod 256;
            l_data := data; l_ext := ext; l_time := t |}
  end end end end end end.

(* well-formedness: what a Go raft.Log can hold *)
Definition wf_time (t : gotime) : Prop :=
  (- Z.of_N two63 <= t_sec t < Z.of_N two63)%Z /\ (0 <= t_nsec t < 1000000000)%Z /\
  match t_zone t with
  | None => True
  | Some off => (-32768 <= Z.quot off 60 <= 32767)%Z /\ Z.quot off 60 <> (-1)%Z
                /\ (0 <= Z.rem off 60)%Z
  end.

Definition wf_log (l : log) : Prop :=
  l_index l < two64 /\ l_term l < two64 /\ l_type l < 256 /\
  wf_bytes (l_data l) /\ wf_bytes (l_ext l) /\
  len (l_data l) < two64 /\ len (l_ext l) < two64 /\ wf_time (l_time l).
