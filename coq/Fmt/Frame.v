(* Frame.v -- model of segment/format.go: file header, frame headers, frames,
   index frames; segment file names.  Constants come from Gen/Constants.v
   (regenerated from /repo on every run) where they are exported by the code. *)
From RW Require Import Base.Bytes Gen.Constants.
Open Scope N_scope.

Definition file_header_len : N := 32.
Definition frame_header_len : N := 8.
Definition magic : N := 1491823373.            (* 0x58eb6b0d, unexported in the code;
                                                  observable in every `format` case *)
Definition min_buf_size : N := 65536.

Record seginfo := { si_id : N; si_base : N; si_min : N; si_max : N; si_codec : N;
                    si_index_start : N; si_sealed : bool; si_size_limit : N }.

(* ---- file header ---- *)
Definition file_header (info : seginfo) : bytes :=
  le32 magic ++ [0; 0; 0; 0] ++ le64 (si_base info) ++ le64 (si_id info) ++ le64 (si_codec info).

(* readFileHeader reads the magic as a 64-bit word: bytes 4..7 must be zero *)
Definition read_file_header (buf : bytes) : option (N * N * N) :=   (* base, id, codec *)
  if len buf <? file_header_len then None
  else if negb (rd64 buf =? magic) then None
  else Some (rd64 (skipn 8 buf), rd64 (skipn 16 buf), rd64 (skipn 24 buf)).

Definition validate_file_header (got : N * N * N) (info : seginfo) : bool :=
  let '(b, i, c) := got in (i =? si_id info) && (b =? si_base info) && (c =? si_codec info).

(* ---- frames ---- *)
Definition pad_len (n : N) : N := (8 - n mod 8) mod 8.
Definition enc_frame_size (n : N) : N := 8 + n + pad_len n.
Definition index_frame_size (num : N) : N := if num =? 0 then 0 else enc_frame_size (num * 4).

Definition frame_header (typ v : N) : bytes := [typ; 0; 0; 0] ++ le32 v.

Definition enc_frame (typ : N) (payload : bytes) : bytes :=
  frame_header typ (len payload) ++ payload ++ zeros (N.to_nat (pad_len (len payload))).

Definition commit_frame (crc : N) : bytes := frame_header FrameCommit crc.

Definition index_payload (offs : list N) : bytes := flat_map le32 offs.
Definition index_frame (offs : list N) : bytes :=
  frame_header FrameIndex (4 * len offs) ++ index_payload offs
  ++ (if N.odd (len offs) then le32 0 else []).

Inductive fhdr := FH (typ v : N) | FHZero | FHCorrupt | FHShort.

Definition read_frame_header (buf : bytes) : fhdr :=
  if len buf <? frame_header_len then FHShort
  else
    let t := nth0 0 buf in
    if t =? FrameInvalid then (if all_zero (firstn 8 buf) then FHZero else FHCorrupt)
    else if (t =? FrameEntry) || (t =? FrameIndex) || (t =? FrameCommit) then FH t (rd32 (skipn 4 buf))
    else FHCorrupt.

(* frame length used to skip: commit frames carry a CRC, their payload length is 0 *)
Definition fh_len (typ v : N) : N := if typ =? FrameCommit then 0 else v.

(* ---- file names: "%020d-%016x.wal" ---- *)
Fixpoint dec_digits (fuel : nat) (v : N) (acc : list N) : list N :=
  match fuel with
  | O => acc
  | S f => dec_digits f (v / 10) ((48 + v mod 10) :: acc)
  end.
Definition hexd (v : N) : N := if v <? 10 then 48 + v else 87 + v.
Fixpoint hex_digits (fuel : nat) (v : N) (acc : list N) : list N :=
  match fuel with
  | O => acc
  | S f => hex_digits f (v / 16) (hexd (v mod 16) :: acc)
  end.
Definition file_name (base id : N) : list N :=
  dec_digits 20 base [] ++ [45] ++ hex_digits 16 id [] ++ [46; 119; 97; 108].
