(* Alias.v -- ownership model of decoded byte fields (C12 "never aliases pooled
   buffers").  A byte field handed to the caller is either Owned (its own copy)
   or a View into pooled buffer number `slot`; later reads overwrite pooled
   buffers.  The decoder of codec.go copies (`make` + `copy`): in this model it
   only ever produces Owned values, hence what GetLog returned is independent of
   all later pool traffic.  That the CODE's decoder copies is established
   behaviourally by the harness (every retained GetLog result is re-compared
   after further reads through the same pool), not by inspecting its syntax. *)
From RW Require Import Base.Bytes Fmt.Codec.
Open Scope N_scope.

Inductive bval := Owned (bs : bytes) | View (slot off n : nat).

Definition pool := list bytes.

Definition resolve (p : pool) (v : bval) : bytes :=
  match v with
  | Owned bs => bs
  | View s off n => firstn n (skipn off (nth s p []))
  end.

(* decoder.bytes as written: the result is a fresh copy *)
Definition dec_bytes_own (buf : bytes) : dres bval :=
  match dec_bytes buf with
  | DOk bs rest => DOk (Owned bs) rest
  | DErr => DErr
  end.

Record vlog := { v_index : N; v_term : N; v_type : N; v_data : bval; v_ext : bval; v_time : gotime }.

Definition decode_vlog (buf : bytes) : option vlog :=
  match dec_varint buf with DErr => None | DOk idx r1 =>
  match dec_varint r1 with DErr => None | DOk term r2 =>
  match dec_varint r2 with DErr => None | DOk typ r3 =>
  match dec_bytes_own r3 with DErr => None | DOk data r4 =>
  match dec_bytes_own r4 with DErr => None | DOk ext r5 =>
  match unmarshal_time r5 with None => None | Some t =>
    Some {| v_index := idx; v_term := term; v_type := typ mod 256;
            v_data := data; v_ext := ext; v_time := t |}
  end end end end end end.

Definition view_of (p : pool) (v : vlog) : log :=
  {| l_index := v_index v; l_term := v_term v; l_type := v_type v;
     l_data := resolve p (v_data v); l_ext := resolve p (v_ext v); l_time := v_time v |}.

Definition owned (v : bval) : Prop := match v with Owned _ => True | View _ _ _ => False end.

Lemma dec_bytes_own_owned buf v rest : dec_bytes_own buf = DOk v rest -> owned v.
Proof.
  unfold dec_bytes_own. destruct (dec_bytes buf); intros H; inversion H; exact I.
Qed.

(* every decoded log owns its byte fields ... *)
Lemma decode_vlog_owned buf v : decode_vlog buf = Some v -> owned (v_data v) /\ owned (v_ext v).
Proof.
  unfold decode_vlog.
  destruct (dec_varint buf) as [a r1|]; [|discriminate].
  destruct (dec_varint r1) as [b r2|]; [|discriminate].
  destruct (dec_varint r2) as [c r3|]; [|discriminate].
  destruct (dec_bytes_own r3) as [d r4|] eqn:E1; [|discriminate].
  destruct (dec_bytes_own r4) as [x r5|] eqn:E2; [|discriminate].
  destruct (unmarshal_time r5); [|discriminate].
  intros H. inversion H. cbn. split; eapply dec_bytes_own_owned; eassumption.
Qed.

(* ... so what the caller sees does not depend on the pool's later contents ... *)
Theorem decoded_log_independent_of_pool buf v :
  decode_vlog buf = Some v -> forall p p', view_of p v = view_of p' v.
Proof.
  intros H p p'. destruct (decode_vlog_owned _ _ H) as [Hd He].
  unfold view_of. destruct (v_data v); [|destruct Hd]. destruct (v_ext v); [|destruct He]. reflexivity.
Qed.

(* ... and it is the log the plain decoder returns *)
Theorem decode_vlog_is_decode_log buf :
  forall p, option_map (view_of p) (decode_vlog buf) = decode_log buf.
Proof.
  intros p. unfold decode_vlog, decode_log, dec_bytes_own.
  destruct (dec_varint buf) as [a r1|]; [|reflexivity].
  destruct (dec_varint r1) as [b r2|]; [|reflexivity].
  destruct (dec_varint r2) as [c r3|]; [|reflexivity].
  destruct (dec_bytes r3) as [d r4|]; [|reflexivity].
  destruct (dec_bytes r4) as [x r5|]; [|reflexivity].
  destruct (unmarshal_time r5); reflexivity.
Qed.

(* the hazard the property excludes, for contrast: a View does change *)
Example view_changes_with_pool :
  resolve [[1; 2; 3]] (View 0 0 3) <> resolve [[9; 9; 9]] (View 0 0 3).
Proof. cbn. discriminate. Qed.
