(* ReadmeSpec.v -- an INDEPENDENT encoder (layout) and decoder (parse) of the
   segment file format, written from /repo/README.md ("Segment Files", "Frames",
   "Index Frame", "Commit Frame", "Alignment", "Sealing") only.  It shares
   nothing with the operational model (Fmt/Frame.v, Seg/*.v) except byte
   strings (Base/Bytes.v) and the CRC-32C function (Base/Crc32c.v); every
   constant below is a literal copied from the README text.

   README wording vs. code (recorded in DESIGN.md section 10): the README says
   the commit CRC covers the bytes "since just after the last commit frame, or
   just after the file header"; the same paragraph says "all bytes written since
   the last fsync".  The file header is written together with the first batch
   (no fsync in between), and the code's first CRC does include the 32 header
   bytes.  This spec follows "all bytes written since the last fsync", i.e. the
   first batch's CRC range starts at file offset 0. *)
From RW Require Import Base.Bytes Base.Crc32c.
Open Scope N_scope.

(* ---- literals from the README ---- *)
Definition rs_magic : N := 1491823373.        (* "Magic ... the randomly chosen value 0x58eb6b0d" *)
Definition rs_version : N := 0.               (* "Vsn ... currently 0x0" *)
Definition rs_t_invalid : N := 0.             (* frame types: Invalid 0x0, Entry 0x1, Index 0x2, Commit 0x3 *)
Definition rs_t_entry : N := 1.
Definition rs_t_index : N := 2.
Definition rs_t_commit : N := 3.
Definition rs_max_entry : N := 67108864.      (* "MaxEntrySize which we default to 64MiB" *)
Definition rs_header_len : N := 32.           (* 4 rows of 8 bytes in the header diagram *)

Record rs_header := { h_base : N; h_id : N; h_codec : N }.

(* | Magic (uint32) | Reserved [3]byte | Vsn uint8 | BaseIndex | SegmentID | Codec |, little endian *)
Definition rs_file_header (h : rs_header) : bytes :=
  le32 rs_magic ++ [0; 0; 0] ++ [rs_version] ++ le64 (h_base h) ++ le64 (h_id h) ++ le64 (h_codec h).

(* "We add an implicit 0-7 null bytes after each frame ... rounding up Length to
   the nearest multiple of 8" *)
Definition rs_pad (n : N) : N := (8 - n mod 8) mod 8.

(* | Type uint8 | Reserved (3 bytes) | Length/CRC uint32 | then payload, then padding *)
Definition rs_frame (typ : N) (payload : bytes) : bytes :=
  [typ; 0; 0; 0] ++ le32 (len payload) ++ payload ++ zeros (N.to_nat (rs_pad (len payload))).
Definition rs_frame_size (n : N) : N := 8 + n + rs_pad n.

(* the commit frame carries the CRC in the Length/CRC field and has no payload *)
Definition rs_commit (crc : N) : bytes := [rs_t_commit; 0; 0; 0] ++ le32 crc.

(* "An index frame payload is an array of uint32 file offsets ... Length is the
   length in bytes of the array" *)
Definition rs_index (offs : list N) : bytes := rs_frame rs_t_index (flat_map le32 offs).

(* a batch: the entry payloads appended by one StoreLogs call, and whether this
   append sealed the segment ("Index frames are written only when the segment is
   sealed and a commit frame follows") *)
Definition rs_batch := (list bytes * bool)%type.

Definition rs_entries (ps : list bytes) : bytes := flat_map (rs_frame rs_t_entry) ps.

(* file offsets of consecutive entry frames starting at pos *)
Fixpoint rs_offsets (pos : N) (ps : list bytes) : list N :=
  match ps with
  | [] => []
  | p :: r => pos :: rs_offsets (pos + rs_frame_size (len p)) r
  end.

(* pos: file offset of the batch's first frame; pend: the bytes already written
   since the last fsync (the file header in front of the first batch); offs: the
   offsets of all entry frames of earlier batches *)
Fixpoint rs_batches (pos : N) (pend : bytes) (offs : list N) (bs : list rs_batch) : bytes :=
  match bs with
  | [] => []
  | (ps, seal) :: r =>
      let offs' := offs ++ rs_offsets pos ps in
      let body := rs_entries ps ++ (if seal then rs_index offs' else []) in
      body ++ rs_commit (crc32c (pend ++ body))
           ++ rs_batches (pos + len body + 8) [] offs' r
  end.

(* the file up to its last commit; nothing is written before the first batch *)
Definition layout (h : rs_header) (bs : list rs_batch) : bytes :=
  match bs with
  | [] => []
  | _ => rs_file_header h ++ rs_batches rs_header_len (rs_file_header h) [] bs
  end.

(* "Return the final IndexStart to be stored in wal-meta.db": file offset of the
   index array (after the 8-byte frame header) of the sealing batch, 0 if none *)
Fixpoint rs_index_start_from (pos : N) (bs : list rs_batch) : N :=
  match bs with
  | [] => 0
  | (ps, seal) :: r =>
      if seal then pos + len (rs_entries ps) + 8
      else rs_index_start_from (pos + len (rs_entries ps) + 8) r
  end.
Definition rs_index_start (bs : list rs_batch) : N := rs_index_start_from rs_header_len bs.

(* "<BaseIndex>-<SegmentID>.wal": decimal, leading zeros, width 20; lower-case
   hex, zero padded, width 16 *)
Definition rs_digit (d : N) : N := if d <? 10 then 48 + d else 97 + (d - 10).
Fixpoint rs_digits (radix : N) (width : nat) (v : N) : list N :=
  match width with
  | O => []
  | S w => rs_digits radix w (v / radix) ++ [rs_digit (v mod radix)]
  end.
Definition rs_file_name (base id : N) : list N :=
  rs_digits 10 20 base ++ [45] ++ rs_digits 16 16 id ++ [46; 119; 97; 108].   (* "-" and ".wal" *)

(* ---------------- the decoder ---------------- *)
Definition rs_slice (f : bytes) (off n : N) : bytes := firstn (N.to_nat n) (skipn (N.to_nat off) f).

Record rs_pst := { p_cur : list bytes;      (* entries of the batch being read *)
                   p_seal : bool;           (* an index frame was read in this batch *)
                   p_offs : list N;         (* offsets of every entry frame so far *)
                   p_start : N;             (* where the current CRC range starts *)
                   p_done : list rs_batch }.

Definition rs_finish (st : rs_pst) : option (list rs_batch) :=
  match p_cur st, p_seal st with
  | [], false => Some (p_done st)
  | _, _ => None                    (* frames after the last commit: not a committed file *)
  end.

Definition rs_pad_ok (f : bytes) (off n : N) : bool :=
  let pad := rs_slice f off n in (len pad =? n) && all_zero pad.

Fixpoint rs_parse_frames (fuel : nat) (f : bytes) (off : N) (st : rs_pst) : option (list rs_batch) :=
  match fuel with
  | O => None
  | S fuel' =>
      let h := rs_slice f off 8 in
      if len h <? 8 then rs_finish st
      else
        let t := nth 0 h 0 in
        let v := rd32 (skipn 4 h) in
        if t =? rs_t_invalid then (if all_zero h then rs_finish st else None)
        else if t =? rs_t_entry then
          let p := rs_slice f (off + 8) v in
          if (rs_max_entry <? v) || (len p <? v) || negb (rs_pad_ok f (off + 8 + v) (rs_pad v)) || p_seal st
          then None
          else rs_parse_frames fuel' f (off + rs_frame_size v)
                 {| p_cur := p_cur st ++ [p]; p_seal := false; p_offs := p_offs st ++ [off];
                    p_start := p_start st; p_done := p_done st |}
        else if t =? rs_t_index then
          let want := flat_map le32 (p_offs st) in
          let p := rs_slice f (off + 8) v in
          if negb (beq_bytes p want) || negb (rs_pad_ok f (off + 8 + v) (rs_pad v)) || p_seal st
          then None
          else rs_parse_frames fuel' f (off + rs_frame_size v)
                 {| p_cur := p_cur st; p_seal := true; p_offs := p_offs st;
                    p_start := p_start st; p_done := p_done st |}
        else if t =? rs_t_commit then
          if crc32c (rs_slice f (p_start st) (off - p_start st)) =? v then
            rs_parse_frames fuel' f (off + 8)
              {| p_cur := []; p_seal := false; p_offs := p_offs st; p_start := off + 8;
                 p_done := p_done st ++ [(p_cur st, p_seal st)] |}
          else None
        else None
  end.

Definition rs_parse_header (f : bytes) : option rs_header :=
  let h := rs_slice f 0 rs_header_len in
  if len h <? rs_header_len then None
  else if negb (rd32 h =? rs_magic) then None
  else if negb (nth 7 h 0 =? rs_version) then None
  else Some {| h_base := rd64 (skipn 8 h); h_id := rd64 (skipn 16 h); h_codec := rd64 (skipn 24 h) |}.

(* Some (header, batches) for a file that is a header followed by committed
   batches and then zeros / end of file; None for anything else *)
Definition parse (f : bytes) : option (rs_header * list rs_batch) :=
  match rs_parse_header f with
  | None => None
  | Some h =>
      match rs_parse_frames (S (S (length f / 8))) f rs_header_len
              {| p_cur := []; p_seal := false; p_offs := []; p_start := 0; p_done := [] |} with
      | Some bs => Some (h, bs)
      | None => None
      end
  end.
