(* SourceTie.v -- the hand-written format model agrees with Gen/Source.v, the
   file `wh translate` regenerates from /repo's Go source on every run
   (unexported constants as the Go type checker evaluates them; the integer
   functions of segment/format.go translated expression by expression).
   A change to one of these constants or functions in the code breaks a proof
   in this file. *)
From Coq Require Import ZArith NArith Lia List.
From RW Require Import Base.Bytes Fmt.Frame Gen.Constants Gen.Source.
Import ListNotations.

(* ---- constants ------------------------------------------------------ *)
Lemma tie_file_header_len : Z.of_N file_header_len = segment_fileHeaderLen.   Proof. reflexivity. Qed.
Lemma tie_frame_header_len : Z.of_N frame_header_len = segment_frameHeaderLen. Proof. reflexivity. Qed.
Lemma tie_magic : Z.of_N magic = segment_magic.                                Proof. reflexivity. Qed.
Lemma tie_min_buf_size : Z.of_N min_buf_size = segment_minBufSize.             Proof. reflexivity. Qed.
Lemma tie_version : segment_version = 0%Z.                                     Proof. reflexivity. Qed.
Lemma tie_max_entry_size : Z.of_N MaxEntrySize = segment_MaxEntrySize.         Proof. reflexivity. Qed.
Lemma tie_frame_types :
  (Z.of_N FrameInvalid, Z.of_N FrameEntry, Z.of_N FrameIndex, Z.of_N FrameCommit)
  = (segment_FrameInvalid, segment_FrameEntry, segment_FrameIndex, segment_FrameCommit).
Proof. reflexivity. Qed.
Lemma tie_codec_ids :
  (Z.of_N FirstExternalCodecID, Z.of_N CodecBinaryV1) = (wal_FirstExternalCodecID, wal_CodecBinaryV1).
Proof. reflexivity. Qed.
Lemma tie_default_segment_size : Z.of_N DefaultSegmentSize = wal_var_DefaultSegmentSize. Proof. reflexivity. Qed.
Lemma tie_extension_magic : Z.of_N ExtensionMagicPrefix = verifier_ExtensionMagicPrefix. Proof. reflexivity. Qed.
Lemma tie_meta_names :
  (MetaFileName, MetaBucket, StableBucket, MetaKey)
  = (metadb_FileName, metadb_MetaBucket, metadb_StableBucket, metadb_MetaKey).
Proof. reflexivity. Qed.
(* "%020d-%016x.wal": the pattern [file_name] implements (20 decimal digits of
   BaseIndex, '-', 16 lower-case hex digits of ID, ".wal") *)
Lemma tie_file_name_pattern :
  segment_segmentFileNamePattern = [37; 48; 50; 48; 100; 45; 37; 48; 49; 54; 120; 46; 119; 97; 108]%N.
Proof. reflexivity. Qed.
Lemma tie_file_name_probe : file_name 1234567 11259375 = FileNameProbe.
Proof. vm_compute. reflexivity. Qed.
(* the `retired` bit of state.refCount lies above every count the model allows *)
Lemma tie_retired : wal_retired = (2 ^ 30)%Z. Proof. reflexivity. Qed.

(* ---- functions ------------------------------------------------------ *)
Lemma land7 x : (0 <= x)%Z -> Z.land x 7 = (x mod 8)%Z.
Proof. intros _. change 7%Z with (Z.ones 3). rewrite Z.land_ones by lia. reflexivity. Qed.

Theorem tie_pad_len n : Z.of_N (pad_len n) = segment_fn_padLen (Z.of_N n).
Proof.
  unfold pad_len, segment_fn_padLen, segment_frameHeaderLen.
  assert (H0 : (0 <= Z.of_N n)%Z) by lia.
  rewrite Z.rem_mod_nonneg by lia.
  rewrite land7 by (pose proof (Z.mod_pos_bound (Z.of_N n) 8); lia).
  rewrite N2Z.inj_mod, N2Z.inj_sub by (pose proof (N.mod_upper_bound n 8); lia).
  rewrite N2Z.inj_mod. reflexivity.
Qed.

Theorem tie_enc_frame_size n : Z.of_N (enc_frame_size n) = segment_fn_encodedFrameSize (Z.of_N n).
Proof.
  unfold enc_frame_size, segment_fn_encodedFrameSize, segment_frameHeaderLen.
  rewrite <- tie_pad_len. lia.
Qed.

Theorem tie_index_frame_size n : Z.of_N (index_frame_size n) = segment_fn_indexFrameSize (Z.of_N n).
Proof.
  unfold index_frame_size, segment_fn_indexFrameSize.
  destruct (N.eqb_spec n 0) as [->|Hn]; [reflexivity|].
  destruct (Z.eqb_spec (Z.of_N n) 0) as [Hz|_]; [lia|].
  rewrite tie_enc_frame_size. f_equal. lia.
Qed.

(* the translation keeps Go's truncated division; it does not model wrap-around
   at 64 bits: for arguments below 2^62 no intermediate result leaves int64 *)
Lemma no_wrap n : (Z.of_N n < 2 ^ 62)%Z ->
  (0 <= segment_fn_padLen (Z.of_N n) < 8 /\
   0 <= segment_fn_encodedFrameSize (Z.of_N n) < 2 ^ 63)%Z.
Proof.
  intros H. rewrite <- tie_enc_frame_size, <- tie_pad_len.
  unfold enc_frame_size, pad_len.
  assert (E62 : (2 ^ 62 = 4611686018427387904)%Z) by reflexivity.
  assert (E63 : (2 ^ 63 = 9223372036854775808)%Z) by reflexivity.
  rewrite E62 in H. rewrite E63.
  pose proof (N.mod_upper_bound (8 - n mod 8) 8).
  remember ((8 - n mod 8) mod 8)%N as p. lia.
Qed.
