(* FrameFacts.v -- characterising lemmas of Fmt/Frame.v and of the byte slicing
   used by the segment models (lengths, alignment, reading back what was
   written).  Proofs only; the executable definitions are in Frame.v. *)
From RW Require Import Base.Bytes Base.BytesFacts Base.Crc32c Base.Crc32cFacts Fmt.Frame Gen.Constants.
From Coq Require Import ZifyN ZifyNat ZifyBool.
Open Scope N_scope.

(* ---------------- len / slicing ---------------- *)
Lemma len_app a b : len (a ++ b) = len a + len b.
Proof. unfold len. rewrite app_length. lia. Qed.
Lemma len_nil : len [] = 0.
Proof. reflexivity. Qed.
Lemma len_cons x a : len (x :: a) = 1 + len a.
Proof. unfold len. cbn [length]. lia. Qed.
Lemma len_zeros n : len (zeros n) = N.of_nat n.
Proof. unfold len. rewrite zeros_length. reflexivity. Qed.
Lemma len_le32 v : len (le32 v) = 4.
Proof. reflexivity. Qed.
Lemma len_le64 v : len (le64 v) = 8.
Proof. reflexivity. Qed.
Lemma len_firstn_le n (a : bytes) : len (firstn n a) <= len a.
Proof. unfold len. rewrite firstn_length. lia. Qed.
Lemma to_nat_len a : N.to_nat (len a) = length a.
Proof. unfold len. lia. Qed.

Lemma firstn_app_exact {A} (a b : list A) : firstn (length a) (a ++ b) = a.
Proof. rewrite firstn_app, Nat.sub_diag, firstn_O, app_nil_r. apply firstn_all. Qed.
Lemma skipn_app_exact {A} (a b : list A) : skipn (length a) (a ++ b) = b.
Proof. rewrite skipn_app, Nat.sub_diag, skipn_all. reflexivity. Qed.
Lemma firstn_app_le {A} n (a b : list A) : (n <= length a)%nat -> firstn n (a ++ b) = firstn n a.
Proof. intros H. rewrite firstn_app. replace (n - length a)%nat with 0%nat by lia. rewrite firstn_O, app_nil_r. reflexivity. Qed.
Lemma firstn_app_ge {A} n (a b : list A) : (length a <= n)%nat -> firstn n (a ++ b) = a ++ firstn (n - length a) b.
Proof. intros H. rewrite firstn_app. rewrite firstn_all2 by lia. reflexivity. Qed.

Lemma app_eq_len {A} (a b c d : list A) : a ++ b = c ++ d -> length a = length c -> a = c /\ b = d.
Proof.
  revert c; induction a as [|x a IH]; intros [|y c] H L; try discriminate; [auto|].
  cbn in H. inversion H; subst. cbn in L. destruct (IH c) as [E1 E2]; [assumption|lia|]. subst. auto.
Qed.

Lemma zeros_app n m : zeros (n + m) = zeros n ++ zeros m.
Proof. unfold zeros. apply repeat_app. Qed.
Lemma firstn_zeros n m : firstn n (zeros m) = zeros (Nat.min n m).
Proof.
  revert m; induction n as [|n IH]; intros [|m]; try reflexivity.
  cbn. f_equal. apply IH.
Qed.
Lemma skipn_zeros n m : skipn n (zeros m) = zeros (m - n).
Proof.
  revert m; induction n as [|n IH]; intros [|m]; try reflexivity. cbn. apply IH.
Qed.
Lemma all_zero_app a b : all_zero (a ++ b) = all_zero a && all_zero b.
Proof. induction a as [|x a IH]; cbn; [reflexivity|]. rewrite IH. apply andb_assoc. Qed.

(* overwrite at the end of a prefix *)
Lemma overwrite_app a x w : overwrite (a ++ x) (length a) w = a ++ w ++ skipn (length w) x.
Proof. induction a as [|b a IH]; cbn; [reflexivity|]. f_equal. exact IH. Qed.
Lemma overwrite_0 x w : overwrite x 0 w = w ++ skipn (length w) x.
Proof. reflexivity. Qed.

(* ---------------- padding and sizes ---------------- *)
Lemma pad_len_lt n : pad_len n < 8.
Proof. unfold pad_len. lia. Qed.
Lemma pad_len_aligned n : (n + pad_len n) mod 8 = 0.
Proof. unfold pad_len. lia. Qed.
Lemma pad_len_0 n : n mod 8 = 0 -> pad_len n = 0.
Proof. unfold pad_len. lia. Qed.
Lemma enc_frame_size_aligned n : enc_frame_size n mod 8 = 0.
Proof. unfold enc_frame_size, pad_len. lia. Qed.
Lemma enc_frame_size_ge n : 8 <= enc_frame_size n.
Proof. unfold enc_frame_size. lia. Qed.

Lemma frame_header_length t v : length (frame_header t v) = 8%nat.
Proof. reflexivity. Qed.
Lemma len_frame_header t v : len (frame_header t v) = 8.
Proof. reflexivity. Qed.
Lemma len_commit_frame c : len (commit_frame c) = 8.
Proof. reflexivity. Qed.
Lemma len_file_header i : len (file_header i) = 32.
Proof. reflexivity. Qed.
Lemma file_header_length i : length (file_header i) = 32%nat.
Proof. reflexivity. Qed.

Lemma len_enc_frame t p : len (enc_frame t p) = enc_frame_size (len p).
Proof.
  unfold enc_frame, enc_frame_size. rewrite !len_app, len_frame_header, len_zeros. lia.
Qed.

Lemma len_index_payload offs : len (index_payload offs) = 4 * len offs.
Proof.
  unfold index_payload. induction offs as [|o r IH]; [reflexivity|].
  cbn [flat_map]. rewrite len_app, len_le32, IH. unfold len. cbn [length]. lia.
Qed.

(* the index frame is an ordinary frame (type Index) whose payload is the
   offset array: the explicit 4-byte zero word is the generic padding *)
Lemma index_frame_is_frame offs :
  index_frame offs = enc_frame FrameIndex (index_payload offs).
Proof.
  unfold index_frame, enc_frame. rewrite len_index_payload. do 2 f_equal.
  unfold pad_len. destruct (N.odd (len offs)) eqn:E.
  - assert (H : len offs mod 2 = 1).
    { rewrite <- N.bit0_mod, N.bit0_odd, E. reflexivity. }
    replace ((8 - (4 * len offs) mod 8) mod 8) with 4 by lia. reflexivity.
  - assert (H : len offs mod 2 = 0).
    { rewrite <- N.bit0_mod, N.bit0_odd, E. reflexivity. }
    replace ((8 - (4 * len offs) mod 8) mod 8) with 0 by lia. reflexivity.
Qed.

Lemma len_index_frame offs : len (index_frame offs) = enc_frame_size (4 * len offs).
Proof. rewrite index_frame_is_frame, len_enc_frame, len_index_payload. reflexivity. Qed.

Lemma index_frame_size_spec offs : offs <> [] -> index_frame_size (len offs) = len (index_frame offs).
Proof.
  intros H. unfold index_frame_size. rewrite len_index_frame.
  destruct (len offs =? 0) eqn:E.
  - apply N.eqb_eq in E. destruct offs; [congruence|]. rewrite len_cons in E. lia.
  - f_equal. lia.
Qed.

(* ---------------- reading headers back ---------------- *)
Lemma rd32_skip4_frame_header t v r : v < two32 -> rd32 (skipn 4 (frame_header t v ++ r)) = v.
Proof. intros H. unfold frame_header. cbn [app skipn]. apply rd32_le32_app. exact H. Qed.

Lemma read_frame_header_hdr t v r :
  (t = FrameEntry \/ t = FrameIndex \/ t = FrameCommit) -> v < two32 ->
  read_frame_header (frame_header t v ++ r) = FH t v.
Proof.
  intros Ht Hv. unfold read_frame_header.
  replace (len (frame_header t v ++ r) <? frame_header_len) with false.
  2:{ symmetry. apply N.ltb_ge. rewrite len_app, len_frame_header. unfold frame_header_len. lia. }
  replace (nth0 0 (frame_header t v ++ r)) with t by reflexivity.
  rewrite rd32_skip4_frame_header by exact Hv.
  destruct Ht as [->|[->| ->]]; reflexivity.
Qed.

Lemma read_frame_header_short b : len b < 8 -> read_frame_header b = FHShort.
Proof.
  intros H. unfold read_frame_header. replace (len b <? frame_header_len) with true; [reflexivity|].
  symmetry. apply N.ltb_lt. exact H.
Qed.

Lemma read_frame_header_zero r : read_frame_header (zeros 8 ++ r) = FHZero.
Proof.
  unfold read_frame_header.
  replace (len (zeros 8 ++ r) <? frame_header_len) with false; [reflexivity|].
  symmetry. apply N.ltb_ge. rewrite len_app, len_zeros. unfold frame_header_len. lia.
Qed.

(* reading a frame header only looks at the first 8 bytes *)
Lemma read_frame_header_firstn8 b : 8 <= len b -> read_frame_header (firstn 8 b) = read_frame_header b.
Proof.
  intros H. unfold len in H.
  do 8 (destruct b as [|? b]; [cbn [length] in H; lia|]).
  unfold read_frame_header.
  replace (len (firstn 8 (n :: n0 :: n1 :: n2 :: n3 :: n4 :: n5 :: n6 :: b)) <? frame_header_len) with false by reflexivity.
  replace (len (n :: n0 :: n1 :: n2 :: n3 :: n4 :: n5 :: n6 :: b) <? frame_header_len) with false.
  - reflexivity.
  - symmetry. apply N.ltb_ge. unfold frame_header_len. exact H.
Qed.

Lemma read_file_header_hdr info r :
  si_base info < two64 -> si_id info < two64 -> si_codec info < two64 ->
  read_file_header (file_header info ++ r) = Some (si_base info, si_id info, si_codec info).
Proof.
  intros Hb Hi Hc. unfold read_file_header.
  replace (len (file_header info ++ r) <? file_header_len) with false.
  2:{ symmetry. apply N.ltb_ge. rewrite len_app, len_file_header. unfold file_header_len. lia. }
  unfold file_header. rewrite <- !app_assoc.
  assert (E0 : rd64 (le32 magic ++ [0; 0; 0; 0] ++ le64 (si_base info) ++ le64 (si_id info) ++ le64 (si_codec info) ++ r) = magic).
  { unfold rd64. rewrite rd32_le32_app by (unfold magic; lia).
    change (skipn 4 (le32 magic ++ ?x)) with x. reflexivity. }
  rewrite E0, N.eqb_refl. cbn [negb].
  change (skipn 8 (le32 magic ++ [0; 0; 0; 0] ++ ?x)) with x.
  change (skipn 16 (le32 magic ++ [0; 0; 0; 0] ++ le64 (si_base info) ++ ?x)) with x.
  change (skipn 24 (le32 magic ++ [0; 0; 0; 0] ++ le64 (si_base info) ++ le64 (si_id info) ++ ?x)) with x.
  unfold two64 in *. rewrite !rd64_le64_app by assumption. reflexivity.
Qed.

Lemma validate_file_header_refl info :
  validate_file_header (si_base info, si_id info, si_codec info) info = true.
Proof. unfold validate_file_header. rewrite !N.eqb_refl. reflexivity. Qed.

(* ---------------- CRC stays a 32-bit word ---------------- *)
Lemma lxor_lt32 a b : a < two32 -> b < two32 -> N.lxor a b < two32.
Proof.
  intros Ha Hb. change two32 with (2 ^ 32) in *.
  destruct (N.eq_dec (N.lxor a b) 0) as [E|E]; [rewrite E; reflexivity|].
  apply N.log2_lt_pow2; [lia|].
  eapply N.le_lt_trans; [apply N.log2_lxor|].
  apply N.max_lub_lt.
  - destruct (N.eq_dec a 0) as [->|Na]; [reflexivity|]. apply N.log2_lt_pow2; [lia|exact Ha].
  - destruct (N.eq_dec b 0) as [->|Nb]; [reflexivity|]. apply N.log2_lt_pow2; [lia|exact Hb].
Qed.

Lemma crc_shift1_lt c : c < two32 -> crc_shift1 c < two32.
Proof.
  intros H. unfold crc_shift1.
  assert (D : N.div2 c < two32) by (rewrite N.div2_div; unfold two32 in *; lia).
  destruct (N.odd c); [|exact D]. apply lxor_lt32; [exact D|reflexivity].
Qed.

Lemma crc_byte_lt c b : c < two32 -> b < 256 -> crc_byte c b < two32.
Proof.
  intros Hc Hb. unfold crc_byte. do 8 apply crc_shift1_lt.
  apply lxor_lt32; [exact Hc|unfold two32; lia].
Qed.

Lemma crc_raw_lt bs : forall c, c < two32 -> wf_bytes bs -> crc_raw c bs < two32.
Proof.
  induction bs as [|b r IH]; intros c Hc Hw; [exact Hc|].
  inversion Hw; subst. unfold crc_raw. cbn [fold_left]. apply IH; [|assumption].
  apply crc_byte_lt; assumption.
Qed.

Lemma crc_update_lt c bs : c < two32 -> wf_bytes bs -> crc_update c bs < two32.
Proof.
  intros Hc Hw. unfold crc_update. apply lxor_lt32; [|reflexivity].
  apply crc_raw_lt; [|exact Hw]. apply lxor_lt32; [exact Hc|reflexivity].
Qed.

Lemma crc32c_lt bs : wf_bytes bs -> crc32c bs < two32.
Proof. intros H. apply crc_update_lt; [reflexivity|exact H]. Qed.

(* ---------------- well-formed bytes of the encoders ---------------- *)
Lemma wf_frame_header t v : t < 256 -> wf_bytes (frame_header t v).
Proof.
  intros H. unfold frame_header. apply wf_bytes_app; split; [|apply wf_le32].
  repeat constructor; unfold wf_byte; lia.
Qed.
Lemma wf_enc_frame t p : t < 256 -> wf_bytes p -> wf_bytes (enc_frame t p).
Proof.
  intros Ht Hp. unfold enc_frame. apply wf_bytes_app; split; [apply wf_frame_header; exact Ht|].
  apply wf_bytes_app; split; [exact Hp|apply wf_zeros].
Qed.
Lemma wf_index_payload offs : wf_bytes (index_payload offs).
Proof.
  unfold index_payload. induction offs as [|o r IH]; [constructor|].
  cbn [flat_map]. apply wf_bytes_app; split; [apply wf_le32|exact IH].
Qed.
Lemma wf_index_frame offs : wf_bytes (index_frame offs).
Proof. rewrite index_frame_is_frame. apply wf_enc_frame; [reflexivity|apply wf_index_payload]. Qed.
Lemma wf_commit_frame c : wf_bytes (commit_frame c).
Proof. apply wf_frame_header. reflexivity. Qed.
Lemma wf_file_header info : wf_bytes (file_header info).
Proof.
  unfold file_header. repeat (apply wf_bytes_app; split); try apply wf_le32; try apply wf_le64.
  repeat constructor; unfold wf_byte; lia.
Qed.
