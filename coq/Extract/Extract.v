(* Extraction of the executable model.  ExtrOcamlBasic only; numbers stay Coq
   datatypes (positive/N/Z); no Extract Constant of our own. *)
From Coq Require Import ExtrOcamlBasic.
From RW Require Import Run.Main.
Extraction Language OCaml.
Extraction "model.ml" run_line.
