(* C19 -- Migration copies the log and stable keys faithfully.
   Only statements here; the model is Mig/Copy.v, proofs are in Mig/CopyFacts.v. *)
From RW Require Import Base.Bytes Mig.Copy Mig.CopyFacts.
Open Scope N_scope.

(* Every well-formed source (contiguous, any first index >= 1, any length incl.
   0, any entry sizes, last index below MaxUint64), every batchBytes : Z
   (negative, 0, huge), destination initially empty, no cancellation, no I/O
   fault: CopyLogs returns Ok; the destination has the source's entries, First
   and Last index and answers every GetLog like the source; the StoreLogs
   batches, replayed on the contiguous-log spec, are each non-empty,
   consecutive and start at last+1 (all_batches_ok), their concatenation is the
   source, and exactly one GetLog per entry was issued. *)
Theorem C19_copy_logs : forall src bb p,
  wf_store src ->
  let r := copy_logs (no_faults p) bb src empty_store in
  r_res r = COk /\ same_log (r_dst r) src /\
  replay empty_store (r_batches r) = Some (r_dst r) /\
  all_batches_ok empty_store (r_batches r) /\
  concat (r_batches r) = ls_ents src /\
  r_gets r = ls_len src.
Proof. exact copy_logs_faithful. Qed.
Print Assumptions C19_copy_logs.

(* Every cancellation point and every injected failure (GetLog, StoreLogs, and
   the source's FirstIndex / LastIndex, e.g. a source WAL that is already
   closed): the destination holds a prefix of the source (same first index
   when non-empty), built by accepted batches; Ok is returned only with the
   complete copy; the loop never runs out of fuel; each error kind is returned
   only if its cause was present. *)
Theorem C19_cancel_prefix : forall src bb ev,
  wf_store src ->
  let r := copy_logs ev bb src empty_store in
  is_prefix (ls_ents (r_dst r)) (ls_ents src) /\
  (ls_ents (r_dst r) <> [] -> ls_first (r_dst r) = ls_first src) /\
  replay empty_store (r_batches r) = Some (r_dst r) /\
  (r_res r = COk -> same_log (r_dst r) src) /\
  r_res r <> COutOfFuel /\
  (first_fail ev = false -> r_res r <> CErrFirst) /\
  (last_fail ev = false -> r_res r <> CErrLast) /\
  (cancel_at ev = None -> r_res r <> CCanceled).
Proof. exact copy_logs_prefix. Qed.
Print Assumptions C19_cancel_prefix.

(* FirstIndex / LastIndex of the source failing (any source, any destination):
   that error is returned, the destination is untouched, no GetLog is issued,
   and the progress channel is closed like on every other return path *)
Theorem C19_index_fault : forall src dst bb ev,
  let r := copy_logs ev bb src dst in
  (first_fail ev = true -> r_res r = CErrFirst /\ r_dst r = dst /\ r_batches r = [] /\ r_gets r = 0) /\
  (first_fail ev = false -> last_fail ev = true ->
     r_res r = CErrLast /\ r_dst r = dst /\ r_batches r = [] /\ r_gets r = 0) /\
  r_closed r = has_progress ev.
Proof. exact copy_logs_index_fault. Qed.
Print Assumptions C19_index_fault.

(* ctx.Err() turning non-nil before the k-th loop check: Canceled (the
   context's error) after exactly k GetLog calls when k < number of entries,
   a complete copy otherwise *)
Theorem C19_cancel_point : forall src bb p k,
  wf_store src ->
  let ev := {| cancel_at := Some k; get_fail := None; store_fail := None;
              first_fail := false; last_fail := false; has_progress := p |} in
  let r := copy_logs ev bb src empty_store in
  ((k < length (ls_ents src))%nat -> r_res r = CCanceled /\ r_gets r = N.of_nat k) /\
  ((length (ls_ents src) <= k)%nat -> r_res r = COk /\ same_log (r_dst r) src).
Proof. exact copy_logs_cancel_point. Qed.
Print Assumptions C19_cancel_point.

(* the progress channel is closed on every return path (if it is non-nil):
   any source, any destination, any environment *)
Theorem C19_progress_closed : forall ev bb src dst,
  r_closed (copy_logs ev bb src dst) = has_progress ev.
Proof. exact progress_closed. Qed.
Print Assumptions C19_progress_closed.

Theorem C19_stable_progress_closed : forall pol cancel p src dst extra extra_int,
  sr_closed (copy_stable pol cancel p src dst extra extra_int) = p.
Proof. exact stable_progress_closed. Qed.
Print Assumptions C19_stable_progress_closed.

(* CopyStable: the standard raft keys and all extra keys arrive with their
   values and nothing else changes -- provided the source does not fail on a
   key that was never set (see DESIGN.md 10 mig/fs: raft-boltdb and InmemStore
   do fail, and then CopyStable stops with an error; the model follows). *)
Theorem C19_copy_stable : forall pol p src dst extra extra_int,
  (miss_int_err pol = true -> int_present src (known_int_keys ++ extra_int)) ->
  (miss_get_err pol = true -> key_present src (known_keys ++ extra)) ->
  let r := copy_stable pol None p src dst extra extra_int in
  sr_res r = SOk /\ sr_closed r = p /\
  (forall k, In k (known_int_keys ++ extra_int) ->
             s_get_int (sr_dst r) k = Some (or_zero (s_get_int src k))) /\
  (forall k, In k (known_keys ++ extra) ->
             s_get (sr_dst r) k = Some (or_empty (s_get src k))) /\
  (forall k, ~ In k (known_int_keys ++ extra_int) -> s_get_int (sr_dst r) k = s_get_int dst k) /\
  (forall k, ~ In k (known_keys ++ extra) -> s_get (sr_dst r) k = s_get dst k).
Proof. exact copy_stable_faithful. Qed.
Print Assumptions C19_copy_stable.

(* ---- non-vacuity ------------------------------------------------------------ *)
Definition ex_e (i : N) (d : bytes) : entry :=
  {| e_index := i; e_term := 7; e_type := 0; e_data := d; e_ext := [9]; e_sec := 1700000000%Z; e_nsec := 5%Z |}.
Definition ex_src : lstore :=
  {| ls_first := 1234; ls_ents := [ex_e 1234 [1;2;3]; ex_e 1235 []; ex_e 1236 [4]; ex_e 1237 [5;6]] |}.

Example C19_ex_wf : wf_store ex_src.
Proof. apply wf_storeb_spec. vm_compute. reflexivity. Qed.
Example C19_ex_empty_wf : wf_store empty_store.
Proof. apply wf_storeb_spec. vm_compute. reflexivity. Qed.

(* batchBytes 67: batches of 2 (3+32 + 0+32 = 67 reaches the target with the second entry) *)
Example C19_ex_batches :
  map (@length entry) (r_batches (copy_logs (no_faults true) 67 ex_src empty_store)) = [2%nat; 2%nat].
Proof. vm_compute. reflexivity. Qed.
(* negative batchBytes: one entry per batch *)
Example C19_ex_negative :
  map (@length entry) (r_batches (copy_logs (no_faults true) (-5) ex_src empty_store)) = [1%nat; 1%nat; 1%nat; 1%nat].
Proof. vm_compute. reflexivity. Qed.
(* cancellation before the 3rd check with batches of 2: the first batch only *)
Example C19_ex_cancel :
  let r := copy_logs {| cancel_at := Some 3%nat; get_fail := None; store_fail := None;
                        first_fail := false; last_fail := false; has_progress := true |}
                     67 ex_src empty_store in
  r_res r = CCanceled /\ ls_ents (r_dst r) = firstn 2 (ls_ents ex_src) /\ r_closed r = true.
Proof. vm_compute. auto. Qed.
(* the empty source returns Ok without touching the destination (f32c8ec) *)
Example C19_ex_empty :
  let r := copy_logs (no_faults true) 100 empty_store empty_store in
  r_res r = COk /\ r_gets r = 0 /\ r_batches r = [] /\ r_closed r = true.
Proof. vm_compute. auto. Qed.
(* a source whose LastIndex fails: error, nothing copied, channel closed *)
Example C19_ex_last_fails :
  let r := copy_logs {| cancel_at := None; get_fail := None; store_fail := None;
                        first_fail := false; last_fail := true; has_progress := true |}
                     67 ex_src empty_store in
  r_res r = CErrLast /\ ls_ents (r_dst r) = [] /\ r_gets r = 0 /\ r_closed r = true.
Proof. vm_compute. auto. Qed.
(* without the well-formedness guard the statement would be false: an entry at
   index 0 alone is taken for an empty log *)
Example C19_ex_guard_needed :
  r_batches (copy_logs (no_faults true) 0 {| ls_first := 0; ls_ents := [ex_e 0 [1]] |} empty_store) = [].
Proof. vm_compute. reflexivity. Qed.
(* a store that fails on missing keys makes CopyStable fail (hypothesis of
   C19_copy_stable is needed), one that does not copies zero values *)
Example C19_ex_stable_missing :
  sr_res (copy_stable {| miss_get_err := true; miss_int_err := true |} None true
                      {| s_kv := []; s_int := [(k_current_term, 3)] |} empty_sstore [] []) = SErrGet.
Proof. vm_compute. reflexivity. Qed.
Example C19_ex_stable_ok :
  let r := copy_stable {| miss_get_err := true; miss_int_err := true |} None true
                       {| s_kv := [(k_last_vote_cand, [115; 49])];
                          s_int := [(k_current_term, 3); (k_last_vote_term, 2)] |} empty_sstore [] [] in
  sr_res r = SOk /\ s_get (sr_dst r) k_last_vote_cand = Some [115; 49] /\
  s_get_int (sr_dst r) k_current_term = Some 3.
Proof. vm_compute. auto. Qed.
