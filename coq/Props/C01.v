(* C01 -- Acknowledged appends survive any crash.
   Only statements here.  Model: Wal/Model.v (abstract disk, crash adversary, every
   WAL call and Open as sequences of I/O actions), Wal/Spec.v (contiguous-log spec),
   Wal/Hist.v (histories with crashes and the ghost ledger).  Invariants:
   Wal/CrashInv.v; proofs: Wal/CrashFacts*.v, Wal/CrashCalls*.v, Wal/CrashGlue.v,
   Wal/CrashThm.v.

   A history is a list of steps
     HOp o            a call running to completion
     HCrashIn o j cc  power loss after the first j I/O actions of call o (including the
                      background rotation it waits for; j >= all = right after it) with
                      adversary choice cc (which non-durable files survive, which
                      written-but-unsynced batches reached the disk completely; a torn
                      batch is recovered as absent -- the segment-level law of C02)
     HOpen            Open after a crash
     HCrashInOpen j cc  power loss after j actions of that Open (nests to any depth).
   Guards: cfg_ok (codec id accepted by Open, 0 < segment size < 2^30), hstep_wf
   (entries a Go program can hold with index in [1, 2^64-2], a batch below 1 GiB),
   short_enough (fewer than 2^62 steps: the 64-bit segment id counter cannot wrap).
   Every crash point of every call and of recovery is covered BY PROOF. *)
From RW Require Import Base.Bytes Fmt.Codec Fmt.Frame Wal.Model Wal.Spec Wal.Hist
  Wal.CrashInv Wal.CrashCalls10 Wal.CrashThm Wal.CrashExamples Wal.CrashExamplesFacts.
Open Scope N_scope.

(* the master theorem (statement in Wal/Hist.v) *)
Theorem C01_crash_refinement : crash_refinement_stmt.
Proof. exact crash_refinement. Qed.
Print Assumptions C01_crash_refinement.

(* Once StoreLogs(ls) has returned nil (ROk) in ANY reachable state, then after ANY
   continuation `post` of calls, crashes at any point (of appends, rotations,
   truncations, recoveries) and reopens in which no DeleteRange(mn,mx) with
   mn <= index <= mx is issued (completed or interrupted):
     - if the WAL is up, GetLog(index) returns that entry, identical in every field,
       and FirstIndex <= index <= LastIndex;
     - if the machine is down, Open succeeds (and then the first case applies to the
       history extended by HOpen). *)
Theorem C01_acked_entry_survives :
  forall c pre ls post s k l,
    (cfg_ok c /\ Forall hstep_wf (pre ++ HOp (OStore ls) :: post) /\ short_enough (pre ++ HOp (OStore ls) :: post)) ->
    hs_mode (hist_run c hist_init pre) = Up s ->
    fst (step_model c s (OStore ls)) = ROk ->
    nth_error ls k = Some l ->
    Forall (fun st => ~ touches (l_index l) st) post ->
    match hs_mode (hist_run c hist_init (pre ++ HOp (OStore ls) :: post)) with
    | Up s' => fst (get_log (ss_wal s') (l_index l) (ss_env s')) = RLog l /\
               exists fi la, first_index_op (ss_wal s') = RVal fi /\ last_index_op (ss_wal s') = RVal la /\
                             fi <= l_index l /\ l_index l <= la
    | Down d => exists w e, open_wal c (env_of d) = (OOk w, e)
    end.
Proof. exact acked_entry_survives. Qed.
Print Assumptions C01_acked_entry_survives.

(* after any history ending in a crash, Open succeeds and the recovered log and stable
   store are EXACTLY the acknowledged state or the state the interrupted call would have
   produced; the directory then holds exactly the listed files; no create failed *)
Theorem C01_recovery_yields_acked_or_inflight :
  forall c steps d,
    (cfg_ok c /\ Forall hstep_wf steps /\ short_enough steps) ->
    hs_mode (hist_run c hist_init steps) = Down d ->
    exists w e, open_wal c (env_of d) = (OOk w, e) /\
      ({| sp_log := abs w (e_disk e); sp_kv := dk_stable (e_disk e) |} = hs_acked (hist_run c hist_init steps) \/
       {| sp_log := abs w (e_disk e); sp_kv := dk_stable (e_disk e) |} = hs_may (hist_run c hist_init steps)) /\
      dir_exact (e_disk e) = true /\ Forall not_fail (e_acts e).
Proof. exact recovery_after_any_history. Qed.
Print Assumptions C01_recovery_yields_acked_or_inflight.

(* a running WAL reads exactly the ledger: GetLog, FirstIndex, LastIndex, stable Get *)
Theorem C01_live_state_is_ledger :
  forall c steps s,
    (cfg_ok c /\ Forall hstep_wf steps /\ short_enough steps) ->
    hs_mode (hist_run c hist_init steps) = Up s ->
    let a := hs_acked (hist_run c hist_init steps) in
    hs_may (hist_run c hist_init steps) = a /\
    {| sp_log := abs (ss_wal s) (e_disk (ss_env s)); sp_kv := dk_stable (e_disk (ss_env s)) |} = a /\
    (forall i, fst (get_log (ss_wal s) i (ss_env s)) =
               match spec_get (sp_log a) i with Some l => RLog l | None => RErrNotFound end) /\
    first_index_op (ss_wal s) = RVal (spec_first (sp_log a)) /\
    last_index_op (ss_wal s) = RVal (spec_last (sp_log a)) /\
    (forall k, fst (get_stable (ss_wal s) k (ss_env s)) = RBytes (kv_get k (sp_kv a))) /\
    Forall not_fail (e_acts (ss_env s)).
Proof. exact live_state_is_ledger. Qed.
Print Assumptions C01_live_state_is_ledger.

(* ---- non-vacuity ---------------------------------------------------------------
   segment size 128: the 2nd append seals segment 1.
   A: power loss between the sealing append and the rotation's metadata commit: the
      crash image lists segment 1 as unsealed while its file is sealed; Open completes
      the rotation; entries 1..2 survive, 3 is appended afterwards.
   C: a 2-entry batch written but not fsynced: kept whole (LastIndex 4) or lost whole
      (LastIndex 2), by the adversary's choice. *)
Example C01_ex_guards : hist_ok cfg128 hist_rotation_before_commit /\ hist_ok cfg128 hist_batch_kept.
Proof. exact (conj hist_rotation_before_commit_ok hist_batch_kept_ok). Qed.
Example C01_ex_rotation_before_commit :
  final_ok cfg128 hist_rotation_before_commit = true /\
  crash_shape cfg128 (firstn 4 hist_rotation_before_commit) = ([(1, false)], [((1, 0), true)]) /\
  final_last cfg128 hist_rotation_before_commit = 3 /\ final_first cfg128 hist_rotation_before_commit = 1.
Proof. vm_compute. repeat split; reflexivity. Qed.
Example C01_ex_batch_in_flight :
  final_ok cfg128 hist_batch_kept = true /\ final_last cfg128 hist_batch_kept = 4 /\
  final_ok cfg128 hist_batch_lost = true /\ final_last cfg128 hist_batch_lost = 2.
Proof. vm_compute. repeat split; reflexivity. Qed.
