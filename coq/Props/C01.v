(* C01 -- Acknowledged appends survive any crash.
   INTERIM file: the full statement is `crash_refinement_stmt` of Wal/Hist.v
   (all histories of calls, power losses at any I/O boundary with any adversary
   choice, nested crashes inside recovery, reopen cycles; see its comment for how
   it covers C01).  Its proof is in progress; until it lands only the fragments
   below are proved and the property is otherwise carried by the executable
   acceptance predicate `hist_run`/`hs_ok` (evaluated on random histories of
   the model on every run) and by the crash-image enumeration on the
   implementation (stream `crash`). *)
From RW Require Import Base.Bytes Fmt.Codec Fmt.Frame Wal.Model Wal.Spec Wal.Hist Wal.BasicFacts.
Open Scope N_scope.

(* the full statement (not yet a theorem) *)
Definition C01_full_statement : Prop := crash_refinement_stmt.

(* proved fragment: whatever the adversary chooses, a file whose directory entry is
   durable survives a power loss with all its synced entries, and the batch written
   since the last fsync is kept whole or dropped whole (the latter is the segment-level
   law of Seg/RecoverFacts.v lifted to the abstract disk) *)
Theorem C01_synced_entries_survive_partial :
  forall c n f, df_dir f = true ->
  exists f', crash_file c (n, f) = [(n, f')] /\ df_pend f' = None /\ df_dir f' = true /\
             (df_ents f' = df_ents f \/
              exists b, df_pend f = Some b /\ df_ents f' = df_ents f ++ pb_ents b /\ df_end f' = pb_end b).
Proof. exact crash_file_durable. Qed.
Print Assumptions C01_synced_entries_survive_partial.

Theorem C01_metadata_survives_partial :
  forall c d, dk_meta (crash_disk c d) = dk_meta d /\ dk_stable (crash_disk c d) = dk_stable d.
Proof. exact crash_disk_meta. Qed.
Print Assumptions C01_metadata_survives_partial.
