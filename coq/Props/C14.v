(* C14 -- Close is safe, idempotent and final.
   Only statements here; model: Conc/Close.v, proofs: Conc/Close*.v.

   Proved for every program list and every schedule:
     C14_after_close, C14_mutual_exclusion.
   Proved for every REACHABLE state of a system with a single writer thread
   (single_writer w progs extra: only thread w runs StoreLogs/DeleteRange; any number of
   readers, stable-store callers and Close callers; the rotation goroutine is thread
   `length progs`).  The invariant  Full2 = CloseSafe.Safe /\ CloseInv.Inv1 /\ CloseInv2.Inv2
   is inductive (CloseReach.full_reach, CloseReach2.full2_reach):
     C14_no_panic           no call ever panics (nil state, closed / nil channel, offsets index)
     C14_no_deadlock        if a call has not returned some thread can step (a writer parked in
                            awaitRotation is woken by the rotation goroutine or by Close)
     C14_rotator_exits      after Close was called the system cannot rest with the rotation
                            goroutine alive
     C14_racing_calls       every outcome recorded by a call satisfies CloseInv2.allowed (a result
                            or ErrClosed; that table still lists ErrSealed for StoreLogs, see
                            the strict form below), in program order
     C14_racing_calls_clean in particular never Panic, never an I/O error through a closed
                            or deleted file, never a metaDB error
     C14_handles_released   after Close and after every call returned, every file handle ever
                            opened has been closed exactly once, and the metaDB exactly once
   Inv2 is the reference-count / retired-bit / finalizer / handle-ownership invariant: the
   count of every state equals the references held by threads plus the reference of its
   predecessor's finalizer; every open handle has exactly one owner (the current state, one
   finalizer that has not run, or one running release); a finalizer exists only for a retired
   state and runs only when the count reached `retired`; a validated holder of state x keeps
   the finalizers of all states >= x from running, so every handle it can reach is open.

     C14_racing_calls_strict the same with CloseThm3.allowed_strict: a result (Ok; NotFound for
                            GetLog) or ErrClosed and nothing else -- in particular StoreLogs never
                            finds the tail sealed (C14_no_errsealed)
   The last two rest on SealInv.Inv4 (inductive, SealStep.inv4_reach): if the tail of the
   current open version is sealed then (A) awaitRotate is set, or (B) Close is at stage >= 3
   (it closed the await channel and holds writeMu until the state is swapped), or (C) the
   closed flag is set and no locking call is past its closed check, or (W) the thread that
   sealed it is still between the seal and the trigger (PApp1..PTrig) or between the
   force-seal of a tail truncation and its commit (PM3, classified DTail); and the rotation
   goroutine keeps the new tail unsealed until it resets awaitRotate.  A writer at its
   append holds writeMu with awaitRotate = nil on an open current version, which excludes
   every clause (SealStep.seal_contra).
   The implementation side is judged by the oracles of the sched14 stream (recover(),
   watchdog, goroutine count, handle accounting, two reopen cycles; any outcome other than
   a result or ErrClosed -- ioerr, metaerr, sealed, err -- is a witness). *)
From Coq Require Import List Arith Bool Lia.
From RW Require Import Conc.Sys Conc.Close Conc.CloseInv Conc.CloseInv2 Conc.CloseLive Conc.CloseSafe Conc.CloseReach
     Conc.CloseThm Conc.CloseThm2 Conc.CloseThm3.
Import ListNotations.

Theorem C14_after_close : forall progs extra s,
  reach progs extra s -> g_closed (sh s) = true ->
  (forall t th o, nth_error (ths s) t = Some th -> t_pc th = PIdle -> cur_op th = Some o ->
     step s t = Some {| sh := sh s;
                        ths := upd (ths s) t (finish th (if is_close o then Ok 0 else ErrClosed)) |}) /\
  (forall sch, g_closed (sh (run step s sch)) = true).
Proof. exact after_close. Qed.
Print Assumptions C14_after_close.

Theorem C14_mutual_exclusion : forall progs extra s,
  reach progs extra s -> crashed s = false ->
  forall t1 t2 th1 th2,
    nth_error (ths s) t1 = Some th1 -> nth_error (ths s) t2 = Some th2 ->
    holds_mu th1 = true -> holds_mu th2 = true -> t1 = t2 /\ g_mu (sh s) = Some t1.
Proof. exact mutual_exclusion. Qed.
Print Assumptions C14_mutual_exclusion.

(* ---- reachable states of a system with a single writer thread --------------------------
   single_writer w progs extra: only thread w runs StoreLogs/DeleteRange (any number of
   readers, stable-store callers and Close callers).  Proof: CloseReach.full_reach, the
   invariant Full = CloseSafe.Safe /\ CloseInv.Inv1 is inductive. *)

(* no call ever panics (nil state, closed / nil channel, send on closed channel, offsets index) *)
Theorem C14_no_panic : forall w progs extra s,
  single_writer w progs extra -> reach progs extra s -> crashed s = false.
Proof. exact no_panic_reach. Qed.
Print Assumptions C14_no_panic.

(* if some call has not returned, some thread can take a step: no deadlock; in particular
   a writer parked in awaitRotation is woken by the rotation goroutine or by Close *)
Theorem C14_no_deadlock : forall w progs extra s,
  single_writer w progs extra -> reach progs extra s ->
  (exists t th, nth_error (ths s) t = Some th /\ t_rot th = false /\ th_done th = false) ->
  exists t, enabled step s t = true.
Proof. exact no_deadlock_reach. Qed.
Print Assumptions C14_no_deadlock.

(* once Close has been called the system cannot come to rest with the rotation goroutine alive *)
Theorem C14_rotator_exits : forall w progs extra s,
  single_writer w progs extra -> reach progs extra s -> g_closed (sh s) = true ->
  (exists thr, nth_error (ths s) (length progs) = Some thr /\ t_pc thr = PRDone) \/
  exists t, enabled step s t = true.
Proof. exact rotator_exits_reach. Qed.
Print Assumptions C14_rotator_exits.

(* thread t has executed the prefix `ops` of its program; each of these calls recorded an
   allowed outcome: a result (Ok / NotFound) or ErrClosed *)
Theorem C14_racing_calls : forall w progs extra s,
  single_writer w progs extra -> reach progs extra s ->
  forall t th, nth_error (ths s) t = Some th -> t <> length progs ->
    exists ops, nth_error (progs ++ [] :: extra) t = Some (ops ++ t_prog th) /\
                Forall2 (fun o res => allowed o res = true) ops (t_outs th).
Proof. exact racing_calls. Qed.
Print Assumptions C14_racing_calls.

Theorem C14_racing_calls_clean : forall w progs extra s,
  single_writer w progs extra -> reach progs extra s ->
  forall t th res, nth_error (ths s) t = Some th -> t <> length progs -> In res (t_outs th) ->
    res <> Panic /\ res <> IOErr /\ res <> MetaErr.
Proof. exact outcomes_clean. Qed.
Print Assumptions C14_racing_calls_clean.

(* ErrSealed is never recorded: StoreLogs never finds the tail sealed *)
Theorem C14_no_errsealed : forall w progs extra s,
  single_writer w progs extra -> reach progs extra s ->
  forall t th res, nth_error (ths s) t = Some th -> In res (t_outs th) -> res <> ErrSealed.
Proof. exact no_errsealed_reach. Qed.
Print Assumptions C14_no_errsealed.

(* every recorded outcome is the call's result or ErrClosed -- nothing else *)
Theorem C14_racing_calls_strict : forall w progs extra s,
  single_writer w progs extra -> reach progs extra s ->
  forall t th, nth_error (ths s) t = Some th -> t <> length progs ->
    exists ops, nth_error (progs ++ [] :: extra) t = Some (ops ++ t_prog th) /\
                Forall2 (fun o res => allowed_strict o res = true) ops (t_outs th).
Proof. exact racing_calls_strict. Qed.
Print Assumptions C14_racing_calls_strict.

(* Close has been called and every caller is between calls: nothing leaks, nothing is
   closed twice *)
Theorem C14_handles_released : forall w progs extra s,
  single_writer w progs extra -> reach progs extra s -> g_closed (sh s) = true ->
  (forall t th, nth_error (ths s) t = Some th -> t <> length progs -> t_pc th = PIdle) ->
  (forall h, h < length (g_hnds (sh s)) -> h_closes (geth (sh s) h) = 1) /\ g_meta_closes (sh s) = 1.
Proof. exact handles_released. Qed.
Print Assumptions C14_handles_released.

(* ---- non-vacuity / the interesting window -------------------------------------------- *)
(* GetLog passes the closed check, Close runs to completion, GetLog loads the state:
   it finds the empty state and returns ErrClosed; Close returned Ok; handle closed once *)
Definition ex_progs : list (list op) := [[OGet 1]; [OClose]].
Definition ex_sched : list tid :=
  [0; 0] ++ repeat 1 24 ++ repeat 0 12.
Example C14_ex_window :
  let s := run step (init ex_progs [[OStore false 0 1]]) ([3;3;3;3;3;3;3;3;3;3;3;3;3;3;3] ++ ex_sched) in
  map t_outs (firstn 2 (ths s)) = [[ErrClosed]; [Ok 0]] /\
  map h_closes (g_hnds (sh s)) = [1] /\ g_meta_closes (sh s) = 1 /\ crashed s = false.
Proof. vm_compute. repeat split; reflexivity. Qed.

Example C14_ex_closed_flag :
  g_closed (sh (run step (init ex_progs []) [1])) = true.
Proof. vm_compute. reflexivity. Qed.

(* the invariant is satisfiable: it holds in the initial state of this configuration
   (no writer: w = 9; rotator = thread 2) *)
Example C14_ex_inv1_init : Inv1 9 2 (init ex_progs []).
Proof.
  assert (T : forall t th, nth_error (ths (init ex_progs [])) t = Some th ->
                           th = caller [OGet 1] \/ th = caller [OClose] \/ th = rotator).
  { intros [|[|[|t]]] th E; cbn in E; inversion E; auto. destruct t; discriminate. }
  split; try (intros t th E; destruct (T t th E) as [->|[->| ->]]; cbn; auto; fail).
  - exists rotator. split; reflexivity.
  - intros [|[|[|t]]] th E N; cbn in E; inversion E; try reflexivity; try congruence. destruct t; discriminate.
  - intros t th E Hm. destruct (T t th E) as [->|[->| ->]]; discriminate.
  - cbn. discriminate.
  - reflexivity.
  - cbn. lia.
  - reflexivity.
  - reflexivity.
  - reflexivity.
  - reflexivity.
  - cbn. lia.
  - cbn. discriminate.
  - intros c [L _]. cbn in L. lia.
  - cbn. intros _ [H|H]; discriminate.
  - cbn. discriminate.
  - cbn. discriminate.
Qed.

From RW Require Gen.Source Conc.HookTie.

(* translator tie: the schedule points that cut the code into the model's atomic steps are
   the verifPoint call sites of /repo's current source (regenerated into Gen/Source.v on
   every run), each in the function the model attributes it to *)
Theorem C14_schedule_points_tie :
  RW.Gen.Source.hook_points =
  List.map (fun p => (RW.Conc.HookTie.s2n (fst p), RW.Conc.HookTie.s2n (snd p))) RW.Conc.HookTie.model_points.
Proof. exact RW.Conc.HookTie.hook_points_tie. Qed.
Print Assumptions C14_schedule_points_tie.
