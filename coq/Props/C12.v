(* C12 -- Entry codec round-trips every log and never aliases pooled buffers.
   Only statements here; proofs live in the model files. *)
From RW Require Import Base.Bytes Fmt.Codec Fmt.CodecFacts Fmt.Alias Fmt.Frame Wal.Model Wal.CodecIdFacts Gen.Constants.
Open Scope N_scope.

(* every raft.Log a Go program can hold (wf_log: uint64 index/term, uint8 type,
   byte strings, time with sec in int64, 0 <= nsec < 10^9, zone UTC or an offset
   MarshalBinary accepts) encodes, and decoding the encoding gives it back *)
Theorem C12_decode_encode :
  forall l, wf_log l -> exists bs, encode_log l = Some bs /\ decode_log bs = Some l.
Proof. exact decode_encode. Qed.
Print Assumptions C12_decode_encode.

Theorem C12_uvarint_roundtrip :
  forall v rest, v < two64 ->
    get_uvarint (put_uvarint v ++ rest) = (v, Z.of_nat (length (put_uvarint v))).
Proof. exact uvarint_roundtrip. Qed.
Print Assumptions C12_uvarint_roundtrip.

(* non-vacuity: a concrete log with MaxUint64 index, a zone offset with seconds,
   nil extensions, satisfies wf_log, and the round trip computes *)
Definition ex_log : log :=
  {| l_index := 18446744073709551615; l_term := 128; l_type := 255;
     l_data := [1; 2; 255]; l_ext := [];
     l_time := {| t_sec := 63800000000; t_nsec := 999999999; t_zone := Some 3661%Z |} |}.
Example C12_ex_wf : wf_log ex_log.
Proof.
  unfold wf_log, ex_log, wf_time, two64, two63, len; cbn.
  repeat split; try lia; try (repeat constructor; unfold wf_byte; lia); try discriminate.
Qed.
Example C12_ex_roundtrip :
  match encode_log ex_log with Some bs => decode_log bs | None => None end = Some ex_log.
Proof. vm_compute. reflexivity. Qed.

(* ---- no aliasing of pooled buffers (ownership model, see Fmt/Alias.v; PARTIAL by
   nature: that the Go decoder copies is established by the harness oracle) ---- *)
Theorem C12_no_alias_partial :
  forall buf v, decode_vlog buf = Some v -> forall p p', view_of p v = view_of p' v.
Proof. exact decoded_log_independent_of_pool. Qed.
Print Assumptions C12_no_alias_partial.

Theorem C12_owning_decoder_is_the_decoder :
  forall buf p, option_map (view_of p) (decode_vlog buf) = decode_log buf.
Proof. exact decode_vlog_is_decode_log. Qed.
Print Assumptions C12_owning_decoder_is_the_decoder.

(* ---- codec identifiers at Open ---- *)
(* reserved ids (below FirstExternalCodecID, other than the built-in codec's) are rejected *)
Theorem C12_reserved_codec_rejected :
  forall c e, c_codec c < FirstExternalCodecID -> c_codec c <> BinaryCodecID ->
    open_wal c e = (OErr RErrOther, e).
Proof. exact reserved_codec_rejected. Qed.
Print Assumptions C12_reserved_codec_rejected.

(* a directory whose metadata lists a segment written with a different codec id is refused *)
Theorem C12_foreign_codec_refused :
  forall c e ps, dk_inited (e_disk e) = true -> e_fault e = None -> dk_meta (e_disk e) = Some ps ->
    (exists s, In s (ps_segs ps) /\ si_codec s <> c_codec c) ->
    exists r e', open_wal c e = (OErr r, e').
Proof. exact foreign_codec_refused. Qed.
Print Assumptions C12_foreign_codec_refused.
(* "a WAL created with a custom codec reopens with that same codec" is the OReopen case of
   seq_refinement_stmt (Props/C05.v) for every c with FirstExternalCodecID <= c_codec c. *)

(* ======================================================================== *)
(* BEGIN store/get (branch refine): corollary of the sequential refinement
   theorem (Props/C05.v) and of decode_encode *)
From RW Require Import Wal.Spec Wal.Hist Wal.SeqFactsMain Wal.SeqFactsCor.

(* After any history, a batch of storable logs (logs_ok: every field a Go raft.Log
   can hold, index >= 1, encoding within MaxEntrySize) that the contiguous-log
   specification accepts is acknowledged, and GetLog of each of its indexes then
   returns that very log: Index, Term, Type, Data, Extensions and AppendedAt. *)
Theorem C12_store_get :
  forall c os s0 ls, cfg_ok c -> Forall sop_ok os -> short_enough os -> initial c = Some s0 ->
  let s1 := snd (run_model c s0 os) in
  logs_ok ls -> frames_size ls < two30 ->
  spec_store (sp_log (snd (run_spec spec_init os))) ls <> None ->
  fst (step_model c s1 (OStore ls)) = ROk /\
  forall l, In l ls -> fst (step_model c (snd (step_model c s1 (OStore ls))) (OGet (l_index l))) = RLog l.
Proof. exact store_get. Qed.
Print Assumptions C12_store_get.

(* non-vacuity: the log of C12_ex_roundtrip's kind (zone offset with seconds, nil
   extensions, type 255) stored after a rotation and read back *)
Definition ex_slog (i : N) : log :=
  {| l_index := i; l_term := 128; l_type := 255; l_data := [1; 2; 255]; l_ext := [];
     l_time := {| t_sec := 63800000000; t_nsec := 999999999; t_zone := Some 3661%Z |} |}.
Example C12_ex_store_get :
  let c := {| c_seg_size := 128; c_codec := 1 |} in
  let os := [OStore [ex_slog 3; ex_slog 4; ex_slog 5; ex_slog 6]; ODelete 3 3] in
  let ls := [ex_slog 7; ex_slog 8] in
  forallb log_okb ls = true /\
  match initial c with
  | Some s0 =>
      let s1 := snd (run_model c s0 os) in
      let s2 := snd (step_model c s1 (OStore ls)) in
      (fst (step_model c s1 (OStore ls)), fst (step_model c s2 (OGet 8)), fst (step_model c s2 (OGet 3)))
  | None => (RErrOther, RErrOther, RErrOther)
  end = (ROk, RLog (ex_slog 8), RErrNotFound).
Proof. vm_compute. split; reflexivity. Qed.
(* END store/get *)
(* ======================================================================== *)
