(* C20 -- Metrics are declared and add up.  Statements only. *)
From RW Require Import Base.Bytes Gen.Facts Wal.MetricNames.
Open Scope N_scope.

(* ---- static half: names at every emitting call site (regenerated from the
   source of /repo on every run by the go/ast translator) ------------------- *)

(* Every call site of IncrementCounter / SetGauge in the non-test source of the
   wal and verifier packages passes a string literal that is declared, with the
   right kind, in that package's published MetricDefinitions; the definition
   tables have no duplicate names (also not across the two packages), so
   metrics.NewAtomicCollector and AtomicCollector never panic.  The domain is
   finite, so evaluation by the kernel is a proof. *)
Theorem C20_names_declared : names_declared = true.
Proof. exact names_declared_true. Qed.
Print Assumptions C20_names_declared.

Theorem C20_sites_sound :
  forall s, In s wal_sites ->
    match s with
    | Lit true n => exists d, In d wal_counters /\ d = n
    | Lit false n => exists d, In d wal_gauges /\ d = n
    | NonLit => False
    end.
Proof.
  apply site_declared_sound.
  pose proof names_declared_true as H. unfold names_declared in H.
  repeat (apply andb_prop in H; destruct H as [H ?]). exact H.
Qed.
Print Assumptions C20_sites_sound.

(* non-vacuity: the scan found call sites, among them the truncation counters *)
Example C20_ex_sites : (10 <=? N.of_nat (length wal_sites)) = true /\ (5 <=? N.of_nat (length vfy_sites)) = true.
Proof. vm_compute. split; reflexivity. Qed.
