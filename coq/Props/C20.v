(* C20 -- Metrics are declared and add up.  Statements only. *)
From RW Require Import Base.Bytes Gen.Facts Wal.MetricNames.
Open Scope N_scope.

(* ---- static half: names at every emitting call site (regenerated from the
   source of /repo on every run by the go/ast translator) ------------------- *)

(* Every call site of IncrementCounter / SetGauge in the non-test source of the
   wal and verifier packages passes a string literal that is declared, with the
   right kind, in that package's published MetricDefinitions; the definition
   tables have no duplicate names (also not across the two packages), so
   metrics.NewAtomicCollector and AtomicCollector never panic.  The domain is
   finite, so evaluation by the kernel is a proof. *)
Theorem C20_names_declared : names_declared = true.
Proof. exact names_declared_true. Qed.
Print Assumptions C20_names_declared.

Theorem C20_sites_sound :
  forall s, In s wal_sites ->
    match s with
    | Lit true n => exists d, In d wal_counters /\ d = n
    | Lit false n => exists d, In d wal_gauges /\ d = n
    | NonLit => False
    end.
Proof.
  apply site_declared_sound.
  pose proof names_declared_true as H. unfold names_declared in H.
  repeat (apply andb_prop in H; destruct H as [H ?]). exact H.
Qed.
Print Assumptions C20_sites_sound.

(* non-vacuity: the scan found call sites, among them the truncation counters *)
Example C20_ex_sites : (10 <=? N.of_nat (length wal_sites)) = true /\ (5 <=? N.of_nat (length vfy_sites)) = true.
Proof. vm_compute. split; reflexivity. Qed.

(* ======================================================================== *)
(* BEGIN dynamic half (branch refine): the counters add up.  Proofs:
   Wal/MetricsFacts.v on top of the sequential refinement (Props/C05.v). *)
From RW Require Import Fmt.Codec Fmt.Frame Wal.Model Wal.Spec Wal.Hist Wal.MetricsSpec Wal.MetricsFacts.

(* For every sequential history, the nine counters entries_written, entry_bytes_written,
   log_appends, entry_bytes_read, entries_read, head_truncations, tail_truncations,
   stable_gets, stable_sets of the model show the TRUE totals [true_totals os], which
   Wal/MetricsSpec.v computes from the contiguous-log specification alone: bytes =
   encoded sizes of the entries of accepted non-empty batches / of the entries found,
   truncations = number of entries each accepted DeleteRange removes from the
   specification log (head if mn <= first, else tail).  The four uint64 sums are
   equal modulo 2^64 (counters_show).  The tenth counter, segment_rotations, has its
   own truth (the persisted-metadata history): C20_rotations_true below. *)
Theorem C20_counters_true :
  forall c os s0, cfg_ok c -> Forall sop_ok os -> short_enough os -> initial c = Some s0 ->
  counters_show (e_m (ss_env (snd (run_model c s0 os)))) (true_totals os).
Proof. exact counters_true. Qed.
Print Assumptions C20_counters_true.

(* ... and exactly, when the true totals are below 2^64 *)
Theorem C20_counters_true_exact :
  forall c os s0, cfg_ok c -> Forall sop_ok os -> short_enough os -> initial c = Some s0 ->
  t_bytes_written (true_totals os) < two64 -> t_bytes_read (true_totals os) < two64 ->
  t_head_trunc (true_totals os) < two64 -> t_tail_trunc (true_totals os) < two64 ->
  counters_exact (e_m (ss_env (snd (run_model c s0 os)))) (true_totals os).
Proof. exact counters_true_exact. Qed.
Print Assumptions C20_counters_true_exact.

(* non-vacuity: 128-byte segments, rotations, a head truncation, a refused store, a
   tail truncation that removes the whole tail segment, and deleting the entire
   log while the tail is empty (the case in which head_truncations used to wrap) *)
Definition m_log (i : N) : log :=
  {| l_index := i; l_term := 7; l_type := 0; l_data := [i; 1; 2; 3; 4; 5; 6; 7; 8; 9];
     l_ext := []; l_time := {| t_sec := 63800000000; t_nsec := 5; t_zone := None |} |}.
Definition m_ops : list sop :=
  [ OStore [m_log 5; m_log 6]; OStore [m_log 7]; OStore [m_log 8; m_log 9]; OStore [m_log 10];
    OGet 6; OGet 4; ODelete 0 6; OStore [m_log 14]; OStore []; ODelete 10 100; OGet 10;
    OSet [107] [1] false; OSet [] [1] false; OGetS [107]; OReopen;
    OStore [m_log 10]; ODelete 8 8; ODelete 0 1000; OStore [m_log 3] ].
Example C20_ex_totals :
  true_totals m_ops =
  {| t_bytes_written := 240; t_entries_written := 8; t_appends := 6; t_bytes_read := 30; t_entries_read := 3;
     t_head_trunc := 6; t_tail_trunc := 1; t_stable_gets := 1; t_stable_sets := 2 |}.
Proof. vm_compute. reflexivity. Qed.
Example C20_ex_counters :
  let c := {| c_seg_size := 128; c_codec := 1 |} in
  match initial c with
  | Some s0 => let m := e_m (ss_env (snd (run_model c s0 m_ops))) in
               (m_bytes_written m, m_entries_written m, m_appends m, m_bytes_read m, m_entries_read m,
                m_head_trunc m, m_tail_trunc m, m_stable_gets m, m_stable_sets m, 2 <=? m_rotations m)
  | None => (0, 0, 0, 0, 0, 0, 0, 0, 0, false)
  end = (240, 8, 6, 30, 3, 6, 1, 1, 2, true).
Proof. vm_compute. reflexivity. Qed.

(* ---- segment_rotations --------------------------------------------------------
   Truth: the persisted-metadata history (Wal/MetricsSpec.v, is_rotation /
   trace_rotations).  The I/O trace of the run holds every MetaStore commit with the
   state it persisted; replaying the trace gives the previously persisted state and the
   segment files at that moment.  A commit is a ROTATION when it keeps all segments but
   the last, turns the last one -- the unsealed tail t -- into a sealed segment of the
   same identity whose MaxIndex is the last entry t's file holds, and appends one new
   empty unsealed tail with the next id and BaseIndex = that MaxIndex + 1.  Nothing in
   this looks at the counter's increment site.  The other committers are told apart and
   the theorem below could not hold otherwise: head truncations, the reset of an empty
   first segment and tail truncations that drop whole segments never make the list
   longer (C20_rotation_longer); a tail truncation inside the tail commits the same
   shape but seals the tail BELOW the last entry of its file (C20_ex_tail_cut); Open
   completing an interrupted rotation commits exactly a rotation, but wal.go counts
   segment_rotations in rotateSegmentLocked only -- Open's commits belong to no
   lifetime, the metrics collector is per Open, and so the statement is per lifetime.

   For every sequential history: the rotation counter of the current lifetime (the
   model keeps one set of counters for the whole history, so: the difference to its
   value when the last Close;Open returned; for a history without Close;Open that
   value is 0) equals the number of rotations among the actions the trace records
   after that Open. *)
From RW Require Import Wal.RotFacts.
Theorem C20_rotations_true :
  forall c os s0, cfg_ok c -> Forall sop_ok os -> short_enough os -> initial c = Some s0 ->
  let s1 := snd (run_model c s0 (fst (last_life os))) in     (* the state the last Open returned *)
  let s := snd (run_model c s0 os) in
  m_rotations (e_m (ss_env s)) =
  m_rotations (e_m (ss_env s1)) + trace_rotations (length (e_acts (ss_env s1))) (e_acts (ss_env s)).
Proof. exact rotations_true. Qed.
Print Assumptions C20_rotations_true.

(* the same for any stretch of calls without a Close;Open, wherever it starts *)
Theorem C20_rotations_stretch :
  forall c os1 os2 s0, cfg_ok c -> Forall sop_ok (os1 ++ os2) -> short_enough (os1 ++ os2) ->
  initial c = Some s0 -> Forall (fun o => o <> OReopen) os2 ->
  let s1 := snd (run_model c s0 os1) in
  let s2 := snd (run_model c s0 (os1 ++ os2)) in
  m_rotations (e_m (ss_env s2)) =
  m_rotations (e_m (ss_env s1)) + trace_rotations (length (e_acts (ss_env s1))) (e_acts (ss_env s2)).
Proof. exact rotations_segment. Qed.
Print Assumptions C20_rotations_stretch.

(* a rotation makes the persisted segment list exactly one longer *)
Theorem C20_rotation_longer :
  forall d old new, is_rotation d old new = true -> length (ps_segs new) = S (length (ps_segs old)).
Proof. exact is_rotation_len. Qed.
Print Assumptions C20_rotation_longer.

(* non-vacuity.  (counter now, counter when the last Open returned, rotations the trace
   shows since then, number of actions, number of actions at that Open) *)
Definition m_rot_report (c : cfg) (os : list sop) : N * N * N * N * N :=
  match initial c with
  | Some s0 => let s := snd (run_model c s0 os) in
               let s1 := snd (run_model c s0 (fst (last_life os))) in
               (m_rotations (e_m (ss_env s)), m_rotations (e_m (ss_env s1)),
                trace_rotations (length (e_acts (ss_env s1))) (e_acts (ss_env s)),
                llen (e_acts (ss_env s)), llen (e_acts (ss_env s1)))
  | None => (0, 0, 0, 0, 0)
  end.
(* m_ops: both rotations happen before the Close;Open, none after it *)
Example C20_ex_rotations :
  m_rot_report {| c_seg_size := 128; c_codec := 1 |} m_ops = (2, 2, 0, 35, 23) /\
  m_rot_report {| c_seg_size := 128; c_codec := 1 |} (firstn 14 m_ops) = (2, 0, 2, 23, 3).
Proof. vm_compute. split; reflexivity. Qed.
(* every store seals its segment; the Close;Open comes while a rotation is pending and
   Open completes it: over the whole trace 7 commits have the shape of a rotation, the
   implementation counted 4 + 2, and 2 is what the trace shows since the last Open *)
Definition m_ops2 : list sop :=
  [ OStore [m_log 5; m_log 6]; OStore [m_log 7]; OStore [m_log 8]; OStore [m_log 9]; OStore [m_log 10];
    OStore [m_log 11]; ODelete 11 11; OStore [m_log 11]; OStore [m_log 12]; OStore [m_log 13];
    OStore [m_log 14]; OReopen; OStore [m_log 15]; OStore [m_log 16]; OStore [m_log 17]; OStore [m_log 18];
    ODelete 0 12; ODelete 17 20 ].
Example C20_ex_rotations2 :
  m_rot_report {| c_seg_size := 128; c_codec := 1 |} m_ops2 = (6, 4, 2, 60, 39) /\
  (match initial {| c_seg_size := 128; c_codec := 1 |} with
   | Some s0 => trace_rotations 0 (e_acts (ss_env (snd (run_model {| c_seg_size := 128; c_codec := 1 |} s0 m_ops2))))
   | None => 0
   end) = 7.
Proof. vm_compute. split; reflexivity. Qed.
(* a tail truncation inside the tail segment seals it and adds a new tail, like a
   rotation -- but at index 6 while the file holds 5..7: not counted, by either side *)
Example C20_ex_tail_cut :
  let c := {| c_seg_size := 4096; c_codec := 1 |} in
  (match initial c with
   | Some s0 => let s := snd (run_model c s0 [ OStore [m_log 5; m_log 6; m_log 7]; ODelete 7 9 ]) in
                (m_rotations (e_m (ss_env s)), trace_rotations 0 (e_acts (ss_env s)),
                 match dk_meta (e_disk (ss_env s)) with
                 | Some ps => map (fun x => (si_base x, si_max x, si_sealed x)) (ps_segs ps)
                 | None => []
                 end)
   | None => (9, 9, [])
   end) = (0, 0, [(5, 6, true); (7, 0, false)]).
Proof. vm_compute. reflexivity. Qed.
(* END dynamic half *)
(* ======================================================================== *)
