(* C05 -- Sequential behaviour equals a simple contiguous-log model.
   INTERIM file: the full statement is `seq_refinement_stmt` of Wal/Hist.v; its
   proof is in progress (Wal/SeqInv.v).  Until it lands the property is carried
   by the correspondence stream `seqapi` (model = implementation on generated
   sequences) together with the evaluation of the statement on random histories
   of the model, and by the independent reference-log oracle of the harness. *)
From RW Require Import Base.Bytes Fmt.Codec Fmt.Frame Wal.Model Wal.Spec Wal.Hist Wal.BasicFacts.
Open Scope N_scope.

Definition C05_full_statement : Prop := seq_refinement_stmt.

(* proved fragment: the initial state refines the empty log *)
Theorem C05_initial_refines_partial :
  forall c, cfg_ok c ->
  exists w e, open_wal c fresh_env = (OOk w, e) /\ abs w (e_disk e) = sl_empty /\
              dir_exact (e_disk e) = true /\ dk_stable (e_disk e) = [] /\
              first_index (st_segs w) (st_tail w) = 0 /\ last_index (st_segs w) (st_tail w) = 0.
Proof. exact first_open. Qed.
Print Assumptions C05_initial_refines_partial.

(* the statement evaluated on a concrete run with rotation, head and tail truncation *)
Definition ex_log (i : N) (n : nat) : log :=
  {| l_index := i; l_term := 1; l_type := 0; l_data := repeat 7 n; l_ext := [];
     l_time := {| t_sec := 63800000000; t_nsec := 0; t_zone := None |} |}.
Definition ex_ops : list sop :=
  [OStore [ex_log 5 40; ex_log 6 40]; OStore [ex_log 7 60]; OGet 6; OStore [ex_log 9 1];
   ODelete 5 5; OFirst; OStore [ex_log 8 10; ex_log 9 10]; ODelete 9 20; OLast; OReopen;
   OGet 5; OGet 6; OGet 8; ODelete 7 7; OStore [ex_log 9 3]; ODelete 0 100; OFirst; OStore [ex_log 3 1]; OGet 3].
Example C05_ex_run :
  let c := {| c_seg_size := 128; c_codec := 1 |} in
  match initial c with
  | Some s0 =>
      let '(rs, s1) := run_model c s0 ex_ops in
      let '(rs', sp1) := run_spec {| sp_log := sl_empty; sp_kv := [] |} ex_ops in
      forallb (fun p => result_eqb (fst p) (snd p)) (combine (map res_class rs) rs')
      && slog_eqb (abs (ss_wal s1) (e_disk (ss_env s1))) (sp_log sp1)
      && Nat.eqb (length rs) 19
  | None => false
  end = true.
Proof. vm_compute. reflexivity. Qed.
