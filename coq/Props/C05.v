(* C05 -- The log is contiguous and reads agree with it: every sequential
   history of StoreLogs / DeleteRange / GetLog / FirstIndex / LastIndex /
   Set / Get / Close+Open calls returns, call by call, what the contiguous-log
   specification (Wal/Spec.v) returns, and leaves the same abstract state.
   Only statements here; proofs live in Wal/SeqFacts*.v (invariant: Wal/SeqInv.v). *)
From RW Require Import Base.Bytes Fmt.Codec Fmt.Frame Wal.Model Wal.Spec Wal.Hist Wal.BasicFacts
  Wal.SeqFactsMain Wal.SeqFactsCor.
Open Scope N_scope.

(* the refinement itself (statement: Wal/Hist.v seq_refinement_stmt) *)
Theorem C05_refines_spec : seq_refinement_stmt.
Proof. exact seq_refinement. Qed.
Print Assumptions C05_refines_spec.

(* the first Open on an empty directory succeeds and yields the empty log, an
   exact directory and an empty stable store *)
Theorem C05_initial_refines :
  forall c, cfg_ok c ->
  exists w e, open_wal c fresh_env = (OOk w, e) /\ abs w (e_disk e) = sl_empty /\
              dir_exact (e_disk e) = true /\ dk_stable (e_disk e) = [] /\
              first_index (st_segs w) (st_tail w) = 0 /\ last_index (st_segs w) (st_tail w) = 0.
Proof. exact first_open. Qed.
Print Assumptions C05_initial_refines.

(* After any history, GetLog i returns the stored entry exactly when the log is
   not empty and first <= i <= last, and ErrNotFound otherwise; the entry
   returned carries index i.  (lg = the specification's log after the history) *)
Theorem C05_get_in_range :
  forall c os s0 i, cfg_ok c -> Forall sop_ok os -> short_enough os -> initial c = Some s0 ->
  let s1 := snd (run_model c s0 os) in
  let lg := sp_log (snd (run_spec spec_init os)) in
  fst (step_model c s1 (OGet i)) =
    match spec_get lg i with Some l => RLog l | None => RErrNotFound end /\
  (forall l, spec_get lg i = Some l -> l_index l = i /\ log_ok l) /\
  (sl_is_empty lg = false -> (spec_get lg i <> None <-> sl_first lg <= i <= spec_last lg)) /\
  (sl_is_empty lg = true -> spec_get lg i = None).
Proof. exact get_in_range. Qed.
Print Assumptions C05_get_in_range.

(* Close followed by Open succeeds and changes neither the log nor the stable store *)
Theorem C05_reopen_id :
  forall c os s0, cfg_ok c -> Forall sop_ok os -> short_enough os -> initial c = Some s0 ->
  let s1 := snd (run_model c s0 os) in
  fst (step_model c s1 OReopen) = ROk /\
  s_abs (snd (step_model c s1 OReopen)) = s_abs s1 /\ s_kv (snd (step_model c s1 OReopen)) = s_kv s1.
Proof. exact reopen_id. Qed.
Print Assumptions C05_reopen_id.

(* A StoreLogs / DeleteRange the specification refuses (non-consecutive batch,
   gap or overlap with the last index, range strictly inside the log) returns
   an error and changes nothing *)
Theorem C05_errors_change_nothing :
  forall c os s0 o, cfg_ok c -> Forall sop_ok os -> short_enough os -> initial c = Some s0 -> sop_ok o ->
  let s1 := snd (run_model c s0 os) in
  let lg := sp_log (snd (run_spec spec_init os)) in
  match o with
  | OStore ls => spec_store lg ls = None
  | ODelete mn mx => spec_delete lg mn mx = None
  | _ => False
  end ->
  res_class (fst (step_model c s1 o)) = RErrOther /\
  s_abs (snd (step_model c s1 o)) = lg /\ s_kv (snd (step_model c s1 o)) = s_kv s1.
Proof. exact errors_change_nothing. Qed.
Print Assumptions C05_errors_change_nothing.

(* An empty log (fresh, or emptied by DeleteRange) accepts a consecutive batch
   starting at any index >= 1 *)
Theorem C05_empty_accepts_any_start :
  forall c os s0 l0 rest, cfg_ok c -> Forall sop_ok os -> short_enough os -> initial c = Some s0 ->
  let s1 := snd (run_model c s0 os) in
  let ls := l0 :: rest in
  sl_is_empty (sp_log (snd (run_spec spec_init os))) = true ->
  logs_ok ls -> frames_size ls < two30 -> consecutive (l_index l0) ls = true ->
  fst (step_model c s1 (OStore ls)) = ROk /\
  s_abs (snd (step_model c s1 (OStore ls))) = {| sl_first := l_index l0; sl_ents := ls |}.
Proof. exact empty_accepts_any_start. Qed.
Print Assumptions C05_empty_accepts_any_start.

(* ---- non-vacuity: a concrete run with 128-byte segments (an entry frame is 40
   bytes, so a segment seals after three entries): two rotations, a head
   truncation inside a sealed segment, refused calls, a tail truncation that
   drops the tail segment, reopen, emptying the log and restarting at index 3 *)
Definition ex_c : cfg := {| c_seg_size := 128; c_codec := 1 |}.
Definition ex_log (i : N) : log :=
  {| l_index := i; l_term := 7; l_type := 0; l_data := [i; 1; 2; 3; 4; 5; 6; 7; 8; 9];
     l_ext := []; l_time := {| t_sec := 63800000000; t_nsec := 5; t_zone := None |} |}.
Definition ex_ops : list sop :=
  [ OStore [ex_log 5; ex_log 6]; OStore [ex_log 7]; OStore [ex_log 8; ex_log 9]; OStore [ex_log 10];
    OStore [ex_log 11; ex_log 12]; OFirst; OLast; OGet 6; OGet 4;
    ODelete 0 6; OFirst; OGet 6; OGet 7;
    OStore [ex_log 14];                (* refused: gap *)
    ODelete 8 9;                       (* refused: middle of the log *)
    ODelete 11 100; OLast; OGet 11; OGet 10;
    OSet [107] [1; 2] false; OGetS [107];
    OReopen; OFirst; OLast; OGet 9;
    OStore [ex_log 11]; OLast; ODelete 1 1000; OFirst; OLast; OStore [ex_log 3]; OFirst ].

Example C05_ex_cfg_ok : cfg_ok ex_c.
Proof. unfold cfg_ok, ex_c, two64, two30; cbn. split; [left; reflexivity|lia]. Qed.
Example C05_ex_ops_ok : forallb (fun o => match o with
                                           | OStore ls => forallb log_okb ls && (frames_size ls <? two30)
                                           | ODelete _ mx => mx + 1 <? two64
                                           | OGet i => i <? two64
                                           | OSet k v _ => wf_bytesb k && wf_bytesb v && (len v <? two31)
                                           | _ => true end) ex_ops = true.
Proof. vm_compute. reflexivity. Qed.
Example C05_ex_initial : exists s0, initial ex_c = Some s0.
Proof. vm_compute. eexists. reflexivity. Qed.

Definition ex_s0 : sstate :=
  match initial ex_c with Some s => s | None => {| ss_wal := close (fst (rotate ex_c
    {| st_next_id := 0; st_segs := []; st_tail := None; st_rotate := None; st_failed := true; st_closed := true |}
    fresh_env)); ss_env := fresh_env |} end.

(* results, abstract state and stable store of the model = those of the specification *)
Example C05_ex_run :
  (let '(rs, s1) := run_model ex_c ex_s0 ex_ops in (map res_class rs, s_abs s1, s_kv s1)) =
  (let '(rs', sp1) := run_spec spec_init ex_ops in (rs', sp_log sp1, sp_kv sp1)).
Proof. vm_compute. reflexivity. Qed.

(* the observable results of that run, spelled out *)
Example C05_ex_results :
  map res_class (fst (run_model ex_c ex_s0 ex_ops)) =
  [ROk; ROk; ROk; ROk; ROk; RVal 5; RVal 12; RLog (ex_log 6); RErrNotFound;
   ROk; RVal 7; RErrNotFound; RLog (ex_log 7);
   RErrOther; RErrOther;
   ROk; RVal 10; RErrNotFound; RLog (ex_log 10);
   ROk; RBytes [1; 2];
   ROk; RVal 7; RVal 10; RLog (ex_log 9);
   ROk; RVal 11; ROk; RVal 0; RVal 0; ROk; RVal 3].
Proof. vm_compute. reflexivity. Qed.

(* after the first nine calls the log spans three segments, two of them sealed
   by rotation; after the first nineteen the head segment has MinIndex 7 and the
   tail segment was replaced by tail truncation *)
Example C05_ex_segments :
  let s9 := snd (run_model ex_c ex_s0 (firstn 9 ex_ops)) in
  let s19 := snd (run_model ex_c ex_s0 (firstn 19 ex_ops)) in
  map (fun s => (si_base s, si_min s, si_max s, si_sealed s)) (st_segs (ss_wal s9)) =
    [(5, 5, 7, true); (8, 8, 10, true); (11, 11, 0, false)] /\
  m_rotations (e_m (ss_env s9)) = 2 /\
  map (fun s => (si_base s, si_min s, si_max s, si_sealed s)) (st_segs (ss_wal s19)) =
    [(5, 7, 7, true); (8, 8, 10, true); (11, 11, 0, false)] /\
  map si_id (st_segs (ss_wal s9)) = [1; 2; 3] /\ map si_id (st_segs (ss_wal s19)) = [1; 2; 4].
Proof. vm_compute. repeat split; reflexivity. Qed.
