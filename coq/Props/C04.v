(* C04 -- Truncations are atomic and durable across crashes.
   INTERIM file: the full statement is `crash_refinement_stmt` of Wal/Hist.v
   (all histories of calls, power losses at any I/O boundary with any adversary
   choice, nested crashes inside recovery, reopen cycles; see its comment for how
   it covers C04).  Its proof is in progress; until it lands only the fragments
   below are proved and the property is otherwise carried by the executable
   acceptance predicate `hist_run`/`hs_ok` (evaluated on random histories of
   the model on every run) and by the crash-image enumeration on the
   implementation (stream `crash`). *)
From RW Require Import Base.Bytes Fmt.Codec Fmt.Frame Wal.Model Wal.Spec Wal.Hist Wal.BasicFacts.
Open Scope N_scope.

(* the full statement (not yet a theorem) *)
Definition C04_full_statement : Prop := crash_refinement_stmt.

(* proved fragment: the metadata record (which alone decides which segments and which
   index ranges are part of the log) is never changed by a power loss: a truncation is
   committed by exactly one atomic metadata action and a crash falls before or after it *)
Theorem C04_metadata_atomic_partial :
  forall c d, dk_meta (crash_disk c d) = dk_meta d /\ dk_stable (crash_disk c d) = dk_stable d.
Proof. exact crash_disk_meta. Qed.
Print Assumptions C04_metadata_atomic_partial.
