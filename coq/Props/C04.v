(* C04 -- Truncations are atomic and durable.
   Only statements here; proofs in Wal/Crash*.v.  Histories, guards and the crash
   adversary are described in Props/C01.v.  Every crash point is covered BY PROOF. *)
From RW Require Import Base.Bytes Fmt.Codec Fmt.Frame Wal.Model Wal.Spec Wal.Hist
  Wal.CrashInv Wal.CrashCalls10 Wal.CrashThm Wal.CrashExamples Wal.CrashExamplesFacts.
Open Scope N_scope.

Theorem C04_crash_refinement : crash_refinement_stmt.
Proof. exact crash_refinement. Qed.
Print Assumptions C04_crash_refinement.

(* An interrupted DeleteRange (crash after ANY number j of its I/O actions: the rotation
   it waits for, the force-seal write and fsync, the metadata commit, the creation of
   the new tail, each file deletion; any adversary choice) is, after recovery, applied
   in full or not at all -- stated for every call o, in particular o = ODelete mn mx. *)
Theorem C04_interrupted_delete_atomic :
  forall c steps s o j cc d,
    (cfg_ok c /\ Forall hstep_wf (steps ++ [HCrashIn o j cc]) /\ short_enough (steps ++ [HCrashIn o j cc])) ->
    hs_mode (hist_run c hist_init steps) = Up s ->
    hs_mode (hist_run c hist_init (steps ++ [HCrashIn o j cc])) = Down d ->
    exists w e, open_wal c (env_of d) = (OOk w, e) /\
      ({| sp_log := abs w (e_disk e); sp_kv := dk_stable (e_disk e) |} = hs_acked (hist_run c hist_init steps) \/
       {| sp_log := abs w (e_disk e); sp_kv := dk_stable (e_disk e) |}
         = snd (step_spec (hs_acked (hist_run c hist_init steps)) o)) /\
      dir_exact (e_disk e) = true.
Proof. exact interrupted_call_atomic. Qed.
Print Assumptions C04_interrupted_delete_atomic.

(* A DeleteRange(mn,mx) that returned nil stays applied: after ANY continuation of calls,
   crashes and reopens in which index i (mn <= i <= mx) is not stored again, GetLog(i)
   returns ErrNotFound (and every Open on the way succeeds). *)
Theorem C04_acked_delete_stays :
  forall c pre mn mx post s i,
    (cfg_ok c /\ Forall hstep_wf (pre ++ HOp (ODelete mn mx) :: post) /\
     short_enough (pre ++ HOp (ODelete mn mx) :: post)) ->
    hs_mode (hist_run c hist_init pre) = Up s ->
    fst (step_model c s (ODelete mn mx)) = ROk -> mn <= i -> i <= mx ->
    Forall (fun st => ~ restores i st) post ->
    match hs_mode (hist_run c hist_init (pre ++ HOp (ODelete mn mx) :: post)) with
    | Up s' => fst (get_log (ss_wal s') i (ss_env s')) = RErrNotFound
    | Down d => exists w e, open_wal c (env_of d) = (OOk w, e)
    end.
Proof. exact acked_delete_stays. Qed.
Print Assumptions C04_acked_delete_stays.

(* Entries appended after a tail truncation are never displaced on recovery by older
   entries at the same indexes: this is C01's theorem with `pre` containing the
   truncation -- whatever is recovered at the re-used index is the entry whose StoreLogs
   returned nil last, identical in every field (the old entry is still in the sealed
   file of the truncated segment, beyond its recorded MaxIndex, and in files that are
   unlisted garbage; neither is ever read). *)
Theorem C04_no_displacement :
  forall c pre ls post s k l,
    (cfg_ok c /\ Forall hstep_wf (pre ++ HOp (OStore ls) :: post) /\ short_enough (pre ++ HOp (OStore ls) :: post)) ->
    hs_mode (hist_run c hist_init pre) = Up s ->
    fst (step_model c s (OStore ls)) = ROk ->
    nth_error ls k = Some l ->
    Forall (fun st => ~ touches (l_index l) st) post ->
    match hs_mode (hist_run c hist_init (pre ++ HOp (OStore ls) :: post)) with
    | Up s' => fst (get_log (ss_wal s') (l_index l) (ss_env s')) = RLog l /\
               exists fi la, first_index_op (ss_wal s') = RVal fi /\ last_index_op (ss_wal s') = RVal la /\
                             fi <= l_index l /\ l_index l <= la
    | Down d => exists w e, open_wal c (env_of d) = (OOk w, e)
    end.
Proof. exact acked_entry_survives. Qed.
Print Assumptions C04_no_displacement.

(* ---- non-vacuity (segment size 256: entries 1..3 in the unsealed tail) --------------
   D: DeleteRange(3,3) interrupted after the force-seal write+fsync, before the metadata
      commit: the crash image lists the segment as unsealed while its file is sealed;
      nothing is truncated (LastIndex 3 after Open), the WAL stays writable (index 4).
   E: interrupted after the commit (new tail file not yet created): the truncation is
      applied (LastIndex 2); index 3 is re-appended with term 7; after another crash
      GetLog(3) has term 7, not the old term 1.
   G: head truncation interrupted after its commit, before the file deletion. *)
Example C04_ex_guards :
  hist_ok cfg256 hist_trunc_after_forceseal /\ hist_ok cfg256 hist_trunc_after_commit /\ hist_ok cfg128 hist_head_trunc.
Proof. exact (conj hist_trunc_after_forceseal_ok (conj hist_trunc_after_commit_ok hist_head_trunc_ok)). Qed.
Example C04_ex_after_forceseal :
  final_ok cfg256 hist_trunc_after_forceseal = true /\
  crash_shape cfg256 (firstn 3 hist_trunc_after_forceseal) = ([(1, false)], [((1, 0), true)]) /\
  final_last cfg256 (firstn 5 hist_trunc_after_forceseal) = 3 /\
  final_last cfg256 hist_trunc_after_forceseal = 4.
Proof. vm_compute. repeat split; reflexivity. Qed.
Example C04_ex_after_commit :
  final_ok cfg256 hist_trunc_after_commit = true /\
  crash_shape cfg256 (firstn 3 hist_trunc_after_commit) = ([(1, true); (3, false)], [((1, 0), true)]) /\
  final_last cfg256 (firstn 5 hist_trunc_after_commit) = 2 /\
  final_term cfg256 hist_trunc_after_commit 3 = Some 7 /\ final_last cfg256 hist_trunc_after_commit = 3.
Proof. vm_compute. repeat split; reflexivity. Qed.
Example C04_ex_head_truncation :
  final_ok cfg128 hist_head_trunc = true /\ final_first cfg128 hist_head_trunc = 3 /\
  crash_shape cfg128 (firstn 5 hist_head_trunc) = ([(3, false)], [((1, 0), true); ((3, 1), false)]).
Proof. vm_compute. repeat split; reflexivity. Qed.
