(* Link -- the two models of a segment file are one: theorems relating the byte
   level L1 (Seg/Writer.v, Recover.v, Reader.v, SegAbs.v) to the abstract files
   L2 (Wal/Model.v: dfile, wseg, seg_append, seg_force_seal, seg_recover,
   seg_read, crash_file) that every WAL-level theorem (C01-C05, C08, C09, C13,
   C20) is about.  Not one of the 20 properties: it replaces the step "L2's
   files behave like the byte-level files", which used to rest on the L1 law
   plus trace testing, by theorems.  Only statements here; definitions in
   Link/Abs.v, proofs in Link/AbsFacts1..4.v.  Sections 1-4: one file.
   Sections 5-6 (definitions Link/Disk.v, Link/Compose.v; proofs
   Link/DiskFacts1..3.v, Link/ComposeFacts1..7.v): whole directories (every
   byte-level action / crash outcome of a disk corresponds to L2's), restarts
   and failed fsyncs, and the composition with the WAL operations and the crash
   histories of crash_refinement by a lock-step run of the byte disk.
   Section 7 (Link/IndexStart*.v): the IndexStart recorded in the metadata is
   the index start of the file, in every state of every accepted history, hence
   GetLog down to bytes without side hypothesis (Link_get_log).  Section 8
   (Link/FaultDisk*.v, FaultLink*.v, FaultIS*.v): the histories with injected
   I/O errors of Wal/FaultHist.v (C10) at byte level -- stale bytes behind the
   valid chain, restarts re-establishing "image, then zeros", GetLog and the
   nominal state of fault_safety from bytes.

   Vocabulary (Link/Abs.v):
     enc l                 the bytes stored for record l (its BinaryCodec encoding)
     ents ls               the L1 batch (index, payload) of the records ls
     rep info bs f         the abstract file f represents the byte image
                           [image info bs] of the committed L1 batches bs
     rep_p info bs b f     ... with the batch b written behind it, not yet synced
     cur_rep info bs f     f as a reader / a restarted process sees it (pending
                           batch included) represents [image info bs]
     rep_w w1 w2           the numeric writer w2 represents the byte writer w1
     res_abs, abs_acts     L1 results / I/O actions as L2 sees them
     linked ...            all of it, as an invariant of a file's life
   Guards: encs_ok (payload bytes < 256, length <= MaxEntrySize; implied by
   the WAL-level log_ok: Link_log_ok_enc_ok), hdr_wf (header fields < 2^64),
   files below 2^32 bytes (the code's uint32 offsets), consec (the batch has
   consecutive indexes: StoreLogs checks that before calling the segment). *)
From RW Require Import Base.Bytes Base.BytesFacts Base.Crc32c Fmt.Codec Fmt.Frame
     Seg.Writer Seg.Recover Seg.Reader Seg.SegAbs Seg.WriterFacts Seg.RecoverFacts Seg.ChainFacts
     Wal.Model Wal.Spec Wal.Hist Wal.CrashInv Wal.CrashGlue
     Link.Abs Link.AbsFacts1 Link.AbsFacts2 Link.AbsFacts3 Link.AbsFacts4
     Link.Disk Link.DiskFacts1 Link.DiskFacts2 Link.DiskFacts3
     Link.Compose Link.ComposeFacts1 Link.ComposeFacts2 Link.ComposeFacts3 Link.ComposeFacts4
     Link.ComposeFacts5 Link.ComposeFacts6 Link.ComposeFacts7
     Link.IndexStart Link.IndexStartFacts1 Link.IndexStartFacts2 Link.IndexStartFacts3 Wal.CrashExamples
     Seg.FailFacts Wal.FaultHist Wal.FaultInv Wal.FaultThm
     Link.FaultDisk Link.FaultDiskFacts1 Link.FaultDiskFacts2 Link.FaultDiskFacts3 Link.FaultDiskFacts4
     Link.FaultLink Link.FaultLinkFacts1 Link.FaultLinkFacts2 Link.FaultLinkFacts3
     Link.FaultIS Link.FaultISFacts1 Link.FaultISFacts2 Link.FaultISFacts3 Link.FaultExamples
     Run.RunSeg Run.RunSegFacts Gen.Constants.
Open Scope N_scope.

(* ================================================================== *)
(* 1. Writer simulation                                                 *)

(* Append, no fault.  From corresponding writers, L1 [append] on the encoded
   batch and L2 [seg_append] return corresponding results (ok / sealed / too
   big / non-monotonic alike) and corresponding writers, and L2's environment
   is obtained by performing the abstraction of L1's actions: AWrite at the
   offset of the WWrite with the length of the bytes written, then ASync.  No
   size guard is needed: the uint32 arithmetic of both models is the same. *)
Theorem Link_append_sim :
  forall w1 w2 ls e,
    rep_w w1 w2 -> consec ls -> e_fault e = None ->
    exists r w1' acts w2',
      append w1 (ents ls) FNone = (r, w1', acts) /\
      seg_append w2 ls e = (res_abs r, w2', do_acts e (abs_acts (ws_name w2) (pb_of ls w1') acts)) /\
      rep_w w1' w2' /\
      (acts = [] \/ exists buf, acts = [WWrite (ws_off w2) buf; WSync]).
Proof. exact append_sim. Qed.
Print Assumptions Link_append_sim.

(* Append under any fault position.  x0 = the fault-free L1 run (it fixes the
   intended actions), x = the L1 run under the fault matching L2's counter
   (0 = the write fails, 1 = the fsync fails): same result, corresponding
   writers (both rolled back on a fault), L2 performs the intended actions up
   to the failing one. *)
Theorem Link_append_sim_faults :
  forall w1 w2 ls e,
    rep_w w1 w2 -> consec ls ->
    let x0 := append w1 (ents ls) FNone in
    let x := append w1 (ents ls) (wfault_of (e_fault e)) in
    exists w2',
      seg_append w2 ls e =
        (res_abs (fst (fst x)), w2',
         do_acts e (abs_acts (ws_name w2) (pb_of ls (snd (fst x0))) (snd x0))) /\
      rep_w (snd (fst x)) w2'.
Proof. exact append_sim_gen. Qed.
Print Assumptions Link_append_sim_faults.

Theorem Link_force_seal_sim :
  forall w1 w2 e,
    rep_w w1 w2 -> e_fault e = None ->
    exists r w1' acts w2',
      force_seal w1 FNone = (r, w1', acts) /\
      seg_force_seal w2 e = (res_abs r, w2', do_acts e (abs_acts (ws_name w2) (pb_of [] w1') acts)) /\
      rep_w w1' w2'.
Proof. exact force_seal_sim. Qed.
Print Assumptions Link_force_seal_sim.

Theorem Link_force_seal_sim_faults :
  forall w1 w2 e,
    rep_w w1 w2 ->
    let x0 := force_seal w1 FNone in
    let x := force_seal w1 (wfault_of (e_fault e)) in
    exists w2',
      seg_force_seal w2 e =
        (res_abs (fst (fst x)), w2',
         do_acts e (abs_acts (ws_name w2) (pb_of [] (snd (fst x0))) (snd x0))) /\
      rep_w (snd (fst x)) w2'.
Proof. exact force_seal_sim_gen. Qed.
Print Assumptions Link_force_seal_sim_faults.

(* a SHORT write (Seg/Writer.v FWriteShort: WriteAt puts the first half of the buffer
   and returns an error) is not among wfault_of's faults: at L2 a failed AWrite has no
   effect on the abstract file.  Result and writer of the L1 operation are those of the
   write that fails outright (so the two theorems above with fault count 0 hold of it
   verbatim); the only difference is the half buffer left behind the image, stale bytes
   that readers never look at and that recovery discards (Props/C10.v, block "byte
   level").  The L2 correspondence itself is stated for FWrite / FSync only. *)
Theorem Link_append_short_as_write :
  forall w es,
    fst (append w es FWriteShort) = fst (append w es FWrite) /\
    (snd (append w es FWriteShort) = [] \/
     exists off buf, snd (append w es FNone) = [WWrite off buf; WSync] /\
                     snd (append w es FWriteShort) = [WWrite off (firstn (length buf / 2) buf)]).
Proof. exact append_short_as_write. Qed.
Print Assumptions Link_append_short_as_write.

Theorem Link_force_seal_short_as_write :
  forall w,
    fst (force_seal w FWriteShort) = fst (force_seal w FWrite) /\
    (snd (force_seal w FWriteShort) = [] \/
     exists off buf, snd (force_seal w FNone) = [WWrite off buf; WSync] /\
                     snd (force_seal w FWriteShort) = [WWrite off (firstn (length buf / 2) buf)]).
Proof. exact force_seal_short_as_write. Qed.
Print Assumptions Link_force_seal_short_as_write.

(* the writers Create hands out correspond *)
Theorem Link_rep_w_init : forall info, rep_w (init_empty info) (new_wseg info).
Proof. exact rep_w_init. Qed.
Print Assumptions Link_rep_w_init.

(* One commit on the files.  A successful L1 operation on the writer of the
   image of bs writes exactly [batch_write] at the end of the image; the L2
   actions abstracting its I/O turn a file representing bs into one
   representing "bs with b pending" (after the write: the crash window) and
   into one representing bs ++ [b] (after the fsync). *)
Theorem Link_commit_rep :
  forall info bs f op w1' acts b ls d,
    let s := cstate info bs in
    let n := name_of info in
    rep info bs f -> lookup n (dk_files d) = Some f ->
    wrun (wst info s) [op] = Some (w1', acts, [b]) ->
    fst b = map enc ls ->
    len (image info (bs ++ [b])) < two32 ->
    let new := batch_write info s b in
    let pb := pb_of ls w1' in
    let aw := AWrite n (len (image info bs)) (len new) pb in
    acts = [WWrite (len (image info bs)) new; WSync] /\
    w1' = wst info (cstate info (bs ++ [b])) /\
    abs_acts n pb acts = [aw; ASync n] /\
    lookup n (dk_files (apply_act d aw)) = Some (written f pb) /\ rep_p info bs b (written f pb) /\
    lookup n (dk_files (apply_act (apply_act d aw) (ASync n))) = Some (synced f pb) /\
    rep info (bs ++ [b]) (synced f pb).
Proof. exact commit_rep. Qed.
Print Assumptions Link_commit_rep.

(* Append, the two writers side by side on a file *)
Theorem Link_append_sim_rep :
  forall info bs f w2 ls e w1' acts w2' e',
    let s := cstate info bs in
    let n := name_of info in
    rep info bs f -> lookup n (dk_files (e_disk e)) = Some f ->
    rep_w (wst info s) w2 -> consec ls -> ls <> [] -> e_fault e = None ->
    append (wst info s) (ents ls) FNone = (WOk, w1', acts) ->
    seg_append w2 ls e = (Model.ROk, w2', e') ->
    let b := (map enc ls, sealed w1') in
    len (image info (bs ++ [b])) < two32 ->
    acts = [WWrite (len (image info bs)) (batch_write info s b); WSync] /\
    w1' = wst info (cstate info (bs ++ [b])) /\ rep_w w1' w2' /\
    lookup n (dk_files (e_disk e')) = Some (synced f (pb_of ls w1')) /\
    rep info (bs ++ [b]) (synced f (pb_of ls w1')).
Proof. exact append_sim_rep. Qed.
Print Assumptions Link_append_sim_rep.

Theorem Link_force_seal_sim_rep :
  forall info bs f w2 e w1' acts w2' e',
    let s := cstate info bs in
    let n := name_of info in
    rep info bs f -> lookup n (dk_files (e_disk e)) = Some f ->
    rep_w (wst info s) w2 -> e_fault e = None -> ws_index_start w2 = 0 ->
    force_seal (wst info s) FNone = (WOk, w1', acts) ->
    seg_force_seal w2 e = (Model.ROk, w2', e') ->
    let b := (@nil bytes, true) in
    len (image info (bs ++ [b])) < two32 ->
    acts = [WWrite (len (image info bs)) (batch_write info s b); WSync] /\
    w1' = wst info (cstate info (bs ++ [b])) /\ rep_w w1' w2' /\
    lookup n (dk_files (e_disk e')) = Some (synced f (pb_of [] w1')) /\
    rep info (bs ++ [b]) (synced f (pb_of [] w1')).
Proof. exact force_seal_sim_rep. Qed.
Print Assumptions Link_force_seal_sim_rep.

(* ================================================================== *)
(* 2. Recovery and crash simulation                                     *)

(* (a) Nothing pending: byte-level recovery of "image, then zeros" returns the
   byte writer that the writer L2's seg_recover builds represents. *)
Theorem Link_recover_sim :
  forall info bs f e k,
    hdr_wf info -> rep info bs f -> encs_ok (df_ents f) -> len (image info bs) < two32 ->
    lookup (name_of info) (dk_files (e_disk e)) = Some f ->
    exists w1 w2,
      recover_state info (image info bs ++ zeros k) = Some w1 /\
      seg_recover info e = Some (Some w2) /\ rep_w w1 w2 /\
      w1 = wst info (cstate info bs).
Proof. exact recover_sim. Qed.
Print Assumptions Link_recover_sim.

(* the same for the content a restarted process sees (a pending batch that is
   complete in the page cache: restart without power loss, L2's adopt_file) *)
Theorem Link_recover_sim_cur :
  forall info bs f e k,
    hdr_wf info -> cur_rep info bs f -> encs_ok (cur_ents f) -> len (image info bs) < two32 ->
    lookup (name_of info) (dk_files (e_disk e)) = Some f ->
    recover_state info (image info bs ++ zeros k) = Some (wst info (cstate info bs)) /\
    seg_recover info e = Some (Some (recw info f)) /\
    rep_w (wst info (cstate info bs)) (recw info f).
Proof. exact recover_sim_cur. Qed.
Print Assumptions Link_recover_sim_cur.

(* (b) THE JUSTIFICATION OF crash_file.  f represents the image of bs with one
   more batch b written at its end but not yet synced.  For EVERY torn image T
   of the bytes of b over zeros (per 8-byte chunk new or old, RecoverFacts.torn)
   that is not a CRC collision: byte-level recovery of the file succeeds,
   returns the writer of bs ++ [b] if T is complete and of bs otherwise, and
   zeroStaleTail re-establishes "image, then zeros"; L2's crash_file with the
   pending batch KEPT iff T is complete leaves a file that represents the
   recovered image, and L2's seg_recover on it yields a writer that represents
   the recovered byte writer. *)
Theorem Link_crash_file_sound :
  forall info bs b f c T k,
    let s := cstate info bs in
    let n := name_of info in
    let new := batch_write info s b in
    hdr_wf info -> rep_p info bs b f -> encs_ok (cur_ents f) ->
    len (image info (bs ++ [b])) < two32 ->
    torn new T -> no_torn_collision new T ->
    (df_dir f = true \/ mem_name n (cc_keep_file c) = true) ->
    mem_name n (cc_keep_batch c) = beq_bytes T new ->
    let file := image info bs ++ T ++ zeros k in
    let bs' := if beq_bytes T new then bs ++ [b] else bs in
    let w1 := wst info (cstate info bs') in
    exists f',
      crash_file c (n, f) = [(n, f')] /\ rep info bs' f' /\ df_dir f' = true /\
      recover_state info file = Some w1 /\
      (exists acts, recover_tail info file = Some (w1, acts) /\
                    apply_wactions file acts = image info bs' ++ zeros (length file - length (image info bs'))) /\
      rep_w w1 (recw info f') /\
      forall e, lookup n (dk_files (e_disk e)) = Some f' -> seg_recover info e = Some (Some (recw info f')).
Proof. exact crash_file_sound. Qed.
Print Assumptions Link_crash_file_sound.

(* ... and both choices of crash_file are produced by a torn write: the
   adversary of L2 is exactly as strong as byte-level tearing of the batch *)
Theorem Link_crash_file_tight :
  forall info s b (keep : bool),
    let new := batch_write info s b in
    exists T, torn new T /\ no_torn_collision new T /\ beq_bytes T new = keep.
Proof. exact crash_file_tight. Qed.
Print Assumptions Link_crash_file_tight.

(* ================================================================== *)
(* 3. Reader simulation                                                 *)

(* tail: for every idx the byte-level tail reader returns the encoding of the
   record L2's tail lookup returns, ErrNotFound exactly when L2 finds nothing *)
Theorem Link_read_sim_tail :
  forall info bs f d w2 idx r,
    cur_rep info bs f -> encs_ok (cur_ents f) ->
    lookup (name_of info) (dk_files d) = Some f ->
    rep_w (wst info (cstate info bs)) w2 ->
    tail_get (wst info (cstate info bs)) (image info bs ++ r) idx =
      match tail_lookup w2 idx d with
      | Some l => Reader.ROk (enc l)
      | None => RNotFound
      end.
Proof. exact read_sim_tail. Qed.
Print Assumptions Link_read_sim_tail.

(* sealed: the reader opened with the index start recorded in the abstract file *)
Theorem Link_read_sim_sealed :
  forall info info' bs f d idx l r,
    cur_rep info bs f -> encs_ok (cur_ents f) -> len (image info bs) < two32 ->
    lookup (name_of info) (dk_files d) = Some f ->
    cur_seal f <> 0 ->
    si_base info' = si_base info -> si_index_start info' = cur_seal f ->
    si_base info <= idx -> si_min info' <= idx -> (si_max info' = 0 \/ idx <= si_max info') ->
    seg_read (name_of info) (si_base info) idx d = Some l ->
    sealed_get info' (image info bs ++ r) idx = Reader.ROk (enc l).
Proof. exact read_sim_sealed. Qed.
Print Assumptions Link_read_sim_sealed.

(* the stored bytes of a well-formed record decode to the record *)
Theorem Link_enc_decode :
  forall l, wf_log l ->
    encode_log l = Some (enc l) /\ decode_log (enc l) = Some l /\ codec_view l = l /\ wf_bytes (enc l).
Proof. exact enc_decode. Qed.
Print Assumptions Link_enc_decode.

(* GetLog down to bytes: what L2 hands back (codec_view l) is the decoding of
   the bytes the byte-level reader finds, and it is the stored record *)
Theorem Link_get_sim_tail :
  forall info bs f d w2 idx l r,
    cur_rep info bs f -> encs_ok (cur_ents f) ->
    lookup (name_of info) (dk_files d) = Some f ->
    rep_w (wst info (cstate info bs)) w2 ->
    tail_lookup w2 idx d = Some l -> wf_log l ->
    exists p, tail_get (wst info (cstate info bs)) (image info bs ++ r) idx = Reader.ROk p /\
              decode_log p = Some (codec_view l) /\ codec_view l = l.
Proof. exact get_sim_tail. Qed.
Print Assumptions Link_get_sim_tail.

Theorem Link_get_sim_sealed :
  forall info info' bs f d idx l r,
    cur_rep info bs f -> encs_ok (cur_ents f) -> len (image info bs) < two32 ->
    lookup (name_of info) (dk_files d) = Some f ->
    cur_seal f <> 0 ->
    si_base info' = si_base info -> si_index_start info' = cur_seal f ->
    si_base info <= idx -> si_min info' <= idx -> (si_max info' = 0 \/ idx <= si_max info') ->
    seg_read (name_of info) (si_base info) idx d = Some l -> wf_log l ->
    exists p, sealed_get info' (image info bs ++ r) idx = Reader.ROk p /\
              decode_log p = Some (codec_view l) /\ codec_view l = l.
Proof. exact get_sim_sealed. Qed.
Print Assumptions Link_get_sim_sealed.

(* Filer.Open of a sealed segment: the byte-level header validation accepts the
   image exactly when L2's open_segs does (committed header: cur_end <> 0) *)
Theorem Link_open_sealed_sim :
  forall info bs f k,
    hdr_wf info -> cur_rep info bs f ->
    open_sealed info (image info bs ++ zeros k) = negb (cur_end f =? 0).
Proof. exact open_sealed_sim_zeros. Qed.
Print Assumptions Link_open_sealed_sim.

(* the guard of the WAL-level theorems implies the byte-level guard *)
Theorem Link_log_ok_enc_ok : forall ls, logs_ok ls -> encs_ok ls.
Proof. exact logs_ok_encs_ok. Qed.
Print Assumptions Link_log_ok_enc_ok.

(* rep / rep_p give cur_rep *)
Theorem Link_rep_cur_rep : forall info bs f, rep info bs f -> cur_rep info bs f.
Proof. exact rep_cur_rep. Qed.
Print Assumptions Link_rep_cur_rep.
Theorem Link_rep_p_cur_rep : forall info bs b f, rep_p info bs b f -> cur_rep info (bs ++ [b]) f.
Proof. exact rep_p_cur_rep. Qed.
Print Assumptions Link_rep_p_cur_rep.

(* ================================================================== *)
(* 4. The link as an invariant of a segment file's life                 *)

Theorem Link_linked_create :
  forall info size k, linked info [] (created size) (init_empty info) (new_wseg info) (zeros k).
Proof. exact linked_create. Qed.
Print Assumptions Link_linked_create.

(* an acknowledged L2 append whose write ends below 4 GiB (a guard on L2's own
   numbers): L1 acknowledges it, writes the bytes of one more batch at the
   offset and of the length L2 recorded, makes the same seal decision; linked *)
Theorem Link_linked_append :
  forall info bs f w1 w2 file ls e w2' e',
    let n := name_of info in
    linked info bs f w1 w2 file -> lookup n (dk_files (e_disk e)) = Some f ->
    consec ls -> ls <> [] -> encs_ok ls -> e_fault e = None ->
    ws_off w2 + l2_total w2 ls < two32 ->
    seg_append w2 ls e = (Model.ROk, w2', e') ->
    exists w1' new f',
      append w1 (ents ls) FNone = (WOk, w1', [WWrite (ws_off w2) new; WSync]) /\
      len new = l2_total w2 ls /\ sealed w1' = l2_seal w2 ls /\
      lookup n (dk_files (e_disk e')) = Some f' /\
      linked info (bs ++ [(map enc ls, sealed w1')]) f' w1' w2'
             (apply_wactions file [WWrite (ws_off w2) new; WSync]).
Proof. exact linked_append. Qed.
Print Assumptions Link_linked_append.

Theorem Link_linked_force_seal :
  forall info bs f w1 w2 file e w2' e',
    let n := name_of info in
    linked info bs f w1 w2 file -> lookup n (dk_files (e_disk e)) = Some f ->
    e_fault e = None -> ws_index_start w2 = 0 ->
    ws_off w2 + fs_total w2 < two32 ->
    seg_force_seal w2 e = (Model.ROk, w2', e') ->
    exists w1' new f',
      force_seal w1 FNone = (WOk, w1', [WWrite (ws_off w2) new; WSync]) /\
      len new = fs_total w2 /\ sealed w1' = true /\
      lookup n (dk_files (e_disk e')) = Some f' /\
      linked info (bs ++ [([], true)]) f' w1' w2'
             (apply_wactions file [WWrite (ws_off w2) new; WSync]).
Proof. exact linked_force_seal. Qed.
Print Assumptions Link_linked_force_seal.

(* power loss in the middle of a commit (any torn image T of the bytes in
   flight), then RecoverTail resp. crash_file + seg_recover: linked again,
   with the batch iff T is complete *)
Theorem Link_linked_crash :
  forall info bs f w1 w2 file op w1' off new b ls c T,
    let n := name_of info in
    hdr_wf info ->
    linked info bs f w1 w2 file -> encs_ok ls ->
    wrun w1 [op] = Some (w1', [WWrite off new; WSync], [b]) -> fst b = map enc ls ->
    len (image info (bs ++ [b])) < two32 ->
    torn new T -> no_torn_collision new T ->
    let fm := written f (pb_of ls w1') in
    (df_dir f = true \/ mem_name n (cc_keep_file c) = true) ->
    mem_name n (cc_keep_batch c) = beq_bytes T new ->
    let file1 := overwrite file (N.to_nat off) T in
    let bs' := if beq_bytes T new then bs ++ [b] else bs in
    exists f' w1r acts,
      crash_file c (n, fm) = [(n, f')] /\
      recover_tail info file1 = Some (w1r, acts) /\
      linked info bs' f' w1r (recw info f') (apply_wactions file1 acts).
Proof. exact linked_crash. Qed.
Print Assumptions Link_linked_crash.

Theorem Link_linked_restart :
  forall info bs f w1 w2 file c,
    let n := name_of info in
    hdr_wf info -> linked info bs f w1 w2 file ->
    (df_dir f = true \/ mem_name n (cc_keep_file c) = true) ->
    exists f' acts,
      crash_file c (n, f) = [(n, f')] /\
      recover_tail info file = Some (w1, acts) /\
      linked info bs f' w1 (recw info f') (apply_wactions file acts).
Proof. exact linked_restart. Qed.
Print Assumptions Link_linked_restart.

(* the 2^32 guards above follow from the size facts L2's own invariants carry
   for the tail segment (cfg_ok: limit < 2^30; sop_ok: batch < 2^30;
   CrashInv.fsz_ok: 8 n <= end <= limit + 8 while unsealed) *)
Theorem Link_l2_append_guard :
  forall w2 ls,
    ws_limit w2 < 1073741824 -> ws_off w2 <= ws_limit w2 + 8 -> 8 * ws_n w2 <= ws_off w2 ->
    frames_size ls < 1073741824 ->
    ws_off w2 + l2_total w2 ls < two32.
Proof. exact l2_append_guard. Qed.
Print Assumptions Link_l2_append_guard.
Theorem Link_l2_force_seal_guard :
  forall w2,
    ws_limit w2 < 1073741824 -> ws_off w2 <= ws_limit w2 + 8 -> 8 * ws_n w2 <= ws_off w2 ->
    ws_off w2 + fs_total w2 < two32.
Proof. exact l2_force_seal_guard. Qed.
Print Assumptions Link_l2_force_seal_guard.

(* ================================================================== *)
(* Non-vacuity: a concrete file (limit 256), a batch of two records      *)
Definition lk_info : seginfo :=
  {| si_id := 7; si_base := 1; si_min := 1; si_max := 0; si_codec := 1;
     si_index_start := 0; si_sealed := false; si_size_limit := 256 |}.
Definition lk_time : gotime := {| t_sec := 63800000000; t_nsec := 0; t_zone := None |}.
Definition lk_log (i : N) : log :=
  {| l_index := i; l_term := 1; l_type := 0; l_data := repeat 65 24; l_ext := []; l_time := lk_time |}.
Definition lk_ls : list log := [lk_log 1; lk_log 2].
Definition lk_n : fname := name_of lk_info.
Definition lk_env : env :=
  {| e_acts := []; e_disk := apply_act empty_disk (ACreate lk_n 256); e_fault := None; e_fx := fx_none; e_m := zero_metrics |}.

(* the guards are satisfiable *)
Example Link_ex_guards :
  consec lk_ls /\ encs_ok lk_ls /\ hdr_wf lk_info /\
  lookup lk_n (dk_files (e_disk lk_env)) = Some (created 256) /\
  ws_off (new_wseg lk_info) + l2_total (new_wseg lk_info) lk_ls < two32.
Proof.
  split; [cbn; auto|]. split.
  { repeat constructor; try (apply wf_bytesb_spec; vm_compute; reflexivity); vm_compute; discriminate. }
  split; [unfold hdr_wf, two64; cbn; lia|]. split; vm_compute; reflexivity.
Qed.

(* the two writers side by side: same offset, same length, same seal decision,
   L2's actions are the abstraction of L1's *)
Example Link_ex_append :
  match append (init_empty lk_info) (ents lk_ls) FNone, seg_append (new_wseg lk_info) lk_ls lk_env with
  | (WOk, w1', [WWrite off new; WSync]), (Model.ROk, w2', e') =>
      off = 0 /\ len new = 152 /\
      e_acts e' = [ASync lk_n; AWrite lk_n 0 152 (pb_of lk_ls w1')] /\
      ws_off w2' = w_off w1' /\ ws_index_start w2' = w_index_start w1' /\
      ws_commit_idx w2' = 2 /\ w_commit_idx w1' = 2 /\
      seg_read lk_n 1 2 (e_disk e') = Some (lk_log 2) /\
      tail_get w1' (new ++ zeros 104) 2 = Reader.ROk (enc (lk_log 2)) /\
      decode_log (enc (lk_log 2)) = Some (lk_log 2)
  | _, _ => False
  end.
Proof. vm_compute. repeat split; reflexivity. Qed.

(* a torn write of that batch: chunk 3 of 19 did not reach the disk.  It is a
   torn image without CRC collision, incomplete -- and byte-level recovery
   returns the empty writer, the outcome crash_file offers as "dropped" *)
Definition lk_new : bytes :=
  match append (init_empty lk_info) (ents lk_ls) FNone with (_, _, [WWrite _ b; _]) => b | _ => [] end.
Definition lk_T : bytes := crash_mix (zeros (8 * 19)) lk_new 524279 20.

Example Link_ex_torn :
  torn lk_new lk_T /\ no_torn_collision lk_new lk_T /\ beq_bytes lk_T lk_new = false /\
  recover_state lk_info (lk_T ++ zeros 104) = Some (init_empty lk_info) /\
  recover_state lk_info (lk_new ++ zeros 104) =
    Some (snd (fst (append (init_empty lk_info) (ents lk_ls) FNone))) /\
  crash_file {| cc_keep_file := [lk_n]; cc_keep_batch := [] |}
             (lk_n, written (created 256) (pb_of lk_ls (init_empty lk_info))) =
    [(lk_n, {| df_ents := []; df_end := 0; df_seal := 0; df_pend := None; df_dir := true; df_size := 256 |})].
Proof.
  split; [apply crash_mix_torn; [vm_compute; reflexivity|lia]|].
  split; [apply no_torn_collisionb_spec; vm_compute; reflexivity|].
  repeat split; vm_compute; reflexivity.
Qed.

(* the hypothesis [consec] of the writer simulation is needed: seg_append looks
   at the first index of a batch only (StoreLogs has checked the rest), the
   byte-level writer checks every entry *)
Example Link_ex_consec_needed :
  let ls := [lk_log 1; lk_log 5] in
  fst (fst (append (init_empty lk_info) (ents ls) FNone)) = WErrNonMono /\
  fst (fst (seg_append (new_wseg lk_info) ls lk_env)) = Model.ROk /\
  fst (check_logs 0 ls) = RErrNonMono.
Proof. vm_compute. repeat split; reflexivity. Qed.

(* ================================================================== *)
(* 5. THE DIRECTORY LEVEL (Link/Disk.v, DiskFacts1-3.v)                 *)
(* Vocabulary:
     bfile / bdisk        a segment file as bytes: content the process sees
                          (bf_data), durable image as of the last fsync (bf_sync),
                          pwrites issued since (bf_pend), directory entry durable
     bact / bapply        byte-level create / pwrite (with the bytes) / fsync /
                          unlink / none
     bcrash               the byte-level crash adversary over a whole disk: every
                          file independently; a non-durable directory entry is
                          kept or dropped; every unsynced write is torn per 8-byte
                          chunk over what was there (torn_over), no CRC collision
     bscrub               RecoverTail (recoverTailState + zeroStaleTail) on the files
     frep_at info bs pb   bf / f stand for: batches bs committed and durable, pb =
                          Some b: b written behind them, not yet synced; the durable
                          image is "image of bs, then zeros"; records are log_ok;
                          image below 2^32
     drep c bd d          same names in the same order; every file frep-related with
                          info = finfo c name (header fields: base, id, codec);
                          hdr_wf of it
   The guards of the per-file theorems (encs_ok, files < 2^32, hdr_wf) are PART of
   drep: established by Create and the guarded write, kept by everything else.
   no_torn_collision is part of the adversary (as in Seg/RecoverFacts.v);
   NoDup of the names follows from CrashInv.DIs (CrashFacts1.DIs_NoDup). *)

(* (a) every byte-level action preserves drep w.r.t. the L2 action it stands for *)
Theorem Link_disk_create :
  forall c bd d n size, drep c bd d -> hdr_wf (finfo c n) ->
    drep c (bapply bd (BCreate n size)) (apply_act d (ACreate n size)).
Proof. exact bcreate_drep. Qed.
Print Assumptions Link_disk_create.

Theorem Link_disk_sync :
  forall c bd d n, drep c bd d -> drep c (bapply bd (BSync n)) (apply_act d (ASync n)).
Proof. exact bsync_drep. Qed.
Print Assumptions Link_disk_sync.

Theorem Link_disk_delete :
  forall c bd d n, drep c bd d -> drep c (bapply bd (BDelete n)) (apply_act d (ADelete n)).
Proof. exact bdelete_drep. Qed.
Print Assumptions Link_disk_delete.

(* metadata commit, stable store, database initialisation, failed attempt *)
Theorem Link_disk_meta :
  forall c bd d a, meta_act a -> drep c bd d -> drep c (bapply bd BNone) (apply_act d a).
Proof. exact bnone_drep. Qed.
Print Assumptions Link_disk_meta.

(* the write: one successful operation of the byte-level writer of the file's
   image commits b; the pwrite of exactly its bytes and L2's AWrite lead to
   drep-related disks (b pending on both sides: the crash window), and so do
   the fsyncs *)
Theorem Link_disk_write :
  forall c bd d info n bs bf f op w1' acts b ls,
    let s := cstate info bs in
    let new := batch_write info s b in
    let off := len (image info bs) in
    let aw := AWrite n off (len new) (pb_of ls w1') in
    drep c bd d -> name_of info = n -> hdr_eq info (finfo c n) ->
    lookup n (dk_files d) = Some f -> blookup n bd = Some bf -> frep_at info bs None bf f ->
    wrun (wst info s) [op] = Some (w1', acts, [b]) -> fst b = map enc ls -> logs_ok ls ->
    len (image info (bs ++ [b])) < two32 ->
    acts = [WWrite off new; WSync] /\ w1' = wst info (cstate info (bs ++ [b])) /\
    drep c (bapply bd (BWrite n off new)) (apply_act d aw) /\
    drep c (bapply (bapply bd (BWrite n off new)) (BSync n)) (apply_act (apply_act d aw) (ASync n)) /\
    frep_at info bs (Some b) (bwrite_file bf off new) (written f (pb_of ls w1')) /\
    frep_at info (bs ++ [b]) None (bsync_file (bwrite_file bf off new)) (synced f (pb_of ls w1')).
Proof. exact bwrite_drep. Qed.
Print Assumptions Link_disk_write.

(* the adversary's torn writes over zeros are RecoverFacts.torn *)
Theorem Link_torn_over_zeros :
  forall new T, (forall n, torn_over (zeros n) new T -> torn new T) /\
                (torn new T -> torn_over (zeros (length new)) new T).
Proof. exact torn_over_zeros_iff. Qed.
Print Assumptions Link_torn_over_zeros.

(* (b) DISK-LEVEL CRASH SOUNDNESS: whatever the byte-level adversary leaves of a
   drep-related byte disk, there is an L2 crash choice cc such that after
   RecoverTail the byte disk is drep-related to crash_disk cc d *)
Theorem Link_disk_crash_sound :
  forall c bd d bd',
    drep c bd d -> NoDup (map fst (dk_files d)) -> bcrash bd bd' ->
    exists cc, drep c (bscrub c bd') (crash_disk cc d).
Proof. exact bcrash_sound. Qed.
Print Assumptions Link_disk_crash_sound.

(* ... and every L2 crash choice is the outcome of a byte-level crash *)
Theorem Link_disk_crash_tight :
  forall c bd d cc, drep c bd d -> exists bd', bcrash bd bd' /\ drep c (bscrub c bd') (crash_disk cc d).
Proof. exact bcrash_tight. Qed.
Print Assumptions Link_disk_crash_tight.

(* per file, with everything recovery returns; before zeroStaleTail the file is
   "image of the recovered batches, then leftovers" (readers need no more) *)
Theorem Link_disk_crash_file :
  forall info bs pb bf f s',
    hdr_wf info -> frep_at info bs pb bf f -> torn_apply (bf_sync bf) (bf_pend bf) s' ->
    exists keep : bool,
      let bs' := if keep then bs ++ opt_batch pb else bs in
      (pb = None -> s' = bf_sync bf /\ bf_data (bscrub_file info (bkept s')) = s') /\
      frep_at info bs' None (bscrub_file info (bkept s')) (crashed keep f) /\
      recover_state info s' = Some (wst info (cstate info bs')) /\
      (exists junk, s' = image info bs' ++ junk) /\
      rep_w (wst info (cstate info bs')) (recw info (crashed keep f)).
Proof. exact bcrash_file_sound. Qed.
Print Assumptions Link_disk_crash_file.

(* restart without power loss: adopt_disk, mirrored (the bytes are treated as
   settled, L2's modelling decision); recovery returns the represented writer and
   zeroStaleTail writes nothing *)
Theorem Link_disk_adopt : forall c bd d, drep c bd d -> drep c (badopt bd) (adopt_disk d).
Proof. exact drep_adopt. Qed.
Print Assumptions Link_disk_adopt.

Theorem Link_restart_recover :
  forall info bs pb bf f e,
    hdr_wf info -> frep_at info bs pb bf f ->
    lookup (name_of info) (dk_files (e_disk e)) = Some (adopt_file f) ->
    let bs' := bs ++ opt_batch pb in
    recover_state info (bf_data bf) = Some (wst info (cstate info bs')) /\
    seg_recover info e = Some (Some (recw info (adopt_file f))) /\
    rep_w (wst info (cstate info bs')) (recw info (adopt_file f)) /\
    bf_data (bscrub_file info (bkept (bf_data bf))) = bf_data bf.
Proof. exact restart_recover. Qed.
Print Assumptions Link_restart_recover.

(* the branch of apply_act that extends a pending batch: content and fsync agree
   with the bytes of the two L1 batches *)
Theorem Link_extend_pending :
  forall info bs b1 b2 bf f p q,
    let s1 := cstate info (bs ++ [b1]) in
    let new2 := batch_write info s1 b2 in
    let bf2 := bwrite_file bf (len (image info (bs ++ [b1]))) new2 in
    let f2 := written f (merged p q) in
    frep_at info bs (Some b1) bf f -> df_pend f = Some p ->
    rep_b info (bs ++ [b1]) b2 q -> Forall log_ok (pb_ents q) ->
    len (image info (bs ++ [b1; b2])) < two32 ->
    cur_rep info (bs ++ [b1; b2]) f2 /\
    (exists k, bf_data bf2 = image info (bs ++ [b1; b2]) ++ zeros k) /\
    frep_at info (bs ++ [b1; b2]) None (bsync_file bf2) (crashed true f2).
Proof. exact frep_extend. Qed.
Print Assumptions Link_extend_pending.

(* a failed fsync leaves frep_at _ bs (Some b1) (Link_disk_write, 4th conjunct)
   and rolled-back writers (Link_append_sim_faults); the retry writes at the same
   offset: L2 replaces the pending batch; the bytes are the new image followed by
   what is left of the failed write; a retry at least as long re-establishes the
   link *)
Theorem Link_retry_after_failed_fsync :
  forall info bs b1 b2 bf f p q,
    let s := cstate info bs in
    let off := len (image info bs) in
    let new1 := batch_write info s b1 in
    let new2 := batch_write info s b2 in
    let bf2 := bwrite_file bf off new2 in
    let f2 := written f q in
    frep_at info bs (Some b1) bf f -> df_pend f = Some p ->
    rep_b info bs b2 q -> Forall log_ok (pb_ents q) -> len (image info (bs ++ [b2])) < two32 ->
    off <> pb_end p /\
    rep_p info bs b2 f2 /\ rep info (bs ++ [b2]) (crashed true f2) /\
    (exists k, bf_data bf2 = image info (bs ++ [b2]) ++ skipn (length new2) new1 ++ zeros k) /\
    (len new1 <= len new2 ->
     exists k, bf_data bf2 = image info (bs ++ [b2]) ++ zeros k /\
               frep_at info (bs ++ [b2]) None (bsync_file bf2) (crashed true f2)).
Proof. exact frep_retry. Qed.
Print Assumptions Link_retry_after_failed_fsync.

(* ================================================================== *)
(* 6. COMPOSITION: the WAL over bytes (Link/Compose.v, ComposeFacts1-7.v) *)
(* Vocabulary:
     lrun c bd d acts bd' d'   the L2 actions acts, performed in lock step with
                               matching byte-level actions (bmatch: each AWrite by a
                               pwrite of the bytes a byte-level writer emits for that
                               operation), lead from (bd, d) to (bd', d'); EVERY pair
                               of disks on the way is drep-related
     erun c bd e bd' e'        e' is e after more successful actions, an lrun
     wlink c w bd d            drep; names unique; next id < 2^64; the tail writer of
                               the running WAL is represented by a byte-level writer
                               [wst info (cstate info bs)] and its file holds exactly
                               the image of bs (tail_link)
     op_link c bd e w' e'      exists bd', erun c bd e bd' e' /\ wlink c w' bd' (e_disk e')
     small_tail                8 n <= off <= limit + 8 < 2^30 for an unsealed tail
                               writer; follows from LInv (Link_LInv_small)
     HL c h bd                 the invariant of histories (Wal/Hist.v) *)

(* every point of a lock-step run is related: the crash points of a call *)
Theorem Link_lrun_prefix :
  forall c bd d acts bd' d' j, lrun c bd d acts bd' d' ->
    exists bdj, lrun c bd d (firstn j acts) bdj (fold_left apply_act (firstn j acts) d) /\
                drep c bdj (fold_left apply_act (firstn j acts) d).
Proof. exact lrun_prefix_drep. Qed.
Print Assumptions Link_lrun_prefix.

(* per operation: if the state is linked before, the new actions are a lock-step
   run and the state is linked after *)
Theorem Link_store_logs :
  forall c w ls bd e r w' e',
    cfg_ok c -> wlink c w bd (e_disk e) -> e_fault e = None -> small_tail (st_tail w) ->
    logs_ok ls -> frames_size ls < two30 ->
    store_logs c w ls e = (r, w', e') -> op_link c bd e w' e'.
Proof. exact store_logs_link. Qed.
Print Assumptions Link_store_logs.

Theorem Link_delete_range :
  forall c w mn mx bd e r w' e',
    cfg_ok c -> wlink c w bd (e_disk e) -> e_fault e = None -> small_tail (st_tail w) ->
    delete_range c w mn mx e = (r, w', e') -> op_link c bd e w' e'.
Proof. exact delete_range_link. Qed.
Print Assumptions Link_delete_range.

Theorem Link_rotate :
  forall c w bd e w' e',
    cfg_ok c -> wlink c w bd (e_disk e) -> e_fault e = None ->
    rotate c w e = (w', e') ->
    op_link c bd e w' e' /\
    (st_tail w' = st_tail w \/ exists si, small_tw (new_wseg si) /\ st_tail w' = Some (new_wseg si)).
Proof. exact rotate_link. Qed.
Print Assumptions Link_rotate.

(* Open on a disk without a write in flight (after bscrub, or a clean reopen) *)
Theorem Link_open_wal :
  forall c bd e res e',
    cfg_ok c -> drep c bd (e_disk e) -> NoDup (map fst (dk_files (e_disk e))) -> e_fault e = None ->
    no_pend (e_disk e) -> meta_small (e_disk e) ->
    open_wal c e = (res, e') ->
    exists bd', erun c bd e bd' e' /\
                match res with OOk w => wlink c w bd' (e_disk e') | OErr _ => True end.
Proof. exact open_wal_link. Qed.
Print Assumptions Link_open_wal.

(* the byte-level RecoverTail behind seg_recover *)
Theorem Link_seg_recover :
  forall c si bd e f,
    drep c bd (e_disk e) -> si_codec si = c_codec c ->
    lookup (name_of si) (dk_files (e_disk e)) = Some f -> df_pend f = None ->
    seg_recover si e = Some (Some (recw si f)) /\
    exists bs bf,
      tail_link c (recw si f) si bs bd (e_disk e) /\
      blookup (name_of si) bd = Some bf /\
      recover_state si (bf_data bf) = Some (wst si (cstate si bs)) /\
      bf_data (bscrub_file si (bkept (bf_data bf))) = bf_data bf.
Proof. exact seg_recover_link. Qed.
Print Assumptions Link_seg_recover.

(* the guards, from the invariants of crash_refinement *)
Theorem Link_LInv_small : forall c nb w d, cfg_ok c -> LInv c nb w d -> small_tail (st_tail w).
Proof. exact LInv_small. Qed.
Print Assumptions Link_LInv_small.
Theorem Link_DIs_meta_small : forall c nb d, DIs c nb d -> nb < two64 -> meta_small d.
Proof. exact DIs_meta_small. Qed.
Print Assumptions Link_DIs_meta_small.

(* every call of the model *)
Theorem Link_step :
  forall c nb s o bd r s',
    cfg_ok c -> sop_ok o ->
    wlink c (ss_wal s) bd (e_disk (ss_env s)) -> e_fault (ss_env s) = None ->
    LInv c nb (ss_wal s) (e_disk (ss_env s)) -> nb < two64 ->
    step_model c s o = (r, s') -> (o = OReopen -> r = ROk) ->
    op_link c bd (ss_env s) (ss_wal s') (ss_env s').
Proof. exact step_link. Qed.
Print Assumptions Link_step.

(* GetLog down to bytes (partial: see Link_get_log_stmt below) *)
Theorem Link_get_log_partial :
  forall c w bd e idx l e',
    wlink c w bd (e_disk e) -> seg_meta_ok w (e_disk e) ->
    get_log w idx e = (RLog l, e') ->
    exists p, bread c w bd (e_disk e) idx p /\ decode_log p = Some l.
Proof. exact get_log_link. Qed.
Print Assumptions Link_get_log_partial.

(* the full statement about GetLog, without the hypothesis seg_meta_ok, is
   Link_get_log (section 7, link3): the recorded IndexStart of every listed
   sealed segment IS the index start of its file in every state of every
   accepted history (invariant ISd). *)

(* HISTORIES (Wal/Hist.v: calls, power loss after any j actions of a call or of
   Open with any crash choice, reopen; the histories crash_refinement is about).
   (1) every accepted history has a byte-level run: the byte disk is linked at
       the end, hence (prefixes are histories) after every step *)
Theorem Link_history :
  forall c steps, cfg_ok c -> Forall hstep_wf steps -> short_enough steps ->
    exists bd, HL c (hist_run c hist_init steps) bd.
Proof. exact hist_link. Qed.
Print Assumptions Link_history.

Theorem Link_history_step :
  forall c nb h st bd,
    cfg_ok c -> hstep_wf st -> nb + 2 < two64 -> GI c nb h -> HL c h bd ->
    exists bd', HL c (hstep_run c h st) bd'.
Proof. exact hist_step_link. Qed.
Print Assumptions Link_history_step.

Theorem Link_history_GI :
  forall c steps, cfg_ok c -> Forall hstep_wf steps -> short_enough steps ->
    GI c (2 * N.of_nat (length steps)) (hist_run c hist_init steps).
Proof. exact hist_GI. Qed.
Print Assumptions Link_history_GI.

(* a call / an Open from a linked state of an accepted history: the byte disk
   follows in lock step (op_link = exists bd', erun ... /\ wlink ...) *)
Theorem Link_history_call :
  forall c nb h s o bd,
    cfg_ok c -> sop_ok o -> nb + 2 < two64 -> GI c nb h -> hs_mode h = Up s -> HL c h bd ->
    exists r s', step_model c s o = (r, s') /\
                 op_link c bd (ss_env s) (ss_wal s') (ss_env s') /\
                 NoDup (map fst (dk_files (e_disk (ss_env s)))).
Proof. exact call_link. Qed.
Print Assumptions Link_history_call.

Theorem Link_history_open :
  forall c nb h d bd,
    cfg_ok c -> nb + 2 < two64 -> GI c nb h -> hs_mode h = Down d -> HL c h bd ->
    exists w e, open_wal c (env_of d) = (OOk w, e) /\ op_link c bd (env_of d) w e.
Proof. exact open_link. Qed.
Print Assumptions Link_history_open.

(* which file can have a write in flight: a listed segment whose file has a
   pending batch is the unsealed tail, the file Open hands to RecoverTail *)
Theorem Link_pending_only_tail :
  forall c nb d ps n f s,
    DIs c nb d -> dk_meta d = Some ps -> lookup n (dk_files d) = Some f -> df_pend f <> None ->
    In s (ps_segs ps) -> name_of s = n -> si_sealed s = false /\ tail_info (ps_segs ps) = Some s.
Proof. exact pending_only_tail. Qed.
Print Assumptions Link_pending_only_tail.

(* (2) every byte-level crash outcome is covered: after j actions of a call (of
   Open) the byte disk reached is related, and WHATEVER the byte-level adversary
   leaves, some crash choice cc continues the history, linked after RecoverTail;
   the invariant GI of crash_refinement holds of the continued history, so the
   next Open (Link_history_open) and everything after it are covered again *)
Theorem Link_crash_in_call_covered :
  forall c nb h s o j bd,
    cfg_ok c -> sop_ok o -> nb + 2 < two64 -> GI c nb h -> hs_mode h = Up s -> HL c h bd ->
    let s' := snd (step_model c s o) in
    let acts := new_acts (ss_env s) (ss_env s') in
    let dj := fold_left apply_act (firstn j acts) (e_disk (ss_env s)) in
    exists bdj, lrun c bd (e_disk (ss_env s)) (firstn j acts) bdj dj /\
      forall out, bcrash bdj out ->
        exists cc, HL c (hstep_run c h (HCrashIn o j cc)) (bscrub c out) /\
                   hs_mode (hstep_run c h (HCrashIn o j cc)) = Down (crash_disk cc dj) /\
                   GI c (nb + 2) (hstep_run c h (HCrashIn o j cc)).
Proof. exact crash_in_call_covered. Qed.
Print Assumptions Link_crash_in_call_covered.

Theorem Link_crash_in_open_covered :
  forall c nb h d j bd,
    cfg_ok c -> nb + 2 < two64 -> GI c nb h -> hs_mode h = Down d -> HL c h bd ->
    let acts := rev_append (e_acts (snd (open_wal c (env_of d)))) [] in
    let dj := fold_left apply_act (firstn j acts) d in
    exists bdj, lrun c bd d (firstn j acts) bdj dj /\
      forall out, bcrash bdj out ->
        exists cc, HL c (hstep_run c h (HCrashInOpen j cc)) (bscrub c out) /\
                   hs_mode (hstep_run c h (HCrashInOpen j cc)) = Down (crash_disk cc dj) /\
                   GI c (nb + 2) (hstep_run c h (HCrashInOpen j cc)).
Proof. exact crash_in_open_covered. Qed.
Print Assumptions Link_crash_in_open_covered.

(* ================================================================== *)
(* 7. The recorded IndexStart (link3: Link/IndexStart.v, IndexStartFacts1-3.v)

   The sealed reader takes the offset of the index block from the METADATA
   (si_index_start); L2's seg_read ignores the field, so DIs / LInv say nothing
   about it.  ISd d: every segment listed as sealed whose file exists records
   the index start of that file, and it is not 0.  It is established where a
   segment becomes sealed in the metadata -- rotation (st_rotate = the seal
   offset of the tail file), tail truncation (the force-sealed writer's index
   start = the seal offset of the batch just fsynced), Open completing an
   interrupted rotation (cur_seal of the recovered file) -- and kept by
   everything else.  The statement of link2 (hypotheses LInv and wlink only) was
   not provable: LInv does not constrain the field.                        *)

(* one action between two disks satisfying the structural invariant *)
Theorem Link_ISd_step :
  forall c nb nb' d a,
    DIs c nb d -> DIs c nb' (apply_act d a) -> ISd d ->
    (forall ps, a = ACommit ps -> ISs d (ps_segs ps)) ->
    ISd (apply_act d a).
Proof. exact ISd_step. Qed.
Print Assumptions Link_ISd_step.

(* power loss *)
Theorem Link_ISd_crash : forall c nb cc d, DIs c nb d -> ISd d -> ISd (crash_disk cc d).
Proof. exact ISd_crash. Qed.
Print Assumptions Link_ISd_crash.

(* every call: each metadata commit installs segments justified on the disk of
   that moment (ctr), so ISd holds on every disk the call passes through *)
Theorem Link_step_commits :
  forall c nb s o r s' a,
    cfg_ok c -> nb + 2 < two64 -> LInv c nb (ss_wal s) (e_disk (ss_env s)) -> e_fault (ss_env s) = None ->
    sp_of (e_disk (ss_env s)) = a -> ISd (e_disk (ss_env s)) ->
    step_model c s o = (r, s') -> ctr (ss_env s) (ss_env s').
Proof. exact step_ctr. Qed.
Print Assumptions Link_step_commits.

Theorem Link_open_commits :
  forall c nb e res e',
    e_fault e = None -> DIs c nb (e_disk e) -> ISd (e_disk e) -> open_wal c e = (res, e') -> ctr e e'.
Proof. exact open_wal_ctr. Qed.
Print Assumptions Link_open_commits.

Theorem Link_ISd_every_disk :
  forall c nb (P : disk -> Prop) e e',
    (forall d, P d -> DIs c nb d) -> ext P e e' -> ctr e e' -> ISd (e_disk e) ->
    forall j, ISd (fold_left apply_act (firstn j (new_acts e e')) (e_disk e)).
Proof. exact ext_ctr_prefix. Qed.
Print Assumptions Link_ISd_every_disk.

(* the invariant of crash_refinement, extended: GIS = GI /\ ISd (disk of the state) *)
Theorem Link_index_start_step :
  forall c nb h st,
    cfg_ok c -> hstep_wf st -> nb + 2 < two64 -> GIS c nb h -> GIS c (nb + 2) (hstep_run c h st).
Proof. exact GIS_step. Qed.
Print Assumptions Link_index_start_step.

Theorem Link_index_start_history :
  forall c steps, cfg_ok c -> Forall hstep_wf steps -> short_enough steps ->
    GIS c (2 * N.of_nat (length steps)) (hist_run c hist_init steps).
Proof. exact hist_GIS. Qed.
Print Assumptions Link_index_start_history.

(* the hypothesis of Link_get_log_partial follows *)
Theorem Link_seg_meta : forall c nb w d, LInv c nb w d -> ISd d -> seg_meta_ok w d.
Proof. exact LInv_seg_meta. Qed.
Print Assumptions Link_seg_meta.

Theorem Link_get_log_state :
  forall c nb w bd e idx l e',
    LInv c nb w (e_disk e) -> ISd (e_disk e) -> wlink c w bd (e_disk e) ->
    get_log w idx e = (RLog l, e') ->
    exists p, bread c w bd (e_disk e) idx p /\ decode_log p = Some l.
Proof. exact get_log_bytes. Qed.
Print Assumptions Link_get_log_state.

(* GETLOG DOWN TO BYTES, EVERY HISTORY.  After every history accepted by
   crash_refinement that leaves the WAL running there is a byte disk linked to
   L2's disk (lock-step run, Link_history) such that for EVERY index, whatever
   entry GetLog returns is the decoding of the bytes the byte-level reader
   (tail reader with the linked writer's offsets, or sealed reader with the
   METADATA's IndexStart) returns from the byte-level file of the segment. *)
Definition Link_get_log_stmt : Prop :=
  forall c steps s,
    cfg_ok c -> Forall hstep_wf steps -> short_enough steps ->
    hs_mode (hist_run c hist_init steps) = Up s ->
    exists bd, wlink c (ss_wal s) bd (e_disk (ss_env s)) /\
      forall idx l e', get_log (ss_wal s) idx (ss_env s) = (RLog l, e') ->
        exists p, bread c (ss_wal s) bd (e_disk (ss_env s)) idx p /\ decode_log p = Some l.

Theorem Link_get_log : Link_get_log_stmt.
Proof. exact hist_get_log. Qed.
Print Assumptions Link_get_log.

(* non-vacuity: (base, sealed, recorded IndexStart, index start of the file) of
   the listed segments at the end of histories of Wal/CrashExamples.v --
   Open completing a rotation interrupted before its commit (160 = batch 1 of
   96 bytes, the entry frame of 56 of batch 2, the 8-byte header of the index
   frame: the offset of the index block); a tail truncation interrupted after its force-seal, completed by
   Open; the same truncation committed by the running process *)
Example Link_ex_index_start :
  is_shape cfg128 hist_rotation_before_commit = [(1, true, 160, 160); (3, false, 0, 0)] /\
  is_shape cfg256 hist_trunc_after_forceseal = [(1, true, 216, 216); (4, false, 0, 0)] /\
  is_shape cfg256 [HOpen; HOp (OStore [ex_log 1 1; ex_log 2 1; ex_log 3 1]); HOp (ODelete 3 3)]
    = [(1, true, 216, 216); (3, false, 0, 0)].
Proof. vm_compute. auto. Qed.

(* ================================================================== *)
(* 8. HISTORIES WITH INJECTED FAULTS AT BYTE LEVEL (link3: Link/FaultDisk.v,
   FaultDiskFacts1-4.v, FaultLink.v, FaultLinkFacts1-3.v, FaultIS.v,
   FaultISFacts1-3.v).  The histories are those of Wal/FaultHist.v (C10): calls
   with a counted fault and the fault modes (deletions fail, the listing fails,
   a failed creation leaves the empty file), restarts without power loss.

   After a failed fsync the bytes of the batch stay behind the valid chain and
   later writes go over them, so a file is "image, then ANYTHING" -- the weak
   relation wfrep_at / wdrep.  (1) every L2 step is matched by byte-level
   actions keeping wdrep and the link of the rolled-back tail writer (WL);
   (2) at a restart / reopen the byte-level recovery of every file (page cache
   kept, recoverTailState + zeroStaleTail: brestart) yields a disk related by
   the STRONG relation drep to adopt_disk, under stale_free (no commit frame in
   the leftovers verifies: Seg/FailFacts.v no_stale_commit, decidable);
   (3) GetLog of the running process, and whatever the nominal state of
   fault_safety holds, is the decoding of what the byte-level readers return. *)

(* strong implies weak *)
Theorem Link_drep_wdrep : forall c bd d, drep c bd d -> wdrep c bd d.
Proof. exact drep_wdrep. Qed.
Print Assumptions Link_drep_wdrep.

(* the actions *)
Theorem Link_wdisk_create :
  forall c bd d n size, wdrep c bd d -> hdr_wf (finfo c n) ->
    wdrep c (bapply bd (BCreate n size)) (apply_act d (ACreate n size)).
Proof. exact wcreate_drep. Qed.
Print Assumptions Link_wdisk_create.
Theorem Link_wdisk_delete : forall c bd d n, wdrep c bd d -> wdrep c (bapply bd (BDelete n)) (apply_act d (ADelete n)).
Proof. exact wdelete_drep. Qed.
Print Assumptions Link_wdisk_delete.
Theorem Link_wdisk_sync : forall c bd d n, wdrep c bd d -> wdrep c (bapply bd (BSync n)) (apply_act d (ASync n)).
Proof. exact wsync_drep. Qed.
Print Assumptions Link_wdisk_sync.

(* the write over leftovers: whatever lies behind the image of the committed
   batches bs (incl. a complete batch whose fsync failed, pending in L2), one
   successful operation of the byte-level writer of that image writes
   batch_write at the end of the image; L2 REPLACES its pending batch *)
Theorem Link_wdisk_write :
  forall c bd d info n bs pb0 bf f op w1' acts b ls,
    let s := cstate info bs in
    let new := batch_write info s b in
    let off := len (image info bs) in
    let aw := AWrite n off (len new) (pb_of ls w1') in
    wdrep c bd d -> name_of info = n -> hdr_eq info (finfo c n) ->
    lookup n (dk_files d) = Some f -> blookup n bd = Some bf -> wfrep_at info bs pb0 bf f ->
    SegAbs.wrun (wst info s) [op] = Some (w1', acts, [b]) -> fst b = map enc ls -> logs_ok ls ->
    len (image info (bs ++ [b])) < two32 ->
    acts = [WWrite off new; WSync] /\ w1' = wst info (cstate info (bs ++ [b])) /\
    wdrep c (bapply bd (BWrite n off new)) (apply_act d aw) /\
    lookup n (dk_files (apply_act d aw)) = Some (written f (pb_of ls w1')) /\
    blookup n (bapply bd (BWrite n off new)) = Some (bwrite_file bf off new) /\
    wfrep_at info bs (Some b) (bwrite_file bf off new) (written f (pb_of ls w1')).
Proof. exact wwrite_drep. Qed.
Print Assumptions Link_wdisk_write.

(* (2) ONE FILE at a restart: fail_recover / recover_behind applied to the file
   of the weak relation *)
Theorem Link_fault_restart_file :
  forall info bs pb bf f,
    hdr_wf info -> wfrep_at info bs pb bf f -> no_stale_commit (bf_data bf) (cur_end f) ->
    let bs' := bs ++ opt_batch pb in
    recover_state info (bf_data bf) = Some (wst info (cstate info bs')) /\
    frep_at info bs' None (bscrub_file info (badopt_file bf)) (adopt_file f).
Proof. exact wfrep_restart. Qed.
Print Assumptions Link_fault_restart_file.

(* (2) THE DISK at a restart *)
Theorem Link_fault_restart :
  forall c bd d, wdrep c bd d -> NoDup (map fst (dk_files d)) -> stale_free bd d ->
    drep c (brestart c bd) (adopt_disk d).
Proof. exact wrestart. Qed.
Print Assumptions Link_fault_restart.

(* (1) one commit of the tail writer with any fault position: both succeed /
   the fsync fails (bytes stay, writers rolled back) / the write fails *)
Theorem Link_fault_commit :
  forall c tw info bs bd e op ls w1' new tot pb tw',
    let n := ws_name tw in
    let aw := AWrite n (ws_off tw) tot pb in
    let e' := do_acts e [aw; ASync n] in
    wdrep c bd (e_disk e) -> NoDup (map fst (dk_files (e_disk e))) ->
    wtail_link c tw info bs bd (e_disk e) -> logs_ok ls ->
    do_op (wst info (cstate info bs)) op = (WOk, w1', [WWrite (ws_off tw) new; WSync]) ->
    wop_of pb = op -> op_batch (wst info (cstate info bs)) w1' op = [(map enc ls, sealed w1')] ->
    len new = tot -> len (batch_write info (cstate info bs) (map enc ls, sealed w1')) = tot ->
    rep_w w1' tw' -> ws_name tw' = n -> pb = pb_of ls w1' ->
    ws_off tw + tot < two32 ->
    exists bd',
      werun c bd e bd' e' /\ NoDup (map fst (dk_files (e_disk e'))) /\
      if both_ok (e_fault e) then exists bs', wtail_link c tw' info bs' bd' (e_disk e')
      else wtail_link c tw info bs bd' (e_disk e').
Proof. exact wcommit_link. Qed.
Print Assumptions Link_fault_commit.

(* (1) the operations, whatever fails (no hypothesis on e_fault / e_fx) *)
Theorem Link_fault_store_logs :
  forall c w ls bd e r w' e',
    cfg_ok c -> WL c w bd (e_disk e) -> st_next_id w + 1 < two64 ->
    logs_ok ls -> frames_size ls < two30 ->
    store_logs c w ls e = (r, w', e') -> wop_link c bd e w' e'.
Proof. exact store_logs_wlink. Qed.
Print Assumptions Link_fault_store_logs.

Theorem Link_fault_delete_range :
  forall c w mn mx bd e r w' e',
    cfg_ok c -> WL c w bd (e_disk e) -> st_next_id w + 1 < two64 ->
    delete_range c w mn mx e = (r, w', e') -> wop_link c bd e w' e'.
Proof. exact delete_range_wlink. Qed.
Print Assumptions Link_fault_delete_range.

Theorem Link_fault_rotate :
  forall c w bd e w' e',
    cfg_ok c -> WL c w bd (e_disk e) -> st_next_id w + 1 < two64 ->
    rotate c w e = (w', e') ->
    wop_link c bd e w' e' /\ st_next_id w' <= st_next_id w + 1.
Proof. exact rotate_wlink. Qed.
Print Assumptions Link_fault_rotate.

Theorem Link_fault_open :
  forall c bd e res e',
    cfg_ok c -> wdrep c bd (e_disk e) -> NoDup (map fst (dk_files (e_disk e))) ->
    no_pend (e_disk e) -> meta_small (e_disk e) ->
    open_wal c e = (res, e') ->
    exists bd', werun c bd e bd' e' /\ NoDup (map fst (dk_files (e_disk e'))) /\
                match res with OOk w => wtail_linked c (st_tail w) bd' (e_disk e') | OErr _ => True end.
Proof. exact open_wal_wlink. Qed.
Print Assumptions Link_fault_open.

Theorem Link_fault_step :
  forall c s o bd r s',
    cfg_ok c -> sop_ok o -> o <> OReopen -> WL c (ss_wal s) bd (e_disk (ss_env s)) ->
    st_next_id (ss_wal s) + 2 < two64 -> step_model c s o = (r, s') ->
    wop_link c bd (ss_env s) (ss_wal s') (ss_env s') /\ st_next_id (ss_wal s') <= st_next_id (ss_wal s) + 2.
Proof. exact step_wlink. Qed.
Print Assumptions Link_fault_step.

(* (1)+(2) every step of a history: FHL (the invariant: WL for a running WAL,
   wdrep for one whose Open failed) is kept, and the step has a byte-level step
   (fbstep: a weak lock-step run of the effective actions; at a restart / reopen
   first brestart, which needs stale_free) *)
Theorem Link_fault_history_step :
  forall c nb h st bd,
    cfg_ok c -> fstep_wf st -> nb + 2 < two64 -> FInv c nb h -> FHL c nb h bd ->
    (is_restart st = true -> stale_free bd (fdisk h)) ->
    exists bd', fbstep c h bd st bd' /\ FHL c (nb + 2) (fstep_run c h st) bd'.
Proof. exact fault_step_link. Qed.
Print Assumptions Link_fault_history_step.

(* every byte-level run of a history ends weakly related to L2's disk *)
Theorem Link_fault_run_sound :
  forall c steps nb h bd h' bd',
    cfg_ok c -> Forall fstep_wf steps -> nb + 2 * N.of_nat (length steps) < two64 ->
    FInv c nb h -> wdrep c bd (fdisk h) ->
    fbrun c h bd steps h' bd' -> h' = fault_run c h steps /\ wdrep c bd' (fdisk h').
Proof. exact fbrun_sound. Qed.
Print Assumptions Link_fault_run_sound.

(* the recorded IndexStart (section 7) along histories with faults: FJH = every
   segment listed as sealed, in memory or in the metadata, whose file exists
   records the seal offset of that file, which has nothing pending *)
Theorem Link_fault_index_start_step :
  forall c nb h st bd,
    cfg_ok c -> fstep_wf st -> nb + 2 < two64 -> FInv c nb h -> FHL c nb h bd -> FJH h ->
    FJH (fstep_run c h st).
Proof. exact fault_step_FJ. Qed.
Print Assumptions Link_fault_index_start_step.

(* EVERY HISTORY WITH INJECTED FAULTS HAS A BYTE-LEVEL RUN (given that no commit
   frame in the leftovers verifies at the restarts: restarts_clean); at its end
   the WAL is linked to the byte disk, the invariant of fault_safety holds, and
   so does the IndexStart invariant *)
Definition Link_fault_history_stmt : Prop :=
  forall c steps s0,
    cfg_ok c -> Forall fstep_wf steps -> short_enough steps -> initial c = Some s0 ->
    exists bd0, FHL c 1 (fault_init s0) bd0 /\
      (restarts_clean c (fault_init s0) bd0 steps ->
       let h := fault_run c (fault_init s0) steps in
       let nb := 1 + 2 * N.of_nat (length steps) in
       exists bd, fbrun c (fault_init s0) bd0 steps h bd /\ FHL c nb h bd /\ FInv c nb h /\ FJH h).

Theorem Link_fault_history : Link_fault_history_stmt.
Proof. exact fault_hist_bytes. Qed.
Print Assumptions Link_fault_history.

(* (3) GETLOG OF THE RUNNING PROCESS FROM BYTES: the tail reader uses the
   offsets of the ROLLED-BACK byte-level writer on a file that may hold the bytes
   of failed batches behind the image; nothing of a failed batch is returned *)
Theorem Link_fault_tail_read :
  forall c tw info bs bd d idx l0,
    wtail_link c tw info bs bd d -> 1 <= ws_base tw -> tail_lookup tw idx d = Some l0 ->
    exists bf p, blookup (ws_name tw) bd = Some bf /\
                 tail_get (wst info (cstate info bs)) (bf_data bf) idx = Reader.ROk p /\
                 decode_log p = Some (codec_view l0).
Proof. exact wtail_read. Qed.
Print Assumptions Link_fault_tail_read.

Theorem Link_fault_get_log :
  forall c nb h bd idx l e',
    FInv c nb h -> FHL c nb h bd -> FJH h -> st_closed (ss_wal (fs_s h)) = false ->
    get_log (ss_wal (fs_s h)) idx (ss_env (fs_s h)) = (RLog l, e') ->
    exists p, wbread c (ss_wal (fs_s h)) bd (fdisk h) idx p /\ decode_log p = Some l.
Proof. exact fault_get_log. Qed.
Print Assumptions Link_fault_get_log.

(* (3) with fault_safety: what the NOMINAL state holds (calls that returned nil
   applied, calls that returned an error not; after a restart: the state the
   recovery presented) is what the bytes decode to *)
Theorem Link_fault_nominal_bytes :
  forall c nb h bd i l,
    cfg_ok c -> nb + 2 < two64 -> FInv c nb h -> FHL c nb h bd -> FJH h -> st_closed (ss_wal (fs_s h)) = false ->
    i < two64 -> spec_get (sp_log (fs_nom h)) i = Some l ->
    exists p, wbread c (ss_wal (fs_s h)) bd (fdisk h) i p /\ decode_log p = Some l.
Proof. exact fault_nominal_bytes. Qed.
Print Assumptions Link_fault_nominal_bytes.

(* (3) after a restart: the writer the byte-level recovery returns for a file
   represents the writer L2's Open builds on the adopted file (entry count,
   write offset, index start, commit index = LastIndex) *)
Theorem Link_fault_restart_recovered :
  forall c bd d n f e si,
    wdrep c bd d -> stale_free bd d -> lookup n (dk_files d) = Some f ->
    name_of si = n -> si_codec si = c_codec c -> e_disk e = adopt_disk d ->
    exists bf bs', blookup n bd = Some bf /\
      recover_state si (bf_data bf) = Some (wst si (cstate si bs')) /\
      seg_recover si e = Some (Some (recw si (adopt_file f))) /\
      rep_w (wst si (cstate si bs')) (recw si (adopt_file f)).
Proof. exact restart_recovered. Qed.
Print Assumptions Link_fault_restart_recovered.

(* C. the branch of apply_act that EXTENDS a pending batch (Link_extend_pending,
   Link_ex_merged_crash) is not taken in these histories: a linked tail writer
   writes at the synced end, strictly before the end of a batch still pending *)
Theorem Link_write_never_extends :
  forall c tw info bs bd d f p,
    wtail_link c tw info bs bd d -> lookup (ws_name tw) (dk_files d) = Some f -> df_pend f = Some p ->
    ws_off tw < pb_end p.
Proof. exact write_never_extends. Qed.
Print Assumptions Link_write_never_extends.

Theorem Link_stale_freeb_spec :
  forall bd d, NoDup (map fst bd) -> stale_freeb bd d = true -> stale_free bd d.
Proof. exact stale_freeb_spec. Qed.
Print Assumptions Link_stale_freeb_spec.

(* non-vacuity: the multi-failure history of Seg/FailFacts.v lifted to the WAL
   (Link/FaultExamples.v): StoreLogs [1] ok; [2a;3a;4a] fsync fails; [2b;3b]
   fsync fails; [2c] ok.  L2 accepts it; its tail file has 2 entries, ends at
   152, nothing pending; the byte-level file of the same operations has the same
   image of 152 bytes followed by NON-ZERO leftovers; stale_free holds; byte-level
   recovery returns 2 entries / offset 152 / commit index 2 -- the tail writer
   L2's Open installs after FRestart; and the history continues *)
Example Link_ex_fault_history :
  FaultHist.fs_ok fe_h = true /\
  option_map (fun f => (llen (df_ents f), df_end f, df_seal f, df_pend f, df_dir f)) fe_tail_file = Some (2, 152, 0, None, true) /\
  FailFacts.fs_ok fe_st = true /\ len (image fe_info (FailFacts.fs_bs fe_st)) = 152 /\
  all_zero (skipn 152 (bf_data fe_bf)) = false /\
  stale_freeb fe_bd fe_d = true /\
  option_map (fun w => (len (w_offsets w), w_off w, w_commit_idx w)) (recover_state fe_info (bf_data fe_bf)) = Some (2, 152, 2) /\
  option_map (fun tw => (ws_n tw, ws_off tw, ws_commit_idx tw)) (st_tail (ss_wal (FaultHist.fs_s fe_after_restart))) = Some (2, 152, 2) /\
  FaultHist.fs_ok (fault_run fe_c (fault_init fe_s0) fe_steps) = true.
Proof. vm_compute. repeat split; reflexivity. Qed.

(* the concrete byte disk IS weakly related to L2's disk, is NOT strongly
   related (leftovers), and the restart re-establishes the strong relation *)
Example Link_ex_fault_wdrep :
  wdrep fe_c fe_bd fe_d /\ stale_free fe_bd fe_d /\ drep fe_c (brestart fe_c fe_bd) (adopt_disk fe_d).
Proof.
  assert (Ed : dk_files fe_d = [(fe_n, match fe_tail_file with Some f => f | None => created 0 end)]) by (vm_compute; reflexivity).
  assert (H : wdrep fe_c fe_bd fe_d).
  { unfold wdrep, grel. rewrite Ed. constructor; [|constructor]. cbn [fst snd fe_bd].
    split; [reflexivity|]. split; [repeat split; reflexivity|].
    exists (FailFacts.fs_bs fe_st), None. constructor; cbn [opt_batch].
    - constructor; vm_compute; reflexivity.
    - replace (cur_ents (match fe_tail_file with Some f => f | None => created 0 end)) with (fe_b1 ++ fe_bc) by (vm_compute; reflexivity).
      repeat constructor; try (vm_compute; intros; discriminate); try (vm_compute; reflexivity).
    - vm_compute. reflexivity.
    - exists (skipn 152 (bf_data fe_bf)). vm_compute. reflexivity.
    - reflexivity. }
  assert (Hs : stale_free fe_bd fe_d).
  { apply stale_freeb_spec; [repeat constructor; intros []|vm_compute; reflexivity]. }
  split; [exact H|]. split; [exact Hs|]. apply wrestart; [exact H| |exact Hs].
  rewrite Ed. repeat constructor. intros [].
Qed.

(* ================================================================== *)
(* Non-vacuity of sections 5 and 6: a concrete directory with two files  *)
Definition lk_c : cfg := {| c_seg_size := 256; c_codec := 1 |}.
Definition lk_n2 : fname := (3, 8).
Definition lk_w1 : wstate := snd (fst (append (init_empty lk_info) (ents lk_ls) FNone)).
Definition lk_pb : pbatch := pb_of lk_ls lk_w1.
(* L2: two files created, the batch of two records written to the first, no fsync yet *)
Definition lk_d0 : disk := apply_act (apply_act empty_disk (ACreate lk_n 256)) (ACreate lk_n2 256).
Definition lk_d1 : disk := apply_act lk_d0 (AWrite lk_n 0 152 lk_pb).
(* bytes: the same with the actual bytes *)
Definition lk_bd0 : bdisk := bapply (bapply [] (BCreate lk_n 256)) (BCreate lk_n2 256).
Definition lk_bd1 : bdisk := bapply lk_bd0 (BWrite lk_n 0 lk_new).

Example Link_ex_cfg : cfg_ok lk_c /\ finfo lk_c lk_n = lk_info /\ hdr_wf (finfo lk_c lk_n) /\ hdr_wf (finfo lk_c lk_n2).
Proof.
  split; [repeat split; try (left; reflexivity); reflexivity|]. split; [reflexivity|].
  split; repeat split; reflexivity.
Qed.

Example Link_ex_logs_ok : logs_ok lk_ls.
Proof.
  repeat constructor; try (vm_compute; intros; discriminate); try (vm_compute; reflexivity).
Qed.

(* the two-file directory with a batch in flight is drep-related; the byte-level
   file: the bytes in the page cache, 256 zero bytes durable, one unsynced write,
   directory entry not durable *)
Example Link_ex_disk :
  drep lk_c lk_bd0 lk_d0 /\ drep lk_c lk_bd1 lk_d1 /\
  lk_bd1 = [(lk_n, {| bf_data := lk_new ++ zeros 104; bf_sync := zeros 256; bf_pend := [(0, lk_new)]; bf_dir := false |});
            (lk_n2, bcreated 256)] /\
  dk_files lk_d1 = [(lk_n, written (created 256) lk_pb); (lk_n2, created 256)] /\
  frep_at lk_info [] (Some (map enc lk_ls, false))
          {| bf_data := lk_new ++ zeros 104; bf_sync := zeros 256; bf_pend := [(0, lk_new)]; bf_dir := false |}
          (written (created 256) lk_pb).
Proof.
  assert (D0 : drep lk_c lk_bd0 lk_d0).
  { destruct Link_ex_cfg as (_ & _ & H1 & H2).
    apply bcreate_drep; [apply bcreate_drep; [constructor|exact H1]|exact H2]. }
  destruct (bwrite_drep lk_c lk_bd0 lk_d0 lk_info lk_n [] (bcreated 256) (created 256)
              (OpAppend (ents lk_ls)) lk_w1 (snd (append (init_empty lk_info) (ents lk_ls) FNone))
              (map enc lk_ls, sealed lk_w1) lk_ls) as (_ & _ & D1 & _ & R1 & _).
  - exact D0.
  - reflexivity.
  - repeat split; reflexivity.
  - vm_compute. reflexivity.
  - vm_compute. reflexivity.
  - apply frep_create.
  - vm_compute. reflexivity.
  - reflexivity.
  - exact Link_ex_logs_ok.
  - vm_compute. reflexivity.
  - assert (E1 : batch_write lk_info (cstate lk_info []) (map enc lk_ls, sealed lk_w1) = lk_new) by (vm_compute; reflexivity).
    assert (E2 : len (image lk_info []) = 0) by reflexivity.
    assert (E3 : len lk_new = 152) by (vm_compute; reflexivity).
    assert (E4 : sealed lk_w1 = false) by (vm_compute; reflexivity).
    rewrite E1, E2, E3 in D1. rewrite E1, E2, E4 in R1.
    split; [exact D0|]. split; [exact D1|]. split; [vm_compute; reflexivity|]. split; [vm_compute; reflexivity|].
    replace (lk_new ++ zeros 104) with (bf_data (bwrite_file (bcreated 256) 0 lk_new)) by (vm_compute; reflexivity).
    exact R1.
Qed.

(* a concrete power loss: the second file (entry not durable) disappears; of the
   batch in flight chunk 3 of 19 does not reach the disk.  RecoverTail zeroes the
   torn bytes; L2's crash choice "keep the first file, drop its batch" gives the
   related disk. *)
Definition lk_out : bdisk := [(lk_n, bkept (lk_T ++ zeros 104))].
Definition lk_cc : crash_choice := {| cc_keep_file := [lk_n]; cc_keep_batch := [] |}.

Example Link_ex_disk_crash :
  bcrash lk_bd1 lk_out /\
  bscrub lk_c lk_out = [(lk_n, bkept (zeros 256))] /\
  dk_files (crash_disk lk_cc lk_d1) =
    [(lk_n, {| df_ents := []; df_end := 0; df_seal := 0; df_pend := None; df_dir := true; df_size := 256 |})] /\
  drep lk_c (bscrub lk_c lk_out) (crash_disk lk_cc lk_d1).
Proof.
  destruct Link_ex_torn as (HT & Hnc & _). destruct Link_ex_disk as (_ & _ & Ebd & _).
  split; [|split; [vm_compute; reflexivity|split; [vm_compute; reflexivity|]]].
  - rewrite Ebd. apply (bcr_cons _ [(lk_n, bkept (lk_T ++ zeros 104))] _ []).
    + apply bcf_keep. cbn [bf_sync bf_pend].
      apply (ta_cons _ 0 lk_new lk_T).
      * replace (region (zeros 256) (N.to_nat 0) (length lk_new)) with (zeros (length lk_new)) by (vm_compute; reflexivity).
        apply torn_torn_over. exact HT.
      * exact Hnc.
      * replace (lk_T ++ zeros 104) with (overwrite (zeros 256) (N.to_nat 0) lk_T) by (vm_compute; reflexivity).
        constructor.
    + apply (bcr_cons _ [] _ []); [apply bcf_drop; reflexivity|constructor].
  - replace (bscrub lk_c lk_out) with [(lk_n, bkept (zeros 256))] by (vm_compute; reflexivity).
    unfold drep.
    replace (dk_files (crash_disk lk_cc lk_d1)) with
      [(lk_n, {| df_ents := []; df_end := 0; df_seal := 0; df_pend := None; df_dir := true; df_size := 256 |})]
      by (vm_compute; reflexivity).
    constructor; [|constructor]. cbn [fst snd]. split; [reflexivity|].
    split; [apply Link_ex_cfg|]. exists [], None.
    constructor; cbn [opt_batch app bkept bf_sync bf_pend bf_dir df_dir cur_ents df_pend df_ents].
    + constructor; reflexivity.
    + constructor.
    + reflexivity.
    + exists 256%nat. reflexivity.
    + reflexivity.
    + reflexivity.
    + reflexivity.
Qed.

(* the branch of apply_act that extends a pending batch (a second write right
   behind a batch that was never synced, without adopt_disk in between): L2's
   merged batch survives a power loss whole or not at all (3 or 0 records), the
   bytes can also keep the first batch only (2 records).  The state is not
   reachable in the histories of the WAL-level theorems (every restart applies
   adopt_disk first; crash histories have no failed fsync), so this is a limit
   of that branch, not a defect of the theorems. *)
Definition lk_x2 := append lk_w1 (ents [lk_log 3]) FNone.
Definition lk_new2 : bytes := match lk_x2 with (_, _, [WWrite _ b; _]) => b | _ => [] end.
Definition lk_pb2 : pbatch := pb_of [lk_log 3] (snd (fst lk_x2)).
Definition lk_f2 : dfile := written (created 256) (merged lk_pb lk_pb2).

Example Link_ex_merged_crash :
  lookup lk_n (dk_files (apply_act lk_d1 (AWrite lk_n 152 (len lk_new2) lk_pb2))) = Some lk_f2 /\
  map (fun keep => llen (df_ents (crashed keep lk_f2))) [true; false] = [3; 0] /\
  torn_apply (zeros 256) [(0, lk_new); (152, lk_new2)] (lk_new ++ zeros 104) /\
  recover_state lk_info (lk_new ++ zeros 104) = Some lk_w1 /\ len (w_offsets lk_w1) = 2.
Proof.
  split; [vm_compute; reflexivity|]. split; [vm_compute; reflexivity|].
  split; [|split; vm_compute; reflexivity].
  apply (ta_cons _ 0 lk_new lk_new).
  - replace (region (zeros 256) (N.to_nat 0) (length lk_new)) with (zeros (length lk_new)) by (vm_compute; reflexivity).
    apply torn_torn_over. apply (torn_refl 19). vm_compute. reflexivity.
  - left. reflexivity.
  - apply (ta_cons _ 152 lk_new2 (zeros (length lk_new2))).
    + replace (region (overwrite (zeros 256) (N.to_nat 0) lk_new) (N.to_nat 152) (length lk_new2))
        with (zeros (length lk_new2)) by (vm_compute; reflexivity).
      apply torn_torn_over. apply (torn_all_zero 8). vm_compute. reflexivity.
    + apply no_torn_collisionb_spec. vm_compute. reflexivity.
    + replace (lk_new ++ zeros 104)
        with (overwrite (overwrite (zeros 256) (N.to_nat 0) lk_new) (N.to_nat 152) (zeros (length lk_new2)))
        by (vm_compute; reflexivity).
      constructor.
Qed.
