(* Link -- the two models of a segment file are one: theorems relating the byte
   level L1 (Seg/Writer.v, Recover.v, Reader.v, SegAbs.v) to the abstract files
   L2 (Wal/Model.v: dfile, wseg, seg_append, seg_force_seal, seg_recover,
   seg_read, crash_file) that every WAL-level theorem (C01-C05, C08, C09, C13,
   C20) is about.  Not one of the 20 properties: it replaces the step "L2's
   files behave like the byte-level files", which used to rest on the L1 law
   plus trace testing, by theorems.  Only statements here; definitions in
   Link/Abs.v, proofs in Link/AbsFacts1..4.v.

   Vocabulary (Link/Abs.v):
     enc l                 the bytes stored for record l (its BinaryCodec encoding)
     ents ls               the L1 batch (index, payload) of the records ls
     rep info bs f         the abstract file f represents the byte image
                           [image info bs] of the committed L1 batches bs
     rep_p info bs b f     ... with the batch b written behind it, not yet synced
     cur_rep info bs f     f as a reader / a restarted process sees it (pending
                           batch included) represents [image info bs]
     rep_w w1 w2           the numeric writer w2 represents the byte writer w1
     res_abs, abs_acts     L1 results / I/O actions as L2 sees them
     linked ...            all of it, as an invariant of a file's life
   Guards: encs_ok (payload bytes < 256, length <= MaxEntrySize; implied by
   the WAL-level log_ok: Link_log_ok_enc_ok), hdr_wf (header fields < 2^64),
   files below 2^32 bytes (the code's uint32 offsets), consec (the batch has
   consecutive indexes: StoreLogs checks that before calling the segment). *)
From RW Require Import Base.Bytes Base.BytesFacts Base.Crc32c Fmt.Codec Fmt.Frame
     Seg.Writer Seg.Recover Seg.Reader Seg.SegAbs Seg.WriterFacts Seg.RecoverFacts Seg.ChainFacts
     Wal.Model Wal.Spec Link.Abs Link.AbsFacts1 Link.AbsFacts2 Link.AbsFacts3 Link.AbsFacts4
     Run.RunSeg Run.RunSegFacts Gen.Constants.
Open Scope N_scope.

(* ================================================================== *)
(* 1. Writer simulation                                                 *)

(* Append, no fault.  From corresponding writers, L1 [append] on the encoded
   batch and L2 [seg_append] return corresponding results (ok / sealed / too
   big / non-monotonic alike) and corresponding writers, and L2's environment
   is obtained by performing the abstraction of L1's actions: AWrite at the
   offset of the WWrite with the length of the bytes written, then ASync.  No
   size guard is needed: the uint32 arithmetic of both models is the same. *)
Theorem Link_append_sim :
  forall w1 w2 ls e,
    rep_w w1 w2 -> consec ls -> e_fault e = None ->
    exists r w1' acts w2',
      append w1 (ents ls) FNone = (r, w1', acts) /\
      seg_append w2 ls e = (res_abs r, w2', do_acts e (abs_acts (ws_name w2) (pb_of ls w1') acts)) /\
      rep_w w1' w2' /\
      (acts = [] \/ exists buf, acts = [WWrite (ws_off w2) buf; WSync]).
Proof. exact append_sim. Qed.
Print Assumptions Link_append_sim.

(* Append under any fault position.  x0 = the fault-free L1 run (it fixes the
   intended actions), x = the L1 run under the fault matching L2's counter
   (0 = the write fails, 1 = the fsync fails): same result, corresponding
   writers (both rolled back on a fault), L2 performs the intended actions up
   to the failing one. *)
Theorem Link_append_sim_faults :
  forall w1 w2 ls e,
    rep_w w1 w2 -> consec ls ->
    let x0 := append w1 (ents ls) FNone in
    let x := append w1 (ents ls) (wfault_of (e_fault e)) in
    exists w2',
      seg_append w2 ls e =
        (res_abs (fst (fst x)), w2',
         do_acts e (abs_acts (ws_name w2) (pb_of ls (snd (fst x0))) (snd x0))) /\
      rep_w (snd (fst x)) w2'.
Proof. exact append_sim_gen. Qed.
Print Assumptions Link_append_sim_faults.

Theorem Link_force_seal_sim :
  forall w1 w2 e,
    rep_w w1 w2 -> e_fault e = None ->
    exists r w1' acts w2',
      force_seal w1 FNone = (r, w1', acts) /\
      seg_force_seal w2 e = (res_abs r, w2', do_acts e (abs_acts (ws_name w2) (pb_of [] w1') acts)) /\
      rep_w w1' w2'.
Proof. exact force_seal_sim. Qed.
Print Assumptions Link_force_seal_sim.

Theorem Link_force_seal_sim_faults :
  forall w1 w2 e,
    rep_w w1 w2 ->
    let x0 := force_seal w1 FNone in
    let x := force_seal w1 (wfault_of (e_fault e)) in
    exists w2',
      seg_force_seal w2 e =
        (res_abs (fst (fst x)), w2',
         do_acts e (abs_acts (ws_name w2) (pb_of [] (snd (fst x0))) (snd x0))) /\
      rep_w (snd (fst x)) w2'.
Proof. exact force_seal_sim_gen. Qed.
Print Assumptions Link_force_seal_sim_faults.

(* the writers Create hands out correspond *)
Theorem Link_rep_w_init : forall info, rep_w (init_empty info) (new_wseg info).
Proof. exact rep_w_init. Qed.
Print Assumptions Link_rep_w_init.

(* One commit on the files.  A successful L1 operation on the writer of the
   image of bs writes exactly [batch_write] at the end of the image; the L2
   actions abstracting its I/O turn a file representing bs into one
   representing "bs with b pending" (after the write: the crash window) and
   into one representing bs ++ [b] (after the fsync). *)
Theorem Link_commit_rep :
  forall info bs f op w1' acts b ls d,
    let s := cstate info bs in
    let n := name_of info in
    rep info bs f -> lookup n (dk_files d) = Some f ->
    wrun (wst info s) [op] = Some (w1', acts, [b]) ->
    fst b = map enc ls ->
    len (image info (bs ++ [b])) < two32 ->
    let new := batch_write info s b in
    let pb := pb_of ls w1' in
    let aw := AWrite n (len (image info bs)) (len new) pb in
    acts = [WWrite (len (image info bs)) new; WSync] /\
    w1' = wst info (cstate info (bs ++ [b])) /\
    abs_acts n pb acts = [aw; ASync n] /\
    lookup n (dk_files (apply_act d aw)) = Some (written f pb) /\ rep_p info bs b (written f pb) /\
    lookup n (dk_files (apply_act (apply_act d aw) (ASync n))) = Some (synced f pb) /\
    rep info (bs ++ [b]) (synced f pb).
Proof. exact commit_rep. Qed.
Print Assumptions Link_commit_rep.

(* Append, the two writers side by side on a file *)
Theorem Link_append_sim_rep :
  forall info bs f w2 ls e w1' acts w2' e',
    let s := cstate info bs in
    let n := name_of info in
    rep info bs f -> lookup n (dk_files (e_disk e)) = Some f ->
    rep_w (wst info s) w2 -> consec ls -> ls <> [] -> e_fault e = None ->
    append (wst info s) (ents ls) FNone = (WOk, w1', acts) ->
    seg_append w2 ls e = (Model.ROk, w2', e') ->
    let b := (map enc ls, sealed w1') in
    len (image info (bs ++ [b])) < two32 ->
    acts = [WWrite (len (image info bs)) (batch_write info s b); WSync] /\
    w1' = wst info (cstate info (bs ++ [b])) /\ rep_w w1' w2' /\
    lookup n (dk_files (e_disk e')) = Some (synced f (pb_of ls w1')) /\
    rep info (bs ++ [b]) (synced f (pb_of ls w1')).
Proof. exact append_sim_rep. Qed.
Print Assumptions Link_append_sim_rep.

Theorem Link_force_seal_sim_rep :
  forall info bs f w2 e w1' acts w2' e',
    let s := cstate info bs in
    let n := name_of info in
    rep info bs f -> lookup n (dk_files (e_disk e)) = Some f ->
    rep_w (wst info s) w2 -> e_fault e = None -> ws_index_start w2 = 0 ->
    force_seal (wst info s) FNone = (WOk, w1', acts) ->
    seg_force_seal w2 e = (Model.ROk, w2', e') ->
    let b := (@nil bytes, true) in
    len (image info (bs ++ [b])) < two32 ->
    acts = [WWrite (len (image info bs)) (batch_write info s b); WSync] /\
    w1' = wst info (cstate info (bs ++ [b])) /\ rep_w w1' w2' /\
    lookup n (dk_files (e_disk e')) = Some (synced f (pb_of [] w1')) /\
    rep info (bs ++ [b]) (synced f (pb_of [] w1')).
Proof. exact force_seal_sim_rep. Qed.
Print Assumptions Link_force_seal_sim_rep.

(* ================================================================== *)
(* 2. Recovery and crash simulation                                     *)

(* (a) Nothing pending: byte-level recovery of "image, then zeros" returns the
   byte writer that the writer L2's seg_recover builds represents. *)
Theorem Link_recover_sim :
  forall info bs f e k,
    hdr_wf info -> rep info bs f -> encs_ok (df_ents f) -> len (image info bs) < two32 ->
    lookup (name_of info) (dk_files (e_disk e)) = Some f ->
    exists w1 w2,
      recover_state info (image info bs ++ zeros k) = Some w1 /\
      seg_recover info e = Some (Some w2) /\ rep_w w1 w2 /\
      w1 = wst info (cstate info bs).
Proof. exact recover_sim. Qed.
Print Assumptions Link_recover_sim.

(* the same for the content a restarted process sees (a pending batch that is
   complete in the page cache: restart without power loss, L2's adopt_file) *)
Theorem Link_recover_sim_cur :
  forall info bs f e k,
    hdr_wf info -> cur_rep info bs f -> encs_ok (cur_ents f) -> len (image info bs) < two32 ->
    lookup (name_of info) (dk_files (e_disk e)) = Some f ->
    recover_state info (image info bs ++ zeros k) = Some (wst info (cstate info bs)) /\
    seg_recover info e = Some (Some (recw info f)) /\
    rep_w (wst info (cstate info bs)) (recw info f).
Proof. exact recover_sim_cur. Qed.
Print Assumptions Link_recover_sim_cur.

(* (b) THE JUSTIFICATION OF crash_file.  f represents the image of bs with one
   more batch b written at its end but not yet synced.  For EVERY torn image T
   of the bytes of b over zeros (per 8-byte chunk new or old, RecoverFacts.torn)
   that is not a CRC collision: byte-level recovery of the file succeeds,
   returns the writer of bs ++ [b] if T is complete and of bs otherwise, and
   zeroStaleTail re-establishes "image, then zeros"; L2's crash_file with the
   pending batch KEPT iff T is complete leaves a file that represents the
   recovered image, and L2's seg_recover on it yields a writer that represents
   the recovered byte writer. *)
Theorem Link_crash_file_sound :
  forall info bs b f c T k,
    let s := cstate info bs in
    let n := name_of info in
    let new := batch_write info s b in
    hdr_wf info -> rep_p info bs b f -> encs_ok (cur_ents f) ->
    len (image info (bs ++ [b])) < two32 ->
    torn new T -> no_torn_collision new T ->
    (df_dir f = true \/ mem_name n (cc_keep_file c) = true) ->
    mem_name n (cc_keep_batch c) = beq_bytes T new ->
    let file := image info bs ++ T ++ zeros k in
    let bs' := if beq_bytes T new then bs ++ [b] else bs in
    let w1 := wst info (cstate info bs') in
    exists f',
      crash_file c (n, f) = [(n, f')] /\ rep info bs' f' /\ df_dir f' = true /\
      recover_state info file = Some w1 /\
      (exists acts, recover_tail info file = Some (w1, acts) /\
                    apply_wactions file acts = image info bs' ++ zeros (length file - length (image info bs'))) /\
      rep_w w1 (recw info f') /\
      forall e, lookup n (dk_files (e_disk e)) = Some f' -> seg_recover info e = Some (Some (recw info f')).
Proof. exact crash_file_sound. Qed.
Print Assumptions Link_crash_file_sound.

(* ... and both choices of crash_file are produced by a torn write: the
   adversary of L2 is exactly as strong as byte-level tearing of the batch *)
Theorem Link_crash_file_tight :
  forall info s b (keep : bool),
    let new := batch_write info s b in
    exists T, torn new T /\ no_torn_collision new T /\ beq_bytes T new = keep.
Proof. exact crash_file_tight. Qed.
Print Assumptions Link_crash_file_tight.

(* ================================================================== *)
(* 3. Reader simulation                                                 *)

(* tail: for every idx the byte-level tail reader returns the encoding of the
   record L2's tail lookup returns, ErrNotFound exactly when L2 finds nothing *)
Theorem Link_read_sim_tail :
  forall info bs f d w2 idx r,
    cur_rep info bs f -> encs_ok (cur_ents f) ->
    lookup (name_of info) (dk_files d) = Some f ->
    rep_w (wst info (cstate info bs)) w2 ->
    tail_get (wst info (cstate info bs)) (image info bs ++ r) idx =
      match tail_lookup w2 idx d with
      | Some l => Reader.ROk (enc l)
      | None => RNotFound
      end.
Proof. exact read_sim_tail. Qed.
Print Assumptions Link_read_sim_tail.

(* sealed: the reader opened with the index start recorded in the abstract file *)
Theorem Link_read_sim_sealed :
  forall info info' bs f d idx l r,
    cur_rep info bs f -> encs_ok (cur_ents f) -> len (image info bs) < two32 ->
    lookup (name_of info) (dk_files d) = Some f ->
    cur_seal f <> 0 ->
    si_base info' = si_base info -> si_index_start info' = cur_seal f ->
    si_base info <= idx -> si_min info' <= idx -> (si_max info' = 0 \/ idx <= si_max info') ->
    seg_read (name_of info) (si_base info) idx d = Some l ->
    sealed_get info' (image info bs ++ r) idx = Reader.ROk (enc l).
Proof. exact read_sim_sealed. Qed.
Print Assumptions Link_read_sim_sealed.

(* the stored bytes of a well-formed record decode to the record *)
Theorem Link_enc_decode :
  forall l, wf_log l ->
    encode_log l = Some (enc l) /\ decode_log (enc l) = Some l /\ codec_view l = l /\ wf_bytes (enc l).
Proof. exact enc_decode. Qed.
Print Assumptions Link_enc_decode.

(* GetLog down to bytes: what L2 hands back (codec_view l) is the decoding of
   the bytes the byte-level reader finds, and it is the stored record *)
Theorem Link_get_sim_tail :
  forall info bs f d w2 idx l r,
    cur_rep info bs f -> encs_ok (cur_ents f) ->
    lookup (name_of info) (dk_files d) = Some f ->
    rep_w (wst info (cstate info bs)) w2 ->
    tail_lookup w2 idx d = Some l -> wf_log l ->
    exists p, tail_get (wst info (cstate info bs)) (image info bs ++ r) idx = Reader.ROk p /\
              decode_log p = Some (codec_view l) /\ codec_view l = l.
Proof. exact get_sim_tail. Qed.
Print Assumptions Link_get_sim_tail.

Theorem Link_get_sim_sealed :
  forall info info' bs f d idx l r,
    cur_rep info bs f -> encs_ok (cur_ents f) -> len (image info bs) < two32 ->
    lookup (name_of info) (dk_files d) = Some f ->
    cur_seal f <> 0 ->
    si_base info' = si_base info -> si_index_start info' = cur_seal f ->
    si_base info <= idx -> si_min info' <= idx -> (si_max info' = 0 \/ idx <= si_max info') ->
    seg_read (name_of info) (si_base info) idx d = Some l -> wf_log l ->
    exists p, sealed_get info' (image info bs ++ r) idx = Reader.ROk p /\
              decode_log p = Some (codec_view l) /\ codec_view l = l.
Proof. exact get_sim_sealed. Qed.
Print Assumptions Link_get_sim_sealed.

(* Filer.Open of a sealed segment: the byte-level header validation accepts the
   image exactly when L2's open_segs does (committed header: cur_end <> 0) *)
Theorem Link_open_sealed_sim :
  forall info bs f k,
    hdr_wf info -> cur_rep info bs f ->
    open_sealed info (image info bs ++ zeros k) = negb (cur_end f =? 0).
Proof. exact open_sealed_sim_zeros. Qed.
Print Assumptions Link_open_sealed_sim.

(* the guard of the WAL-level theorems implies the byte-level guard *)
Theorem Link_log_ok_enc_ok : forall ls, logs_ok ls -> encs_ok ls.
Proof. exact logs_ok_encs_ok. Qed.
Print Assumptions Link_log_ok_enc_ok.

(* rep / rep_p give cur_rep *)
Theorem Link_rep_cur_rep : forall info bs f, rep info bs f -> cur_rep info bs f.
Proof. exact rep_cur_rep. Qed.
Print Assumptions Link_rep_cur_rep.
Theorem Link_rep_p_cur_rep : forall info bs b f, rep_p info bs b f -> cur_rep info (bs ++ [b]) f.
Proof. exact rep_p_cur_rep. Qed.
Print Assumptions Link_rep_p_cur_rep.

(* ================================================================== *)
(* 4. The link as an invariant of a segment file's life                 *)

Theorem Link_linked_create :
  forall info size k, linked info [] (created size) (init_empty info) (new_wseg info) (zeros k).
Proof. exact linked_create. Qed.
Print Assumptions Link_linked_create.

(* an acknowledged L2 append whose write ends below 4 GiB (a guard on L2's own
   numbers): L1 acknowledges it, writes the bytes of one more batch at the
   offset and of the length L2 recorded, makes the same seal decision; linked *)
Theorem Link_linked_append :
  forall info bs f w1 w2 file ls e w2' e',
    let n := name_of info in
    linked info bs f w1 w2 file -> lookup n (dk_files (e_disk e)) = Some f ->
    consec ls -> ls <> [] -> encs_ok ls -> e_fault e = None ->
    ws_off w2 + l2_total w2 ls < two32 ->
    seg_append w2 ls e = (Model.ROk, w2', e') ->
    exists w1' new f',
      append w1 (ents ls) FNone = (WOk, w1', [WWrite (ws_off w2) new; WSync]) /\
      len new = l2_total w2 ls /\ sealed w1' = l2_seal w2 ls /\
      lookup n (dk_files (e_disk e')) = Some f' /\
      linked info (bs ++ [(map enc ls, sealed w1')]) f' w1' w2'
             (apply_wactions file [WWrite (ws_off w2) new; WSync]).
Proof. exact linked_append. Qed.
Print Assumptions Link_linked_append.

Theorem Link_linked_force_seal :
  forall info bs f w1 w2 file e w2' e',
    let n := name_of info in
    linked info bs f w1 w2 file -> lookup n (dk_files (e_disk e)) = Some f ->
    e_fault e = None -> ws_index_start w2 = 0 ->
    ws_off w2 + fs_total w2 < two32 ->
    seg_force_seal w2 e = (Model.ROk, w2', e') ->
    exists w1' new f',
      force_seal w1 FNone = (WOk, w1', [WWrite (ws_off w2) new; WSync]) /\
      len new = fs_total w2 /\ sealed w1' = true /\
      lookup n (dk_files (e_disk e')) = Some f' /\
      linked info (bs ++ [([], true)]) f' w1' w2'
             (apply_wactions file [WWrite (ws_off w2) new; WSync]).
Proof. exact linked_force_seal. Qed.
Print Assumptions Link_linked_force_seal.

(* power loss in the middle of a commit (any torn image T of the bytes in
   flight), then RecoverTail resp. crash_file + seg_recover: linked again,
   with the batch iff T is complete *)
Theorem Link_linked_crash :
  forall info bs f w1 w2 file op w1' off new b ls c T,
    let n := name_of info in
    hdr_wf info ->
    linked info bs f w1 w2 file -> encs_ok ls ->
    wrun w1 [op] = Some (w1', [WWrite off new; WSync], [b]) -> fst b = map enc ls ->
    len (image info (bs ++ [b])) < two32 ->
    torn new T -> no_torn_collision new T ->
    let fm := written f (pb_of ls w1') in
    (df_dir f = true \/ mem_name n (cc_keep_file c) = true) ->
    mem_name n (cc_keep_batch c) = beq_bytes T new ->
    let file1 := overwrite file (N.to_nat off) T in
    let bs' := if beq_bytes T new then bs ++ [b] else bs in
    exists f' w1r acts,
      crash_file c (n, fm) = [(n, f')] /\
      recover_tail info file1 = Some (w1r, acts) /\
      linked info bs' f' w1r (recw info f') (apply_wactions file1 acts).
Proof. exact linked_crash. Qed.
Print Assumptions Link_linked_crash.

Theorem Link_linked_restart :
  forall info bs f w1 w2 file c,
    let n := name_of info in
    hdr_wf info -> linked info bs f w1 w2 file ->
    (df_dir f = true \/ mem_name n (cc_keep_file c) = true) ->
    exists f' acts,
      crash_file c (n, f) = [(n, f')] /\
      recover_tail info file = Some (w1, acts) /\
      linked info bs f' w1 (recw info f') (apply_wactions file acts).
Proof. exact linked_restart. Qed.
Print Assumptions Link_linked_restart.

(* the 2^32 guards above follow from the size facts L2's own invariants carry
   for the tail segment (cfg_ok: limit < 2^30; sop_ok: batch < 2^30;
   CrashInv.fsz_ok: 8 n <= end <= limit + 8 while unsealed) *)
Theorem Link_l2_append_guard :
  forall w2 ls,
    ws_limit w2 < 1073741824 -> ws_off w2 <= ws_limit w2 + 8 -> 8 * ws_n w2 <= ws_off w2 ->
    frames_size ls < 1073741824 ->
    ws_off w2 + l2_total w2 ls < two32.
Proof. exact l2_append_guard. Qed.
Print Assumptions Link_l2_append_guard.
Theorem Link_l2_force_seal_guard :
  forall w2,
    ws_limit w2 < 1073741824 -> ws_off w2 <= ws_limit w2 + 8 -> 8 * ws_n w2 <= ws_off w2 ->
    ws_off w2 + fs_total w2 < two32.
Proof. exact l2_force_seal_guard. Qed.
Print Assumptions Link_l2_force_seal_guard.

(* ================================================================== *)
(* Non-vacuity: a concrete file (limit 256), a batch of two records      *)
Definition lk_info : seginfo :=
  {| si_id := 7; si_base := 1; si_min := 1; si_max := 0; si_codec := 1;
     si_index_start := 0; si_sealed := false; si_size_limit := 256 |}.
Definition lk_time : gotime := {| t_sec := 63800000000; t_nsec := 0; t_zone := None |}.
Definition lk_log (i : N) : log :=
  {| l_index := i; l_term := 1; l_type := 0; l_data := repeat 65 24; l_ext := []; l_time := lk_time |}.
Definition lk_ls : list log := [lk_log 1; lk_log 2].
Definition lk_n : fname := name_of lk_info.
Definition lk_env : env :=
  {| e_acts := []; e_disk := apply_act empty_disk (ACreate lk_n 256); e_fault := None; e_fx := fx_none; e_m := zero_metrics |}.

(* the guards are satisfiable *)
Example Link_ex_guards :
  consec lk_ls /\ encs_ok lk_ls /\ hdr_wf lk_info /\
  lookup lk_n (dk_files (e_disk lk_env)) = Some (created 256) /\
  ws_off (new_wseg lk_info) + l2_total (new_wseg lk_info) lk_ls < two32.
Proof.
  split; [cbn; auto|]. split.
  { repeat constructor; try (apply wf_bytesb_spec; vm_compute; reflexivity); vm_compute; discriminate. }
  split; [unfold hdr_wf, two64; cbn; lia|]. split; vm_compute; reflexivity.
Qed.

(* the two writers side by side: same offset, same length, same seal decision,
   L2's actions are the abstraction of L1's *)
Example Link_ex_append :
  match append (init_empty lk_info) (ents lk_ls) FNone, seg_append (new_wseg lk_info) lk_ls lk_env with
  | (WOk, w1', [WWrite off new; WSync]), (Model.ROk, w2', e') =>
      off = 0 /\ len new = 152 /\
      e_acts e' = [ASync lk_n; AWrite lk_n 0 152 (pb_of lk_ls w1')] /\
      ws_off w2' = w_off w1' /\ ws_index_start w2' = w_index_start w1' /\
      ws_commit_idx w2' = 2 /\ w_commit_idx w1' = 2 /\
      seg_read lk_n 1 2 (e_disk e') = Some (lk_log 2) /\
      tail_get w1' (new ++ zeros 104) 2 = Reader.ROk (enc (lk_log 2)) /\
      decode_log (enc (lk_log 2)) = Some (lk_log 2)
  | _, _ => False
  end.
Proof. vm_compute. repeat split; reflexivity. Qed.

(* a torn write of that batch: chunk 3 of 19 did not reach the disk.  It is a
   torn image without CRC collision, incomplete -- and byte-level recovery
   returns the empty writer, the outcome crash_file offers as "dropped" *)
Definition lk_new : bytes :=
  match append (init_empty lk_info) (ents lk_ls) FNone with (_, _, [WWrite _ b; _]) => b | _ => [] end.
Definition lk_T : bytes := crash_mix (zeros (8 * 19)) lk_new 524279 20.

Example Link_ex_torn :
  torn lk_new lk_T /\ no_torn_collision lk_new lk_T /\ beq_bytes lk_T lk_new = false /\
  recover_state lk_info (lk_T ++ zeros 104) = Some (init_empty lk_info) /\
  recover_state lk_info (lk_new ++ zeros 104) =
    Some (snd (fst (append (init_empty lk_info) (ents lk_ls) FNone))) /\
  crash_file {| cc_keep_file := [lk_n]; cc_keep_batch := [] |}
             (lk_n, written (created 256) (pb_of lk_ls (init_empty lk_info))) =
    [(lk_n, {| df_ents := []; df_end := 0; df_seal := 0; df_pend := None; df_dir := true; df_size := 256 |})].
Proof.
  split; [apply crash_mix_torn; [vm_compute; reflexivity|lia]|].
  split; [apply no_torn_collisionb_spec; vm_compute; reflexivity|].
  repeat split; vm_compute; reflexivity.
Qed.

(* the hypothesis [consec] of the writer simulation is needed: seg_append looks
   at the first index of a batch only (StoreLogs has checked the rest), the
   byte-level writer checks every entry *)
Example Link_ex_consec_needed :
  let ls := [lk_log 1; lk_log 5] in
  fst (fst (append (init_empty lk_info) (ents ls) FNone)) = WErrNonMono /\
  fst (fst (seg_append (new_wseg lk_info) ls lk_env)) = Model.ROk /\
  fst (check_logs 0 ls) = RErrNonMono.
Proof. vm_compute. repeat split; reflexivity. Qed.
