(* C02 -- Recovery never fabricates, corrupts or half-applies.

   ===== BEGIN block "L1 law" (one segment file) =====
   Proofs in Seg/RecoverFacts.v, Seg/ChainFacts.v, Seg/FailFacts.v, Run/RunSegFacts.v.

   Setting.  A segment file holds n >= 0 committed batches (for n = 0 not even
   the header: the file is all zeros) followed by zeros.  The writer performs
   one more operation (an append, possibly sealing, or a force-seal) whose bytes
   `new` go to offset `off`; the machine crashes and the disk keeps a TORN image
   T of that write: per 8-byte-aligned chunk either the new bytes or the old
   (zero) bytes.  `torn new T` is exactly what RunSeg.crash_mix builds
   (C02_crash_mix_is_torn).  Recovery must return the state before the operation
   when T is incomplete and the state after it when T = new.

   no_torn_collision new T (decidable: no_torn_collisionb) fails only when T is
   incomplete, its last chunk (the commit frame) is on disk, and the CRC-32C of
   the rest of T equals the CRC-32C of the rest of new -- a genuine collision of
   the 32-bit checksum between two different byte strings of the same length. *)
From RW Require Import Base.Bytes Base.Crc32c Fmt.Frame Seg.Writer Seg.Recover Seg.SegAbs
     Seg.WriterFacts Seg.ScanFacts Seg.RecoverFacts Seg.ChainFacts Run.RunSeg Run.RunSegFacts Gen.Constants.
Open Scope N_scope.

(* THE LAW.  The recovered state EQUALS (all fields: info, empty buffer, crc 0,
   write offset, index start, offsets, commit index) the state the writer had
   before the torn operation, resp. after it when the image is complete.  The
   sealed case is included: w' carries the index start iff T is complete. *)
Theorem seg_recover_committed :
  forall info ops op w acts bs w' off new b T k,
    hdr_wf info -> ops_wf (ops ++ [op]) ->
    wrun (init_empty info) ops = Some (w, acts, bs) ->
    wrun w [op] = Some (w', [WWrite off new; WSync], [b]) ->
    len (image info (bs ++ [b])) < two32 ->
    torn new T -> no_torn_collision new T ->
    off = len (writes_concat acts) /\
    recover_state info (writes_concat acts ++ T ++ zeros k) = Some (if beq_bytes T new then w' else w).
Proof. exact ChainFacts.seg_recover_committed. Qed.
Print Assumptions seg_recover_committed.

(* the same on the byte image of any chain of batches (not only writer-made) *)
Theorem seg_recover_torn :
  forall info bs b T k,
    hdr_wf info -> chain_wf info c0 (bs ++ [b]) ->
    let s := cstate info bs in
    let new := batch_write info s b in
    torn new T -> no_torn_collision new T ->
    recover_state info (c_img s ++ T ++ zeros k) =
      Some (if beq_bytes T new then wst info (cstep info s b) else wst info s).
Proof. exact RecoverFacts.seg_recover_torn. Qed.
Print Assumptions seg_recover_torn.

(* zeroStaleTail: after recovery everything behind the recovered write offset is
   zero again, so the shape "committed batches ++ zeros" is re-established *)
Theorem recover_leaves_zero_tail :
  forall a x, apply_wactions (a ++ x) (scrub_actions (a ++ x) (len a)) = a ++ zeros (length x).
Proof. exact RecoverFacts.recover_leaves_zero_tail. Qed.
Print Assumptions recover_leaves_zero_tail.

(* chains: any interleaving of successful operations and crash/recover rounds.
   chain info k0 sv bs w f: w, f are the writer state and file after the history;
   sv / bs the operations / batches that survived (a torn operation survives iff
   its image was complete).  Conclusion: w is the state of a crash-free writer
   that executed exactly sv, and f is the image of bs followed by zeros. *)
Theorem seg_recover_chain :
  forall info k0 sv bs w f,
    hdr_wf info -> chain info k0 sv bs w f ->
    ops_wf sv /\ len (image info bs) < two32 /\
    (exists acts, wrun (init_empty info) sv = Some (w, acts, bs)) /\
    exists k, f = image info bs ++ zeros k.
Proof. exact ChainFacts.seg_recover_chain. Qed.
Print Assumptions seg_recover_chain.

(* in every round of such a chain recovery succeeds *)
Theorem seg_recover_round_total :
  forall info k0 sv bs w f op w2 off new b T,
    hdr_wf info -> chain info k0 sv bs w f ->
    op_wf op -> wrun w [op] = Some (w2, [WWrite off new; WSync], [b]) ->
    len (image info (bs ++ [b])) < two32 ->
    torn new T -> no_torn_collision new T ->
    exists w3 acts3, recover_tail info (overwrite f (N.to_nat off) T) = Some (w3, acts3) /\
                     w3 = (if beq_bytes T new then w2 else w).
Proof. exact ChainFacts.seg_recover_round_total. Qed.
Print Assumptions seg_recover_round_total.

(* the hypothesis is executable (the harness evaluates it on every crash image) *)
Theorem no_torn_collision_decidable :
  forall new T, no_torn_collisionb new T = true <-> no_torn_collision new T.
Proof. exact no_torn_collisionb_spec. Qed.
Print Assumptions no_torn_collision_decidable.

(* the crash images of the `segcrash` stream are torn images: file before the
   write = a ++ zeros, after = a ++ new ++ zeros, any chunk mask *)
Theorem C02_crash_mix_is_torn :
  forall ka kn a new z mask fuel,
    length a = (8 * ka)%nat -> length new = (8 * kn)%nat -> (0 < kn)%nat ->
    (8 * ka + 8 * kn + z < 8 * fuel)%nat ->
    exists T, torn new T /\
      crash_mix (a ++ zeros (8 * kn) ++ zeros z) (a ++ new ++ zeros z) mask fuel = a ++ T ++ zeros z.
Proof. exact crash_mix_file. Qed.
Print Assumptions C02_crash_mix_is_torn.

(* non-vacuity: one committed batch, then a sealing batch whose image loses its
   second chunk: torn, collision-free, and recovery returns the first batch only;
   the complete image recovers both and the index start *)
Definition ex_info : seginfo :=
  {| si_id := 3; si_base := 1; si_min := 1; si_max := 0; si_codec := 1;
     si_index_start := 0; si_sealed := false; si_size_limit := 64 |}.
Definition ex_s := cstate ex_info [([[1; 2; 3]], false)].
Definition ex_b : batch := ([[4; 5; 6; 7; 8; 9; 10; 11; 12]], true).
Definition ex_new := batch_write ex_info ex_s ex_b.
Definition ex_T := firstn 8 ex_new ++ zeros 8 ++ skipn 16 ex_new.
Example C02_ex_torn : torn ex_new ex_T.
Proof.
  change ex_new with (firstn 8 ex_new ++ firstn 8 (skipn 8 ex_new) ++ skipn 16 ex_new).
  apply torn_keep; [reflexivity|]. apply torn_zero; [reflexivity|].
  apply (torn_refl 4). reflexivity.
Qed.
Example C02_ex_nocoll : no_torn_collisionb ex_new ex_T = true /\ beq_bytes ex_T ex_new = false.
Proof. vm_compute. split; reflexivity. Qed.
Example C02_ex_recover :
  recover_state ex_info (c_img ex_s ++ ex_T ++ zeros 24) = Some (wst ex_info ex_s) /\
  recover_state ex_info (c_img ex_s ++ ex_new ++ zeros 24) = Some (wst ex_info (cstep ex_info ex_s ex_b)) /\
  w_index_start (wst ex_info (cstep ex_info ex_s ex_b)) = 88.
Proof. vm_compute. repeat split; reflexivity. Qed.

(* ---- leftovers of FAILED writes, power loss (Seg/FailFacts.v; the variant without
   power loss and the refutation of the recovery algorithm before the repair "fix:
   recovery verifies every commit frame" are in Props/C10.v, block "byte level") ----
   frun info k0 ops: any history of successful, refused and failed (write or fsync)
   appends / force-seals from init_empty on a file of zeros.  fs_sync: the file as of the
   last successful fsync; fs_pw: the writes issued since (all of them belong to failed
   operations, complete or SHORT: a short write puts the first half of its bytes);
   torn_writes: they reach the disk one after the other, each torn per 8-byte chunk
   over what is there (torn_part: the last chunk of a short write may be partial).  fs_bs: the acknowledged batches; fs_pend: the
   batches of the writes that failed since the last success.  Recovery of EVERY such
   durable image returns the writer of the acknowledged batches, or of those plus ONE
   batch of fs_pend whose bytes are completely on the disk: nothing of a batch that
   failed before the last successful fsync, no part of a batch, no mix of two.  (The
   batch need not be the LAST failed write: a power loss can keep an earlier unsynced
   write whole and lose a later one, fx_T_a below.)  Assumed: no_stale_commit, i.e. no
   commit frame the scan meets at or behind the recovered end stores the CRC of its
   apparent range (decidable: no_stale_commitb; C10_byte_no_stale_commit_decidable). *)
From RW Require Import Seg.RecoverOld Seg.FailFacts.

Theorem seg_fail_recover_crash :
  forall info k0 ops T,
    hdr_wf info -> fops_wf ops ->
    let st := frun info k0 ops in
    fs_ok st = true -> torn_writes (fs_sync st) (fs_pw st) T ->
    let s := cstate info (fs_bs st) in
    let p := len (c_img s) in
    (no_stale_commit T p -> recover_state info T = Some (wst info s)) /\
    (forall d, In d (fs_pend st) -> on_disk T p (batch_write info s d) ->
       no_stale_commit T (p + len (batch_write info s d)) ->
       recover_state info T = Some (wst info (cstate info (fs_bs st ++ [d])))).
Proof. exact fail_recover_crash. Qed.
Print Assumptions seg_fail_recover_crash.

(* one decidable hypothesis (crash_okb), one conclusion by cases *)
Theorem seg_fail_recover_crash_cases :
  forall info k0 ops T,
    hdr_wf info -> fops_wf ops ->
    let st := frun info k0 ops in
    fs_ok st = true -> torn_writes (fs_sync st) (fs_pw st) T ->
    crash_okb info st T = true ->
    recover_state info T = Some (wst info (cstate info (fs_bs st))) \/
    exists d, In d (fs_pend st) /\
              on_disk T (len (image info (fs_bs st))) (batch_write info (cstate info (fs_bs st)) d) /\
              recover_state info T = Some (wst info (cstate info (fs_bs st ++ [d]))).
Proof. exact fail_recover_crash_cases. Qed.
Print Assumptions seg_fail_recover_crash_cases.

(* from any state of such a run (histories with RecoverTail rounds in between) *)
Theorem seg_fail_recover_crash_from :
  forall info st0 ops T,
    hdr_wf info -> finv info st0 -> fops_wf ops ->
    let st := frun_from st0 ops in
    fs_ok st = true -> torn_writes (fs_sync st) (fs_pw st) T ->
    let s := cstate info (fs_bs st) in
    let p := len (c_img s) in
    (no_stale_commit T p -> recover_state info T = Some (wst info s)) /\
    (forall d, In d (fs_pend st) -> on_disk T p (batch_write info s d) ->
       no_stale_commit T (p + len (batch_write info s d)) ->
       recover_state info T = Some (wst info (cstate info (fs_bs st ++ [d])))).
Proof. exact fail_recover_crash_from. Qed.
Print Assumptions seg_fail_recover_crash_from.

(* non-vacuity: history [e1] ok, a = [a2;a3;a4] fsync fails, b = [b2;b3] fsync fails,
   then the power fails.  T_b: both writes complete; T_a: a complete, nothing of b;
   T_mix: the first two chunks of b over a.  All three are torn_writes outcomes, the
   hypothesis holds on each, and recovery returns [e1]+b, [e1]+a, [e1] alone *)
Example C02_ex_fail_crash_torn :
  torn_writes (fs_sync fx_st3) (fs_pw fx_st3) fx_T_b /\
  torn_writes (fs_sync fx_st3) (fs_pw fx_st3) fx_T_a /\
  torn_writes (fs_sync fx_st3) (fs_pw fx_st3) fx_T_mix.
Proof. exact fx_crash_torn. Qed.
Example C02_ex_fail_crash :
  fs_ok fx_st3 = true /\ fs_bs fx_st3 = [([fx_e1], false)] /\
  fs_pend fx_st3 = [([fx_a2; fx_a3; fx_a4], false); ([fx_b2; fx_b3], false)] /\
  crash_okb fx_info fx_st3 fx_T_b = true /\ crash_okb fx_info fx_st3 fx_T_a = true /\
  crash_okb fx_info fx_st3 fx_T_mix = true /\
  recover_state fx_info fx_T_b = Some (wst fx_info (cstate fx_info [([fx_e1], false); ([fx_b2; fx_b3], false)])) /\
  recover_state fx_info fx_T_a = Some (wst fx_info (cstate fx_info [([fx_e1], false); ([fx_a2; fx_a3; fx_a4], false)])) /\
  recover_state fx_info fx_T_mix = Some (wst fx_info (cstate fx_info [([fx_e1], false)])).
Proof. vm_compute. repeat split; reflexivity. Qed.

(* ===== END block "L1 law" ===== *)

(* C02 -- Recovery never fabricates, corrupts or half-applies.

   (The block "L1 law" about one segment file -- torn batches are recovered as absent,
   complete ones in full -- is maintained separately and goes ABOVE this block.) *)

(* ===== BEGIN block "WAL level" =====
   The abstract disk of Wal/Model.v keeps, per file, the synced entries and at most one
   written-but-unsynced batch; the crash adversary decides per file whether that batch
   reached the disk completely (a torn batch is recovered as absent: the L1 law).  On
   top of that, for ALL histories of calls, power losses at any I/O boundary with any
   adversary choice (also inside recovery, nested) and reopens -- guards as in C01.v --
   every crash point is covered BY PROOF (Wal/Crash*.v). *)
From RW Require Import Base.Bytes Fmt.Codec Fmt.Frame Wal.Model Wal.Spec Wal.Hist
  Wal.CrashInv Wal.CrashCalls10 Wal.CrashThm Wal.CrashExamples Wal.CrashExamplesFacts.
Open Scope N_scope.

Theorem C02_crash_refinement : crash_refinement_stmt.
Proof. exact crash_refinement. Qed.
Print Assumptions C02_crash_refinement.

(* After any crash, Open succeeds and what it recovers (log AND stable store) is exactly
   the ledger state [hs_acked] -- the contiguous log built from the contents passed to
   the StoreLogs/DeleteRange calls that returned nil -- or [hs_may], that state with the
   interrupted call applied in full.  Nothing never written, torn, or of a
   truncated-away generation can be returned: the recovered state is one of these two
   spec states, and GetLog reads exactly the spec state (next theorem). *)
Theorem C02_recovered_is_ledger :
  forall c steps d,
    (cfg_ok c /\ Forall hstep_wf steps /\ short_enough steps) ->
    hs_mode (hist_run c hist_init steps) = Down d ->
    exists w e, open_wal c (env_of d) = (OOk w, e) /\
      ({| sp_log := abs w (e_disk e); sp_kv := dk_stable (e_disk e) |} = hs_acked (hist_run c hist_init steps) \/
       {| sp_log := abs w (e_disk e); sp_kv := dk_stable (e_disk e) |} = hs_may (hist_run c hist_init steps)) /\
      dir_exact (e_disk e) = true /\ Forall not_fail (e_acts e).
Proof. exact recovery_after_any_history. Qed.
Print Assumptions C02_recovered_is_ledger.

(* A call interrupted at ANY of its I/O boundaries (j arbitrary) with ANY adversary
   choice is, after recovery, applied in full or not at all; for o = OStore ls this is:
   the batch in flight is present in full or absent in full. *)
Theorem C02_inflight_call_atomic :
  forall c steps s o j cc d,
    (cfg_ok c /\ Forall hstep_wf (steps ++ [HCrashIn o j cc]) /\ short_enough (steps ++ [HCrashIn o j cc])) ->
    hs_mode (hist_run c hist_init steps) = Up s ->
    hs_mode (hist_run c hist_init (steps ++ [HCrashIn o j cc])) = Down d ->
    exists w e, open_wal c (env_of d) = (OOk w, e) /\
      ({| sp_log := abs w (e_disk e); sp_kv := dk_stable (e_disk e) |} = hs_acked (hist_run c hist_init steps) \/
       {| sp_log := abs w (e_disk e); sp_kv := dk_stable (e_disk e) |}
         = snd (step_spec (hs_acked (hist_run c hist_init steps)) o)) /\
      dir_exact (e_disk e) = true.
Proof. exact interrupted_call_atomic. Qed.
Print Assumptions C02_inflight_call_atomic.

(* After any history (in particular after any crash and reopen) FirstIndex..LastIndex is
   contiguous: every index in it is readable and GetLog returns exactly the ledger's
   entry for it, i.e. the content most recently passed to StoreLogs for that index. *)
Theorem C02_range_is_readable :
  forall c steps s i,
    (cfg_ok c /\ Forall hstep_wf steps /\ short_enough steps) ->
    hs_mode (hist_run c hist_init steps) = Up s ->
    forall fi la, first_index_op (ss_wal s) = RVal fi -> last_index_op (ss_wal s) = RVal la ->
    1 <= fi -> fi <= i -> i <= la ->
    exists l, fst (get_log (ss_wal s) i (ss_env s)) = RLog l /\
              spec_get (sp_log (hs_acked (hist_run c hist_init steps))) i = Some l.
Proof. exact range_is_readable. Qed.
Print Assumptions C02_range_is_readable.

(* ---- non-vacuity: a 2-entry batch in flight (written, not fsynced) is recovered whole
   or not at all; a truncated-away entry (index 3, term 1) does not come back after
   index 3 was re-appended with term 7 and another crash *)
Example C02_ex_guards : hist_ok cfg128 hist_batch_lost /\ hist_ok cfg256 hist_trunc_after_commit.
Proof. exact (conj hist_batch_lost_ok hist_trunc_after_commit_ok). Qed.
Example C02_ex_batch_atomic :
  final_ok cfg128 hist_batch_kept = true /\ final_last cfg128 hist_batch_kept = 4 /\
  final_ok cfg128 hist_batch_lost = true /\ final_last cfg128 hist_batch_lost = 2.
Proof. vm_compute. repeat split; reflexivity. Qed.
Example C02_ex_no_old_generation :
  final_ok cfg256 hist_trunc_after_commit = true /\ final_term cfg256 hist_trunc_after_commit 3 = Some 7.
Proof. vm_compute. split; reflexivity. Qed.
(* ===== END block "WAL level" ===== *)
