(* C02 -- Recovery never fabricates, corrupts or half-applies log content.
   INTERIM file: the full statement is `crash_refinement_stmt` of Wal/Hist.v
   (all histories of calls, power losses at any I/O boundary with any adversary
   choice, nested crashes inside recovery, reopen cycles; see its comment for how
   it covers C02).  Its proof is in progress; until it lands only the fragments
   below are proved and the property is otherwise carried by the executable
   acceptance predicate `hist_run`/`hs_ok` (evaluated on random histories of
   the model on every run) and by the crash-image enumeration on the
   implementation (stream `crash`). *)
From RW Require Import Base.Bytes Fmt.Codec Fmt.Frame Wal.Model Wal.Spec Wal.Hist Wal.BasicFacts.
Open Scope N_scope.

(* the full statement (not yet a theorem) *)
Definition C02_full_statement : Prop := crash_refinement_stmt.

(* proved fragment (abstract disk level): after a power loss a file holds its synced
   entries, plus the batch in flight in full or not at all; nothing else *)
Theorem C02_batch_whole_or_absent_partial :
  forall c n f, df_dir f = true ->
  exists f', crash_file c (n, f) = [(n, f')] /\ df_pend f' = None /\ df_dir f' = true /\
             (df_ents f' = df_ents f \/
              exists b, df_pend f = Some b /\ df_ents f' = df_ents f ++ pb_ents b /\ df_end f' = pb_end b).
Proof. exact crash_file_durable. Qed.
Print Assumptions C02_batch_whole_or_absent_partial.
