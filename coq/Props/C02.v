(* C02 -- Recovery never fabricates, corrupts or half-applies.

   ===== BEGIN block "L1 law" (one segment file) =====
   Proofs in Seg/RecoverFacts.v, Seg/ChainFacts.v, Run/RunSegFacts.v.

   Setting.  A segment file holds n >= 0 committed batches (for n = 0 not even
   the header: the file is all zeros) followed by zeros.  The writer performs
   one more operation (an append, possibly sealing, or a force-seal) whose bytes
   `new` go to offset `off`; the machine crashes and the disk keeps a TORN image
   T of that write: per 8-byte-aligned chunk either the new bytes or the old
   (zero) bytes.  `torn new T` is exactly what RunSeg.crash_mix builds
   (C02_crash_mix_is_torn).  Recovery must return the state before the operation
   when T is incomplete and the state after it when T = new.

   no_torn_collision new T (decidable: no_torn_collisionb) fails only when T is
   incomplete, its last chunk (the commit frame) is on disk, and the CRC-32C of
   the rest of T equals the CRC-32C of the rest of new -- a genuine collision of
   the 32-bit checksum between two different byte strings of the same length. *)
From RW Require Import Base.Bytes Base.Crc32c Fmt.Frame Seg.Writer Seg.Recover Seg.SegAbs
     Seg.WriterFacts Seg.ScanFacts Seg.RecoverFacts Seg.ChainFacts Run.RunSeg Run.RunSegFacts Gen.Constants.
Open Scope N_scope.

(* THE LAW.  The recovered state EQUALS (all fields: info, empty buffer, crc 0,
   write offset, index start, offsets, commit index) the state the writer had
   before the torn operation, resp. after it when the image is complete.  The
   sealed case is included: w' carries the index start iff T is complete. *)
Theorem seg_recover_committed :
  forall info ops op w acts bs w' off new b T k,
    hdr_wf info -> ops_wf (ops ++ [op]) ->
    wrun (init_empty info) ops = Some (w, acts, bs) ->
    wrun w [op] = Some (w', [WWrite off new; WSync], [b]) ->
    len (image info (bs ++ [b])) < two32 ->
    torn new T -> no_torn_collision new T ->
    off = len (writes_concat acts) /\
    recover_state info (writes_concat acts ++ T ++ zeros k) = Some (if beq_bytes T new then w' else w).
Proof. exact ChainFacts.seg_recover_committed. Qed.
Print Assumptions seg_recover_committed.

(* the same on the byte image of any chain of batches (not only writer-made) *)
Theorem seg_recover_torn :
  forall info bs b T k,
    hdr_wf info -> chain_wf info c0 (bs ++ [b]) ->
    let s := cstate info bs in
    let new := batch_write info s b in
    torn new T -> no_torn_collision new T ->
    recover_state info (c_img s ++ T ++ zeros k) =
      Some (if beq_bytes T new then wst info (cstep info s b) else wst info s).
Proof. exact RecoverFacts.seg_recover_torn. Qed.
Print Assumptions seg_recover_torn.

(* zeroStaleTail: after recovery everything behind the recovered write offset is
   zero again, so the shape "committed batches ++ zeros" is re-established *)
Theorem recover_leaves_zero_tail :
  forall a x, apply_wactions (a ++ x) (scrub_actions (a ++ x) (len a)) = a ++ zeros (length x).
Proof. exact RecoverFacts.recover_leaves_zero_tail. Qed.
Print Assumptions recover_leaves_zero_tail.

(* chains: any interleaving of successful operations and crash/recover rounds.
   chain info k0 sv bs w f: w, f are the writer state and file after the history;
   sv / bs the operations / batches that survived (a torn operation survives iff
   its image was complete).  Conclusion: w is the state of a crash-free writer
   that executed exactly sv, and f is the image of bs followed by zeros. *)
Theorem seg_recover_chain :
  forall info k0 sv bs w f,
    hdr_wf info -> chain info k0 sv bs w f ->
    ops_wf sv /\ len (image info bs) < two32 /\
    (exists acts, wrun (init_empty info) sv = Some (w, acts, bs)) /\
    exists k, f = image info bs ++ zeros k.
Proof. exact ChainFacts.seg_recover_chain. Qed.
Print Assumptions seg_recover_chain.

(* in every round of such a chain recovery succeeds *)
Theorem seg_recover_round_total :
  forall info k0 sv bs w f op w2 off new b T,
    hdr_wf info -> chain info k0 sv bs w f ->
    op_wf op -> wrun w [op] = Some (w2, [WWrite off new; WSync], [b]) ->
    len (image info (bs ++ [b])) < two32 ->
    torn new T -> no_torn_collision new T ->
    exists w3 acts3, recover_tail info (overwrite f (N.to_nat off) T) = Some (w3, acts3) /\
                     w3 = (if beq_bytes T new then w2 else w).
Proof. exact ChainFacts.seg_recover_round_total. Qed.
Print Assumptions seg_recover_round_total.

(* the hypothesis is executable (the harness evaluates it on every crash image) *)
Theorem no_torn_collision_decidable :
  forall new T, no_torn_collisionb new T = true <-> no_torn_collision new T.
Proof. exact no_torn_collisionb_spec. Qed.
Print Assumptions no_torn_collision_decidable.

(* the crash images of the `segcrash` stream are torn images: file before the
   write = a ++ zeros, after = a ++ new ++ zeros, any chunk mask *)
Theorem C02_crash_mix_is_torn :
  forall ka kn a new z mask fuel,
    length a = (8 * ka)%nat -> length new = (8 * kn)%nat -> (0 < kn)%nat ->
    (8 * ka + 8 * kn + z < 8 * fuel)%nat ->
    exists T, torn new T /\
      crash_mix (a ++ zeros (8 * kn) ++ zeros z) (a ++ new ++ zeros z) mask fuel = a ++ T ++ zeros z.
Proof. exact crash_mix_file. Qed.
Print Assumptions C02_crash_mix_is_torn.

(* non-vacuity: one committed batch, then a sealing batch whose image loses its
   second chunk: torn, collision-free, and recovery returns the first batch only;
   the complete image recovers both and the index start *)
Definition ex_info : seginfo :=
  {| si_id := 3; si_base := 1; si_min := 1; si_max := 0; si_codec := 1;
     si_index_start := 0; si_sealed := false; si_size_limit := 64 |}.
Definition ex_s := cstate ex_info [([[1; 2; 3]], false)].
Definition ex_b : batch := ([[4; 5; 6; 7; 8; 9; 10; 11; 12]], true).
Definition ex_new := batch_write ex_info ex_s ex_b.
Definition ex_T := firstn 8 ex_new ++ zeros 8 ++ skipn 16 ex_new.
Example C02_ex_torn : torn ex_new ex_T.
Proof.
  change ex_new with (firstn 8 ex_new ++ firstn 8 (skipn 8 ex_new) ++ skipn 16 ex_new).
  apply torn_keep; [reflexivity|]. apply torn_zero; [reflexivity|].
  apply (torn_refl 4). reflexivity.
Qed.
Example C02_ex_nocoll : no_torn_collisionb ex_new ex_T = true /\ beq_bytes ex_T ex_new = false.
Proof. vm_compute. split; reflexivity. Qed.
Example C02_ex_recover :
  recover_state ex_info (c_img ex_s ++ ex_T ++ zeros 24) = Some (wst ex_info ex_s) /\
  recover_state ex_info (c_img ex_s ++ ex_new ++ zeros 24) = Some (wst ex_info (cstep ex_info ex_s ex_b)) /\
  w_index_start (wst ex_info (cstep ex_info ex_s ex_b)) = 88.
Proof. vm_compute. repeat split; reflexivity. Qed.

(* ===== END block "L1 law" ===== *)

(* ===== BEGIN block "WAL level" =====
   INTERIM: the full WAL-level statement is `crash_refinement_stmt` of Wal/Hist.v
   (all histories of calls, power losses at any I/O boundary with any adversary
   choice, nested crashes inside recovery, reopen cycles).  Its proof is in progress;
   until it lands only the fragment below is proved at this level and the property is
   otherwise carried by the executable acceptance predicate hist_run/hs_ok (evaluated
   on random histories of the model every run) and the crash-image enumeration on the
   implementation (streams crash, segcrash). *)
From RW Require Import Fmt.Codec Wal.Model Wal.Spec Wal.Hist Wal.BasicFacts.

(* the full statement (not yet a theorem) *)
Definition C02_full_statement : Prop := crash_refinement_stmt.

(* proved fragment (abstract disk level): after a power loss a file holds its synced
   entries, plus the batch in flight in full or not at all; nothing else *)
Theorem C02_batch_whole_or_absent_partial :
  forall c n f, df_dir f = true ->
  exists f', crash_file c (n, f) = [(n, f')] /\ df_pend f' = None /\ df_dir f' = true /\
             (df_ents f' = df_ents f \/
              exists b, df_pend f = Some b /\ df_ents f' = df_ents f ++ pb_ents b /\ df_end f' = pb_end b).
Proof. exact crash_file_durable. Qed.
Print Assumptions C02_batch_whole_or_absent_partial.

(* ===== END block "WAL level" ===== *)
