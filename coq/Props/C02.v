(* C02 -- Recovery never fabricates, corrupts or half-applies.

   (The block "L1 law" about one segment file -- torn batches are recovered as absent,
   complete ones in full -- is maintained separately and goes ABOVE this block.) *)

(* ===== BEGIN block "WAL level" =====
   The abstract disk of Wal/Model.v keeps, per file, the synced entries and at most one
   written-but-unsynced batch; the crash adversary decides per file whether that batch
   reached the disk completely (a torn batch is recovered as absent: the L1 law).  On
   top of that, for ALL histories of calls, power losses at any I/O boundary with any
   adversary choice (also inside recovery, nested) and reopens -- guards as in C01.v --
   every crash point is covered BY PROOF (Wal/Crash*.v). *)
From RW Require Import Base.Bytes Fmt.Codec Fmt.Frame Wal.Model Wal.Spec Wal.Hist
  Wal.CrashInv Wal.CrashCalls10 Wal.CrashThm Wal.CrashExamples Wal.CrashExamplesFacts.
Open Scope N_scope.

Theorem C02_crash_refinement : crash_refinement_stmt.
Proof. exact crash_refinement. Qed.
Print Assumptions C02_crash_refinement.

(* After any crash, Open succeeds and what it recovers (log AND stable store) is exactly
   the ledger state [hs_acked] -- the contiguous log built from the contents passed to
   the StoreLogs/DeleteRange calls that returned nil -- or [hs_may], that state with the
   interrupted call applied in full.  Nothing never written, torn, or of a
   truncated-away generation can be returned: the recovered state is one of these two
   spec states, and GetLog reads exactly the spec state (next theorem). *)
Theorem C02_recovered_is_ledger :
  forall c steps d,
    (cfg_ok c /\ Forall hstep_wf steps /\ short_enough steps) ->
    hs_mode (hist_run c hist_init steps) = Down d ->
    exists w e, open_wal c (env_of d) = (OOk w, e) /\
      ({| sp_log := abs w (e_disk e); sp_kv := dk_stable (e_disk e) |} = hs_acked (hist_run c hist_init steps) \/
       {| sp_log := abs w (e_disk e); sp_kv := dk_stable (e_disk e) |} = hs_may (hist_run c hist_init steps)) /\
      dir_exact (e_disk e) = true /\ Forall not_fail (e_acts e).
Proof. exact recovery_after_any_history. Qed.
Print Assumptions C02_recovered_is_ledger.

(* A call interrupted at ANY of its I/O boundaries (j arbitrary) with ANY adversary
   choice is, after recovery, applied in full or not at all; for o = OStore ls this is:
   the batch in flight is present in full or absent in full. *)
Theorem C02_inflight_call_atomic :
  forall c steps s o j cc d,
    (cfg_ok c /\ Forall hstep_wf (steps ++ [HCrashIn o j cc]) /\ short_enough (steps ++ [HCrashIn o j cc])) ->
    hs_mode (hist_run c hist_init steps) = Up s ->
    hs_mode (hist_run c hist_init (steps ++ [HCrashIn o j cc])) = Down d ->
    exists w e, open_wal c (env_of d) = (OOk w, e) /\
      ({| sp_log := abs w (e_disk e); sp_kv := dk_stable (e_disk e) |} = hs_acked (hist_run c hist_init steps) \/
       {| sp_log := abs w (e_disk e); sp_kv := dk_stable (e_disk e) |}
         = snd (step_spec (hs_acked (hist_run c hist_init steps)) o)) /\
      dir_exact (e_disk e) = true.
Proof. exact interrupted_call_atomic. Qed.
Print Assumptions C02_inflight_call_atomic.

(* After any history (in particular after any crash and reopen) FirstIndex..LastIndex is
   contiguous: every index in it is readable and GetLog returns exactly the ledger's
   entry for it, i.e. the content most recently passed to StoreLogs for that index. *)
Theorem C02_range_is_readable :
  forall c steps s i,
    (cfg_ok c /\ Forall hstep_wf steps /\ short_enough steps) ->
    hs_mode (hist_run c hist_init steps) = Up s ->
    forall fi la, first_index_op (ss_wal s) = RVal fi -> last_index_op (ss_wal s) = RVal la ->
    1 <= fi -> fi <= i -> i <= la ->
    exists l, fst (get_log (ss_wal s) i (ss_env s)) = RLog l /\
              spec_get (sp_log (hs_acked (hist_run c hist_init steps))) i = Some l.
Proof. exact range_is_readable. Qed.
Print Assumptions C02_range_is_readable.

(* ---- non-vacuity: a 2-entry batch in flight (written, not fsynced) is recovered whole
   or not at all; a truncated-away entry (index 3, term 1) does not come back after
   index 3 was re-appended with term 7 and another crash *)
Example C02_ex_guards : hist_ok cfg128 hist_batch_lost /\ hist_ok cfg256 hist_trunc_after_commit.
Proof. exact (conj hist_batch_lost_ok hist_trunc_after_commit_ok). Qed.
Example C02_ex_batch_atomic :
  final_ok cfg128 hist_batch_kept = true /\ final_last cfg128 hist_batch_kept = 4 /\
  final_ok cfg128 hist_batch_lost = true /\ final_last cfg128 hist_batch_lost = 2.
Proof. vm_compute. repeat split; reflexivity. Qed.
Example C02_ex_no_old_generation :
  final_ok cfg256 hist_trunc_after_commit = true /\ final_term cfg256 hist_trunc_after_commit 3 = Some 7.
Proof. vm_compute. split; reflexivity. Qed.
(* ===== END block "WAL level" ===== *)
