(* C14, beyond the single-writer theorems of Props/C14.v: ANY number of threads issuing StoreLogs /
   DeleteRange ("in-flight StoreLogs, DeleteRange, pending rotation" of the quantifier needs two).
   Only statements here; proofs in Conc/AwaitInv.v (on top of CloseSafe.Safe: mutual exclusion
   for every program list and every schedule).

   C14_no_call_overtakes_queued_rotation: in every state reached without a panic, a StoreLogs or
   DeleteRange that is past its awaitRotation check (past_await: from the load of the state to
   the point where the call itself queues a rotation, the whole mutateStateLocked of a
   truncation included) runs with awaitRotate = nil.  C14_queued_rotation_undisturbed is the
   contrapositive: from the moment a sealing append stores awaitRotate until the rotation
   goroutine resets it, no other mutating call is inside its body -- the rotation finds the tail
   it was queued for.  No single_writer hypothesis, no bound on threads or steps.

   This is the property the repair fae88cb of /repo established (awaitRotationLocked loops;
   model: PRelock re-checks g_await).  Before it a writer that had waited for one rotation went
   on although another writer had queued the next one; on the real code: acknowledged entries
   unreadable and Open failing for good (DESIGN.md, section round4; stream twowriters).
   The Examples run that very schedule on the model: the second writer, woken after rotation 1
   with rotation 2 queued, waits again (PRelock -> PWaiting), and the run ends with the log the
   two calls give in lock order.
   What is NOT proved for several writers: the reference-count / handle invariants Inv1, Inv2
   and linearizability (stated for one mutating thread); the implementation is probed by the
   twowriters stream. *)
From Coq Require Import List Arith Bool Lia.
From RW Require Import Conc.Sys Conc.Close Conc.CloseInv Conc.CloseSafe Conc.AwaitInv Conc.Readers.
Import ListNotations.

Theorem C14_no_call_overtakes_queued_rotation : forall progs extra sch t th,
  let s := run step (init progs extra) sch in
  crashed s = false -> nth_error (ths s) t = Some th -> past_await th = true -> g_await (sh s) = None.
Proof. exact no_call_overtakes_queued_rotation. Qed.
Print Assumptions C14_no_call_overtakes_queued_rotation.

Theorem C14_queued_rotation_undisturbed : forall progs extra sch c,
  let s := run step (init progs extra) sch in
  crashed s = false -> g_await (sh s) = Some c ->
  forall t th, nth_error (ths s) t = Some th -> past_await th = false.
Proof. exact queued_rotation_undisturbed. Qed.
Print Assumptions C14_queued_rotation_undisturbed.

(* a thread past the check holds writeMu (so the statement is about the lock holder) *)
Theorem C14_past_await_holds_mu : forall th, past_await th = true -> holds_mu th = true.
Proof. exact past_await_holds. Qed.
Print Assumptions C14_past_await_holds_mu.

(* ---- the schedule of the defect, on the model ---------------------------------------------
   thread 0 = W1: two appends that each fill the segment; thread 1 = W2: DeleteRange(2, max)
   (keeps index 1); thread 2 = rotation goroutine.
   W1's first append queues rotation 1; W2 and W1's second call both wait for it; rotation 1
   runs; W1 re-takes the lock first, appends entry 2, fills the new tail, queues rotation 2 and
   returns; W2 receives on the (closed) channel of rotation 1 and re-takes the lock. *)
Definition c14m_progs : list (list op) := [[OStore true 7 1; OStore true 8 1]; [OTrunc 1]].
Definition c14m_run (sch : list tid) : sys := run step (init c14m_progs []) sch.
Definition c14m_woken : list tid :=
  repeat 0 16 ++ repeat 1 6 ++ repeat 0 6 ++ repeat 2 20 ++ repeat 0 16 ++ [1].
Definition c14m_view (s : sys) := (map t_pc (ths s), g_await (sh s), g_mu (sh s)).

(* W2 is about to re-take the lock; rotation 2 is queued (awaitRotate = channel 1) *)
Example C14_ex_two_writers_woken :
  c14m_view (c14m_run c14m_woken) = ([PIdle; PRelock; PRIdle], Some 1, None).
Proof. vm_compute. reflexivity. Qed.

(* its next step: Lock, awaitRotate is set again: Unlock and wait again -- not PLoad *)
Example C14_ex_two_writers_waits_again :
  c14m_view (c14m_run (c14m_woken ++ [1])) = ([PIdle; PWaiting 1; PRIdle], Some 1, None) /\
  past_await (nth 1 (ths (c14m_run (c14m_woken ++ [1]))) (caller [])) = false.
Proof. vm_compute. split; reflexivity. Qed.

(* rotation 2 runs, W2 finishes: every call returned Ok, nobody panicked, and the log is what
   StoreLogs(1); StoreLogs(2); DeleteRange(2, max) give in that order: entry 1 alone *)
Example C14_ex_two_writers_end :
  let s := c14m_run (c14m_woken ++ [1] ++ repeat 2 20 ++ repeat 1 40) in
  map t_outs (ths s) = [[Ok 0; Ok 0]; [Ok 0]; []] /\ crashed s = false /\ g_await (sh s) = None /\
  (abs_first (sh s), abs_last (sh s), abs_get (sh s) 1, abs_get (sh s) 2) = (1, 1, Ok 7, NotFound).
Proof. vm_compute. repeat split; reflexivity. Qed.
