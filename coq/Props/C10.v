(* C10 -- I/O errors never cost acknowledged data.

   The statement is `fault_safety_stmt` of Wal/FaultHist.v, proved in full
   (Wal/FaultThm.v): for every configuration and every history of calls
   `FOp f fx o` with process restarts and Close/Open cycles in between, where
     f  = Some k: the k-th I/O action of the call fails -- ANY action of ANY call:
          segment write, fsync, file creation, metadata commit, stable write
          (StoreLogs incl. the reset of the empty first segment, the background
          rotation a call waits for, DeleteRange head and tail truncation incl. the
          forced seal, stable Set, Open incl. the completion of an interrupted
          rotation);
     fx = the fault modes in force while that fault is armed (a call that is to see
          only a mode carries a count it never reaches):
          fx_del    every segment-file deletion fails (error, the file stays; the WAL
                    ignores the error; the clean-up of a later Open removes the file,
                    and may fail again)
          fx_list   the directory listing of Open fails: Open returns an error after
                    MetaStore.Load, the next Open succeeds
          fx_leave  a file creation hit by the counted fault leaves the empty,
                    unallocated file behind
          fx_land   a metadata commit or stable write hit by the counted fault
                    reports the failure although it reached the disk (bbolt: the
                    meta page is written, the last fdatasync fails);
   the following hold:
     (a) readers of the running process always see exactly the state in which the
         calls that returned nil are applied and those that returned an error are not
         (only a stable Set that returned an error may show its value);
     (b) a call that returned nil was acceptable to the contiguous-log specification;
     (c) after a restart / reopen the WAL opens (unless a fault was injected into that
         very Open) and presents a member of `candidates alts defer`: each failed call
         applied as a whole (in place, or -- for a failed StoreLogs whose complete
         bytes sit behind the last commit of the tail file -- at restart time) or not
         at all.
   A failed action other than a creation under fx_leave or a BoltDB transaction
   under fx_land has no effect on the disk (Model.io); the model does not cover an
   fsync of a segment file that reports an error although the data reached the disk.
   After ANY failed metadata commit of a state transaction the WAL refuses writes
   until it is reopened (wal.go mutateStateLocked sets w.failed: the outcome of the
   commit is unknown); Wal/ModelOld.v keeps the transaction as it was before that
   repair, example C10_ex_commit_lands_old_refuted shows the acknowledged entry it
   loses (finding F4).
   Proof architecture: lock-step simulation of the faulty run against the fault-free
   run on a normalised disk (Wal/FaultSim*.v), which transfers the per-action-prefix
   disk invariants of the crash development (Wal/Crash*.v) to the disk a failed call
   leaves (a run whose deletions all fail is the fault-free run stopped before its
   trailing deletions); an invariant FInv (Wal/FaultInv.v) over the process states
   reachable with faults (stale unsynced batch behind a rolled-back writer or in a
   file that could not be deleted; a WAL that refuses writes while the metadata on
   the disk is the old or already the new one; closed handle); Wal/FaultNames.v: a file the metadata does
   not list is never listed again. *)
From RW Require Import Base.Bytes Fmt.Codec Fmt.Frame Wal.Model Wal.Spec Wal.Hist Wal.FaultHist Wal.FaultFacts
  Wal.FaultInv Wal.FaultThm Wal.FaultCor Wal.CrashExamples Wal.CrashExamplesFacts Wal.FaultExamples Wal.FaultExamplesFacts
  Gen.Constants.
Open Scope N_scope.

(* ------------------------------------------------------------------ *)
(* the full statement                                                   *)
Theorem C10_fault_safety : fault_safety_stmt.
Proof. exact fault_safety. Qed.
Print Assumptions C10_fault_safety.

(* ------------------------------------------------------------------ *)
(* plain-language corollaries.  [fault_hist_ok c steps] = cfg_ok c, every call
   well-formed, fewer than 2^62 steps.  [fs_nom h] is the nominal state of the ghost
   ledger: it changes only when a call returns nil (then by the specification's
   transition) or at a restart/reopen (then to the state the recovery presents). *)

(* while the WAL is open, readers see exactly the nominal state -- so every entry of a
   StoreLogs that returned nil, not covered by a later successful DeleteRange, is
   returned by GetLog, and nothing of a call that returned an error is *)
Theorem C10_nominal_view :
  forall c steps s0, fault_hist_ok c steps -> initial c = Some s0 ->
    let h := fault_run c (fault_init s0) steps in
    st_closed (ss_wal (fs_s h)) = false ->
    observed (fs_s h) = fs_nom h /\
    forall i, i < two64 ->
      result_eqb (res_class (fst (get_log (ss_wal (fs_s h)) i (ss_env (fs_s h)))))
                 (fst (step_spec (fs_nom h) (OGet i))) = true.
Proof. exact nominal_view. Qed.
Print Assumptions C10_nominal_view.

(* after any such history, whatever fault and fault modes are armed for it: if StoreLogs returns nil,
   GetLog returns every one of its entries *)
Theorem C10_acked_visible_in_process :
  forall c steps s0 f fx ls l, fault_hist_ok c steps -> initial c = Some s0 -> sop_ok (OStore ls) ->
    let h := fault_run c (fault_init s0) steps in
    st_closed (ss_wal (fs_s h)) = false ->
    let '(r, s1) := step_model c (with_fault (fs_s h) f fx) (OStore ls) in
    r = ROk -> In l ls -> fst (get_log (ss_wal s1) (l_index l) (ss_env s1)) = RLog l.
Proof. exact acked_visible_in_process. Qed.
Print Assumptions C10_acked_visible_in_process.

(* if StoreLogs returns an error, GetLog answers every index from the state before the
   call: in particular none of its entries beyond the log is found *)
Theorem C10_failed_store_invisible :
  forall c steps s0 f fx ls i, fault_hist_ok c steps -> initial c = Some s0 -> sop_ok (OStore ls) ->
    let h := fault_run c (fault_init s0) steps in
    st_closed (ss_wal (fs_s h)) = false -> i < two64 ->
    let '(r, s1) := step_model c (with_fault (fs_s h) f fx) (OStore ls) in
    r <> ROk ->
    result_eqb (res_class (fst (get_log (ss_wal s1) i (ss_env s1)))) (fst (step_spec (fs_nom h) (OGet i))) = true.
Proof. exact failed_store_invisible. Qed.
Print Assumptions C10_failed_store_invisible.

Theorem C10_failed_store_not_found :
  forall c steps s0 f fx ls l, fault_hist_ok c steps -> initial c = Some s0 -> sop_ok (OStore ls) ->
    let h := fault_run c (fault_init s0) steps in
    st_closed (ss_wal (fs_s h)) = false -> In l ls -> spec_get (sp_log (fs_nom h)) (l_index l) = None ->
    let '(r, s1) := step_model c (with_fault (fs_s h) f fx) (OStore ls) in
    r <> ROk -> fst (get_log (ss_wal s1) (l_index l) (ss_env s1)) = RErrNotFound.
Proof. exact failed_store_not_found. Qed.
Print Assumptions C10_failed_store_not_found.

(* a restart after any such history opens the WAL, and what it presents (and what readers
   then see) is a candidate: an alternative of the ledger -- every failed call applied in
   full or not at all -- or such an alternative with one failed StoreLogs applied in full *)
Theorem C10_reopen_applies_whole_or_nothing :
  forall c steps s0, fault_hist_ok c steps -> initial c = Some s0 ->
    let h := fault_run c (fault_init s0) steps in
    let h' := fstep_run c h FRestart in
    st_closed (ss_wal (fs_s h')) = false /\ fs_ok h' = true /\
    In (fs_nom h') (candidates (fs_alts h) (fs_defer h)) /\ observed (fs_s h') = fs_nom h'.
Proof. exact reopen_whole_or_nothing. Qed.
Print Assumptions C10_reopen_applies_whole_or_nothing.

Theorem C10_candidate_shape :
  forall alts defer x, In x (candidates alts defer) ->
    In x alts \/ exists a o, In a alts /\ In o defer /\ spec_accepts a o = Some x.
Proof. exact cand_inv. Qed.
Print Assumptions C10_candidate_shape.

(* ------------------------------------------------------------------ *)
(* the local consequences of an error on which the model's error paths rest *)
Theorem C10_failed_action_no_effect :
  forall a e e', is_txn a = false -> io a e = (false, e') -> e_disk e' = e_disk e.
Proof. exact io_fail_no_effect_plain. Qed.
Print Assumptions C10_failed_action_no_effect.

(* a BoltDB transaction (metadata commit, stable write) that fails has no effect or,
   under fx_land, exactly its effect *)
Theorem C10_failed_transaction_effect :
  forall a e e', io a e = (false, e') ->
    e_disk e' = e_disk e \/
    (is_txn a = true /\ fx_land (e_fx e) = true /\ e_fault e = Some O /\ e_disk e' = apply_act (e_disk e) a).
Proof. exact io_fail_no_effect. Qed.
Print Assumptions C10_failed_transaction_effect.

Theorem C10_failed_create_leaves_at_most_an_empty_file :
  forall si e e', seg_create si e = (None, e') ->
    e_disk e' = e_disk e \/ e_disk e' = apply_act (e_disk e) (ACreate (name_of si) 0).
Proof. exact failed_create_effect. Qed.
Print Assumptions C10_failed_create_leaves_at_most_an_empty_file.

Theorem C10_failed_delete_keeps_file :
  forall n e e', io (ADelete n) e = (false, e') ->
    e_disk e' = e_disk e /\ e_fault e' = e_fault e /\ armed e = true /\ fx_del (e_fx e) = true.
Proof. exact failed_delete_effect. Qed.
Print Assumptions C10_failed_delete_keeps_file.

Theorem C10_failed_listing_fails_open :
  forall c e,
    negb (FirstExternalCodecID <=? c_codec c) && negb (c_codec c =? BinaryCodecID) = false ->
    dk_inited (e_disk e) = true -> armed e = true -> fx_list (e_fx e) = true ->
    open_wal c e = (OErr RErrIO, list_failed e) /\ e_disk (list_failed e) = e_disk e /\
    fx_list (e_fx (list_failed e)) = false.
Proof. exact failed_listing_fails_open. Qed.
Print Assumptions C10_failed_listing_fails_open.

Theorem C10_failed_append_rolls_back :
  forall w ls e r w' e', seg_append w ls e = (r, w', e') -> r <> ROk -> w' = w.
Proof. exact seg_append_error_rolls_back. Qed.
Print Assumptions C10_failed_append_rolls_back.

Theorem C10_failed_force_seal_rolls_back :
  forall w e r w' e', seg_force_seal w e = (r, w', e') -> r <> ROk -> w' = w.
Proof. exact seg_force_seal_error_rolls_back. Qed.
Print Assumptions C10_failed_force_seal_rolls_back.

(* a failed metadata commit publishes nothing and makes the WAL refuse writes *)
Theorem C10_failed_commit_fails_wal :
  forall w t e e1,
    io (ACommit {| ps_next_id := tx_next_id t; ps_segs := tx_segs t |}) e = (false, e1) ->
    mutate w t e = (RErrIO, wal_failed w, e1).
Proof. exact mutate_commit_failure_fails_wal. Qed.
Print Assumptions C10_failed_commit_fails_wal.

Theorem C10_failed_wal_refuses_writes :
  forall c w ls e, st_closed w = false -> st_failed w = true -> ls <> [] ->
    store_logs c w ls e = (RErrFailed, w, e).
Proof. exact failed_wal_refuses_store. Qed.
Print Assumptions C10_failed_wal_refuses_writes.

(* ------------------------------------------------------------------ *)
(* non-vacuity: the hypotheses are satisfiable and the ledger is not trivial *)
Example C10_ex_cfg : cfg_ok cfg256 /\ cfg_ok cfg128.
Proof. exact (conj cfg256_ok cfg128_ok). Qed.

(* A: fsync failure of a 2-entry append; the entries are invisible; a shorter batch with
   another term is written at the same offset; after a restart exactly that batch is there *)
Example C10_ex_fsync_then_shorter :
  (ff_ok cfg256 fh_fsync_then_shorter, ff_last cfg256 (firstn 4 fh_fsync_then_shorter),
   ff_last cfg256 fh_fsync_then_shorter, ff_term cfg256 fh_fsync_then_shorter 2, ff_term cfg256 fh_fsync_then_shorter 3)
  = (true, 1, 2, Some 2, None).
Proof. vm_compute. reflexivity. Qed.

(* A': the same failed fsync followed by a restart: the failed StoreLogs is applied, as a
   whole, at restart time (last index 1 before, 3 after) *)
Example C10_ex_fsync_then_restart :
  (ff_ok cfg256 fh_fsync_then_restart, ff_last cfg256 (firstn 3 fh_fsync_then_restart), ff_last cfg256 fh_fsync_then_restart)
  = (true, 1, 3).
Proof. vm_compute. reflexivity. Qed.

(* B: the creation of the new tail fails after the metadata commit of a tail truncation:
   the WAL is marked failed, the next StoreLogs is refused, readers still see 3 entries;
   after a reopen the truncation is applied (2 entries) and index 3 can be rewritten *)
Example C10_ex_trunc_create_fails :
  (ff_ok cfg256 fh_trunc_create_fails, ff_flags cfg256 (firstn 2 fh_trunc_create_fails),
   ff_result cfg256 (firstn 2 fh_trunc_create_fails) None (OStore [ex_log 4 1]),
   ff_last cfg256 (firstn 5 fh_trunc_create_fails), ff_last cfg256 (firstn 7 fh_trunc_create_fails),
   ff_term cfg256 fh_trunc_create_fails 3)
  = (true, (true, false), RErrFailed, 3, 2, Some 5).
Proof. vm_compute. reflexivity. Qed.

(* C: the commit of the pending rotation fails: the WAL refuses writes (appends and the
   head truncation alike) until a restart completes the rotation *)
Example C10_ex_rotation_commit_fails :
  (ff_ok cfg128 fh_rotation_commit_fails, ff_flags cfg128 (firstn 3 fh_rotation_commit_fails),
   ff_result cfg128 (firstn 3 fh_rotation_commit_fails) None (OStore [ex_log 3 1]),
   ff_last cfg128 (firstn 5 fh_rotation_commit_fails), ff_first cfg128 (firstn 7 fh_rotation_commit_fails),
   ff_first cfg128 fh_rotation_commit_fails, ff_last cfg128 fh_rotation_commit_fails)
  = (true, (true, false), RErrFailed, 2, 1, 1, 3).
Proof. vm_compute. reflexivity. Qed.

(* D: a fault inside Open: it fails, every call fails, the next Open succeeds *)
Example C10_ex_fault_in_open :
  (ff_ok cfg128 fh_fault_in_open, ff_flags cfg128 (firstn 3 fh_fault_in_open),
   ff_result cfg128 (firstn 3 fh_fault_in_open) None OLast,
   ff_last cfg128 fh_fault_in_open, ff_term cfg128 fh_fault_in_open 3)
  = (true, (false, true), RErrClosed, 3, Some 1).
Proof. vm_compute. reflexivity. Qed.

(* E: a failed stable-store write and a head truncation whose commit fails change nothing *)
Example C10_ex_misc :
  (ff_ok cfg256 fh_misc, ff_first cfg256 fh_misc, ff_kv cfg256 fh_misc [107]) = (true, 1, [1]).
Proof. vm_compute. reflexivity. Qed.

(* F: every deletion of a head truncation fails: the truncation is applied (first index 5),
   the 3 files stay; the next append rotates (4 files); the clean-up of an Open under the
   same mode fails again (4 files); the clean Open after it removes them (2 files) *)
Example C10_ex_delete_fails :
  (ff_ok cfg128 fh_delete_fails, ff_nfiles cfg128 (firstn 5 fh_delete_fails), ff_nfiles cfg128 (firstn 6 fh_delete_fails),
   ff_first cfg128 (firstn 6 fh_delete_fails), ff_nfiles cfg128 (firstn 9 fh_delete_fails),
   ff_nfiles cfg128 (firstn 12 fh_delete_fails), ff_first cfg128 fh_delete_fails, ff_last cfg128 fh_delete_fails)
  = (true, 3%nat, 3%nat, 5, 4%nat, 2%nat, 5, 7).
Proof. vm_compute. reflexivity. Qed.

(* F': the old tail file stays when the empty first segment is replaced; a restart removes it *)
Example C10_ex_reset_delete_fails :
  (ff_ok cfg256 fh_reset_delete_fails, ff_nfiles cfg256 (firstn 1 fh_reset_delete_fails), ff_nfiles cfg256 fh_reset_delete_fails,
   ff_first cfg256 fh_reset_delete_fails, ff_last cfg256 fh_reset_delete_fails)
  = (true, 2%nat, 1%nat, 5, 6).
Proof. vm_compute. reflexivity. Qed.

(* G: the directory listing of Open fails: an error, every call fails, the next Open succeeds *)
Example C10_ex_list_fails :
  (ff_ok cfg128 fh_list_fails, ff_flags cfg128 (firstn 3 fh_list_fails),
   ff_result_fx cfg128 (firstn 2 fh_list_fails) never fx_listing OReopen,
   ff_result cfg128 (firstn 3 fh_list_fails) None OLast,
   ff_last cfg128 fh_list_fails, ff_term cfg128 fh_list_fails 3)
  = (true, (false, true), RErrIO, RErrClosed, 3, Some 1).
Proof. vm_compute. reflexivity. Qed.

(* H: as B, but the failed creation leaves the empty file (2 files instead of 1): the next
   Open adopts it as the tail, the truncation is applied and index 3 can be rewritten *)
Example C10_ex_trunc_create_leaves :
  (ff_ok cfg256 fh_trunc_create_leaves, ff_flags cfg256 (firstn 2 fh_trunc_create_leaves),
   ff_nfiles cfg256 (firstn 1 fh_trunc_create_leaves), ff_nfiles cfg256 (firstn 2 fh_trunc_create_leaves),
   ff_nfiles cfg256 (firstn 2 fh_trunc_create_fails),
   ff_last cfg256 (firstn 4 fh_trunc_create_leaves), ff_last cfg256 (firstn 6 fh_trunc_create_leaves),
   ff_term cfg256 fh_trunc_create_leaves 3)
  = (true, (true, false), 1%nat, 2%nat, 1%nat, 3, 2, Some 5).
Proof. vm_compute. reflexivity. Qed.

(* H': the file of a rotation is left behind by the failed creation; a restart adopts it *)
Example C10_ex_rotate_create_leaves :
  (ff_ok cfg128 fh_rotate_create_leaves, ff_flags cfg128 (firstn 3 fh_rotate_create_leaves),
   ff_nfiles cfg128 (firstn 2 fh_rotate_create_leaves), ff_nfiles cfg128 (firstn 3 fh_rotate_create_leaves),
   ff_last cfg128 (firstn 5 fh_rotate_create_leaves), ff_last cfg128 fh_rotate_create_leaves,
   ff_term cfg128 fh_rotate_create_leaves 3)
  = (true, (true, false), 1%nat, 2%nat, 2, 3, Some 1).
Proof. vm_compute. reflexivity. Qed.

(* I (finding F4): a tail truncation that drops the tail segment as a whole; its metadata
   commit reports a failure but has reached the disk.  DeleteRange returns an error, the
   WAL refuses the next StoreLogs (in-process last index 2: nothing acknowledged is lost,
   nothing is acknowledged any more); the next Open finds the truncation done (last index 1)
   and index 2 can be rewritten *)
Example C10_ex_commit_lands :
  (ff_ok cfg128 fh_commit_lands, ff_result_fx cfg128 (firstn 2 fh_commit_lands) (Some 2%nat) fx_lands (ODelete 2 2),
   ff_flags cfg128 (firstn 3 fh_commit_lands),
   ff_result cfg128 (firstn 3 fh_commit_lands) None (OStore [ex_log 3 1]),
   ff_last cfg128 (firstn 6 fh_commit_lands), ff_last cfg128 (firstn 8 fh_commit_lands),
   ff_term cfg128 fh_commit_lands 2, ff_last cfg128 fh_commit_lands)
  = (true, RErrIO, (true, false), RErrFailed, 2, 1, Some 7, 2).
Proof. vm_compute. reflexivity. Qed.

(* the same history on the transaction as it was before the repair (Wal/ModelOld.v): the
   truncation returns an error and the WAL does NOT refuse writes; StoreLogs [3] returns
   nil (last index 3); after the next Open the last index is 1: entry 3 was acknowledged
   after the failed call and is gone *)
Example C10_ex_commit_lands_old_refuted :
  old_f4_run cfg128 = (RErrIO, false, ROk, 3, 1).
Proof. vm_compute. reflexivity. Qed.

(* I': a stable Set whose transaction fails and lands: the call returns an error, readers
   see the new value, before and after a restart *)
Example C10_ex_set_lands :
  (ff_ok cfg256 fh_set_lands, ff_result_fx cfg256 (firstn 1 fh_set_lands) (Some 0%nat) fx_lands (OSet [107] [2] false),
   ff_kv cfg256 (firstn 3 fh_set_lands) [107], ff_kv cfg256 fh_set_lands [107])
  = (true, RErrIO, [2], [2]).
Proof. vm_compute. reflexivity. Qed.

(* the example histories satisfy the hypotheses of the theorem *)
Example C10_ex_hyps :
  fault_hist_ok cfg256 fh_fsync_then_shorter /\ fault_hist_ok cfg256 fh_fsync_then_restart /\
  fault_hist_ok cfg256 fh_trunc_create_fails /\ fault_hist_ok cfg128 fh_rotation_commit_fails /\
  fault_hist_ok cfg128 fh_fault_in_open /\ fault_hist_ok cfg256 fh_misc /\
  fault_hist_ok cfg128 fh_delete_fails /\ fault_hist_ok cfg256 fh_reset_delete_fails /\
  fault_hist_ok cfg128 fh_list_fails /\ fault_hist_ok cfg256 fh_trunc_create_leaves /\
  fault_hist_ok cfg128 fh_rotate_create_leaves /\ fault_hist_ok cfg128 fh_commit_lands /\
  fault_hist_ok cfg256 fh_set_lands.
Proof.
  exact (conj fh_fsync_then_shorter_ok (conj fh_fsync_then_restart_ok (conj fh_trunc_create_fails_ok
         (conj fh_rotation_commit_fails_ok (conj fh_fault_in_open_ok (conj fh_misc_ok
         (conj fh_delete_fails_ok (conj fh_reset_delete_fails_ok (conj fh_list_fails_ok
         (conj fh_trunc_create_leaves_ok (conj fh_rotate_create_leaves_ok (conj fh_commit_lands_ok fh_set_lands_ok)))))))))))).
Qed.

(* ===== BEGIN block "byte level" (one segment file, Seg/FailFacts.v) =====

   The WAL-level model above has no bytes: a failed batch that is overwritten is gone.
   In the file it is not.  A batch whose write or fsync FAILED is rolled back in the
   writer only; a shorter batch appended over its start leaves the rest of it --
   entry frames and its commit frame -- behind the valid chain.  The statements below
   are about the byte-level writer (Seg/Writer.v append / force_seal with the faults
   FWrite / FWriteShort / FSync: writer rolled back; a write that fails outright leaves
   nothing, a SHORT write (WriteAt returns n < len with an error) leaves the first half
   of its bytes, a write whose fsync failed leaves all of them in the file) and the
   byte-level recovery (Seg/Recover.v recover_state = recoverTailState
   as repaired by "fix: recovery verifies every commit frame"; the algorithm before the
   repair is Seg/RecoverOld.v and is REFUTED below).

   frun info k0 ops: the instrumented run of ANY list of operations (op, fault) from
   init_empty on a file of k0 zero bytes.  fs_w / fs_file: writer and file at the end;
   fs_bs: the batches of the operations that succeeded; fs_pend: the batches whose
   COMPLETE write was issued and whose fsync failed since the last success (a refused
   operation, or one whose write failed outright, writes nothing and leaves no trace; a
   half-written batch is never complete); fs_last: the last of them, unless a later
   short write damaged its bytes (then none): the one batch of a failed operation that is
   complete in the file; fs_ok: every write belonged to a batch ending below 2^32.

   no_stale_commit f p (decidable: no_stale_commitb): no commit frame the scan of f meets
   at or behind offset p stores the CRC-32C of its apparent range (the bytes between the
   preceding commit frame of the scan and itself) -- the analogue of no_torn_collision
   for leftovers; it fails only on a genuine collision of the checksum, or when a
   payload written earlier contains a forged frame sequence with a matching CRC. *)
From RW Require Import Base.Bytes Base.Crc32c Fmt.Frame Seg.Writer Seg.Recover Seg.RecoverOld Seg.Reader Seg.SegAbs
     Seg.WriterFacts Seg.ScanFacts Seg.RecoverFacts Seg.ChainFacts Seg.FailFacts Gen.Constants.

(* THE THEOREM (restart without power loss).  After EVERY history of successful,
   refused and failed appends / force-seals: the running writer is the writer of the
   acknowledged batches, and recovery of the file returns -- all fields -- the writer
   of the acknowledged batches, or of those plus fs_last, the LAST failed complete write
   (whose bytes are then completely in the file).  Never an entry of a failed batch that
   was followed by another complete write, never a part of a batch -- in particular
   nothing of a batch that a short write left half-written --, never a mix of two. *)
Theorem C10_byte_fail_recover :
  forall info k0 ops,
    hdr_wf info -> fops_wf ops ->
    let st := frun info k0 ops in
    fs_ok st = true ->
    let bs' := fs_bs st ++ fs_last st in
    fs_w st = wst info (cstate info (fs_bs st)) /\
    (no_stale_commit (fs_file st) (len (image info bs')) ->
     recover_state info (fs_file st) = Some (wst info (cstate info bs'))).
Proof. exact fail_recover. Qed.
Print Assumptions C10_byte_fail_recover.

(* when no failed batch is complete in the file -- e.g. right after an ACKNOWLEDGED write,
   whatever failed before -- a restart is invisible *)
Theorem C10_byte_restart_after_ack :
  forall info k0 ops,
    hdr_wf info -> fops_wf ops ->
    let st := frun info k0 ops in
    fs_ok st = true -> fs_last st = [] ->
    no_stale_commit (fs_file st) (len (image info (fs_bs st))) ->
    recover_state info (fs_file st) = Some (fs_w st).
Proof. exact fail_recover_acked. Qed.
Print Assumptions C10_byte_restart_after_ack.

(* the same from any state that satisfies the invariant of such runs, e.g. the clean
   file every RecoverTail leaves (image of a chain, then zeros): histories with
   restarts in between *)
Theorem C10_byte_fail_recover_from :
  forall info st0 ops,
    hdr_wf info -> finv info st0 -> fops_wf ops ->
    let st := frun_from st0 ops in
    fs_ok st = true ->
    let bs' := fs_bs st ++ fs_last st in
    fs_w st = wst info (cstate info (fs_bs st)) /\
    (no_stale_commit (fs_file st) (len (image info bs')) ->
     recover_state info (fs_file st) = Some (wst info (cstate info bs'))).
Proof. exact fail_recover_from. Qed.
Print Assumptions C10_byte_fail_recover_from.

Theorem C10_byte_clean_state :
  forall info bs k, chain_wf info c0 bs -> finv info (fclean info bs k).
Proof. exact finv_clean. Qed.
Print Assumptions C10_byte_clean_state.

(* the law behind it: the image of ANY chain followed by ANY bytes in which no commit
   frame verifies is recovered as the chain *)
Theorem C10_byte_recover_behind :
  forall info bs R,
    hdr_wf info -> chain_wf info c0 bs ->
    let s := cstate info bs in
    no_stale_commit (c_img s ++ R) (len (c_img s)) ->
    recover_state info (c_img s ++ R) = Some (wst info s).
Proof. exact recover_behind. Qed.
Print Assumptions C10_byte_recover_behind.

Theorem C10_byte_no_stale_commit_decidable :
  forall f p, no_stale_commitb f p = true <-> no_stale_commit f p.
Proof. exact no_stale_commitb_spec. Qed.
Print Assumptions C10_byte_no_stale_commit_decidable.

(* the fault semantics the histories rest on: an operation that does nothing is not
   affected by a fault; otherwise the result is an I/O error, the writer is rolled
   back, and the write has happened (fsync failed) or not (write failed) *)
Theorem C10_byte_fault_semantics :
  forall w op flt r w' acts,
    do_op w op = (r, w', acts) -> flt <> FNone ->
    do_fop w (op, flt) =
    match acts with
    | [] => (r, w', [])
    | _ => (WErrIO, w, match flt with FSync => acts | FWriteShort => short_acts acts | FWrite | FNone => [] end)
    end.
Proof. exact do_fop_fault. Qed.
Print Assumptions C10_byte_fault_semantics.

(* non-vacuity AND the finding.  History of honest batches (fx_ops): [e1] succeeds;
   a = [a2; a3; a4] -- fsync fails; b = [b2; b3] -- fsync fails; c = [c2] succeeds, its
   commit frame ends where b's second frame begins and b's commit frame ends where a's
   third frame begins: behind the commit of c lie [b3][commit b][a4][commit a]. *)
Example C10_byte_ex_hyps : hdr_wf fx_info /\ fops_wf fx_ops.
Proof. exact fx_hyps. Qed.

(* the hypotheses hold on it and the repaired recovery returns the running writer:
   entries e1, c2 and nothing else *)
Example C10_byte_ex_history :
  fs_ok fx_st = true /\
  fs_bs fx_st = [([fx_e1], false); ([fx_c2], false)] /\ fs_pend fx_st = [] /\ fs_last fx_st = [] /\
  no_stale_commitb (fs_file fx_st) (len (image fx_info (fs_bs fx_st))) = true /\
  recover_state fx_info (fs_file fx_st) = Some (fs_w fx_st) /\
  length (w_offsets (fs_w fx_st)) = 2%nat /\
  tail_get (fs_w fx_st) (fs_file fx_st) 2 = ROk fx_c2 /\
  tail_get (fs_w fx_st) (fs_file fx_st) 3 = RNotFound.
Proof. vm_compute. repeat split; reflexivity. Qed.

(* THE DEFECT: on the same file the algorithm before the repair (it verified only the
   last commit frame and fell back to the previous one unverified) returns a writer
   with 3 entries whose third entry is b3 -- an entry of a batch that failed, was
   rolled back and was overwritten by c *)
Example C10_byte_recover_old_refuted :
  exists w, recover_state_old fx_info (fs_file fx_st) = Some w /\
            length (w_offsets w) = 3%nat /\ w_commit_idx w = 3 /\
            tail_get w (fs_file fx_st) 2 = ROk fx_c2 /\
            tail_get w (fs_file fx_st) 3 = ROk fx_b3 /\
            recover_state_old fx_info (fs_file fx_st) <> recover_state fx_info (fs_file fx_st).
Proof. exact recover_old_refuted. Qed.
(* short writes: history [e1] ok, a -- fsync fails, then (pb) b fails with a SHORT write:
   its first half replaces a's first frame, a is damaged, nothing of b can be complete:
   recovery returns [e1] = the running writer; (pa) the retry of a itself is short: the
   half written equals what is there, a is still complete: recovery returns [e1], a;
   (pc) after (pb) c succeeds: recovery returns the running writer [e1], c *)
Example C10_byte_ex_short_hyps : fops_wf fx_ops_pb /\ fops_wf fx_ops_pa /\ fops_wf fx_ops_pc.
Proof. exact fx_short_hyps. Qed.
Example C10_byte_ex_short :
  let sb := frun fx_info 256 fx_ops_pb in
  let sa := frun fx_info 256 fx_ops_pa in
  let sc := frun fx_info 256 fx_ops_pc in
  (fs_ok sb, fs_bs sb, fs_pend sb, fs_last sb) =
    (true, [([fx_e1], false)], [([fx_a2; fx_a3; fx_a4], false)], []) /\
  length (fs_pw sb) = 2%nat /\
  no_stale_commitb (fs_file sb) (len (image fx_info (fs_bs sb))) = true /\
  recover_state fx_info (fs_file sb) = Some (fs_w sb) /\
  (fs_ok sa, fs_bs sa, fs_last sa) = (true, [([fx_e1], false)], [([fx_a2; fx_a3; fx_a4], false)]) /\
  no_stale_commitb (fs_file sa) (len (image fx_info (fs_bs sa ++ fs_last sa))) = true /\
  recover_state fx_info (fs_file sa) = Some (wst fx_info (cstate fx_info (fs_bs sa ++ fs_last sa))) /\
  (fs_ok sc, fs_bs sc, fs_last sc) = (true, [([fx_e1], false); ([fx_c2], false)], []) /\
  no_stale_commitb (fs_file sc) (len (image fx_info (fs_bs sc))) = true /\
  recover_state fx_info (fs_file sc) = Some (fs_w sc).
Proof. exact fx_short. Qed.

(* The composition of this per-file law with the WAL-level histories of this file
   (fault_safety_stmt: counted faults, fault modes, FRestart) is in Props/Link.v,
   section 8 (link3): every history with injected faults has a byte-level run
   (Link_fault_history: lock-step byte actions keep the weak relation "image, then
   anything"; at every restart the byte-level recovery of every file -- fail_recover
   above -- gives back the strong relation to adopt_disk, under stale_free =
   no_stale_commit for every file); GetLog of the running process and every entry
   of the nominal state of fault_safety are the decoding of what the byte-level
   readers return (Link_fault_get_log, Link_fault_nominal_bytes); the recovered
   byte-level writer represents the tail writer Open installs
   (Link_fault_restart_recovered). *)
(* ===== END block "byte level" ===== *)
