(* C10 -- I/O errors never cost acknowledged data.
   The full statement is `fault_safety_stmt` of Wal/FaultHist.v (every history of
   calls with an I/O error injected at any action of any call, restarts and
   reopens).  It is evaluated on random histories of the model on every run and the
   model is tied to the implementation by the `faults` stream; its proof is not
   finished: below are the proved local consequences of an error on which it rests. *)
From RW Require Import Base.Bytes Fmt.Codec Fmt.Frame Wal.Model Wal.Spec Wal.Hist Wal.FaultHist Wal.FaultFacts.
Open Scope N_scope.

Definition C10_full_statement : Prop := fault_safety_stmt.

(* a failing action has no effect on the disk *)
Theorem C10_failed_action_no_effect_partial :
  forall a e e', io a e = (false, e') -> e_disk e' = e_disk e.
Proof. exact io_fail_no_effect. Qed.
Print Assumptions C10_failed_action_no_effect_partial.

(* entries of a failed StoreLogs are not visible: whatever fails inside the segment
   append (write or fsync) the writer - in particular its commit index, which bounds
   what readers may see - is exactly the one before the call *)
Theorem C10_failed_append_rolls_back_partial :
  forall w ls e r w' e', seg_append w ls e = (r, w', e') -> r <> ROk -> w' = w.
Proof. exact seg_append_error_rolls_back. Qed.
Print Assumptions C10_failed_append_rolls_back_partial.

Theorem C10_failed_force_seal_rolls_back_partial :
  forall w e r w' e', seg_force_seal w e = (r, w', e') -> r <> ROk -> w' = w.
Proof. exact seg_force_seal_error_rolls_back. Qed.
Print Assumptions C10_failed_force_seal_rolls_back_partial.

(* a failed metadata commit publishes nothing *)
Theorem C10_failed_commit_publishes_nothing_partial :
  forall w t e e1,
    io (ACommit {| ps_next_id := tx_next_id t; ps_segs := tx_segs t |}) e = (false, e1) ->
    mutate w t e = (RErrIO, w, e1).
Proof. exact mutate_commit_failure_publishes_nothing. Qed.
Print Assumptions C10_failed_commit_publishes_nothing_partial.

(* after a metadata update whose file creation failed the WAL refuses all writes
   (so nothing can be acknowledged into a segment the metadata no longer lists) *)
Theorem C10_failed_wal_refuses_writes_partial :
  forall c w ls e, st_closed w = false -> st_failed w = true -> ls <> [] ->
    store_logs c w ls e = (RErrFailed, w, e).
Proof. exact failed_wal_refuses_store. Qed.
Print Assumptions C10_failed_wal_refuses_writes_partial.
