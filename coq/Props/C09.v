(* C09 -- On-disk format matches the documented layout and stays readable.
   Only statements here; proofs live in Seg/FormatFacts.v, Fmt/ReadmeSpecFacts.v.

   Vocabulary.  wrun w0 ops = Some (w, acts, bs): every operation of ops (append
   of a batch / force-seal) returned WOk from state w0; acts are the I/O actions
   in order; bs the committed batches (payloads, seal flag the writer chose).
   layout / parse / rs_* : the README-only encoder / decoder of Fmt/ReadmeSpec.v.
   Guard: the file stays below 2^32 bytes (offsets are uint32 in the format). *)
From RW Require Import Gen.Source Fmt.SourceTie.
From RW Require Import Base.Bytes Base.Crc32c Fmt.Frame Fmt.ReadmeSpec Fmt.ReadmeSpecFacts
     Seg.Writer Seg.Reader Seg.SegAbs Seg.ReaderFacts Seg.FormatFacts Gen.Constants.
Open Scope N_scope.

(* the writes of every successful history, each starting where the previous one
   ended, concatenate to exactly the README layout of the committed batches *)
Theorem C09_writer_matches_readme :
  forall info ops w acts bs,
    wrun (init_empty info) ops = Some (w, acts, bs) ->
    len (layout (hdr_of info) bs) < two32 ->
    writes_contiguous 0 acts /\ writes_concat acts = layout (hdr_of info) bs.
Proof. exact writer_matches_readme. Qed.
Print Assumptions C09_writer_matches_readme.

(* every write offset and every recorded entry offset is 0 mod 8; every entry
   frame sits at its offset as header ++ payload ++ zero padding to 8 *)
Theorem C09_frames_aligned :
  forall info ops w acts bs,
    wrun (init_empty info) ops = Some (w, acts, bs) -> len (layout (hdr_of info) bs) < two32 ->
    w_off w mod 8 = 0 /\ Forall (fun o => o mod 8 = 0) (w_offsets w) /\
    forall i off p, nth_error (w_offsets w) i = Some off -> nth_error (payloads bs) i = Some p ->
      exists a r, layout (hdr_of info) bs =
                  a ++ frame_header FrameEntry (len p) ++ p ++ zeros (N.to_nat (pad_len (len p))) ++ r
                  /\ len a = off /\ (len p + pad_len (len p)) mod 8 = 0.
Proof. exact frames_aligned. Qed.
Print Assumptions C09_frames_aligned.

(* one commit frame per batch; its CRC-32C covers exactly the bytes since the
   previous commit (from offset 0, header included, for the first batch) *)
Theorem C09_commit_crc_range :
  forall info bs b,
    exists X, image info (bs ++ [b]) = image info bs ++ X ++ commit_frame (crc32c X) /\
              (bs <> [] -> X = batch_body info (cstate info bs) b) /\
              (bs = [] -> X = file_header info ++ batch_body info c0 b).
Proof. exact commit_crc_range. Qed.
Print Assumptions C09_commit_crc_range.

Theorem C09_image_is_layout : forall info bs, image info bs = layout (hdr_of info) bs.
Proof. exact image_is_layout. Qed.
Print Assumptions C09_image_is_layout.

(* sealed: IndexStart is the offset of the index array; the array is le32 of
   exactly the entry-frame offsets; each offset addresses that entry's frame *)
Theorem C09_index_frame :
  forall info ops w acts bs,
    wrun (init_empty info) ops = Some (w, acts, bs) -> len (layout (hdr_of info) bs) < two32 ->
    sealed w = true ->
    (exists a r, layout (hdr_of info) bs =
                 a ++ frame_header FrameIndex (4 * len (w_offsets w)) ++ flat_map le32 (w_offsets w) ++ r
                 /\ len a + 8 = w_index_start w) /\
    length (w_offsets w) = length (payloads bs) /\
    forall i off p, nth_error (w_offsets w) i = Some off -> nth_error (payloads bs) i = Some p ->
      exists a r, layout (hdr_of info) bs = a ++ rs_frame rs_t_entry p ++ r /\ len a = off.
Proof. exact index_frame_ok. Qed.
Print Assumptions C09_index_frame.

(* the writer seals at most its last batch, and the IndexStart it reports is the
   README's: the offset of the index array of that batch (0 when unsealed) *)
Theorem C09_index_start_readme :
  forall info ops w acts bs,
    wrun (init_empty info) ops = Some (w, acts, bs) -> len (layout (hdr_of info) bs) < two32 ->
    only_last_sealed bs /\ w_index_start w = rs_index_start bs.
Proof. exact index_start_readme. Qed.
Print Assumptions C09_index_start_readme.

(* header fields = metadata; the model's file name = the README's name format
   (for every base, id: both print 20 decimal / 16 hex digits, which is all of a
   uint64; the Go probe in constants_match_readme ties Sprintf to it) *)
Theorem C09_header_name_meta :
  forall info ops w acts bs k,
    wrun (init_empty info) ops = Some (w, acts, bs) -> len (layout (hdr_of info) bs) < two32 ->
    bs <> [] -> si_base info < two64 -> si_id info < two64 -> si_codec info < two64 ->
    rs_parse_header (writes_concat acts ++ zeros k) = Some (hdr_of info) /\
    read_file_header (writes_concat acts ++ zeros k) = Some (si_base info, si_id info, si_codec info) /\
    file_name (si_base info) (si_id info) = rs_file_name (h_base (hdr_of info)) (h_id (hdr_of info)).
Proof. exact header_name_meta. Qed.
Print Assumptions C09_header_name_meta.

Theorem C09_file_name : forall base id, file_name base id = rs_file_name base id.
Proof. exact file_name_readme. Qed.
Print Assumptions C09_file_name.

(* the independent decoder reads everything the independent encoder lays out *)
Theorem C09_spec_decodes :
  forall h bs k,
    bs <> [] -> rs_header_wf h -> Forall rs_batch_wf bs -> len (layout h bs) < two32 ->
    parse (layout h bs ++ zeros k) = Some (h, bs).
Proof. exact parse_layout. Qed.
Print Assumptions C09_spec_decodes.

(* ... and therefore everything the writer model writes *)
Theorem C09_spec_decodes_writer :
  forall info ops w acts bs k,
    Forall (fun op => match op with OpAppend es => Forall (fun e => wf_bytes (snd e)) es | OpSeal => True end) ops ->
    wrun (init_empty info) ops = Some (w, acts, bs) -> len (layout (hdr_of info) bs) < two32 ->
    bs <> [] -> si_base info < two64 -> si_id info < two64 -> si_codec info < two64 ->
    parse (writes_concat acts ++ zeros k) = Some (hdr_of info, bs).
Proof. exact spec_decodes. Qed.
Print Assumptions C09_spec_decodes_writer.

(* fails to compile when the constants of the source drift from the README *)
Theorem constants_match_readme :
  MaxEntrySize = 67108864 /\ MaxEntrySize = rs_max_entry /\
  FrameInvalid = 0 /\ FrameEntry = 1 /\ FrameIndex = 2 /\ FrameCommit = 3 /\
  FrameInvalid = rs_t_invalid /\ FrameEntry = rs_t_entry /\ FrameIndex = rs_t_index /\ FrameCommit = rs_t_commit /\
  magic = 1491823373 /\ magic = rs_magic /\ file_header_len = 32 /\ frame_header_len = 8 /\
  FileNameProbe = rs_file_name 1234567 11259375.
Proof. exact FormatFacts.constants_match_readme. Qed.
Print Assumptions constants_match_readme.

(* translator tie: the unexported constants and the integer functions of
   segment/format.go, regenerated from the Go source into Gen/Source.v on every
   run, are the ones the model uses -- for every argument, not a sample *)
Theorem C09_source_constants :
  Z.of_N file_header_len = segment_fileHeaderLen /\ Z.of_N frame_header_len = segment_frameHeaderLen /\
  Z.of_N magic = segment_magic /\ Z.of_N min_buf_size = segment_minBufSize /\ segment_version = 0%Z /\
  Z.of_N MaxEntrySize = segment_MaxEntrySize /\
  segment_segmentFileNamePattern = [37; 48; 50; 48; 100; 45; 37; 48; 49; 54; 120; 46; 119; 97; 108]%N /\
  file_name 1234567 11259375 = FileNameProbe.
Proof.
  exact (conj tie_file_header_len (conj tie_frame_header_len (conj tie_magic (conj tie_min_buf_size
        (conj tie_version (conj tie_max_entry_size (conj tie_file_name_pattern tie_file_name_probe))))))).
Qed.
Print Assumptions C09_source_constants.

Theorem C09_source_functions : forall n : N,
  Z.of_N (pad_len n) = segment_fn_padLen (Z.of_N n) /\
  Z.of_N (enc_frame_size n) = segment_fn_encodedFrameSize (Z.of_N n) /\
  Z.of_N (index_frame_size n) = segment_fn_indexFrameSize (Z.of_N n).
Proof. exact (fun n => conj (tie_pad_len n) (conj (tie_enc_frame_size n) (tie_index_frame_size n))). Qed.
Print Assumptions C09_source_functions.

(* non-vacuity: a concrete history (two appends, the second one sealing by size,
   then a no-op force-seal) runs, satisfies the guards, and the README decoder
   gives back its batches *)
Definition ex_info : seginfo :=
  {| si_id := 7; si_base := 5; si_min := 5; si_max := 0; si_codec := 1;
     si_index_start := 0; si_sealed := false; si_size_limit := 96 |}.
Definition ex_ops : list wop :=
  [OpAppend [(5, [1; 2; 3])]; OpAppend [(6, []); (7, [9; 9; 9; 9; 9; 9; 9; 9; 9])]; OpSeal].
Example C09_ex_runs :
  match wrun (init_empty ex_info) ex_ops with
  | Some (w, acts, bs) =>
      bs = [([[1; 2; 3]], false); ([[]; [9; 9; 9; 9; 9; 9; 9; 9; 9]], true)] /\
      sealed w = true /\ len (layout (hdr_of ex_info) bs) = 120 /\
      parse (writes_concat acts ++ zeros 16) = Some (hdr_of ex_info, bs)
  | None => False
  end.
Proof. vm_compute. repeat split; reflexivity. Qed.
