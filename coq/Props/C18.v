(* C18 -- Verifier is transparent and never blocks appends.
   Only statements here; proofs live in Vfy/NodesFacts.v, Vfy/VerifChanFacts.v.

   Pass-through: in the model FirstIndex / LastIndex / GetLog through the
   middleware ARE the underlying store's (the runner reads [n_store] directly,
   as LogStore.FirstIndex etc. forward directly); the theorems below cover the
   calls that do involve middleware state.  They are stated for an arbitrary
   node state, hence for every operation sequence.
   Hand-off: [crun c_init evs] runs an arbitrary schedule of the three threads
   (StoreLogs caller: CPush then one CSend per checkpoint; verifier goroutine:
   CRecv; ReportFn returning: CReturn).  A ReportFn that blocks forever is a
   schedule without CReturn.  C18_node_channel ties a node's channel state to
   that system.  Middleware restarts are outside C18's quantifier: a new
   LogStore forgets lastCheckPointIdx, so the first report after a restart
   carries no SkippedRange. *)
From RW Require Import Base.Bytes Vfy.Checksum Vfy.Spec Vfy.Store Vfy.VerifChan Vfy.Nodes
  Vfy.StoreFacts Vfy.VerifChanFacts Vfy.NodesFacts.
Open Scope N_scope.

Theorem C18_passthrough :
  forall cpf nd b res nd' rs,
    node_store cpf nd b = (res, nd', rs) ->
    match res with
    | SOk => exists b', Forall2 (gains_meta cpf) b b' /\
                        store_logs (n_store nd) b' = Some (n_store nd')
    | SErrVfy => n_store nd' = n_store nd /\ n_v nd' = n_v nd /\ rs = []
    | SErrStore => n_store nd' = n_store nd /\ n_v nd' = n_v nd /\ rs = [] /\
                   (n_fail nd = true \/
                    exists b', Forall2 (gains_meta cpf) b b' /\ store_logs (n_store nd) b' = None)
    end.
Proof. exact passthrough_store. Qed.
Print Assumptions C18_passthrough.

(* a checkpoint whose Extensions hold foreign data (or a failing checkpoint
   function) is refused and the underlying store is not touched *)
Theorem C18_foreign_checkpoint_refused :
  forall cpf nd b e,
    In e b -> (cpf e = None \/ foreign_checkpoint cpf e) ->
    fst (fst (node_store cpf nd b)) = SErrVfy /\
    n_store (snd (fst (node_store cpf nd b))) = n_store nd.
Proof. exact foreign_checkpoint_refused. Qed.
Print Assumptions C18_foreign_checkpoint_refused.

(* DeleteRange = the underlying call (after one LastIndex read, which has no
   effect; lf = that read failed); the verifier state restarts iff the read failed
   or the range reached that last index *)
Theorem C18_passthrough_delete :
  forall nd mn mx lf,
    match delete_range (n_store nd) mn mx with
    | Some s' => node_delete nd mn mx lf = (true, snd (node_delete nd mn mx lf)) /\
                 n_store (snd (node_delete nd mn mx lf)) = s' /\
                 n_v (snd (node_delete nd mn mx lf)) =
                   (if lf || (last_index (n_store nd) <=? mx) then v_init else n_v nd)
    | None => fst (node_delete nd mn mx lf) = false /\
              n_store (snd (node_delete nd mn mx lf)) = n_store nd /\
              n_v (snd (node_delete nd mn mx lf)) = n_v nd
    end.
Proof. exact passthrough_delete. Qed.
Print Assumptions C18_passthrough_delete.

Theorem C18_passthrough_other :
  forall cpf nd ev,
    match ev with HStore _ _ | HDelete _ _ _ _ | HTamper _ _ _ => True
    | _ => n_store (node_step cpf nd ev) = n_store nd end.
Proof. exact passthrough_other. Qed.
Print Assumptions C18_passthrough_other.

(* StoreLogs never waits: whatever the other threads do -- in particular with no
   CReturn at all, i.e. ReportFn blocked forever -- the caller's pending sends
   shrink by exactly one per send step and reach zero after as many steps as
   it triggered reports. *)
Theorem C18_store_never_blocks :
  forall evs c,
    forallb (fun ev => negb (is_push ev)) evs = true ->
    length (c_pending (crun c evs)) = (length (c_pending c) - count_sends evs)%nat.
Proof. exact store_never_blocks. Qed.
Print Assumptions C18_store_never_blocks.

Theorem C18_store_completes :
  forall evs c,
    forallb (fun ev => negb (is_push ev)) evs = true ->
    (length (c_pending c) <= count_sends evs)%nat ->
    c_pending (crun c evs) = [].
Proof. exact store_completes. Qed.
Print Assumptions C18_store_completes.

(* delivered + dropped + in_channel + in_progress (+ not yet sent, while a
   StoreLogs is still in its send loop) = checkpoints, at every point of every
   schedule; checkpoints_written counts them *)
Theorem C18_accounting :
  forall evs,
    let c := crun c_init evs in
    N.of_nat (length (c_delivered c)) + c_dropped c + opt_count (c_ch c) + opt_count (c_inprog c)
      + N.of_nat (length (c_pending c)) = N.of_nat (length (pushed evs)) /\
    c_written c = N.of_nat (length (pushed evs)).
Proof. exact accounting. Qed.
Print Assumptions C18_accounting.

(* for checkpoints forming a chain, every processed report names exactly the
   range tiled by the checkpoints dropped since the previously enqueued one
   (ghost list attached to it), nil if none; and dropped_reports counts exactly
   those ghost lists *)
Theorem C18_skipped_range :
  forall evs,
    chained_from 0 (pushed evs) ->
    let c := crun c_init evs in
    Forall names_skipped (processed c) /\
    c_dropped c = sum_drops (processed c)
                  + match c_ch c with Some (_, ds) => N.of_nat (length ds) | None => 0 end
                  + N.of_nat (length (g_drops c)).
Proof. exact skipped_range. Qed.
Print Assumptions C18_skipped_range.

Theorem C18_node_channel :
  forall cpf nd ev,
    (forall n, ev <> HRestart n) ->
    n_c (node_step cpf nd ev) = crun (n_c nd) (cevents_of cpf nd ev).
Proof. exact node_step_channel. Qed.
Print Assumptions C18_node_channel.

(* ---- non-vacuity ------------------------------------------------------------ *)
Definition ex_r (a b : N) : report := new_report a b 0 0.
Definition ex_s : sstore := s_empty.

(* ReportFn blocks on the first report: the second waits in the channel, the
   third and fourth are dropped -- StoreLogs has finished every time (no pending
   sends) although nothing returned *)
Example C18_ex_blocked :
  let c := crun c_init [CPush [ex_r 1 5]; CSend; CRecv ex_s;
                        CPush [ex_r 5 9]; CSend;
                        CPush [ex_r 9 12; ex_r 12 20]; CSend; CSend] in
  c_pending c = [] /\ c_dropped c = 2 /\ c_delivered c = [] /\
  opt_count (c_ch c) = 1 /\ opt_count (c_inprog c) = 1 /\ c_written c = 4.
Proof. vm_compute. repeat split; reflexivity. Qed.

(* ... after it returns, the next delivered report [20,25) names the skipped
   range [9,20) *)
Example C18_ex_skipped :
  let c := crun c_init [CPush [ex_r 1 5]; CSend; CRecv ex_s;
                        CPush [ex_r 5 9]; CSend;
                        CPush [ex_r 9 12; ex_r 12 20]; CSend; CSend;
                        CReturn; CRecv ex_s; CReturn;
                        CPush [ex_r 20 25]; CSend; CRecv ex_s; CReturn] in
  map (fun x => (r_start (fst x), r_end (fst x), r_skipped (fst x))) (c_delivered c) =
    [(1, 5, None); (5, 9, None); (20, 25, Some (9, 20))] /\
  c_dropped c = 2 /\ chained_from 0 (pushed [CPush [ex_r 1 5]; CPush [ex_r 5 9];
                                             CPush [ex_r 9 12; ex_r 12 20]; CPush [ex_r 20 25]]).
Proof. vm_compute. repeat split; try reflexivity; auto. Qed.

(* a leader checkpoint gains exactly 24 bytes; a foreign one is refused *)
Definition ex_cpf (e : entry) : option bool :=
  Some (match e_data e with 192 :: _ => true | _ => false end).
Example C18_ex_meta :
  match node_store ex_cpf node_init
          [{| e_index := 1; e_term := 1; e_type := 0; e_data := [192]; e_ext := [] |}] with
  | (SOk, nd', [r]) => map (fun e => length (e_ext e)) (s_logs (n_store nd')) = [24%nat]
  | _ => False
  end /\
  fst (fst (node_store ex_cpf node_init
          [{| e_index := 1; e_term := 1; e_type := 0; e_data := [192]; e_ext := [1; 2] |}])) = SErrVfy.
Proof. vm_compute. split; reflexivity. Qed.
