(* C13 (clause 1, "with and without concurrent readers pinning old state") at the level of
   the concurrency model L3 (Conc/Close.v).  Only statements here; proofs in
   Conc/CloseThm4.v (from the reference-count / finalizer / handle-ownership invariant Inv2).

   Props/C13.v proves the directory exact in the SEQUENTIAL model, where "in-flight reads
   have finished" is built in.  Here readers are real threads that may hold any older state
   for as long as the schedule pleases, which delays the finalizer that closes and deletes the
   files of the segments a truncation (or Close) dropped.  The theorems say that this delay
   ends with the readers:  in EVERY reachable state of a single-writer system -- any number of
   readers, stable-store callers and Close callers, any schedule -- in which every call has
   returned and the rotation goroutine is outside its critical section,
     * no thread holds a reference to any state, no finalizer is waiting to run;
     * every file handle ever opened that is not a segment of the current state has been
       closed exactly once (in the code the same finalizer then deletes the file);
     * every segment of the current (open) state is open: nothing the log still needs was
       reclaimed.
   A handle of the model is a segment file of the code: it is created by the transaction
   that lists it and closed by exactly one finalizer (closeSegments + deleteSegments in
   wal.go).  That the finalizer's deletions are the right files is the sequential theorem
   C13_delete_reclaims; that it RUNS, and runs once, is what is proved here. *)
From Coq Require Import List Arith Bool Lia.
From RW Require Import Conc.Sys Conc.Close Conc.CloseInv Conc.CloseInv2 Conc.CloseReach Conc.CloseThm Conc.CloseThm4.
Import ListNotations.

Theorem C13_quiescent_no_refs : forall w progs extra s,
  single_writer w progs extra -> reach progs extra s -> quiescent (length progs) s ->
  (forall th, In th (ths s) -> (forall x, href th x = 0) /\ (forall x, nlast th x = 0) /\
                               (forall h, hpend (sh s) th h = 0)) /\
  (forall x, x < length (g_states (sh s)) -> is_fset (s_fin (getst (sh s) x)) = false).
Proof. exact quiescent_no_refs. Qed.
Print Assumptions C13_quiescent_no_refs.

Theorem C13_quiescent_reclaimed : forall w progs extra s,
  single_writer w progs extra -> reach progs extra s -> quiescent (length progs) s ->
  forall h, h < length (g_hnds (sh s)) ->
    live (sh s) h + h_closes (geth (sh s) h) = 1.
Proof. exact quiescent_reclaimed. Qed.
Print Assumptions C13_quiescent_reclaimed.

Theorem C13_quiescent_dropped_closed : forall w progs extra s,
  single_writer w progs extra -> reach progs extra s -> quiescent (length progs) s ->
  forall h, h < length (g_hnds (sh s)) ->
    (~ In h (s_segs (getst (sh s) (g_cur (sh s)))) -> h_closes (geth (sh s) h) = 1) /\
    (s_open (getst (sh s) (g_cur (sh s))) = true -> In h (s_segs (getst (sh s) (g_cur (sh s)))) ->
       h_closes (geth (sh s) h) = 0).
Proof. exact quiescent_dropped_closed. Qed.
Print Assumptions C13_quiescent_dropped_closed.

(* ---- non-vacuity: a reader pins the old state across a head truncation --------------------
   Thread 0 (writer): two sealing appends of one entry each (handles 0, 1, then the tail 2),
   then DeleteRange(1,1).  Thread 1 (reader): GetLog(1).  Thread 2 is the rotation goroutine.
   The reader is run up to its read through handle 0 (PGetRead on state 2) and parked; the
   writer then truncates and returns: the new state 3 lists handles [1; 2], handle 0 is still
   OPEN -- the reader's reference keeps the finalizer of state 2 from running (not quiescent).
   When the reader has returned (it got the entry, tag 7), the state is quiescent and handle 0
   has been closed exactly once, handles 1 and 2 are open. *)
Definition c13_progs : list (list op) := [[OStore true 7 1; OStore true 8 1; ODelete 1]; [OGet 1]].
Definition c13_run (sch : list tid) : sys := run step (init c13_progs []) sch.
Definition c13_sched_pinned : list tid :=
  repeat 0 16 ++ repeat 2 20 ++ repeat 0 16 ++ repeat 2 20 ++ repeat 1 6 ++ repeat 0 30.
Definition c13_sched_done : list tid := c13_sched_pinned ++ repeat 1 12.
Definition c13_view (s : sys) :=
  (map t_pc (ths s), map h_closes (g_hnds (sh s)), s_segs (getst (sh s) (g_cur (sh s)))).

Example C13_ex_reader_pins_file :
  c13_view (c13_run c13_sched_pinned) = ([PIdle; PGetRead 2 0; PRIdle], [0; 0; 0], [1; 2]) /\
  map t_outs (ths (c13_run c13_sched_pinned)) = [[Ok 0; Ok 0; Ok 0]; []; []].
Proof. vm_compute. split; reflexivity. Qed.

Example C13_ex_reclaimed_when_reader_returns :
  c13_view (c13_run c13_sched_done) = ([PIdle; PIdle; PRIdle], [1; 0; 0], [1; 2]) /\
  map t_outs (ths (c13_run c13_sched_done)) = [[Ok 0; Ok 0; Ok 0]; [Ok 7]; []].
Proof. vm_compute. split; reflexivity. Qed.

(* the hypotheses of the theorems hold there *)
Example C13_ex_quiescent :
  single_writer 0 c13_progs [] /\ reach c13_progs [] (c13_run c13_sched_done) /\
  quiescent (length c13_progs) (c13_run c13_sched_done).
Proof.
  split; [|split].
  - intros t p E N. destruct t as [|[|[|t]]]; cbn in E; try (exfalso; apply N; reflexivity).
    + inversion E. reflexivity.
    + inversion E. reflexivity.
    + destruct t; discriminate E.
  - exists c13_sched_done. reflexivity.
  - split.
    + intros t th E N. destruct t as [|[|[|t]]].
      * vm_compute in E. inversion E. reflexivity.
      * vm_compute in E. inversion E. reflexivity.
      * exfalso. apply N. reflexivity.
      * vm_compute in E. destruct t; discriminate E.
    + intros thr E. vm_compute in E. inversion E. reflexivity.
Qed.
