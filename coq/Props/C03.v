(* C03 -- Recovery restores a usable, writable WAL.
   Only statements here; proofs in Wal/Crash*.v.  Histories, guards and the crash
   adversary are described in Props/C01.v.  Every crash point is covered BY PROOF. *)
From RW Require Import Base.Bytes Fmt.Codec Fmt.Frame Wal.Model Wal.Spec Wal.Hist
  Wal.CrashInv Wal.CrashCalls10 Wal.CrashThm Wal.CrashExamples Wal.CrashExamplesFacts.
Open Scope N_scope.

Theorem C03_crash_refinement : crash_refinement_stmt.
Proof. exact crash_refinement. Qed.
Print Assumptions C03_crash_refinement.

(* Open succeeds on EVERY directory state a crash can leave behind: after any history of
   calls and crashes at any I/O boundary (also of Open itself, nested to any depth) with
   any adversary choice, [open_wal] returns a WAL, not an error. *)
Theorem C03_open_total :
  forall c steps d,
    (cfg_ok c /\ Forall hstep_wf steps /\ short_enough steps) ->
    hs_mode (hist_run c hist_init steps) = Down d ->
    exists w e, open_wal c (env_of d) = (OOk w, e) /\
      ({| sp_log := abs w (e_disk e); sp_kv := dk_stable (e_disk e) |} = hs_acked (hist_run c hist_init steps) \/
       {| sp_log := abs w (e_disk e); sp_kv := dk_stable (e_disk e) |} = hs_may (hist_run c hist_init steps)) /\
      dir_exact (e_disk e) = true /\ Forall not_fail (e_acts e).
Proof. exact recovery_after_any_history. Qed.
Print Assumptions C03_open_total.

(* ... and the WAL accepts StoreLogs at LastIndex+1 (any index when empty) ... *)
Theorem C03_writable :
  forall c steps s l,
    (cfg_ok c /\ Forall hstep_wf (steps ++ [HOp (OStore [l])]) /\ short_enough (steps ++ [HOp (OStore [l])])) ->
    hs_mode (hist_run c hist_init steps) = Up s ->
    sl_is_empty (sp_log (hs_acked (hist_run c hist_init steps))) = true \/
    l_index l = spec_last (sp_log (hs_acked (hist_run c hist_init steps))) + 1 ->
    fst (step_model c s (OStore [l])) = ROk.
Proof. exact writable_after_any_history. Qed.
Print Assumptions C03_writable.

(* ... and EVERY call (StoreLogs, DeleteRange, GetLog, First/LastIndex, stable Set/Get,
   Close+Open) issued after any history -- any number of crashes and recoveries -- returns
   the result class the contiguous-log spec prescribes and leaves exactly the spec's
   state (so its effects are again durable by C01). *)
Theorem C03_every_call_matches_spec :
  forall c steps s o,
    (cfg_ok c /\ Forall hstep_wf (steps ++ [HOp o]) /\ short_enough (steps ++ [HOp o])) ->
    hs_mode (hist_run c hist_init steps) = Up s ->
    res_class (fst (step_model c s o)) = fst (step_spec (hs_acked (hist_run c hist_init steps)) o) /\
    {| sp_log := abs (ss_wal (snd (step_model c s o))) (e_disk (ss_env (snd (step_model c s o))));
       sp_kv := dk_stable (e_disk (ss_env (snd (step_model c s o)))) |}
    = snd (step_spec (hs_acked (hist_run c hist_init steps)) o).
Proof. exact every_call_matches_spec. Qed.
Print Assumptions C03_every_call_matches_spec.

(* ---- non-vacuity --------------------------------------------------------------------
   A: the sealing append is on disk, the rotation's metadata commit is not (the defect
      "sealed tail recovered, StoreLogs fails forever" of the pinned code): Open completes
      the rotation and index 3 is appended.
   B: the rotation's commit is on disk, the new tail file is not: Open re-creates it.
   F: nested crashes: at the start of Open; inside Open right after it re-created the
      tail file (lost again, or kept); then Open, StoreLogs, Close+Open, GetLog. *)
Example C03_ex_guards :
  hist_ok cfg128 hist_rotation_before_commit /\ hist_ok cfg128 hist_rotation_after_commit /\ hist_ok cfg128 hist_nested.
Proof. exact (conj hist_rotation_before_commit_ok (conj hist_rotation_after_commit_ok hist_nested_ok)). Qed.
Example C03_ex_interrupted_rotation :
  final_ok cfg128 hist_rotation_before_commit = true /\
  crash_shape cfg128 (firstn 4 hist_rotation_before_commit) = ([(1, false)], [((1, 0), true)]) /\
  final_last cfg128 hist_rotation_before_commit = 3 /\
  final_ok cfg128 hist_rotation_after_commit = true /\
  crash_shape cfg128 (firstn 4 hist_rotation_after_commit) = ([(1, true); (3, false)], [((1, 0), true)]) /\
  final_last cfg128 hist_rotation_after_commit = 3.
Proof. vm_compute. repeat split; reflexivity. Qed.
Example C03_ex_nested :
  final_ok cfg128 hist_nested = true /\ final_last cfg128 hist_nested = 3 /\
  crash_shape cfg128 (firstn 6 hist_nested) = ([(1, true); (3, false)], [((1, 0), true)]) /\
  crash_shape cfg128 (firstn 7 hist_nested) = ([(1, true); (3, false)], [((1, 0), true); ((3, 1), false)]).
Proof. vm_compute. repeat split; reflexivity. Qed.
