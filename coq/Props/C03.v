(* C03 -- Recovery always restores a fully usable, writable WAL.
   INTERIM file: the full statement is `crash_refinement_stmt` of Wal/Hist.v
   (all histories of calls, power losses at any I/O boundary with any adversary
   choice, nested crashes inside recovery, reopen cycles; see its comment for how
   it covers C03).  Its proof is in progress; until it lands only the fragments
   below are proved and the property is otherwise carried by the executable
   acceptance predicate `hist_run`/`hs_ok` (evaluated on random histories of
   the model on every run) and by the crash-image enumeration on the
   implementation (stream `crash`). *)
From RW Require Import Base.Bytes Fmt.Codec Fmt.Frame Wal.Model Wal.Spec Wal.Hist Wal.BasicFacts.
Open Scope N_scope.

(* the full statement (not yet a theorem) *)
Definition C03_full_statement : Prop := crash_refinement_stmt.

(* proved fragment: Open of an empty directory succeeds for every admissible
   configuration and yields an empty, consistent WAL *)
Theorem C03_first_open_succeeds_partial :
  forall c, cfg_ok c ->
  exists w e, open_wal c fresh_env = (OOk w, e) /\ abs w (e_disk e) = sl_empty /\
              dir_exact (e_disk e) = true /\ dk_stable (e_disk e) = [] /\
              first_index (st_segs w) (st_tail w) = 0 /\ last_index (st_segs w) (st_tail w) = 0.
Proof. exact first_open. Qed.
Print Assumptions C03_first_open_succeeds_partial.
