(* C15 -- Entry-size boundaries: whatever is accepted is readable.
   L1 (single segment file) form; proofs in Seg/ReaderFacts.v.

   wrun (init_empty info) ops = Some (w, acts, bs): every append / force-seal of
   ops returned WOk; payloads bs lists the payloads of all acknowledged batches
   in index order; apply_wactions f0 acts is the file after the writer's writes
   (f0 = any initial content, e.g. the preallocated zeros).  read_frame does the
   64 KiB first read and the exact-size second read of reader.go. *)
From RW Require Import Base.Bytes Fmt.Frame Seg.Writer Seg.Recover Seg.Reader Seg.SegAbs
     Seg.WriterFacts Seg.ReaderFacts Gen.Constants.
From RW Require Fmt.Codec Wal.Model Wal.TooBigFacts.
Open Scope N_scope.

(* every entry of every acknowledged batch is returned by the tail reader: any
   payload length the writer accepted (0 .. MaxEntrySize), any position in its
   batch, any segment size limit -- including entries larger than the whole
   segment, which seal it in the same append *)
Theorem C15_accepted_is_readable :
  forall info ops w acts bs f0 i p,
    wrun (init_empty info) ops = Some (w, acts, bs) -> len (image info bs) < two32 ->
    si_min info <= si_base info ->
    nth_error (payloads bs) i = Some p ->
    tail_get w (apply_wactions f0 acts) (si_base info + N.of_nat i) = ROk p.
Proof. exact accepted_is_readable_tail. Qed.
Print Assumptions C15_accepted_is_readable.

(* ... and, once sealed (by size or force_seal), by the sealed reader opened
   with the index start the writer reports *)
Theorem C15_accepted_is_readable_sealed :
  forall info ops w acts bs f0 i p info',
    wrun (init_empty info) ops = Some (w, acts, bs) -> len (image info bs) < two32 ->
    sealed w = true ->
    si_base info' = si_base info -> si_index_start info' = w_index_start w ->
    si_min info' <= si_base info + N.of_nat i ->
    (si_max info' = 0 \/ si_base info + N.of_nat i <= si_max info') ->
    nth_error (payloads bs) i = Some p ->
    sealed_get info' (apply_wactions f0 acts) (si_base info + N.of_nat i) = ROk p.
Proof. exact accepted_is_readable_sealed. Qed.
Print Assumptions C15_accepted_is_readable_sealed.

(* the frame-level core: one entry frame anywhere in any file, any payload
   length <= MaxEntrySize *)
Theorem C15_read_frame_entry :
  forall a p r, len p <= MaxEntrySize ->
    fst (read_frame (a ++ enc_frame FrameEntry p ++ r) (len a)) = ROk p.
Proof. exact read_frame_entry. Qed.
Print Assumptions C15_read_frame_entry.

(* a batch containing an entry longer than MaxEntrySize is refused and changes
   nothing (no action, same state) *)
Theorem C15_too_big_refused :
  forall w es f, too_big es = true ->
    exists r, append w es f = (r, w, []) /\ (r = WErrTooBig \/ r = WErrSealed) /\
              (w_index_start w = 0 -> r = WErrTooBig).
Proof. exact too_big_refused. Qed.
Print Assumptions C15_too_big_refused.

(* no size <= MaxEntrySize is refused for its size *)
Theorem C15_up_to_max_accepted :
  forall w es, w_index_start w = 0 -> idx_ok (si_base (w_info w) + len (w_offsets w)) es ->
    Forall (fun e => len (snd e) <= MaxEntrySize) es ->
    exists w' acts, append w es FNone = (WOk, w', acts).
Proof. exact up_to_max_accepted. Qed.
Print Assumptions C15_up_to_max_accepted.

(* WAL level: StoreLogs never acknowledges a batch containing an entry whose ENCODING
   (what the segment stores) is longer than MaxEntrySize -- in any state, closed or open,
   empty or not, with or without an armed I/O fault.  (That every batch of entries within
   the limit which the contiguous-log specification accepts IS acknowledged and read back
   field by field is C12_store_get; that the abstract log is unchanged by a refused call is
   part of the sequential refinement for batches within the guards.) *)
Theorem C15_wal_too_big_refused :
  forall c w ls e,
    existsb (fun l => MaxEntrySize <? RW.Wal.Model.enc_len l) ls = true ->
    fst (fst (RW.Wal.Model.store_logs c w ls e)) <> RW.Wal.Model.ROk.
Proof. exact RW.Wal.TooBigFacts.store_logs_too_big. Qed.
Print Assumptions C15_wal_too_big_refused.

(* non-vacuity: an entry larger than the whole segment (limit 64) in the middle
   of a batch is accepted, seals the segment, and all three entries read back *)
Definition ex_info : seginfo :=
  {| si_id := 1; si_base := 10; si_min := 10; si_max := 0; si_codec := 1;
     si_index_start := 0; si_sealed := false; si_size_limit := 64 |}.
Definition ex_big : bytes := repeat 7 100.
Example C15_ex :
  match wrun (init_empty ex_info) [OpAppend [(10, [1]); (11, ex_big); (12, [])]] with
  | Some (w, acts, bs) =>
      sealed w = true /\ payloads bs = [[1]; ex_big; []] /\
      tail_get w (apply_wactions (zeros 64) acts) 11 = ROk ex_big /\
      tail_get w (apply_wactions (zeros 64) acts) 12 = ROk []
  | None => False
  end.
Proof. vm_compute. repeat split; reflexivity. Qed.
Example C15_ex_too_big : too_big [(1, [0])] = false.
Proof. reflexivity. Qed.
