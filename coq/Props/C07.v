(* C07 -- Real filesystem layer honours the durability contract the WAL assumes.
   Only statements here.  Fs/Discipline.v: the executable checker [discipline]
   (evaluated by the fstrace stream on syscall traces observed under strace)
   and the fs-layer trace model; Fs/DisciplineFacts.v: the disk semantics and
   proofs.  What is proved is a statement about syscall PATTERNS; that the
   kernel makes fsynced data and directory entries durable is the assumption
   built into the disk semantics [dstep]. *)
From RW Require Import Base.Bytes Fs.Discipline Fs.DisciplineFacts.
Open Scope N_scope.

(* For ALL traces (fresh-directory workloads, any length, any interleaving of
   files): if the trace obeys the discipline then at every ACK marker every
   write a live segment file has received so far (hence every byte written for
   the acknowledged call) is in the synced content of a file that exists and
   whose directory entry is durable, no write is pending, every deletion is
   durable, and the metadata db is complete and durably named; it has no
   unsynced page at the ACK of any call except StoreLogs (op_store), whose
   return legitimately overlaps the background rotation's metadata commit. *)
Theorem C07_discipline_sound : forall seg t1 op n t2,
  discipline seg (t1 ++ Mark MAck op n :: t2) = true ->
  let d := drun t1 d0 in
  (forall s w, In w (live_writes t1 s) ->
     f_exists (segs d s) = true /\ In w (f_synced (segs d s)) /\
     f_pend (segs d s) = [] /\ f_dur (segs d s) = true) /\
  (forall s, f_dur (segs d s) = true -> f_exists (segs d s) = true) /\
  (op <> op_store -> m_pend d = false) /\
  (meta d <> None -> meta d = Some true /\ m_dur d = true).
Proof. exact discipline_sound. Qed.
Print Assumptions C07_discipline_sound.

(* at no point of a disciplined trace is the name wal-meta.db bound to a file
   that was unwritten, unsynced or still open when it received the name *)
Theorem C07_meta_appears_complete : forall seg t1 t2,
  discipline seg (t1 ++ t2) = true -> meta (drun t1 d0) <> Some false.
Proof. exact meta_appears_complete. Qed.
Print Assumptions C07_meta_appears_complete.

(* every trace the fs-layer model (fs.Create / OpenWriter / File.Sync with its
   first-Sync directory fsync / Delete / safeInitBoltDB / CommitState)
   generates for a caller that syncs what it wrote before it acknowledges
   obeys the discipline *)
Theorem C07_model_traces_ok : forall seg ops,
  wf_ops ops = true -> discipline seg (fs_trace seg ops) = true.
Proof. exact model_traces_ok. Qed.
Print Assumptions C07_model_traces_ok.

(* ---- non-vacuity ------------------------------------------------------------ *)
(* Open; first commit into the fresh segment; a second commit; deletion *)
Definition ex_ops : list fsop :=
  [FMark MCall 3 0; FMetaInit; FMetaCommit; FCreate 0; FMark MAck 3 0;
   FMark MCall 1 1; FWrite 0 0 128; FSync 0; FMark MAck 1 1;
   FMark MCall 1 2; FWrite 0 128 64; FSync 0; FMark MAck 1 2;
   FMark MCall 2 3; FMetaCommit; FClose 0; FDelete 0; FCreate 1; FMark MAck 2 3;
   (* close and reopen: a fresh handle fsyncs the directory again (3825d37) *)
   FClose 1; FOpenWriter 1; FMark MCall 1 4; FWrite 1 0 32; FSync 1; FMark MAck 1 4].
Example C07_ex_wf : wf_ops ex_ops = true.
Proof. vm_compute. reflexivity. Qed.
Example C07_ex_trace_ok : discipline_res 4096 (fs_trace 4096 ex_ops) = None.
Proof. vm_compute. reflexivity. Qed.
(* the ACK theorem is not vacuous: the trace has ACKs after writes, and the
   semantics puts the write in the synced content *)
Example C07_ex_synced :
  let t1 := firstn 17 (fs_trace 4096 ex_ops) in
  nth_error (fs_trace 4096 ex_ops) 17 = Some (Mark MAck 1 1) /\
  live_writes t1 0 = [(0, 128)] /\ f_synced (segs (drun t1 d0) 0) = [(0, 128)] /\
  f_dur (segs (drun t1 d0) 0) = true.
Proof. vm_compute. auto. Qed.

(* the discipline rejects each pattern the property forbids *)
Definition pre : list event :=
  [OpenCreat MetaTmp; Pwrite MetaTmp 0 4096; Fdatasync MetaTmp; Close MetaTmp;
   Rename MetaTmp Meta; FsyncDir; OpenCreat Meta; OpenExcl (Seg 0); Fallocate (Seg 0) 0 0 4096;
   Mark MAck 3 0].
(* D1 (3825d37): first commit without the directory fsync *)
Example C07_ex_missing_dir_fsync :
  discipline_res 4096 (pre ++ [Mark MCall 1 1; Pwrite (Seg 0) 0 64; Fsync (Seg 0); Mark MAck 1 1])
  = Some (13%nat, VMissingDirFsync).
Proof. vm_compute. reflexivity. Qed.
Example C07_ex_missing_file_fsync :
  discipline_res 4096 (pre ++ [Mark MCall 1 1; Pwrite (Seg 0) 0 64; FsyncDir; Mark MAck 1 1])
  = Some (13%nat, VMissingFileFsync).
Proof. vm_compute. reflexivity. Qed.
Example C07_ex_delete_without_dir_fsync :
  discipline_res 4096 (pre ++ [Mark MCall 2 1; Unlink (Seg 0); Mark MAck 2 1])
  = Some (12%nat, VDeleteNoDirFsync).
Proof. vm_compute. reflexivity. Qed.
Example C07_ex_non_exclusive :
  discipline_res 4096 (pre ++ [OpenCreat (Seg 1)]) = Some (10%nat, VNonExclCreate).
Proof. vm_compute. reflexivity. Qed.
Example C07_ex_bad_size :
  discipline_res 4096 (pre ++ [OpenExcl (Seg 1); Fallocate (Seg 1) 0 0 1024]) = Some (11%nat, VBadFallocate).
Proof. vm_compute. reflexivity. Qed.
Example C07_ex_meta_created_in_place :
  discipline_res 4096 [OpenCreat Meta] = Some (0%nat, VMetaNotRenamed).
Proof. vm_compute. reflexivity. Qed.
Example C07_ex_meta_renamed_while_open :
  discipline_res 4096 [OpenCreat MetaTmp; Pwrite MetaTmp 0 4096; Fdatasync MetaTmp; Rename MetaTmp Meta]
  = Some (3%nat, VMetaTmpNotSynced).
Proof. vm_compute. reflexivity. Qed.
Example C07_ex_meta_dir_not_synced :
  discipline_res 4096 [OpenCreat MetaTmp; Pwrite MetaTmp 0 4096; Fdatasync MetaTmp; Close MetaTmp;
                       Rename MetaTmp Meta; Mark MAck 3 0]
  = Some (5%nat, VMetaDirNotSynced).
Proof. vm_compute. reflexivity. Qed.
(* the background rotation's metadata commit may overlap the ACK of the
   StoreLogs that sealed the segment, but not the ACK of any other call *)
Example C07_ex_rotation_overlaps_store_ack :
  discipline_res 4096 (pre ++ [Mark MCall 1 1; Pwrite (Seg 0) 0 64; Fsync (Seg 0); FsyncDir;
                               Pwrite Meta 8192 4096; Mark MAck 1 1; Fdatasync Meta;
                               Mark MCall 5 2; Mark MAck 5 2]) = None.
Proof. vm_compute. reflexivity. Qed.
Example C07_ex_meta_not_synced :
  discipline_res 4096 (pre ++ [Mark MCall 2 1; Pwrite Meta 8192 4096; Mark MAck 2 1])
  = Some (12%nat, VMetaNotSynced).
Proof. vm_compute. reflexivity. Qed.
(* and the semantics really distinguishes: in the D1 trace the acked write is
   synced but the file's directory entry is not durable *)
Example C07_ex_d1_not_durable :
  let t1 := pre ++ [Mark MCall 1 1; Pwrite (Seg 0) 0 64; Fsync (Seg 0)] in
  f_synced (segs (drun t1 d0) 0) = [(0, 64)] /\ f_dur (segs (drun t1 d0) 0) = false.
Proof. vm_compute. auto. Qed.
