(* C07 -- Real filesystem layer honours the durability contract the WAL assumes.
   Only statements here.  Fs/Discipline.v: the executable checker [discipline]
   (evaluated by the fstrace stream on syscall traces observed under strace)
   and the fs-layer trace model; Fs/DisciplineFacts.v: the disk semantics and
   proofs.  What is proved is a statement about syscall PATTERNS; that the
   kernel makes fsynced data and directory entries durable is the assumption
   built into the disk semantics [dstep]. *)
From RW Require Import Base.Bytes Fs.Discipline Fs.DisciplineFacts Fs.FaultDisciplineFacts.
Open Scope N_scope.

(* For ALL traces (fresh-directory workloads, any length, any interleaving of
   files): if the trace obeys the discipline then at every ACK marker every
   write a live segment file has received so far (hence every byte written for
   the acknowledged call) is in the synced content of a file that exists and
   whose directory entry is durable, no write is pending, every deletion is
   durable, and the metadata db is complete and durably named; it has no
   unsynced page at the ACK of any call except StoreLogs (op_store), whose
   return legitimately overlaps the background rotation's metadata commit. *)
Theorem C07_discipline_sound : forall seg t1 op n t2,
  discipline seg (t1 ++ Mark MAck op n :: t2) = true ->
  let d := drun t1 d0 in
  (forall s w, In w (live_writes t1 s) ->
     f_exists (segs d s) = true /\ In w (f_synced (segs d s)) /\
     f_pend (segs d s) = [] /\ f_dur (segs d s) = true) /\
  (forall s, f_dur (segs d s) = true -> f_exists (segs d s) = true) /\
  (op <> op_store -> m_pend d = false) /\
  (meta d <> None -> meta d = Some true /\ m_dur d = true).
Proof. exact discipline_sound. Qed.
Print Assumptions C07_discipline_sound.

(* at no point of a disciplined trace is the name wal-meta.db bound to a file
   that was unwritten, unsynced or still open when it received the name *)
Theorem C07_meta_appears_complete : forall seg t1 t2,
  discipline seg (t1 ++ t2) = true -> meta (drun t1 d0) <> Some false.
Proof. exact meta_appears_complete. Qed.
Print Assumptions C07_meta_appears_complete.

(* every trace the fs-layer model (fs.Create / OpenWriter / File.Sync with its
   first-Sync directory fsync / Delete / safeInitBoltDB / CommitState)
   generates for a caller that syncs what it wrote before it acknowledges
   obeys the discipline *)
Theorem C07_model_traces_ok : forall seg ops,
  wf_ops ops = true -> discipline seg (fs_trace seg ops) = true.
Proof. exact model_traces_ok. Qed.
Print Assumptions C07_model_traces_ok.

(* ---- non-vacuity ------------------------------------------------------------ *)
(* Open; first commit into the fresh segment; a second commit; deletion *)
Definition ex_ops : list fsop :=
  [FMark MCall 3 0; FMetaInit; FMetaCommit; FCreate 0; FMark MAck 3 0;
   FMark MCall 1 1; FWrite 0 0 128; FSync 0; FMark MAck 1 1;
   FMark MCall 1 2; FWrite 0 128 64; FSync 0; FMark MAck 1 2;
   FMark MCall 2 3; FMetaCommit; FClose 0; FDelete 0; FCreate 1; FMark MAck 2 3;
   (* close and reopen: a fresh handle fsyncs the directory again (3825d37) *)
   FClose 1; FOpenWriter 1; FMark MCall 1 4; FWrite 1 0 32; FSync 1; FMark MAck 1 4].
Example C07_ex_wf : wf_ops ex_ops = true.
Proof. vm_compute. reflexivity. Qed.
Example C07_ex_trace_ok : discipline_res 4096 (fs_trace 4096 ex_ops) = None.
Proof. vm_compute. reflexivity. Qed.
(* the ACK theorem is not vacuous: the trace has ACKs after writes, and the
   semantics puts the write in the synced content *)
Example C07_ex_synced :
  let t1 := firstn 17 (fs_trace 4096 ex_ops) in
  nth_error (fs_trace 4096 ex_ops) 17 = Some (Mark MAck 1 1) /\
  live_writes t1 0 = [(0, 128)] /\ f_synced (segs (drun t1 d0) 0) = [(0, 128)] /\
  f_dur (segs (drun t1 d0) 0) = true.
Proof. vm_compute. auto. Qed.

(* the discipline rejects each pattern the property forbids *)
Definition pre : list event :=
  [OpenCreat MetaTmp; Pwrite MetaTmp 0 4096; Fdatasync MetaTmp; Close MetaTmp;
   Rename MetaTmp Meta; FsyncDir; OpenCreat Meta; OpenExcl (Seg 0); Fallocate (Seg 0) 0 0 4096;
   Mark MAck 3 0].
(* D1 (3825d37): first commit without the directory fsync *)
Example C07_ex_missing_dir_fsync :
  discipline_res 4096 (pre ++ [Mark MCall 1 1; Pwrite (Seg 0) 0 64; Fsync (Seg 0); Mark MAck 1 1])
  = Some (13%nat, VMissingDirFsync).
Proof. vm_compute. reflexivity. Qed.
Example C07_ex_missing_file_fsync :
  discipline_res 4096 (pre ++ [Mark MCall 1 1; Pwrite (Seg 0) 0 64; FsyncDir; Mark MAck 1 1])
  = Some (13%nat, VMissingFileFsync).
Proof. vm_compute. reflexivity. Qed.
Example C07_ex_delete_without_dir_fsync :
  discipline_res 4096 (pre ++ [Mark MCall 2 1; Unlink (Seg 0); Mark MAck 2 1])
  = Some (12%nat, VDeleteNoDirFsync).
Proof. vm_compute. reflexivity. Qed.
Example C07_ex_non_exclusive :
  discipline_res 4096 (pre ++ [OpenCreat (Seg 1)]) = Some (10%nat, VNonExclCreate).
Proof. vm_compute. reflexivity. Qed.
Example C07_ex_bad_size :
  discipline_res 4096 (pre ++ [OpenExcl (Seg 1); Fallocate (Seg 1) 0 0 1024]) = Some (11%nat, VBadFallocate).
Proof. vm_compute. reflexivity. Qed.
Example C07_ex_meta_created_in_place :
  discipline_res 4096 [OpenCreat Meta] = Some (0%nat, VMetaNotRenamed).
Proof. vm_compute. reflexivity. Qed.
Example C07_ex_meta_renamed_while_open :
  discipline_res 4096 [OpenCreat MetaTmp; Pwrite MetaTmp 0 4096; Fdatasync MetaTmp; Rename MetaTmp Meta]
  = Some (3%nat, VMetaTmpNotSynced).
Proof. vm_compute. reflexivity. Qed.
Example C07_ex_meta_dir_not_synced :
  discipline_res 4096 [OpenCreat MetaTmp; Pwrite MetaTmp 0 4096; Fdatasync MetaTmp; Close MetaTmp;
                       Rename MetaTmp Meta; Mark MAck 3 0]
  = Some (5%nat, VMetaDirNotSynced).
Proof. vm_compute. reflexivity. Qed.
(* the background rotation's metadata commit may overlap the ACK of the
   StoreLogs that sealed the segment, but not the ACK of any other call *)
Example C07_ex_rotation_overlaps_store_ack :
  discipline_res 4096 (pre ++ [Mark MCall 1 1; Pwrite (Seg 0) 0 64; Fsync (Seg 0); FsyncDir;
                               Pwrite Meta 8192 4096; Mark MAck 1 1; Fdatasync Meta;
                               Mark MCall 5 2; Mark MAck 5 2]) = None.
Proof. vm_compute. reflexivity. Qed.
Example C07_ex_meta_not_synced :
  discipline_res 4096 (pre ++ [Mark MCall 2 1; Pwrite Meta 8192 4096; Mark MAck 2 1])
  = Some (12%nat, VMetaNotSynced).
Proof. vm_compute. reflexivity. Qed.
(* and the semantics really distinguishes: in the D1 trace the acked write is
   synced but the file's directory entry is not durable *)
Example C07_ex_d1_not_durable :
  let t1 := pre ++ [Mark MCall 1 1; Pwrite (Seg 0) 0 64; Fsync (Seg 0)] in
  f_synced (segs (drun t1 d0) 0) = [(0, 64)] /\ f_dur (segs (drun t1 d0) 0) = false.
Proof. vm_compute. auto. Qed.

(* ==== fault paths: one injected syscall failure (fsf lines) ==================== *)
(* [fs_xtrace seg ops f]: the trace -- failed syscalls and per-call results
   included -- the fs-layer model produces for the calls [ops] (any sequence,
   invalid calls included) when the fault [f] = Some (class, k) makes the
   (k+1)-th injectable syscall of that class fail.  [xdiscipline full]: the
   discipline over such traces; [full = false] leaves out the two directory
   clauses that the real code does not keep on fault paths (refuted below). *)

(* For ALL op sequences and ALL fault positions: a Delete reports nil only
   after a successful unlink of that name followed by a successful directory
   fsync; a Create only after a successful O_CREAT|O_EXCL open and a successful
   fallocate(0, 0, size) in the same call; a Sync only after a successful fsync
   of the file in the same call; a Load only when wal-meta.db exists and got
   its name by rename of a written, synced and closed tmp file. *)
Theorem C07_fault_core_ok : forall seg ops f, xdiscipline false seg (fs_xtrace seg ops f) = true.
Proof. exact fault_core_ok. Qed.
Print Assumptions C07_fault_core_ok.

(* The statement with the directory clauses,
     forall seg ops f, xdiscipline true seg (fs_xtrace seg ops f) = true
   (Sync nil => a successful directory fsync followed the creation of the file;
    Load nil => a successful directory fsync followed the rename)
   is FALSE of the faithful model: C07_fault_sync_entry_refuted,
   C07_fault_meta_dir_refuted.  What holds: it is true on every run in which no
   Sync / Load failed in its directory part (after its file fsync / rename) --
   every violation stems from such a failed call whose retry skips the
   directory fsync -- and in particular on every fault-free run. *)
Theorem C07_fault_full_ok_or_dir_failed : forall seg ops f,
  xdiscipline true seg (fs_xtrace seg ops f) = true \/ dir_part_failed (fs_run_f seg ops f) = true.
Proof. exact fault_full_ok_or_dir_failed. Qed.
Print Assumptions C07_fault_full_ok_or_dir_failed.

Theorem C07_fault_free_full_ok : forall seg ops, xdiscipline true seg (fs_xtrace seg ops None) = true.
Proof. exact fault_free_full_ok. Qed.
Print Assumptions C07_fault_free_full_ok.

(* fs/file.go sets `new` before syncDir has succeeded: Create; Write; Sync whose
   directory fsync fails (reported); the retried Sync reports nil although no
   successful directory fsync ever followed the creation of the file *)
Theorem C07_fault_sync_entry_refuted :
  exists seg ops f, xdiscipline_res true seg (fs_xtrace seg ops f) = Some (10%nat, XVSyncEntryPending).
Proof. exact sync_entry_refuted. Qed.
Print Assumptions C07_fault_sync_entry_refuted.

(* metadb.go: Load fails after the rename (directory open / fsync); the retry
   finds the file, opens it and reports nil: no directory fsync after the rename *)
Theorem C07_fault_meta_dir_refuted :
  exists seg ops f, xdiscipline_res true seg (fs_xtrace seg ops f) = Some (8%nat, XVMetaDirNotSynced).
Proof. exact meta_dir_refuted. Qed.
Print Assumptions C07_fault_meta_dir_refuted.

(* What acceptance means on the trace itself (any trace, not only the model's):
   a Delete that reports nil comes after a successful unlink of that name that
   was followed by a successful directory fsync, the name not created again *)
Theorem C07_fault_delete_ok_sound : forall full seg t1 s t2,
  xdiscipline full seg (t1 ++ XRet (FDelete s) true :: t2) = true -> last_unlink_dir_synced s t1.
Proof. exact delete_ok_sound. Qed.
Print Assumptions C07_fault_delete_ok_sound.

Theorem C07_fault_create_ok_sound : forall full seg t1 s t2,
  xdiscipline full seg (t1 ++ XRet (FCreate s) true :: t2) = true ->
  exists a b, t1 = a ++ b /\ no_ret b /\
              In (XOk (OpenExcl (Seg s))) b /\ In (XOk (Fallocate (Seg s) 0 0 seg)) b.
Proof. exact create_ok_sound. Qed.
Print Assumptions C07_fault_create_ok_sound.

Theorem C07_fault_sync_ok_sound : forall full seg t1 s t2,
  xdiscipline full seg (t1 ++ XRet (FSync s) true :: t2) = true ->
  exists a b, t1 = a ++ b /\ no_ret b /\ In (XOk (Fsync (Seg s))) b.
Proof. exact sync_ok_sound. Qed.
Print Assumptions C07_fault_sync_ok_sound.

(* ---- non-vacuity of the fault theorems ---------------------------------------- *)
(* Delete unlinks, cannot open the directory (EMFILE) and reports the error; the
   retry finds nothing to unlink and reports an error again -- never "done" *)
Example C07_ex_fault_delete_retry :
  fs_xtrace 1024 [FCreate 0; FClose 0; FDelete 0; FDelete 0] (Some (SOpenat, 1%nat)) =
  [XOk (OpenExcl (Seg 0)); XOk (Fallocate (Seg 0) 0 0 1024); XRet (FCreate 0) true;
   XOk (Close (Seg 0)); XRet (FClose 0) true;
   XOk (Unlink (Seg 0)); XOpenDir false; XRet (FDelete 0) false;
   XFail (Unlink (Seg 0)); XRet (FDelete 0) false].
Proof. vm_compute. reflexivity. Qed.
(* an implementation that reports the retry as done (seeded change C07-2) is rejected *)
Example C07_ex_fault_delete_idempotent_rejected :
  xdiscipline_res false 1024
    [XOk (OpenExcl (Seg 0)); XOk (Fallocate (Seg 0) 0 0 1024); XRet (FCreate 0) true;
     XOk (Close (Seg 0)); XRet (FClose 0) true;
     XOk (Unlink (Seg 0)); XOpenDir false; XRet (FDelete 0) false;
     XFail (Unlink (Seg 0)); XRet (FDelete 0) true] = Some (9%nat, XVDeleteNoDirFsync).
Proof. vm_compute. reflexivity. Qed.
Example C07_ex_fault_delete_missing_rejected :
  xdiscipline_res false 1024 [XFail (Unlink (Seg 3)); XRet (FDelete 3) true] = Some (1%nat, XVDeleteNoUnlink).
Proof. vm_compute. reflexivity. Qed.
(* the premise of C07_fault_delete_ok_sound is satisfiable: a later retry after
   the file was created again does report done, with its own directory fsync *)
Example C07_ex_fault_delete_ok :
  let t := fs_xtrace 1024 [FCreate 0; FDelete 0; FDelete 0; FCreate 0; FDelete 0] (Some (SFsync, 0%nat)) in
  nth_error t 17 = Some (XRet (FDelete 0) true) /\ xdiscipline true 1024 t = true.
Proof. vm_compute. auto. Qed.
(* Create that fails in the preallocation leaves the file behind; the retry
   fails with EEXIST; a Create reported done without the fallocate is rejected *)
Example C07_ex_fault_create_prealloc :
  fs_xtrace 1024 [FCreate 0; FCreate 0] (Some (SFallocate, 0%nat)) =
  [XOk (OpenExcl (Seg 0)); XFail (Fallocate (Seg 0) 0 0 1024); XOk (Close (Seg 0)); XRet (FCreate 0) false;
   XFail (OpenExcl (Seg 0)); XRet (FCreate 0) false].
Proof. vm_compute. reflexivity. Qed.
Example C07_ex_fault_create_rejected :
  xdiscipline_res false 1024 [XOk (OpenExcl (Seg 0)); XFail (Fallocate (Seg 0) 0 0 1024); XRet (FCreate 0) true]
  = Some (2%nat, XVCreateIncomplete).
Proof. vm_compute. reflexivity. Qed.
(* the run of C07_fault_sync_entry_refuted does contain the Sync that failed in
   its directory part, and its core discipline holds *)
Example C07_ex_fault_sync_dir_failed :
  dir_part_failed (fs_run_f 1024 ex_sync_ops ex_sync_fault) = true /\
  xdiscipline false 1024 (fs_xtrace 1024 ex_sync_ops ex_sync_fault) = true.
Proof. vm_compute. auto. Qed.
