(* C07 -- Real filesystem layer honours the durability contract the WAL assumes.
   Only statements here.  Fs/Discipline.v: the executable checker [discipline]
   (evaluated by the fstrace stream on syscall traces observed under strace)
   and the fs-layer trace model; Fs/DisciplineFacts.v: the disk semantics and
   proofs.  What is proved is a statement about syscall PATTERNS; that the
   kernel makes fsynced data and directory entries durable is the assumption
   built into the disk semantics [dstep]. *)
From RW Require Import Base.Bytes Fs.Discipline Fs.DisciplineFacts Fs.FaultDisciplineFacts.
Open Scope N_scope.

(* For ALL traces (fresh-directory workloads, any length, any interleaving of
   files): if the trace obeys the discipline then at every ACK marker every
   write a live segment file has received so far (hence every byte written for
   the acknowledged call) is in the synced content of a file that exists and
   whose directory entry is durable, no write is pending, every deletion is
   durable, and the metadata db is complete and durably named; it has no
   unsynced page at the ACK of any call except StoreLogs (op_store), whose
   return legitimately overlaps the background rotation's metadata commit. *)
Theorem C07_discipline_sound : forall seg t1 op n t2,
  discipline seg (t1 ++ Mark MAck op n :: t2) = true ->
  let d := drun t1 d0 in
  (forall s w, In w (live_writes t1 s) ->
     f_exists (segs d s) = true /\ In w (f_synced (segs d s)) /\
     f_pend (segs d s) = [] /\ f_dur (segs d s) = true) /\
  (forall s, f_dur (segs d s) = true -> f_exists (segs d s) = true) /\
  (op <> op_store -> m_pend d = false) /\
  (meta d <> None -> meta d = Some true /\ m_dur d = true).
Proof. exact discipline_sound. Qed.
Print Assumptions C07_discipline_sound.

(* at no point of a disciplined trace is the name wal-meta.db bound to a file
   that was unwritten, unsynced or still open when it received the name *)
Theorem C07_meta_appears_complete : forall seg t1 t2,
  discipline seg (t1 ++ t2) = true -> meta (drun t1 d0) <> Some false.
Proof. exact meta_appears_complete. Qed.
Print Assumptions C07_meta_appears_complete.

(* every trace the fs-layer model (fs.Create / OpenWriter / File.Sync with its
   first-Sync directory fsync / Delete / safeInitBoltDB / CommitState)
   generates for a caller that syncs what it wrote before it acknowledges
   obeys the discipline *)
Theorem C07_model_traces_ok : forall seg ops,
  wf_ops ops = true -> discipline seg (fs_trace seg ops) = true.
Proof. exact model_traces_ok. Qed.
Print Assumptions C07_model_traces_ok.

(* ---- non-vacuity ------------------------------------------------------------ *)
(* Open; first commit into the fresh segment; a second commit; deletion *)
Definition ex_ops : list fsop :=
  [FMark MCall 3 0; FMetaInit; FMetaCommit; FCreate 0; FMark MAck 3 0;
   FMark MCall 1 1; FWrite 0 0 128; FSync 0; FMark MAck 1 1;
   FMark MCall 1 2; FWrite 0 128 64; FSync 0; FMark MAck 1 2;
   FMark MCall 2 3; FMetaCommit; FClose 0; FDelete 0; FCreate 1; FMark MAck 2 3;
   (* close and reopen: a fresh handle fsyncs the directory again (3825d37) *)
   FClose 1; FOpenWriter 1; FMark MCall 1 4; FWrite 1 0 32; FSync 1; FMark MAck 1 4].
Example C07_ex_wf : wf_ops ex_ops = true.
Proof. vm_compute. reflexivity. Qed.
Example C07_ex_trace_ok : discipline_res 4096 (fs_trace 4096 ex_ops) = None.
Proof. vm_compute. reflexivity. Qed.
(* the ACK theorem is not vacuous: the trace has ACKs after writes, and the
   semantics puts the write in the synced content *)
Example C07_ex_synced :
  let t1 := firstn 17 (fs_trace 4096 ex_ops) in
  nth_error (fs_trace 4096 ex_ops) 17 = Some (Mark MAck 1 1) /\
  live_writes t1 0 = [(0, 128)] /\ f_synced (segs (drun t1 d0) 0) = [(0, 128)] /\
  f_dur (segs (drun t1 d0) 0) = true.
Proof. vm_compute. auto. Qed.

(* the discipline rejects each pattern the property forbids *)
Definition pre : list event :=
  [OpenCreat MetaTmp; Pwrite MetaTmp 0 4096; Fdatasync MetaTmp; Close MetaTmp;
   Rename MetaTmp Meta; FsyncDir; OpenCreat Meta; OpenExcl (Seg 0); Fallocate (Seg 0) 0 0 4096;
   Mark MAck 3 0].
(* D1 (3825d37): first commit without the directory fsync *)
Example C07_ex_missing_dir_fsync :
  discipline_res 4096 (pre ++ [Mark MCall 1 1; Pwrite (Seg 0) 0 64; Fsync (Seg 0); Mark MAck 1 1])
  = Some (13%nat, VMissingDirFsync).
Proof. vm_compute. reflexivity. Qed.
Example C07_ex_missing_file_fsync :
  discipline_res 4096 (pre ++ [Mark MCall 1 1; Pwrite (Seg 0) 0 64; FsyncDir; Mark MAck 1 1])
  = Some (13%nat, VMissingFileFsync).
Proof. vm_compute. reflexivity. Qed.
Example C07_ex_delete_without_dir_fsync :
  discipline_res 4096 (pre ++ [Mark MCall 2 1; Unlink (Seg 0); Mark MAck 2 1])
  = Some (12%nat, VDeleteNoDirFsync).
Proof. vm_compute. reflexivity. Qed.
Example C07_ex_non_exclusive :
  discipline_res 4096 (pre ++ [OpenCreat (Seg 1)]) = Some (10%nat, VNonExclCreate).
Proof. vm_compute. reflexivity. Qed.
Example C07_ex_bad_size :
  discipline_res 4096 (pre ++ [OpenExcl (Seg 1); Fallocate (Seg 1) 0 0 1024]) = Some (11%nat, VBadFallocate).
Proof. vm_compute. reflexivity. Qed.
Example C07_ex_meta_created_in_place :
  discipline_res 4096 [OpenCreat Meta] = Some (0%nat, VMetaNotRenamed).
Proof. vm_compute. reflexivity. Qed.
Example C07_ex_meta_renamed_while_open :
  discipline_res 4096 [OpenCreat MetaTmp; Pwrite MetaTmp 0 4096; Fdatasync MetaTmp; Rename MetaTmp Meta]
  = Some (3%nat, VMetaTmpNotSynced).
Proof. vm_compute. reflexivity. Qed.
Example C07_ex_meta_dir_not_synced :
  discipline_res 4096 [OpenCreat MetaTmp; Pwrite MetaTmp 0 4096; Fdatasync MetaTmp; Close MetaTmp;
                       Rename MetaTmp Meta; Mark MAck 3 0]
  = Some (5%nat, VMetaDirNotSynced).
Proof. vm_compute. reflexivity. Qed.
(* the background rotation's metadata commit may overlap the ACK of the
   StoreLogs that sealed the segment, but not the ACK of any other call *)
Example C07_ex_rotation_overlaps_store_ack :
  discipline_res 4096 (pre ++ [Mark MCall 1 1; Pwrite (Seg 0) 0 64; Fsync (Seg 0); FsyncDir;
                               Pwrite Meta 8192 4096; Mark MAck 1 1; Fdatasync Meta;
                               Mark MCall 5 2; Mark MAck 5 2]) = None.
Proof. vm_compute. reflexivity. Qed.
Example C07_ex_meta_not_synced :
  discipline_res 4096 (pre ++ [Mark MCall 2 1; Pwrite Meta 8192 4096; Mark MAck 2 1])
  = Some (12%nat, VMetaNotSynced).
Proof. vm_compute. reflexivity. Qed.
(* and the semantics really distinguishes: in the D1 trace the acked write is
   synced but the file's directory entry is not durable *)
Example C07_ex_d1_not_durable :
  let t1 := pre ++ [Mark MCall 1 1; Pwrite (Seg 0) 0 64; Fsync (Seg 0)] in
  f_synced (segs (drun t1 d0) 0) = [(0, 64)] /\ f_dur (segs (drun t1 d0) 0) = false.
Proof. vm_compute. auto. Qed.

(* ==== fault paths: one injected syscall failure (fsf lines) ==================== *)
(* [fs_xtrace seg ops f]: the trace -- failed syscalls and per-call results
   included -- the fs-layer model (fs/file.go as of b0161d2, metadb.go as of
   862e6cb) produces for the calls [ops] (any sequence, invalid calls included)
   when the fault [f] = Some (class, k) makes the (k+1)-th injectable syscall of
   that class fail.  [xdiscipline true]: the whole discipline over such traces;
   [xdiscipline false]: without the two directory clauses of Sync and Load. *)

(* For ALL op sequences and ALL fault positions: a Delete reports nil only
   after a successful unlink of that name followed by a successful directory
   fsync; a Create only after a successful O_CREAT|O_EXCL open and a successful
   fallocate(0, 0, size) in the same call; a Sync only after a successful fsync
   of the file in the same call and with a successful directory fsync since
   the file was created; a Load only when wal-meta.db exists, got its name by
   rename of a written, synced and closed tmp file, and a successful directory
   fsync followed the rename.  (Before b0161d2 / 862e6cb the two directory
   clauses were refuted on the model and on the code: a Sync / Load that failed
   in its directory part was retried without the directory fsync.) *)
Theorem C07_fault_full_ok : forall seg ops f, xdiscipline true seg (fs_xtrace seg ops f) = true.
Proof. exact fault_full_ok. Qed.
Print Assumptions C07_fault_full_ok.

Theorem C07_fault_core_ok : forall seg ops f, xdiscipline false seg (fs_xtrace seg ops f) = true.
Proof. exact fault_core_ok. Qed.
Print Assumptions C07_fault_core_ok.

(* What acceptance means on the trace itself (any trace, not only the model's):
   a Delete that reports nil comes after a successful unlink of that name that
   was followed by a successful directory fsync, the name not created again *)
Theorem C07_fault_delete_ok_sound : forall full seg t1 s t2,
  xdiscipline full seg (t1 ++ XRet (FDelete s) true :: t2) = true -> last_unlink_dir_synced s t1.
Proof. exact delete_ok_sound. Qed.
Print Assumptions C07_fault_delete_ok_sound.

Theorem C07_fault_create_ok_sound : forall full seg t1 s t2,
  xdiscipline full seg (t1 ++ XRet (FCreate s) true :: t2) = true ->
  exists a b, t1 = a ++ b /\ no_ret b /\
              In (XOk (OpenExcl (Seg s))) b /\ In (XOk (Fallocate (Seg s) 0 0 seg)) b.
Proof. exact create_ok_sound. Qed.
Print Assumptions C07_fault_create_ok_sound.

(* a Sync that reports nil fsynced the file in the same call, and every
   successful creation of that name was followed by a successful directory
   fsync (or by an unlink / a later creation of the name) *)
Theorem C07_fault_sync_ok_sound : forall full seg t1 s t2,
  xdiscipline full seg (t1 ++ XRet (FSync s) true :: t2) = true ->
  (exists a b, t1 = a ++ b /\ no_ret b /\ In (XOk (Fsync (Seg s))) b) /\
  (full = true -> entry_dir_synced s t1).
Proof. exact sync_ok_sound. Qed.
Print Assumptions C07_fault_sync_ok_sound.

(* a Load that reports nil comes after the rename of the tmp db onto
   wal-meta.db and a successful directory fsync after that rename *)
Theorem C07_fault_meta_ok_sound : forall full seg t1 t2,
  xdiscipline full seg (t1 ++ XRet FMetaInit true :: t2) = true ->
  exists a b, t1 = a ++ XOk (Rename MetaTmp Meta) :: b /\ (full = true -> In (XOk FsyncDir) b).
Proof. exact meta_ok_sound. Qed.
Print Assumptions C07_fault_meta_ok_sound.

(* ---- non-vacuity of the fault theorems ---------------------------------------- *)
(* Delete unlinks, cannot open the directory (EMFILE) and reports the error; the
   retry finds nothing to unlink and reports an error again -- never "done" *)
Example C07_ex_fault_delete_retry :
  fs_xtrace 1024 [FCreate 0; FClose 0; FDelete 0; FDelete 0] (Some (SOpenat, 1%nat)) =
  [XOk (OpenExcl (Seg 0)); XOk (Fallocate (Seg 0) 0 0 1024); XRet (FCreate 0) true;
   XOk (Close (Seg 0)); XRet (FClose 0) true;
   XOk (Unlink (Seg 0)); XOpenDir false; XRet (FDelete 0) false;
   XFail (Unlink (Seg 0)); XRet (FDelete 0) false].
Proof. vm_compute. reflexivity. Qed.
(* an implementation that reports the retry as done (seeded change C07-2) is rejected *)
Example C07_ex_fault_delete_idempotent_rejected :
  xdiscipline_res false 1024
    [XOk (OpenExcl (Seg 0)); XOk (Fallocate (Seg 0) 0 0 1024); XRet (FCreate 0) true;
     XOk (Close (Seg 0)); XRet (FClose 0) true;
     XOk (Unlink (Seg 0)); XOpenDir false; XRet (FDelete 0) false;
     XFail (Unlink (Seg 0)); XRet (FDelete 0) true] = Some (9%nat, XVDeleteNoDirFsync).
Proof. vm_compute. reflexivity. Qed.
Example C07_ex_fault_delete_missing_rejected :
  xdiscipline_res false 1024 [XFail (Unlink (Seg 3)); XRet (FDelete 3) true] = Some (1%nat, XVDeleteNoUnlink).
Proof. vm_compute. reflexivity. Qed.
(* the premise of C07_fault_delete_ok_sound is satisfiable: a later retry after
   the file was created again does report done, with its own directory fsync *)
Example C07_ex_fault_delete_ok :
  let t := fs_xtrace 1024 [FCreate 0; FDelete 0; FDelete 0; FCreate 0; FDelete 0] (Some (SFsync, 0%nat)) in
  nth_error t 17 = Some (XRet (FDelete 0) true) /\ xdiscipline true 1024 t = true.
Proof. vm_compute. auto. Qed.
(* Create that fails in the preallocation leaves the file behind; the retry
   fails with EEXIST; a Create reported done without the fallocate is rejected *)
Example C07_ex_fault_create_prealloc :
  fs_xtrace 1024 [FCreate 0; FCreate 0] (Some (SFallocate, 0%nat)) =
  [XOk (OpenExcl (Seg 0)); XFail (Fallocate (Seg 0) 0 0 1024); XOk (Close (Seg 0)); XRet (FCreate 0) false;
   XFail (OpenExcl (Seg 0)); XRet (FCreate 0) false].
Proof. vm_compute. reflexivity. Qed.
Example C07_ex_fault_create_rejected :
  xdiscipline_res false 1024 [XOk (OpenExcl (Seg 0)); XFail (Fallocate (Seg 0) 0 0 1024); XRet (FCreate 0) true]
  = Some (2%nat, XVCreateIncomplete).
Proof. vm_compute. reflexivity. Qed.
(* b0161d2: Create; Write; a Sync whose directory fsync fails (reported); the
   retried Sync fsyncs the directory again before it reports nil; the third
   Sync is the file fsync only *)
Example C07_ex_fault_sync_retry_syncs_dir :
  fs_xtrace 1024 [FCreate 0; FWrite 0 0 16; FSync 0; FSync 0; FSync 0] (Some (SFsync, 1%nat)) =
  [XOk (OpenExcl (Seg 0)); XOk (Fallocate (Seg 0) 0 0 1024); XRet (FCreate 0) true;
   XOk (Pwrite (Seg 0) 0 16); XRet (FWrite 0 0 16) true;
   XOk (Fsync (Seg 0)); XOpenDir true; XFail FsyncDir; XRet (FSync 0) false;
   XOk (Fsync (Seg 0)); XOpenDir true; XOk FsyncDir; XRet (FSync 0) true;
   XOk (Fsync (Seg 0)); XRet (FSync 0) true].
Proof. vm_compute. reflexivity. Qed.
(* what the code did before b0161d2 (retry = file fsync only, nil) is rejected *)
Example C07_ex_fault_sync_entry_pending_rejected :
  xdiscipline_res true 1024
    [XOk (OpenExcl (Seg 0)); XOk (Fallocate (Seg 0) 0 0 1024); XRet (FCreate 0) true;
     XOk (Pwrite (Seg 0) 0 16); XRet (FWrite 0 0 16) true;
     XOk (Fsync (Seg 0)); XOpenDir true; XFail FsyncDir; XRet (FSync 0) false;
     XOk (Fsync (Seg 0)); XRet (FSync 0) true] = Some (10%nat, XVSyncEntryPending).
Proof. vm_compute. reflexivity. Qed.
(* 862e6cb: a Load that cannot open the directory after the rename (EMFILE) is
   retried through the "file exists" branch, which fsyncs the directory first *)
Example C07_ex_fault_meta_retry_syncs_dir :
  fs_xtrace 1024 [FMetaInit; FMetaInit] (Some (SOpenat, 1%nat)) =
  [XOk (OpenCreat MetaTmp); XOk (Pwrite MetaTmp 0 0); XOk (Fdatasync MetaTmp); XOk (Close MetaTmp);
   XOk (Rename MetaTmp Meta); XOpenDir false; XRet FMetaInit false;
   XOpenDir true; XOk FsyncDir; XOk (OpenCreat Meta); XRet FMetaInit true].
Proof. vm_compute. reflexivity. Qed.
(* what the code did before 862e6cb (retry = open only, nil) is rejected *)
Example C07_ex_fault_meta_dir_not_synced_rejected :
  xdiscipline_res true 1024
    [XOk (OpenCreat MetaTmp); XOk (Pwrite MetaTmp 0 0); XOk (Fdatasync MetaTmp); XOk (Close MetaTmp);
     XOk (Rename MetaTmp Meta); XOpenDir false; XRet FMetaInit false;
     XOk (OpenCreat Meta); XRet FMetaInit true] = Some (8%nat, XVMetaDirNotSynced).
Proof. vm_compute. reflexivity. Qed.
