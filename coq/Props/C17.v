(* C17 -- Verifier detects every divergence inside a verified range.
   Only statements here; proofs live in Base/FnvFacts.v, Vfy/*Facts.v.

   The property as worded ("any entry differs in Index, Term, Type, Data or
   Extensions ... carries ErrChecksumMismatch, up to 64-bit hash collisions")
   would follow from C17_detect if the hashed byte stream determined the
   entries.  It does not: the stream has no length prefixes, so bytes can move
   across the Data/Extensions boundary without changing it.  That part is
   REFUTED on the faithful model (C17_stream_not_injective_refuted; open known
   finding data-ext-boundary-shift).  What IS proved:
     * the chained sum is FNV-1a from state 0 over an explicit stream;
     * detection, with the collision of the two *streams* as explicit disjunct;
     * every mutation that leaves Data or Extensions alone changes the stream;
     * equal-length streams differing in one byte NEVER collide (no caveat);
     * a divergence is never masked by what follows (suffix injectivity);
     * in-flight blame is sound.
   The bootstrap exception (index 1 + LogConfiguration hashes to 0 and restarts
   the chain) is the explicit hypothesis [no_bootstrap]. *)
From RW Require Import Base.Bytes Base.Fnv Base.FnvFacts Vfy.Checksum Vfy.ChecksumFacts
  Vfy.Spec Vfy.Store Vfy.VerifChan Vfy.Nodes Vfy.StoreFacts Vfy.NodesFacts.
Open Scope N_scope.

Theorem C17_chain_is_fnv_of_stream :
  forall es, chain 0 es = fnv_add 0 (chain_stream es).
Proof. exact chain_is_fnv_of_stream. Qed.
Print Assumptions C17_chain_is_fnv_of_stream.

Theorem C17_stream_of_range :
  forall es, no_bootstrap es -> chain_stream es = concat (map entry_stream es).
Proof. exact chain_stream_no_bootstrap. Qed.
Print Assumptions C17_stream_of_range.

(* multiplication by the odd FNV prime is invertible mod 2^64 and xor with a byte
   is an involution: each step is a bijection of uint64 *)
Theorem C17_fnv_step_bijective :
  forall b, b < two64 ->
    (forall h1 h2, h1 < two64 -> h2 < two64 -> fnv_step h1 b = fnv_step h2 b -> h1 = h2) /\
    (forall h', h' < two64 -> exists h, h < two64 /\ fnv_step h b = h').
Proof. exact fnv_step_bijective. Qed.
Print Assumptions C17_fnv_step_bijective.

Theorem C17_fnv_step_is_mul_mod :
  forall h b, fnv_step h b = (N.lxor h b * fnv_prime) mod two64.
Proof. exact fnv_step_mod. Qed.
Print Assumptions C17_fnv_step_is_mul_mod.

Theorem C17_fnv_suffix_injective :
  forall s, wf_bytes s ->
    forall h1 h2, h1 < two64 -> h2 < two64 -> h1 <> h2 -> fnv_add h1 s <> fnv_add h2 s.
Proof. exact fnv_suffix_injective. Qed.
Print Assumptions C17_fnv_suffix_injective.

Theorem C17_single_byte_flip_always_detected :
  forall h a b1 b2 c,
    h < two64 -> wf_byte b1 -> wf_byte b2 -> wf_bytes c -> b1 <> b2 ->
    fnv_add h (a ++ b1 :: c) <> fnv_add h (a ++ b2 :: c).
Proof. exact single_byte_flip_always_detected. Qed.
Print Assumptions C17_single_byte_flip_always_detected.

(* wrong Index / Term / Type, any change of Data alone (bit flips, truncation,
   extension), any change of Extensions alone: the hashed stream changes *)
Theorem C17_single_field_mutation_changes_stream :
  forall e e', hdr_ok e -> hdr_ok e' -> e <> e' ->
    (e_data e = e_data e' \/ e_ext e = e_ext e') ->
    entry_stream e <> entry_stream e'.
Proof. exact single_field_mutation_changes_stream. Qed.
Print Assumptions C17_single_field_mutation_changes_stream.

Theorem C17_range_mutation_changes_stream :
  forall pre e e' post,
    no_bootstrap (pre ++ e :: post) -> no_bootstrap (pre ++ e' :: post) ->
    entry_stream e <> entry_stream e' ->
    length (entry_stream e) = length (entry_stream e') \/ post = [] ->
    chain_stream (pre ++ e :: post) <> chain_stream (pre ++ e' :: post).
Proof. exact range_mutation_changes_stream. Qed.
Print Assumptions C17_range_mutation_changes_stream.

(* Detection.  r is the report of a checkpoint whose ExpectedSum the leader
   computed over L; sv is the node's store when the verifier reads the range; R
   is what it returns (altered in flight and written so, or altered at rest).
   Either the delivered verdict is ErrChecksumMismatch or the two byte streams
   collide under FNV-1a. *)
Theorem C17_detect :
  forall sv r L R,
    r_err r = ENone -> r_expected r = chain 0 L ->
    holds_range sv (r_start r) (r_end r) -> slice sv (r_start r) (r_end r) = R -> R <> L ->
    is_checksum_err (r_err (verify sv r)) = true \/
    fnv_add 0 (chain_stream R) = fnv_add 0 (chain_stream L).
Proof. exact detect. Qed.
Print Assumptions C17_detect.

(* ... and with no collision caveat when one entry differs in one byte of its
   stream (every bit flip of Index, Term, Type, Data or Extensions) *)
Theorem C17_detect_byte_flip :
  forall sv r pre e e' post x b1 b2 y,
    r_err r = ENone -> r_expected r = chain 0 (pre ++ e :: post) ->
    holds_range sv (r_start r) (r_end r) ->
    slice sv (r_start r) (r_end r) = pre ++ e' :: post ->
    no_bootstrap (pre ++ e :: post) -> no_bootstrap (pre ++ e' :: post) -> Forall wf_entry post ->
    entry_stream e = x ++ b1 :: y -> entry_stream e' = x ++ b2 :: y ->
    wf_byte b1 -> wf_byte b2 -> wf_bytes y -> b1 <> b2 ->
    is_checksum_err (r_err (verify sv r)) = true.
Proof. exact detect_byte_flip. Qed.
Print Assumptions C17_detect_byte_flip.

(* "in-flight corruption" is reported only if, when the checkpoint was stored
   (after any history), the node held the whole range and had written something
   other than what the leader checksummed *)
Theorem C17_blame_inflight_sound :
  forall cpf h k n b nd' rs r L sv,
    node_store cpf (node_at (run cpf (sys_init k) h) n) b = (SOk, nd', rs) -> In r rs ->
    r_expected r = chain 0 L ->
    r_err (verify sv r) = ECkInflight ->
    holds_range (n_shadow nd') (r_start r) (r_end r) /\
    slice (n_shadow nd') (r_start r) (r_end r) <> L /\
    r_written r = chain 0 (slice (n_shadow nd') (r_start r) (r_end r)).
Proof. exact blame_inflight_sound. Qed.
Print Assumptions C17_blame_inflight_sound.

(* NOT provable, kept visible:
     Theorem C17_stream_injective : forall e e', wf_entry e -> wf_entry e' ->
       e <> e' -> entry_stream e <> entry_stream e'.
   Refuted: {Data "ab", Ext "c"} and {Data "a", Ext "bc"} hash identically from
   every state (structural, not a 64-bit collision). *)
Definition ex_ab_c : entry :=
  {| e_index := 7; e_term := 3; e_type := 0; e_data := [97; 98]; e_ext := [99] |}.
Definition ex_a_bc : entry :=
  {| e_index := 7; e_term := 3; e_type := 0; e_data := [97]; e_ext := [98; 99] |}.

Theorem C17_stream_not_injective_refuted :
  ~ (forall e e', wf_entry e -> wf_entry e' -> e <> e' -> chain 0 [e] <> chain 0 [e']).
Proof.
  intros H. apply (H ex_ab_c ex_a_bc).
  - unfold wf_entry, ex_ab_c, wf_bytes, wf_byte, two64; cbn.
    repeat split; try reflexivity; repeat constructor.
  - unfold wf_entry, ex_a_bc, wf_bytes, wf_byte, two64; cbn.
    repeat split; try reflexivity; repeat constructor.
  - discriminate.
  - vm_compute. reflexivity.
Qed.
Print Assumptions C17_stream_not_injective_refuted.

Theorem C17_boundary_shift_same_checksum :
  forall s i t y d x r,
    checksum_log s {| e_index := i; e_term := t; e_type := y; e_data := d ++ x; e_ext := r |} =
    checksum_log s {| e_index := i; e_term := t; e_type := y; e_data := d; e_ext := x ++ r |}.
Proof. exact boundary_shift_same_checksum. Qed.
Print Assumptions C17_boundary_shift_same_checksum.

(* ---- non-vacuity ------------------------------------------------------------ *)
Definition ex_cpf (e : entry) : option bool :=
  Some (match e_data e with 192 :: _ => true | _ => false end).
Definition ex_e (i : N) (d : bytes) : entry :=
  {| e_index := i; e_term := 1; e_type := 0; e_data := d; e_ext := [] |}.

(* FNV-1a of "abc" from state 0 (cross-checked against the Go library by the
   vfy stream on every run) *)
Example C17_ex_fnv : fnv_add 0 [97; 98; 99] = 5171236289873516512.
Proof. vm_compute. reflexivity. Qed.

(* at rest: entry 2 returns with one bit of Data flipped -> storage corruption *)
Example C17_ex_at_rest :
  let st := run ex_cpf (sys_init 1)
              [HStore 0 [ex_e 1 [97]; ex_e 2 [98; 99]]; HTamper 0 2 (ex_e 2 [98; 98])] in
  match node_store ex_cpf (node_at st 0) [ex_e 3 [192]] with
  | (SOk, nd', [r]) =>
      r_expected r = chain 0 [ex_e 1 [97]; ex_e 2 [98; 99]] /\
      holds_range (n_store nd') (r_start r) (r_end r) /\
      slice (n_store nd') (r_start r) (r_end r) = [ex_e 1 [97]; ex_e 2 [98; 98]] /\
      r_err (verify (n_store nd') r) = ECkStorage
  | _ => False
  end.
Proof. vm_compute. repeat split; try reflexivity; try discriminate; try (intros C; discriminate C). Qed.

(* in flight: the follower is handed entry 2 with a different Term -> in-flight blame *)
Example C17_ex_in_flight :
  let st := run ex_cpf (sys_init 2)
              [HStore 0 [ex_e 1 [97]; ex_e 2 [98]]; HStore 0 [ex_e 3 [192]];
               HStore 1 [ex_e 1 [97];
                         {| e_index := 2; e_term := 2; e_type := 0; e_data := [98]; e_ext := [] |}]] in
  match get (n_store (node_at st 0)) 3 with
  | Some cp =>
      match node_store ex_cpf (node_at st 1) [cp] with
      | (SOk, nd', [r]) => r_err (verify (n_store nd') r) = ECkInflight
      | _ => False
      end
  | None => False
  end.
Proof. vm_compute. reflexivity. Qed.

(* the refuted case on the whole pipeline: boundary shift at rest, verdict "no error" *)
Example C17_ex_boundary_shift_undetected :
  let st := run ex_cpf (sys_init 1) [HStore 0 [ex_ab_c]; HTamper 0 7 ex_a_bc] in
  match node_store ex_cpf (node_at st 0)
          [{| e_index := 8; e_term := 3; e_type := 0; e_data := [192]; e_ext := [] |}] with
  | (SOk, nd', [r]) => slice (n_store nd') (r_start r) (r_end r) = [ex_a_bc] /\
                       r_expected r = chain 0 [ex_ab_c] /\
                       r_err (verify (n_store nd') r) = ENone
  | _ => False
  end.
Proof. vm_compute. repeat split; reflexivity. Qed.
