(* C11 -- Damaged files yield errors, never panics, hangs or silent shortening.

   ===== BEGIN segment-level block (L1: one segment file, any bytes) =====
   Proofs in Seg/ScanFacts.v, Seg/AllocFacts.v, Seg/ReaderFacts.v,
   Fmt/CodecFacts.v.  All statements quantify over EVERY byte string f. *)
From RW Require Import Base.Bytes Fmt.Frame Fmt.Codec Fmt.CodecFacts
     Seg.Writer Seg.Recover Seg.Reader Seg.Dump Seg.ScanFacts Seg.AllocFacts Seg.ReaderFacts Gen.Constants.
Open Scope N_scope.

(* readThroughSegment terminates by reading: each frame advances the offset by
   at least 8 bytes, so the fuel S (length f / 8) is never the reason the scan
   stops -- every larger fuel gives the same frame list *)
Theorem C11_scan_fuel_suffices :
  forall f fuel, (scan_fuel f <= fuel)%nat -> scan_from fuel f 32 = scan f.
Proof. exact scan_fuel_suffices. Qed.
Print Assumptions C11_scan_fuel_suffices.

Theorem C11_read_through_terminates :
  forall fuel f off fuel', len f < off + 8 * N.of_nat fuel -> (fuel <= fuel')%nat ->
    scan_from fuel' f off = scan_from fuel f off.
Proof. exact scan_from_fuel_enough. Qed.
Print Assumptions C11_read_through_terminates.

(* recoverTail's only data-dependent allocation is the CRC batch buffer, grown to
   c_off - c_crc_start bytes for the commit frames it walks back over: for EVERY
   commit frame of the scan that size is at most the file length, and the ReadAt
   filling the buffer returns exactly that many bytes (its error path is dead) *)
Theorem C11_recover_alloc_bound :
  forall f,
    Forall (fun c => c_off c - c_crc_start c <= len f /\
                     len (read_at f (c_crc_start c) (c_off c - c_crc_start c)) = c_off c - c_crc_start c)
           (ra_commits (rec_fold (scan f))).
Proof. exact recover_alloc_bound. Qed.
Print Assumptions C11_recover_alloc_bound.

(* recover_state is total by typing; it fails only on a header mismatch *)
Theorem C11_recover_total :
  forall info f, validate_file_header (scanned_header f) info = true ->
    exists w, recover_state info f = Some w.
Proof. exact recover_total. Qed.
Print Assumptions C11_recover_total.

(* readFrame: the second-read allocation is at most MaxEntrySize and happens
   only when 8 + len exceeds what the first (64 KiB) read returned *)
Theorem C11_read_frame_alloc_bound :
  forall f off,
    let buf := read_at f off min_buf_size in
    let alloc := snd (read_frame f off) in
    alloc <= MaxEntrySize /\ (alloc <> 0 -> len buf < 8 + alloc).
Proof. exact read_frame_alloc_bound. Qed.
Print Assumptions C11_read_frame_alloc_bound.

(* DumpSegment never fills a buffer of more than MaxEntrySize bytes *)
Theorem C11_dump_alloc_bound :
  forall f base after before,
    match dump_segment f base after before with
    | DumpOk es | DumpErr es => Forall (fun e : N * bytes => len (snd e) <= MaxEntrySize) es
    end.
Proof. exact dump_alloc_bound. Qed.
Print Assumptions C11_dump_alloc_bound.

(* DumpLogs (a total function of the directory content: it terminates on every
   input) hands the callback only entries of at most MaxEntrySize bytes, whatever
   the files contain and however they are named *)
Theorem C11_dump_logs_alloc_bound :
  forall badname files after before,
    match dump_logs badname files after before with
    | DumpOk es | DumpErr es => Forall (fun e : N * bytes => len (snd e) <= MaxEntrySize) es
    end.
Proof. exact dump_logs_alloc_bound. Qed.
Print Assumptions C11_dump_logs_alloc_bound.

(* Filer.Open of a sealed segment succeeds only on a file of >= 32 bytes whose
   first 64-bit word is the magic (bytes 4..7, incl. the version byte, zero)
   and whose header names this very segment: a short file, a damaged magic or
   version, or the header of a different segment are all refused *)
Theorem C11_open_detects_bad_sealed :
  forall info f, open_sealed info f = true ->
    32 <= len f /\ rd64 f = magic /\
    rd64 (skipn 8 f) = si_base info /\ rd64 (skipn 16 f) = si_id info /\ rd64 (skipn 24 f) = si_codec info.
Proof. exact open_detects_bad_sealed. Qed.
Print Assumptions C11_open_detects_bad_sealed.

(* every strict prefix of a valid entry encoding, and every valid encoding
   followed by at least one extra byte, decodes to an error *)
Theorem C11_decode_prefix_fails :
  forall l bs n, wf_log l -> encode_log l = Some bs -> (n < length bs)%nat ->
    decode_log (firstn n bs) = None.
Proof. exact decode_prefix_fails. Qed.
Print Assumptions C11_decode_prefix_fails.

Theorem C11_decode_trailing_fails :
  forall l bs extra, wf_log l -> encode_log l = Some bs -> extra <> [] ->
    decode_log (bs ++ extra) = None.
Proof. exact decode_trailing_fails. Qed.
Print Assumptions C11_decode_trailing_fails.

(* non-vacuity: a file whose first frame claims 2^32-1 payload bytes is scanned
   in one step, allocates nothing on read, and reads as corrupt *)
Definition ex_evil : bytes := zeros 32 ++ [1; 0; 0; 0; 255; 255; 255; 255] ++ zeros 8.
Example C11_ex_scan : length (scan ex_evil) = 1%nat.
Proof. vm_compute. reflexivity. Qed.
Example C11_ex_read : read_frame ex_evil 32 = (RCorrupt, 0).
Proof. vm_compute. reflexivity. Qed.
(* ===== END segment-level block ===== *)

(* ===== BEGIN WAL-level block ===== *)
From RW Require Import Wal.Model Wal.CodecIdFacts.

(* When a segment that the metadata lists as sealed is missing, or holds no committed
   header (truncated below it / zeroed), Open fails instead of presenting a log with
   silently missing entries.  (A header of a DIFFERENT segment is the byte-level clause
   C11_open_detects_bad_sealed above.) *)
Theorem C11_open_refuses_bad_sealed_segment :
  forall c e ps, dk_inited (e_disk e) = true -> dk_meta (e_disk e) = Some ps ->
    (exists s, In s (ps_segs ps) /\ si_sealed s = true /\
               match lookup (name_of s) (dk_files (e_disk e)) with
               | None => True
               | Some f => cur_end f = 0
               end) ->
    exists r e', open_wal c e = (OErr r, e').
Proof. exact bad_sealed_segment_refused. Qed.
Print Assumptions C11_open_refuses_bad_sealed_segment.

(* Not expressible in the model (observed on the implementation only, stream `openfail`):
   "a failed Open leaves nothing locked or open" - BoltDB's file lock and OS handles;
   "never hang" and the allocation bound for the real Go code are measured under a
   watchdog (streams corrupt, openfail); decoding damaged bytes: C11_decode_prefix_fails,
   C11_decode_trailing_fails above plus totality of decode_log by typing, with the model
   tied to BinaryCodec.Decode (incl. the absence of panics) by the malformed half of the
   `codec` stream. *)
(* ===== END WAL-level block ===== *)
