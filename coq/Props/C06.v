(* C06 -- Concurrent reads are linearizable against the single writer.
   Only statements here; model: Conc/Close.v (+ Conc/Readers.v for the C06 notions).

   Proved for every program list and every schedule:
     C06_visible_only_durable  (durability chain of every file; a reader reads below the synced prefix)
     C06_no_conflict_partial   (model-level: a pending WriteAt and a concurrent read of the same
                                file never touch the same entry; PARTIAL by nature: a Rocq model
                                has no Go memory model -- the race detector runs on the harness)
   NOT proved (statements: Readers.reads_linearizable_statement,
   Readers.stable_entry_intact_statement); evidence is the sched06 stream: the model and
   the implementation agree on every forced schedule, every read of every forced and
   free-running history is checked by the Go history checker (the mirror of
   Readers.lin_check), and `Readers.lin_check` evaluates to true on the Examples below:
     C06_reads_linearizable, C06_stable_entry_intact.
   What is missing for them: the refcount/finalizer/ownership invariant (a validated
   holder of state x keeps the finalizers of all states >= x from running) and the
   argument that a value read through a retired state object was current at the
   time the commitIdx it depends on was published. *)
From Coq Require Import List Arith Bool.
From RW Require Import Conc.Sys Conc.Close Conc.CloseSafe Conc.CloseThm Conc.Readers.
Import ListNotations.

Theorem C06_visible_only_durable : forall progs extra s,
  reach progs extra s -> crashed s = false ->
  (forall h, h_cnt (geth (sh s) h) <= h_syn (geth (sh s) h) /\
             h_syn (geth (sh s) h) <= h_wr (geth (sh s) h) /\
             h_wr (geth (sh s) h) <= length (h_ents (geth (sh s) h))) /\
  (forall t th x h i, nth_error (ths s) t = Some th -> t_pc th = PGetRead x h -> cur_op th = Some (OGet i) ->
     h_base (geth (sh s) h) <= i /\ i - h_base (geth (sh s) h) < h_syn (geth (sh s) h)).
Proof. exact visible_only_durable. Qed.
Print Assumptions C06_visible_only_durable.

Theorem C06_no_conflict_partial : forall progs extra s,
  reach progs extra s -> crashed s = false ->
  forall t u th thu x y h i,
    nth_error (ths s) t = Some th -> t_pc th = PApp1 x ->
    nth_error (ths s) u = Some thu -> t_pc thu = PGetRead y h -> cur_op thu = Some (OGet i) ->
    h = tail_of (getst (sh s) x) ->
    i - h_base (geth (sh s) h) < h_wr (geth (sh s) h).
Proof. exact no_conflict_file. Qed.
Print Assumptions C06_no_conflict_partial.

(* ---- Examples: the per-read checker on concrete schedules ---------------------------- *)
(* writer: append 1,2 (tag 1), tail truncation to 1, re-append 2,3 with tag 7, head truncation;
   reader 1 sees entry 2 with tag 1 before and tag 7 after the re-append *)
Definition ex_w : list op := [OStore false 1 2; OTrunc 1; OStore false 7 2; ODelete 1].
Definition ex_cfg : list (list op) := [ex_w; [OGet 2; OLast; OGet 2]; [OFirst; OGet 1; OGet 3]].
Fixpoint rr (n : nat) : list tid := match n with O => [] | S k => [1; 0; 2; 0; 3; 0] ++ rr k end.
Example C06_ex_lin : lin_check (init ex_cfg []) (rr 40) = true.
Proof. vm_compute. reflexivity. Qed.
Example C06_ex_reads :
  let s := run step (init ex_cfg []) (rr 40) in
  map t_outs (firstn 3 (ths s)) =
  [[Ok 0; Ok 0; Ok 0; Ok 0]; [Ok 1; Ok 1; Ok 7]; [Ok 1; Ok 1; Ok 7]] /\ crashed s = false.
Proof. vm_compute. split; reflexivity. Qed.
