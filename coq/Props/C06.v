(* C06 -- Concurrent reads are linearizable against the single writer.
   Only statements here; model: Conc/Close.v (+ Conc/Readers.v for the C06 notions).

   Proved for every program list and every schedule:
     C06_visible_only_durable  (durability chain of every file; a reader reads below the synced prefix)
     C06_no_conflict_partial   (model-level: a pending WriteAt and a concurrent read of the same
                                file never touch the same entry; PARTIAL by nature: a Rocq model
                                has no Go memory model -- the race detector runs on the harness)
   Proved for every program list with a single writer thread (any number of readers, Close
   callers, stable-store callers) and every schedule:
     C06_stable_entry_intact   no read ever goes through a closed or deleted file: IOErr is never
                               recorded (from the handle-ownership invariant CloseInv2.Inv2)
     C06_reads_linearizable    every completed FirstIndex / LastIndex / GetLog: its result is the
                               result the abstract log (the current version) gives in some state
                               between the read's invocation (the step that loads the closed
                               flag) and its return; a read overlapping Close may instead return
                               ErrClosed once Close has set the closed flag.
   Proof of the latter (Conc/Read*.v): the structural invariant ReadInv.Inv3 of the version
   sequence (handle ids grow with the versions, the tail has the largest base, a version that
   keeps its predecessor's tail keeps a suffix of its file list and does not lower the first
   index, first index <= base + commitIdx of the tail); `view g x o` = what a reader holding
   version x computes; ReadStable.view_step: a step changes the view through x only when the
   writer stores commitIdx of a tail that x shares with the current version, and then the
   new view equals the view through the current version (ReadView.commit_view); file
   contents are append-only below the committed prefix (ReadFrame.ents_step); hence every
   in-flight read carries a justification that survives every step (ReadLin.claim_other /
   claim_own), and an induction along the schedule (ReadLin2.events_lin) discharges every
   event of Readers.events.
   The statement was corrected in this round: with the former clause `spec_read = ErrClosed`
   a read that starts after Close set the flag and before Close swapped the state object
   had no linearization point (Example C06_ex_close_window).
   Not in the model: base-index resets (implementation-only cases of the sched06 stream). *)
From Coq Require Import List Arith Bool.
From RW Require Import Conc.Sys Conc.Close Conc.CloseSafe Conc.CloseReach Conc.CloseThm Conc.CloseThm2 Conc.Readers Conc.ReadLin2.
Import ListNotations.

Theorem C06_visible_only_durable : forall progs extra s,
  reach progs extra s -> crashed s = false ->
  (forall h, h_cnt (geth (sh s) h) <= h_syn (geth (sh s) h) /\
             h_syn (geth (sh s) h) <= h_wr (geth (sh s) h) /\
             h_wr (geth (sh s) h) <= length (h_ents (geth (sh s) h))) /\
  (forall t th x h i, nth_error (ths s) t = Some th -> t_pc th = PGetRead x h -> cur_op th = Some (OGet i) ->
     h_base (geth (sh s) h) <= i /\ i - h_base (geth (sh s) h) < h_syn (geth (sh s) h)).
Proof. exact visible_only_durable. Qed.
Print Assumptions C06_visible_only_durable.

Theorem C06_no_conflict_partial : forall progs extra s,
  reach progs extra s -> crashed s = false ->
  forall t u th thu x y h i,
    nth_error (ths s) t = Some th -> t_pc th = PApp1 x ->
    nth_error (ths s) u = Some thu -> t_pc thu = PGetRead y h -> cur_op thu = Some (OGet i) ->
    h = tail_of (getst (sh s) x) ->
    i - h_base (geth (sh s) h) < h_wr (geth (sh s) h).
Proof. exact no_conflict_file. Qed.
Print Assumptions C06_no_conflict_partial.

Theorem C06_stable_entry_intact : forall w progs extra sch t th,
  single_writer w progs extra ->
  nth_error (ths (run step (init progs extra) sch)) t = Some th -> ~ In IOErr (t_outs th).
Proof. exact stable_entry_intact. Qed.
Print Assumptions C06_stable_entry_intact.

Theorem C06_reads_linearizable : forall w progs extra sch e,
  single_writer w progs extra ->
  In e (events (init progs extra) sch) -> lin_read (states_along (init progs extra) sch) e.
Proof. exact reads_linearizable. Qed.
Print Assumptions C06_reads_linearizable.

(* the statements as formulated in Conc/Readers.v *)
Theorem C06_statements : reads_linearizable_statement /\ stable_entry_intact_statement.
Proof. exact readers_statements. Qed.
Print Assumptions C06_statements.

(* ---- Examples: the per-read checker on concrete schedules ---------------------------- *)
(* writer: append 1,2 (tag 1), tail truncation to 1, re-append 2,3 with tag 7, head truncation;
   reader 1 sees entry 2 with tag 1 before and tag 7 after the re-append *)
Definition ex_w : list op := [OStore false 1 2; OTrunc 1; OStore false 7 2; ODelete 1].
Definition ex_cfg : list (list op) := [ex_w; [OGet 2; OLast; OGet 2]; [OFirst; OGet 1; OGet 3]].
Fixpoint rr (n : nat) : list tid := match n with O => [] | S k => [1; 0; 2; 0; 3; 0] ++ rr k end.
Example C06_ex_lin : lin_check (init ex_cfg []) (rr 40) = true.
Proof. vm_compute. reflexivity. Qed.
(* the schedule above contains six completed reads (non-vacuity of C06_reads_linearizable) *)
Example C06_ex_events :
  map (fun e => (r_tid e, r_op e, r_res e)) (events (init ex_cfg []) (rr 40)) =
  [(2, OFirst, Ok 1); (1, OGet 2, Ok 1); (1, OLast, Ok 1); (2, OGet 1, Ok 1); (1, OGet 2, Ok 7); (2, OGet 3, Ok 7)].
Proof. vm_compute. reflexivity. Qed.
Example C06_ex_reads :
  let s := run step (init ex_cfg []) (rr 40) in
  map t_outs (firstn 3 (ths s)) =
  [[Ok 0; Ok 0; Ok 0; Ok 0]; [Ok 1; Ok 1; Ok 7]; [Ok 1; Ok 1; Ok 7]] /\ crashed s = false.
Proof. vm_compute. split; reflexivity. Qed.

(* a read that starts after Close set the flag and before Close swapped the state object
   returns ErrClosed although the current state object is still the open one *)
Example C06_ex_close_window :
  let s1 := run step (init [[OFirst]; [OClose]] []) [1] in
  let s2 := run step s1 [0] in
  g_closed (sh s1) = true /\ spec_read (sh s1) OFirst = Some (Ok 0) /\
  map t_outs (firstn 1 (ths s2)) = [[ErrClosed]] /\
  lin_check (init [[OFirst]; [OClose]] []) [1; 0] = true.
Proof. vm_compute. repeat split; reflexivity. Qed.

From RW Require Gen.Source Conc.HookTie.

(* translator tie: the schedule points that cut the code into the model's atomic steps are
   the verifPoint call sites of /repo's current source (regenerated into Gen/Source.v on
   every run), each in the function the model attributes it to *)
Theorem C06_schedule_points_tie :
  RW.Gen.Source.hook_points =
  List.map (fun p => (RW.Conc.HookTie.s2n (fst p), RW.Conc.HookTie.s2n (snd p))) RW.Conc.HookTie.model_points.
Proof. exact RW.Conc.HookTie.hook_points_tie. Qed.
Print Assumptions C06_schedule_points_tie.
