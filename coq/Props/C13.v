(* C13 -- Disk space is reclaimed and segment identities are never reused.
   INTERIM file: the full statement is `crash_refinement_stmt` of Wal/Hist.v
   (all histories of calls, power losses at any I/O boundary with any adversary
   choice, nested crashes inside recovery, reopen cycles; see its comment for how
   it covers C13).  Its proof is in progress; until it lands only the fragments
   below are proved and the property is otherwise carried by the executable
   acceptance predicate `hist_run`/`hs_ok` (evaluated on random histories of
   the model on every run) and by the crash-image enumeration on the
   implementation (stream `crash`). *)
From RW Require Import Base.Bytes Fmt.Codec Fmt.Frame Wal.Model Wal.Spec Wal.Hist Wal.BasicFacts.
Open Scope N_scope.

(* the full statement (not yet a theorem) *)
Definition C13_full_statement : Prop := crash_refinement_stmt.

(* proved fragment: after the first Open the directory holds exactly the listed tail
   segment; a file that never became durable and is not kept by the adversary is gone
   after a power loss *)
Theorem C13_first_open_dir_exact_partial :
  forall c, cfg_ok c ->
  exists w e, open_wal c fresh_env = (OOk w, e) /\ abs w (e_disk e) = sl_empty /\
              dir_exact (e_disk e) = true /\ dk_stable (e_disk e) = [] /\
              first_index (st_segs w) (st_tail w) = 0 /\ last_index (st_segs w) (st_tail w) = 0.
Proof. exact first_open. Qed.
Print Assumptions C13_first_open_dir_exact_partial.

Theorem C13_nondurable_file_dropped_partial :
  forall c n f, df_dir f = false -> mem_name n (cc_keep_file c) = false -> crash_file c (n, f) = [].
Proof. exact crash_file_nondurable_dropped. Qed.
Print Assumptions C13_nondurable_file_dropped_partial.
