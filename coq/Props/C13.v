(* C13 -- Disk space is reclaimed and segment identities are never reused.
   Only statements here; proofs in Wal/Crash*.v and Wal/LiveDirFacts.v.  Histories,
   guards and the crash adversary are described in Props/C01.v.  Every crash point is
   covered BY PROOF.
   Clause 1 (running WAL): C13_live_dir_exact -- after EVERY call that returns (and after
   every Open) the directory holds exactly the files of the listed segments, with no side
   condition; C13_delete_reclaims -- the literal form for a DeleteRange that returns nil.
   Clause 2 (after Open, incl. interrupted truncations/rotations): C13_dir_exact_after_open,
   C13_dir_exact_after_reopen.  Clause 3 (ids): C13_no_create_collision, C13_ids_below_next.
   Scope of the model (sequential histories):
   - files are deleted when the call that drops them returns (in the code: when the
     reference DeleteRange/StoreLogs itself holds on the replaced state is released, before
     the call returns); deletion delayed by READERS that still hold an older state is not
     part of this model ("in-flight reads have finished" is built in);
   - the background rotation runs as one step at the start of the next mutating call
     ([settle]): a state with a rotation pending is an Up state (exact: the sealed tail is
     still the listed tail); while the goroutine is actually in flight the new tail is
     listed before its file exists -- that window is covered by the crash theorems, not by
     the live one;
   - a failed Delete is only logged by the code (files stay until the next Open); histories
     here have no I/O faults. *)
From RW Require Import Base.Bytes Fmt.Codec Fmt.Frame Wal.Model Wal.Spec Wal.Hist
  Wal.CrashInv Wal.CrashCalls10 Wal.CrashThm Wal.CrashExamples Wal.CrashExamplesFacts
  Wal.LiveDir Wal.LiveDirFacts.
Open Scope N_scope.

Theorem C13_crash_refinement : crash_refinement_stmt.
Proof. exact crash_refinement. Qed.
Print Assumptions C13_crash_refinement.

(* After Open on any crash image (crashes interrupting truncations, rotations, appends or
   earlier recoveries, any adversary choice) the directory holds exactly the files of the
   segments listed in the metadata: [dir_exact]; and no action of that Open failed. *)
Theorem C13_dir_exact_after_open :
  forall c steps d,
    (cfg_ok c /\ Forall hstep_wf steps /\ short_enough steps) ->
    hs_mode (hist_run c hist_init steps) = Down d ->
    exists w e, open_wal c (env_of d) = (OOk w, e) /\
      ({| sp_log := abs w (e_disk e); sp_kv := dk_stable (e_disk e) |} = hs_acked (hist_run c hist_init steps) \/
       {| sp_log := abs w (e_disk e); sp_kv := dk_stable (e_disk e) |} = hs_may (hist_run c hist_init steps)) /\
      dir_exact (e_disk e) = true /\ Forall not_fail (e_acts e).
Proof. exact recovery_after_any_history. Qed.
Print Assumptions C13_dir_exact_after_open.

(* the same for Close followed by Open without a crash *)
Theorem C13_dir_exact_after_reopen :
  forall c steps s,
    (cfg_ok c /\ Forall hstep_wf (steps ++ [HOp OReopen]) /\ short_enough (steps ++ [HOp OReopen])) ->
    hs_mode (hist_run c hist_init steps) = Up s ->
    fst (step_model c s OReopen) = ROk /\
    dir_exact (e_disk (ss_env (snd (step_model c s OReopen)))) = true.
Proof. exact reopen_dir_exact. Qed.
Print Assumptions C13_dir_exact_after_reopen.

(* RUNNING WAL: in every Up state of every history -- after every StoreLogs (also one that
   sealed the tail and left the rotation pending, or reset the empty first segment),
   DeleteRange, stable-store call, read, Close+Open and every recovery -- the directory
   holds exactly the files of the segments listed in the metadata.  No side condition. *)
Theorem C13_live_dir_exact :
  forall c steps s,
    (cfg_ok c /\ Forall hstep_wf steps /\ short_enough steps) ->
    hs_mode (hist_run c hist_init steps) = Up s ->
    dir_exact (e_disk (ss_env s)) = true.
Proof. exact live_dir_exact. Qed.
Print Assumptions C13_live_dir_exact.

(* The property text literally: DeleteRange(mn, mx) returns nil in a running WAL (after any
   history).  s0 is the state it works on (a pending rotation is awaited first).  Then
   (1) no segment listed in s0 that lies wholly inside [mn, mx] (seg_inside: mn <= min and
       last index <= mx, non-empty) has a file any more,
   (2) every remaining file is the file of a listed segment,
   (3) every listed segment has its file. *)
Theorem C13_delete_reclaims :
  forall c steps s mn mx,
    (cfg_ok c /\ Forall hstep_wf (steps ++ [HOp (ODelete mn mx)]) /\ short_enough (steps ++ [HOp (ODelete mn mx)])) ->
    hs_mode (hist_run c hist_init steps) = Up s ->
    fst (step_model c s (ODelete mn mx)) = ROk ->
    let s0 := settle c s in
    let s' := snd (step_model c s (ODelete mn mx)) in
    (forall x, In x (st_segs (ss_wal s0)) ->
       seg_inside mn mx (tail_last (st_tail (ss_wal s0))) x = true ->
       lookup (name_of x) (dk_files (e_disk (ss_env s'))) = None) /\
    (forall n f, lookup n (dk_files (e_disk (ss_env s'))) = Some f -> listed (st_segs (ss_wal s')) n = true) /\
    (forall x, In x (st_segs (ss_wal s')) -> lookup (name_of x) (dk_files (e_disk (ss_env s'))) <> None).
Proof. exact delete_reclaims. Qed.
Print Assumptions C13_delete_reclaims.

(* In every history no I/O action ever fails; in particular `AFail (ACreate ..)`, the
   record of a Create that found the file name taken (O_EXCL), never occurs: creating a
   segment never collides with an existing file.  The trace [e_acts] holds all actions
   since the last Open, including that Open's; the statement holds after EVERY history,
   hence for every call and every recovery of every history (the disk of an interrupted
   call is built from a prefix of the same action list). *)
Theorem C13_no_create_collision :
  forall c steps s,
    (cfg_ok c /\ Forall hstep_wf steps /\ short_enough steps) ->
    hs_mode (hist_run c hist_init steps) = Up s ->
    let a := hs_acked (hist_run c hist_init steps) in
    hs_may (hist_run c hist_init steps) = a /\
    {| sp_log := abs (ss_wal s) (e_disk (ss_env s)); sp_kv := dk_stable (e_disk (ss_env s)) |} = a /\
    (forall i, fst (get_log (ss_wal s) i (ss_env s)) =
               match spec_get (sp_log a) i with Some l => RLog l | None => RErrNotFound end) /\
    first_index_op (ss_wal s) = RVal (spec_first (sp_log a)) /\
    last_index_op (ss_wal s) = RVal (spec_last (sp_log a)) /\
    (forall k, fst (get_stable (ss_wal s) k (ss_env s)) = RBytes (kv_get k (sp_kv a))) /\
    Forall not_fail (e_acts (ss_env s)).
Proof. exact live_state_is_ledger. Qed.
Print Assumptions C13_no_create_collision.

(* On every reachable disk -- running or crashed, at the end of any history -- every file
   has an id below the NextSegmentID of the committed metadata: ids are committed before
   files are created, so a new segment (id = NextSegmentID) shares neither id nor file
   name with any file that exists or existed since. *)
Theorem C13_ids_below_next :
  forall c steps ps n f,
    (cfg_ok c /\ Forall hstep_wf steps /\ short_enough steps) ->
    dk_meta (disk_of (hist_run c hist_init steps)) = Some ps ->
    lookup n (dk_files (disk_of (hist_run c hist_init steps))) = Some f -> snd n < ps_next_id ps.
Proof. exact ids_below_next. Qed.
Print Assumptions C13_ids_below_next.

(* ---- non-vacuity --------------------------------------------------------------------
   G: head truncation interrupted after its metadata commit: the old segment's file
      ((1,0)) is still in the directory of the crash image although only segment 3 is
      listed; Open removes it (hs_ok includes dir_exact).
   E: tail truncation interrupted after its commit: the new tail (base 3, id 1) is listed
      but has no file; Open creates it; NextSegmentID (2) is above every file id. *)
Example C13_ex_guards : hist_ok cfg128 hist_head_trunc /\ hist_ok cfg256 hist_trunc_after_commit.
Proof. exact (conj hist_head_trunc_ok hist_trunc_after_commit_ok). Qed.
Example C13_ex_garbage_removed :
  final_ok cfg128 hist_head_trunc = true /\
  crash_shape cfg128 (firstn 5 hist_head_trunc) = ([(3, false)], [((1, 0), true); ((3, 1), false)]) /\
  dir_exact (disk_of (hist_run cfg128 hist_init (firstn 6 hist_head_trunc))) = true /\
  map fst (dk_files (disk_of (hist_run cfg128 hist_init (firstn 6 hist_head_trunc)))) = [(3, 1)].
Proof. vm_compute. repeat split; reflexivity. Qed.
Example C13_ex_fresh_ids :
  final_ok cfg256 hist_trunc_after_commit = true /\
  map fst (dk_files (disk_of (hist_run cfg256 hist_init hist_trunc_after_commit))) = [(1, 0); (3, 1)] /\
  option_map ps_next_id (dk_meta (disk_of (hist_run cfg256 hist_init hist_trunc_after_commit))) = Some 2.
Proof. vm_compute. repeat split; reflexivity. Qed.

(* L: running WAL, segment size 128 (two entries per segment).  Seven appends:
      files (1,0) (3,1) (5,2) (7,3); DeleteRange(0,5): (1,0) = [1,2] and (3,1) = [3,4] lie
      wholly inside and are gone, (5,2) keeps entry 6; DeleteRange(7,9): the tail (7,3) = [7]
      lies wholly inside and is gone, the new tail is (7,4) (fresh id).  After the second
      append the tail is sealed and the rotation is pending: still exact. *)
Example C13_ex_live_guards : hist_ok cfg128 hist_live_trunc.
Proof. exact hist_live_trunc_ok. Qed.
Example C13_ex_live_head_trunc :
  live_files cfg128 hist_live_stores = [(1, 0); (3, 1); (5, 2); (7, 3)] /\
  live_inside cfg128 hist_live_stores 0 5 = [((1, 0), true); ((3, 1), true); ((5, 2), false); ((7, 3), false)] /\
  live_files cfg128 hist_live_head = [(5, 2); (7, 3)] /\
  live_segs cfg128 hist_live_head = [((5, 2), 6, 6, true); ((7, 3), 7, 0, false)].
Proof. vm_compute. repeat split; reflexivity. Qed.
Example C13_ex_live_tail_trunc :
  live_inside cfg128 hist_live_head 7 9 = [((5, 2), false); ((7, 3), true)] /\
  live_files cfg128 hist_live_trunc = [(5, 2); (7, 4)] /\
  live_segs cfg128 hist_live_trunc = [((5, 2), 6, 6, true); ((7, 4), 7, 0, false)] /\
  final_ok cfg128 hist_live_trunc = true.
Proof. vm_compute. repeat split; reflexivity. Qed.
Example C13_ex_live_rotation_pending :
  live_rotation_pending cfg128 (firstn 3 hist_live_stores) = true /\
  live_files cfg128 (firstn 3 hist_live_stores) = [(1, 0)] /\
  live_dir_ok (hist_run cfg128 hist_init (firstn 3 hist_live_stores)) = true.
Proof. vm_compute. repeat split; reflexivity. Qed.
