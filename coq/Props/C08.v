(* C08 -- StableStore is a durable map, isolated from the log.
   The full statements are `seq_refinement_stmt` (Get returns the value of the
   latest successful Set across any interleaving with log operations and clean
   reopens) -- PROVED, see the sequential part at the end of this file -- and
   `crash_refinement_stmt` (across crashes) of Wal/Hist.v -- PROVED as well, see
   C08_crash_refines at the end.  bbolt's own atomicity/durability is trusted. *)
From RW Require Import Base.Bytes Base.BytesFacts Fmt.Codec Fmt.Frame Wal.Model Wal.Spec Wal.Hist Wal.BasicFacts
  Wal.SeqFactsMain Wal.SeqFactsStable.
Open Scope N_scope.

Definition C08_full_statement : Prop := seq_refinement_stmt /\ crash_refinement_stmt.

(* proved fragments: the key/value map *)
Theorem C08_kv_get_after_set :
  forall k v m, kv_keys_unique m -> kv_get k (kv_set k v m) = v.
Proof. exact kv_get_set_same. Qed.
Print Assumptions C08_kv_get_after_set.

Theorem C08_kv_set_leaves_other_keys :
  forall k k2 v m, beq_bytes k2 k = false -> kv_get k2 (kv_set k v m) = kv_get k2 m.
Proof. exact kv_get_set_other. Qed.
Print Assumptions C08_kv_set_leaves_other_keys.

(* SetUint64 / GetUint64: little endian round trip *)
Theorem C08_le64_roundtrip : forall v, v < 18446744073709551616 -> rd64 (le64 v) = v.
Proof. exact rd64_le64. Qed.
Print Assumptions C08_le64_roundtrip.

(* a power loss never changes the stable map (it is a durable atomic cell) *)
Theorem C08_crash_keeps_stable :
  forall c d, dk_meta (crash_disk c d) = dk_meta d /\ dk_stable (crash_disk c d) = dk_stable d.
Proof. exact crash_disk_meta. Qed.
Print Assumptions C08_crash_keeps_stable.

(* ======================================================================== *)
(* BEGIN sequential part (branch refine): proved from the sequential refinement
   theorem (Props/C05.v, Wal/SeqFactsMain.v) and frame lemmas (Wal/SeqFactsStable.v) *)

(* the crash-free half of the full statement is proved *)
Theorem C08_seq_refines : seq_refinement_stmt.
Proof. exact seq_refinement. Qed.
Print Assumptions C08_seq_refines.

(* After any history of log calls, stable calls and clean reopens, Get k returns
   the value of the last accepted Set k of that history (accepted = BoltDB takes
   the key: 1..32768 bytes), and the empty value if there was none; setting nil or
   the empty value unsets the key.  [last_set k os []] scans the history. *)
Theorem C08_get_last_set :
  forall c os s0 k, cfg_ok c -> Forall sop_ok os -> short_enough os -> initial c = Some s0 ->
  fst (step_model c (snd (run_model c s0 os)) (OGetS k)) = RBytes (last_set k os []).
Proof. exact get_last_set. Qed.
Print Assumptions C08_get_last_set.

(* GetUint64 after SetUint64 k v returns v; 0 when the key is unset; an error
   when the stored value is not 8 bytes long *)
Theorem C08_uint64_roundtrip :
  forall w e k v, st_closed w = false -> e_fault e = None -> key_ok k = true -> v < two64 ->
  fst (set_uint64 w k v e) = ROk /\
  fst (get_uint64 w k (snd (set_uint64 w k v e))) = RVal v.
Proof. exact uint64_roundtrip. Qed.
Print Assumptions C08_uint64_roundtrip.
Theorem C08_uint64_unset :
  forall w e k, st_closed w = false -> kv_get k (dk_stable (e_disk e)) = [] -> fst (get_uint64 w k e) = RVal 0.
Proof. exact uint64_unset. Qed.
Print Assumptions C08_uint64_unset.
Theorem C08_uint64_bad_size :
  forall w e k, st_closed w = false -> len (kv_get k (dk_stable (e_disk e))) <> 0 ->
  len (kv_get k (dk_stable (e_disk e))) <> 8 -> fst (get_uint64 w k e) = RErrOther.
Proof. exact uint64_bad_size. Qed.
Print Assumptions C08_uint64_bad_size.

(* log operations never change the stable store: in every state, with or without
   an injected I/O fault (only the action ASetStable touches dk_stable) *)
Theorem C08_log_ops_preserve_stable :
  forall c w e,
  (forall ls, dk_stable (e_disk (snd (store_logs c w ls e))) = dk_stable (e_disk e)) /\
  (forall mn mx, dk_stable (e_disk (snd (delete_range c w mn mx e))) = dk_stable (e_disk e)) /\
  dk_stable (e_disk (snd (rotate c w e))) = dk_stable (e_disk e) /\
  dk_stable (e_disk (snd (open_wal c e))) = dk_stable (e_disk e).
Proof. exact log_ops_preserve_stable. Qed.
Print Assumptions C08_log_ops_preserve_stable.

(* stable operations never change the log: files, metadata and the abstract log *)
Theorem C08_stable_ops_preserve_log :
  forall w k v n e,
  (let e' := snd (set_stable w k v n e) in
   dk_files (e_disk e') = dk_files (e_disk e) /\ dk_meta (e_disk e') = dk_meta (e_disk e) /\
   abs w (e_disk e') = abs w (e_disk e)) /\
  e_disk (snd (get_stable w k e)) = e_disk e.
Proof. exact stable_ops_preserve_log. Qed.
Print Assumptions C08_stable_ops_preserve_log.

(* non-vacuity: a history mixing log and stable calls; the last accepted Set wins,
   a rejected key (empty) is ignored, nil unsets *)
Example C08_ex_last_set :
  let os := [OSet [1] [10] false; OStore []; OSet [2] [20] false; OSet [1] [11] false; OSet [] [9] false;
             OReopen; OSet [2] [] true] in
  last_set [1] os [] = [11] /\ last_set [2] os [] = [] /\ last_set [] os [] = [] /\
  (let c := {| c_seg_size := 128; c_codec := 1 |} in
   match initial c with
   | Some s0 => fst (step_model c (snd (run_model c s0 os)) (OGetS [1]))
   | None => RErrOther
   end) = RBytes [11].
Proof. vm_compute. repeat split; reflexivity. Qed.
Example C08_ex_uint64 :
  let w := {| st_next_id := 0; st_segs := []; st_tail := None; st_rotate := None; st_failed := false;
              st_closed := false |} in
  fst (get_uint64 w [7] (snd (set_uint64 w [7] 18446744073709551615 fresh_env))) = RVal 18446744073709551615.
Proof. vm_compute. reflexivity. Qed.
(* END sequential part *)
(* ======================================================================== *)

(* ---- across crashes: the stable map is part of the state compared by the master
   crash theorem (hs_acked / hs_may carry sp_kv): after any history with power losses
   at any I/O boundary, every acknowledged Set is present and a Set in flight is
   applied or not (see Props/C01.v for the statement's reading) ---- *)
From RW Require Import Wal.CrashCalls10.
Theorem C08_crash_refines : crash_refinement_stmt.
Proof. exact crash_refinement. Qed.
Print Assumptions C08_crash_refines.
