(* C08 -- StableStore is a durable map, isolated from the log.
   INTERIM file: the full statements are `seq_refinement_stmt` (Get returns the
   value of the latest successful Set across any interleaving with log
   operations and clean reopens) and `crash_refinement_stmt` (across crashes) of
   Wal/Hist.v, whose proofs are in progress. *)
From RW Require Import Base.Bytes Base.BytesFacts Fmt.Codec Fmt.Frame Wal.Model Wal.Spec Wal.Hist Wal.BasicFacts.
Open Scope N_scope.

Definition C08_full_statement : Prop := seq_refinement_stmt /\ crash_refinement_stmt.

(* proved fragments: the key/value map *)
Theorem C08_get_after_set_partial :
  forall k v m, kv_keys_unique m -> kv_get k (kv_set k v m) = v.
Proof. exact kv_get_set_same. Qed.
Print Assumptions C08_get_after_set_partial.

Theorem C08_set_leaves_other_keys_partial :
  forall k k2 v m, beq_bytes k2 k = false -> kv_get k2 (kv_set k v m) = kv_get k2 m.
Proof. exact kv_get_set_other. Qed.
Print Assumptions C08_set_leaves_other_keys_partial.

(* SetUint64 / GetUint64: little endian round trip *)
Theorem C08_uint64_roundtrip_partial : forall v, v < 18446744073709551616 -> rd64 (le64 v) = v.
Proof. exact rd64_le64. Qed.
Print Assumptions C08_uint64_roundtrip_partial.

(* a power loss never changes the stable map (it is a durable atomic cell) *)
Theorem C08_crash_keeps_stable_partial :
  forall c d, dk_meta (crash_disk c d) = dk_meta d /\ dk_stable (crash_disk c d) = dk_stable d.
Proof. exact crash_disk_meta. Qed.
Print Assumptions C08_crash_keeps_stable_partial.
