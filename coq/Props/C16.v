(* C16 -- Verifier raises no false alarms.
   Only statements here; proofs live in Vfy/*Facts.v.
   Reading guide: [run cpf (sys_init k) h] is the state of k nodes after the
   history h (any list of events: StoreLogs of arbitrary batches on any node =
   leader appends / replication with any split / conflicting suffixes /
   in-flight damage; DeleteRange = head and tail truncations; restarts;
   at-rest tampering; verifier steps).  [node_store] is the StoreLogs that
   carries the checkpoint(s); [n_shadow nd'] is the log as the node WROTE it
   (never tampered; tail truncations applied; head truncations = compaction do
   not erase it, exactly as they do not touch the running sum since 8c5a9f9;
   without at-rest tampering the store is its suffix from FirstIndex on, see
   C16_store_is_suffix_of_written); [sv] is the store at the moment the verifier goroutine
   reads the range (any later store: "ranges not modified while their
   verification runs" is the hypothesis that sv still holds L). *)
From RW Require Import Base.Bytes Vfy.Checksum Vfy.Spec Vfy.SpecFacts Vfy.Store Vfy.VerifChan Vfy.Nodes
  Vfy.StoreFacts Vfy.NodesFacts.
Open Scope N_scope.

(* If the node wrote the range exactly as the leader checksummed it (L) and reads
   it back unchanged, the report has no error at all -- for every history before
   the checkpoint, every batch carrying it, every checkpoint function. *)
Theorem C16_no_false_alarm :
  forall cpf h k n b nd' rs r L sv,
    node_store cpf (node_at (run cpf (sys_init k) h) n) b = (SOk, nd', rs) -> In r rs ->
    r_expected r = chain 0 L ->
    (holds_range (n_shadow nd') (r_start r) (r_end r) ->
     slice (n_shadow nd') (r_start r) (r_end r) = L) ->
    holds_range sv (r_start r) (r_end r) -> slice sv (r_start r) (r_end r) = L ->
    r_err (verify sv r) = ENone.
Proof. exact no_false_alarm. Qed.
Print Assumptions C16_no_false_alarm.

(* A node whose log starts after Range.Start reports ErrRangeMismatch; the only
   other possible verdict is a write-time mismatch for a range it did hold and
   write (differently) when the checkpoint was stored -- never "storage
   corruption", never a claim about entries it does not have. *)
Theorem C16_range_mismatch :
  forall cpf h k n b nd' rs r sv,
    node_store cpf (node_at (run cpf (sys_init k) h) n) b = (SOk, nd', rs) -> In r rs ->
    r_start r < first_index sv ->
    (~ holds_range (n_shadow nd') (r_start r) (r_end r) -> r_err (verify sv r) = ERange) /\
    (r_err (verify sv r) = ERange \/
     (r_err (verify sv r) = ECkInflight /\ holds_range (n_shadow nd') (r_start r) (r_end r) /\
      r_written r = chain 0 (slice (n_shadow nd') (r_start r) (r_end r)) /\
      r_written r <> r_expected r)).
Proof. exact range_mismatch. Qed.
Print Assumptions C16_range_mismatch.

(* What L is on the leader: the ExpectedSum a leader puts into the checkpoint is
   the chain over what it wrote for [Start, End), after any history. *)
Theorem C16_leader_sum :
  forall cpf h k n b nd' rs r,
    node_store cpf (node_at (run cpf (sys_init k) h) n) b = (SOk, nd', rs) ->
    leader_batch cpf b -> In r rs ->
    holds_range (n_shadow nd') (r_start r) (r_end r) /\
    r_expected r = chain 0 (slice (n_shadow nd') (r_start r) (r_end r)) /\
    r_written r = r_expected r.
Proof. exact leader_sum. Qed.
Print Assumptions C16_leader_sum.

(* The invariant behind it: WrittenSum is 0 or the chain over exactly the range
   as written and still held (this is what the DeleteRange reset restores). *)
Theorem C16_written_sum :
  forall cpf h k n b nd' rs r,
    node_store cpf (node_at (run cpf (sys_init k) h) n) b = (SOk, nd', rs) -> In r rs ->
    r_err r = ENone /\
    (r_written r = 0 \/
     (holds_range (n_shadow nd') (r_start r) (r_end r) /\
      r_written r = chain 0 (slice (n_shadow nd') (r_start r) (r_end r)))).
Proof. exact report_written. Qed.
Print Assumptions C16_written_sum.

Theorem C16_store_is_suffix_of_written :
  forall cpf h k n,
    forallb (fun ev => negb (is_tamper ev)) h = true ->
    suffix_of (n_store (node_at (run cpf (sys_init k) h) n))
              (n_shadow (node_at (run cpf (sys_init k) h) n)).
Proof. exact no_tamper_suffix. Qed.
Print Assumptions C16_store_is_suffix_of_written.

(* ---- non-vacuity ------------------------------------------------------------ *)
Definition ex_cpf (e : entry) : option bool :=
  Some (match e_data e with 192 :: _ => true | _ => false end).
Definition ex_e (i : N) (d : N) : entry :=
  {| e_index := i; e_term := 1; e_type := 0; e_data := [d]; e_ext := [] |}.

(* leader 0 writes 1,2 and the checkpoint 3; follower 1 receives 1 and 2 in
   separate batches, truncates its tail, gets 2 again, then the checkpoint: all
   hypotheses of C16_no_false_alarm hold, the written sum is not claimed (0)
   and the verdict is "no error" (this is the history that gave a false alarm
   before DeleteRange reset the running sum) *)
Example C16_ex_truncate_reappend :
  let st := run ex_cpf (sys_init 2)
              [HStore 0 [ex_e 1 97; ex_e 2 98]; HStore 0 [ex_e 3 192];
               HStore 1 [ex_e 1 97]; HStore 1 [ex_e 2 98]; HDelete 1 2 2 false; HStore 1 [ex_e 2 98]] in
  match get (n_store (node_at st 0)) 3 with
  | Some cp =>
      match node_store ex_cpf (node_at st 1) [cp] with
      | (SOk, nd', [r]) =>
          r_expected r = chain 0 [ex_e 1 97; ex_e 2 98] /\
          holds_range (n_shadow nd') (r_start r) (r_end r) /\
          slice (n_shadow nd') (r_start r) (r_end r) = [ex_e 1 97; ex_e 2 98] /\
          r_written r = 0 /\
          r_err (verify (n_store nd') r) = ENone
      | _ => False
      end
  | None => False
  end.
Proof. vm_compute. repeat split; try reflexivity; try discriminate; try (intros C; discriminate C). Qed.

(* same entries, different batch split, no truncation: the follower claims a
   written sum and it equals the leader's *)
Example C16_ex_batch_split :
  let st := run ex_cpf (sys_init 2)
              [HStore 0 [ex_e 1 97; ex_e 2 98]; HStore 0 [ex_e 3 192];
               HStore 1 [ex_e 1 97]; HRestart 0; HStore 1 [ex_e 2 98]] in
  match get (n_store (node_at st 0)) 3 with
  | Some cp =>
      match node_store ex_cpf (node_at st 1) [cp] with
      | (SOk, nd', [r]) =>
          r_expected r = chain 0 [ex_e 1 97; ex_e 2 98] /\
          slice (n_shadow nd') (r_start r) (r_end r) = [ex_e 1 97; ex_e 2 98] /\
          r_written r <> 0 /\ r_written r = r_expected r /\
          r_err (verify (n_store nd') r) = ENone
      | _ => False
      end
  | None => False
  end.
Proof. vm_compute. repeat split; try reflexivity; try discriminate; try (intros C; discriminate C). Qed.

(* a follower that dropped the head of the range reports ErrRangeMismatch *)
Example C16_ex_range_mismatch :
  let st := run ex_cpf (sys_init 2)
              [HStore 0 [ex_e 1 97; ex_e 2 98]; HStore 0 [ex_e 3 192];
               HStore 1 [ex_e 1 97; ex_e 2 98]; HDelete 1 1 1 false] in
  match get (n_store (node_at st 0)) 3 with
  | Some cp =>
      match node_store ex_cpf (node_at st 1) [cp] with
      | (SOk, nd', [r]) => r_start r < first_index (n_store nd') /\
                           r_err (verify (n_store nd') r) = ERange
      | _ => False
      end
  | None => False
  end.
Proof. vm_compute. split; reflexivity. Qed.

(* compaction below the range does NOT restart the sum (since 8c5a9f9 only tail
   truncations do): the leader's next range still starts at the previous
   checkpoint, the follower still claims its written sum, nobody raises an alarm *)
Example C16_ex_head_truncation_no_reset :
  let st := run ex_cpf (sys_init 2)
              [HStore 0 [ex_e 1 97; ex_e 2 98]; HStore 0 [ex_e 3 192]; HSend 0;
               HStore 0 [ex_e 4 99; ex_e 5 100]; HDelete 0 1 2 false] in
  match node_store ex_cpf (node_at st 0) [ex_e 6 192] with
  | (SOk, ld, [rl]) =>
      r_start rl = 3 /\ r_err (verify (n_store ld) rl) = ENone /\
      match get (n_store (node_at st 0)) 3, get (n_store ld) 6 with
      | Some cp3, Some cp6 =>
          let st1 := run ex_cpf (sys_init 2)
                       [HStore 1 [ex_e 1 97; ex_e 2 98; cp3]; HSend 1; HStore 1 [ex_e 4 99]; HDelete 1 1 2 false;
                        HStore 1 [ex_e 5 100]] in
          match node_store ex_cpf (node_at st1 1) [cp6] with
          | (SOk, fd, [rf]) => r_written rf <> 0 /\ r_written rf = r_expected rf /\
                               r_err (verify (n_store fd) rf) = ENone
          | _ => False
          end
      | _, _ => False
      end
  | _ => False
  end.
Proof. vm_compute. repeat split; try reflexivity; try discriminate; try (intros C; discriminate C). Qed.

(* compaction INTO the range: the written sum is still claimed (and equals the
   leader's, the node wrote the entries correctly), the verdict is ErrRangeMismatch *)
Example C16_ex_head_truncation_into_range :
  let st := run ex_cpf (sys_init 2)
              [HStore 0 [ex_e 1 97; ex_e 2 98]; HStore 0 [ex_e 3 192];
               HStore 1 [ex_e 1 97; ex_e 2 98]; HDelete 1 1 1 false] in
  match get (n_store (node_at st 0)) 3 with
  | Some cp =>
      match node_store ex_cpf (node_at st 1) [cp] with
      | (SOk, nd', [r]) => r_written r = r_expected r /\ r_written r <> 0 /\
                           holds_range (n_shadow nd') (r_start r) (r_end r) /\
                           r_err (verify (n_store nd') r) = ERange
      | _ => False
      end
  | None => False
  end.
Proof. vm_compute. repeat split; try reflexivity; try discriminate; try (intros C; discriminate C). Qed.
