(* CrashFacts3.v -- traces: [ext P e0 e] (every disk between e0 and e satisfies P),
   the generic metadata-commit lemma, and small facts on new segments. *)
From RW Require Import Base.Bytes Base.BytesFacts Fmt.Codec Fmt.Frame Wal.Model Wal.Spec Wal.Hist
  Wal.CrashInv Wal.CrashFacts0 Wal.CrashFacts1 Wal.CrashFacts2 Gen.Constants.
From Coq Require Import ZifyN ZifyNat ZifyBool.
Open Scope N_scope.

(* ---- ext ---- *)
Lemma ext_refl (P : disk -> Prop) e : e_fault e = None -> P (e_disk e) -> ext P e e.
Proof.
  intros Hf HP. split; [exact Hf|]. exists []. cbn. split; [reflexivity|]. split; [constructor|].
  split; [reflexivity|]. intros j. rewrite firstn_nil. exact HP.
Qed.

Definition io_env (a : act) (e : env) : env :=
  {| e_acts := a :: e_acts e; e_disk := apply_act (e_disk e) a; e_fault := None; e_m := e_m e |}.

Lemma io_ok a e : e_fault e = None -> io a e = (true, io_env a e).
Proof. intros Hf. unfold io, io_env. rewrite Hf. destruct (is_delete a); reflexivity. Qed.

Lemma firstn_snoc {A} j (l : list A) x :
  firstn j (l ++ [x]) = if Nat.leb j (length l) then firstn j l else l ++ [x].
Proof.
  destruct (Nat.leb j (length l)) eqn:E.
  - apply Nat.leb_le in E. rewrite firstn_app. replace (j - length l)%nat with O by lia. cbn. apply app_nil_r.
  - apply Nat.leb_gt in E. apply firstn_all2. rewrite app_length. cbn. lia.
Qed.

Lemma ext_io (P : disk -> Prop) e0 e a :
  ext P e0 e -> not_fail a -> P (apply_act (e_disk e) a) -> ext P e0 (io_env a e).
Proof.
  intros (Hf & acts & Ha & Hnf & Hd & Hp) Hn HP. split; [reflexivity|].
  exists (acts ++ [a]). cbn [io_env e_acts e_disk]. split.
  - rewrite rev_app_distr. cbn. rewrite Ha. reflexivity.
  - split; [apply Forall_app; split; [exact Hnf|constructor; [exact Hn|constructor]]|]. split.
    + rewrite fold_left_app. cbn. rewrite Hd. reflexivity.
    + intros j. rewrite firstn_snoc. destruct (Nat.leb j (length acts)); [apply Hp|].
      rewrite fold_left_app. cbn. rewrite <- Hd. exact HP.
Qed.

Lemma ext_fault P e0 e : ext P e0 e -> e_fault e = None.
Proof. intros (H & _). exact H. Qed.

Lemma ext_final (P : disk -> Prop) e0 e : ext P e0 e -> P (e_disk e).
Proof.
  intros (Hf & acts & Ha & Hnf & Hd & Hp). rewrite Hd. specialize (Hp (length acts)).
  rewrite firstn_all in Hp. exact Hp.
Qed.

Lemma ext_mono (P Q : disk -> Prop) e0 e : (forall d, P d -> Q d) -> ext P e0 e -> ext Q e0 e.
Proof.
  intros H (Hf & acts & Ha & Hnf & Hd & Hp). split; [exact Hf|]. exists acts. repeat split; auto.
Qed.

Lemma ext_with_m P e0 e m : ext P e0 e -> ext P e0 (with_m e m).
Proof. intros (Hf & acts & Ha & Hnf & Hd & Hp). split; [exact Hf|]. exists acts. cbn. auto. Qed.

Lemma ext_add_m P e0 e f : ext P e0 e -> ext P e0 (add_m e f).
Proof. apply ext_with_m. Qed.

Lemma ext_from_m P e0 e m : ext P (with_m e0 m) e -> ext P e0 e.
Proof. intros (Hf & acts & Ha & Hnf & Hd & Hp). split; [exact Hf|]. exists acts. cbn in *. auto. Qed.

Lemma ext_trans (P : disk -> Prop) e0 e1 e2 : ext P e0 e1 -> ext P e1 e2 -> ext P e0 e2.
Proof.
  intros (Hf1 & a1 & Ha1 & Hn1 & Hd1 & Hp1) (Hf2 & a2 & Ha2 & Hn2 & Hd2 & Hp2).
  split; [exact Hf2|]. exists (a1 ++ a2). split.
  - rewrite Ha2, Ha1, rev_app_distr, app_assoc. reflexivity.
  - split; [apply Forall_app; auto|]. split.
    + rewrite fold_left_app, <- Hd1. exact Hd2.
    + intros j. rewrite firstn_app. rewrite fold_left_app.
      destruct (Nat.leb j (length a1)) eqn:E.
      * apply Nat.leb_le in E. replace (j - length a1)%nat with O by lia. cbn. apply Hp1.
      * apply Nat.leb_gt in E. rewrite (@firstn_all2 _ j a1) by lia. rewrite <- Hd1. apply Hp2.
Qed.

Lemma ext_acts (P : disk -> Prop) e0 e :
  ext P e0 e ->
  exists acts, new_acts e0 e = acts /\ Forall not_fail acts /\
               e_disk e = fold_left apply_act acts (e_disk e0) /\
               forall j, P (fold_left apply_act (firstn j acts) (e_disk e0)).
Proof.
  intros (Hf & acts & Ha & Hnf & Hd & Hp). exists acts. split; [|auto].
  unfold new_acts. rewrite Ha, app_length.
  replace (length (rev acts) + length (e_acts e0) - length (e_acts e0))%nat with (length (rev acts)) by lia.
  rewrite firstn_app. rewrite Nat.sub_diag. cbn. rewrite app_nil_r, firstn_all.
  rewrite rev_append_rev, app_nil_r. apply rev_involutive.
Qed.

(* delete_files of names each of which keeps P *)
Lemma ext_delete_files (P : disk -> Prop) e0 ns :
  forall e, ext P e0 e ->
  (forall d n, P d -> In n ns -> P (apply_act d (ADelete n))) ->
  ext P e0 (delete_files ns e) /\ e_m (delete_files ns e) = e_m e.
Proof.
  unfold delete_files. induction ns as [|n ns IH]; intros e He Hd; cbn [fold_left]; [auto|].
  rewrite (io_ok (ADelete n) e (ext_fault _ _ _ He)). cbn [snd].
  assert (He' : ext P e0 (io_env (ADelete n) e)).
  { apply ext_io; [exact He|exact I|]. apply Hd; [apply (ext_final _ _ _ He)|left; reflexivity]. }
  destruct (IH _ He') as (H1 & H2); [intros; apply Hd; [assumption|right; assumption]|].
  split; [exact H1|]. rewrite H2. reflexivity.
Qed.

(* ---- the generic commit ---- *)
Lemma DIs_commit c nb d nid S t :
  DIs c nb d ->
  (forall ps, dk_meta d = Some ps -> ps_next_id ps <= nid) -> nid <= nb ->
  Forall (seg_wf c nid) (S ++ [t]) -> linked (S ++ [t]) ->
  Forall (sealed_ok d) S -> tail_ok c d t ->
  DIs c nb (apply_act d (ACommit {| ps_next_id := nid; ps_segs := S ++ [t] |})).
Proof.
  intros HD Hn Hnb Hwf Hl Hso Ht. pose proof (DIs_NoDup _ _ _ HD) as ND.
  apply (DIs_build c nb _ {| ps_next_id := nid; ps_segs := S ++ [t] |} S t); try reflexivity; auto.
  - cbn [ps_next_id apply_act dk_files]. intros n f Hf. unfold DIs in HD. destruct HD as (_ & HD).
    destruct (dk_meta d) as [ps|] eqn:Hm.
    + destruct HD as (_ & Hid & _). specialize (Hn ps eq_refl). specialize (Hid _ _ Hf). lia.
    + rewrite HD in Hf. discriminate.
Qed.

(* ---- fresh segments ---- *)
Lemma new_segment_wf c nid base :
  cfg_ok c -> 1 <= base -> base < two64 -> seg_wf c (nid + 1) (new_segment c nid base).
Proof.
  intros (Hc & Hc2 & Hs1 & Hs2) Hb1 Hb2. unfold seg_wf, new_segment. cbn.
  repeat split; try lia. apply N.mod_small. unfold two30, two32 in *. lia.
Qed.

Lemma seg_wf_mono c nid nid' s : nid <= nid' -> seg_wf c nid s -> seg_wf c nid' s.
Proof. unfold seg_wf. intros Hle (H1 & H2 & H3 & H4 & H5 & H6). repeat split; auto. lia. Qed.

Lemma tail_ok_missing c d s :
  si_sealed s = false -> si_min s = si_base s -> lookup (name_of s) (dk_files d) = None -> tail_ok c d s.
Proof. intros H1 H2 H3. unfold tail_ok. rewrite H3. auto. Qed.

Lemma DIs_lookup_fresh c nb d ps base id :
  DIs c nb d -> dk_meta d = Some ps -> ps_next_id ps <= id -> lookup (base, id) (dk_files d) = None.
Proof.
  intros HD Hm Hle. destruct (lookup (base, id) (dk_files d)) eqn:E; [|reflexivity].
  apply (DIs_unfold c nb d ps Hm) in HD. destruct HD as (_ & _ & Hid & _).
  specialize (Hid _ _ E). cbn in Hid. lia.
Qed.

(* linked: replacing / extending the last element *)
Lemma linked_cons2 a b r :
  linked (a :: b :: r) <-> (si_base b = si_max a + 1 /\ si_min b = si_base b /\ linked (b :: r)).
Proof. reflexivity. Qed.

Lemma linked_replace_last S t t' :
  linked (S ++ [t]) -> si_base t' = si_base t -> si_min t' = si_min t -> linked (S ++ [t']).
Proof.
  intros HL Hb Hm. induction S as [|a S IH]; [exact I|].
  destruct S as [|b S'].
  - change (linked [a; t]) in HL. change (linked [a; t']). rewrite linked_cons2 in *. rewrite Hb, Hm.
    destruct HL as (H1 & H2 & _). cbn; auto.
  - change (linked (a :: b :: S' ++ [t])) in HL. change (linked (a :: b :: S' ++ [t'])).
    rewrite linked_cons2 in HL. rewrite linked_cons2. destruct HL as (H1 & H2 & H3). auto.
Qed.

Lemma linked_snoc S a b :
  linked (S ++ [a]) -> si_base b = si_max a + 1 -> si_min b = si_base b -> linked (S ++ [a; b]).
Proof.
  intros HL Hb Hm. induction S as [|x S IH]; [cbn; auto|].
  destruct S as [|y S'].
  - change (linked [x; a]) in HL. change (linked [x; a; b]). rewrite linked_cons2 in *.
    destruct HL as (H1 & H2 & _). split; [exact H1|]. split; [exact H2|]. cbn; auto.
  - change (linked (x :: y :: S' ++ [a])) in HL. change (linked (x :: y :: S' ++ [a; b])).
    rewrite linked_cons2 in HL. rewrite linked_cons2. destruct HL as (H1 & H2 & H3). auto.
Qed.
