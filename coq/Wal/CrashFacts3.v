(* CrashFacts3.v -- traces: [ext P e0 e] (every disk between e0 and e satisfies P),
   the generic metadata-commit lemma, and small facts on new segments. *)
From RW Require Import Base.Bytes Base.BytesFacts Fmt.Codec Fmt.Frame Wal.Model Wal.Spec Wal.Hist
  Wal.CrashInv Wal.CrashFacts0 Wal.CrashFacts1 Wal.CrashFacts2 Gen.Constants.
From Coq Require Import ZifyN ZifyNat ZifyBool.
Open Scope N_scope.

(* ---- ext ---- *)
Lemma ext_refl (P : disk -> Prop) e : e_fault e = None -> P (e_disk e) -> ext P e e.
Proof.
  intros Hf HP. split; [exact Hf|]. exists []. cbn. split; [reflexivity|]. split; [constructor|].
  split; [reflexivity|]. intros j. rewrite firstn_nil. exact HP.
Qed.

Definition io_env (a : act) (e : env) : env :=
  {| e_acts := a :: e_acts e; e_disk := apply_act (e_disk e) a; e_fault := None; e_fx := e_fx e; e_m := e_m e |}.

Lemma io_ok a e : e_fault e = None -> io a e = (true, io_env a e).
Proof. intros Hf. unfold io, io_env, armed. rewrite Hf. destruct (is_delete a); reflexivity. Qed.

Lemma firstn_snoc {A} j (l : list A) x :
  firstn j (l ++ [x]) = if Nat.leb j (length l) then firstn j l else l ++ [x].
Proof.
  destruct (Nat.leb j (length l)) eqn:E.
  - apply Nat.leb_le in E. rewrite firstn_app. replace (j - length l)%nat with O by lia. cbn. apply app_nil_r.
  - apply Nat.leb_gt in E. apply firstn_all2. rewrite app_length. cbn. lia.
Qed.

Lemma ext_io (P : disk -> Prop) e0 e a :
  ext P e0 e -> not_fail a -> P (apply_act (e_disk e) a) -> ext P e0 (io_env a e).
Proof.
  intros (Hf & acts & Ha & Hnf & Hd & Hp) Hn HP. split; [reflexivity|].
  exists (acts ++ [a]). cbn [io_env e_acts e_disk]. split.
  - rewrite rev_app_distr. cbn. rewrite Ha. reflexivity.
  - split; [apply Forall_app; split; [exact Hnf|constructor; [exact Hn|constructor]]|]. split.
    + rewrite fold_left_app. cbn. rewrite Hd. reflexivity.
    + intros j. rewrite firstn_snoc. destruct (Nat.leb j (length acts)); [apply Hp|].
      rewrite fold_left_app. cbn. rewrite <- Hd. exact HP.
Qed.

Lemma ext_fault P e0 e : ext P e0 e -> e_fault e = None.
Proof. intros (H & _). exact H. Qed.

Lemma ext_final (P : disk -> Prop) e0 e : ext P e0 e -> P (e_disk e).
Proof.
  intros (Hf & acts & Ha & Hnf & Hd & Hp). rewrite Hd. specialize (Hp (length acts)).
  rewrite firstn_all in Hp. exact Hp.
Qed.

Lemma ext_mono (P Q : disk -> Prop) e0 e : (forall d, P d -> Q d) -> ext P e0 e -> ext Q e0 e.
Proof.
  intros H (Hf & acts & Ha & Hnf & Hd & Hp). split; [exact Hf|]. exists acts. repeat split; auto.
Qed.

Lemma ext_with_m P e0 e m : ext P e0 e -> ext P e0 (with_m e m).
Proof. intros (Hf & acts & Ha & Hnf & Hd & Hp). split; [exact Hf|]. exists acts. cbn. auto. Qed.

Lemma ext_add_m P e0 e f : ext P e0 e -> ext P e0 (add_m e f).
Proof. apply ext_with_m. Qed.

Lemma ext_from_m P e0 e m : ext P (with_m e0 m) e -> ext P e0 e.
Proof. intros (Hf & acts & Ha & Hnf & Hd & Hp). split; [exact Hf|]. exists acts. cbn in *. auto. Qed.

Lemma ext_trans (P : disk -> Prop) e0 e1 e2 : ext P e0 e1 -> ext P e1 e2 -> ext P e0 e2.
Proof.
  intros (Hf1 & a1 & Ha1 & Hn1 & Hd1 & Hp1) (Hf2 & a2 & Ha2 & Hn2 & Hd2 & Hp2).
  split; [exact Hf2|]. exists (a1 ++ a2). split.
  - rewrite Ha2, Ha1, rev_app_distr, app_assoc. reflexivity.
  - split; [apply Forall_app; auto|]. split.
    + rewrite fold_left_app, <- Hd1. exact Hd2.
    + intros j. rewrite firstn_app. rewrite fold_left_app.
      destruct (Nat.leb j (length a1)) eqn:E.
      * apply Nat.leb_le in E. replace (j - length a1)%nat with O by lia. cbn. apply Hp1.
      * apply Nat.leb_gt in E. rewrite (@firstn_all2 _ j a1) by lia. rewrite <- Hd1. apply Hp2.
Qed.

Lemma ext_acts (P : disk -> Prop) e0 e :
  ext P e0 e ->
  exists acts, new_acts e0 e = acts /\ Forall not_fail acts /\
               e_disk e = fold_left apply_act acts (e_disk e0) /\
               forall j, P (fold_left apply_act (firstn j acts) (e_disk e0)).
Proof.
  intros (Hf & acts & Ha & Hnf & Hd & Hp). exists acts. split; [|auto].
  unfold new_acts. rewrite Ha, app_length.
  replace (length (rev acts) + length (e_acts e0) - length (e_acts e0))%nat with (length (rev acts)) by lia.
  rewrite firstn_app. rewrite Nat.sub_diag. cbn. rewrite app_nil_r, firstn_all.
  rewrite rev_append_rev, app_nil_r. apply rev_involutive.
Qed.

(* delete_files of names each of which keeps P *)
Lemma ext_delete_files (P : disk -> Prop) e0 ns :
  forall e, ext P e0 e ->
  (forall d n, P d -> In n ns -> P (apply_act d (ADelete n))) ->
  ext P e0 (delete_files ns e) /\ e_m (delete_files ns e) = e_m e.
Proof.
  unfold delete_files. induction ns as [|n ns IH]; intros e He Hd; cbn [fold_left]; [auto|].
  rewrite (io_ok (ADelete n) e (ext_fault _ _ _ He)). cbn [snd].
  assert (He' : ext P e0 (io_env (ADelete n) e)).
  { apply ext_io; [exact He|exact I|]. apply Hd; [apply (ext_final _ _ _ He)|left; reflexivity]. }
  destruct (IH _ He') as (H1 & H2); [intros; apply Hd; [assumption|right; assumption]|].
  split; [exact H1|]. rewrite H2. reflexivity.
Qed.

(* ---- the generic commit ---- *)
Lemma DIs_commit c nb d nid S t :
  DIs c nb d ->
  (forall ps, dk_meta d = Some ps -> ps_next_id ps <= nid) -> nid <= nb ->
  Forall (seg_wf c nid) (S ++ [t]) -> linked (S ++ [t]) ->
  Forall (sealed_ok d) S -> tail_ok c d t ->
  DIs c nb (apply_act d (ACommit {| ps_next_id := nid; ps_segs := S ++ [t] |})).
Proof.
  intros HD Hn Hnb Hwf Hl Hso Ht. pose proof (DIs_NoDup _ _ _ HD) as ND.
  apply (DIs_build c nb _ {| ps_next_id := nid; ps_segs := S ++ [t] |} S t); try reflexivity; auto.
  - cbn [ps_next_id apply_act dk_files]. intros n f Hf. unfold DIs in HD. destruct HD as (_ & HD).
    destruct (dk_meta d) as [ps|] eqn:Hm.
    + destruct HD as (_ & Hid & _). specialize (Hn ps eq_refl). specialize (Hid _ _ Hf). lia.
    + rewrite HD in Hf. discriminate.
Qed.

(* ---- fresh segments ---- *)
Lemma new_segment_wf c nid base :
  cfg_ok c -> 1 <= base -> base < two64 -> seg_wf c (nid + 1) (new_segment c nid base).
Proof.
  intros (Hc & Hc2 & Hs1 & Hs2) Hb1 Hb2. unfold seg_wf, new_segment. cbn.
  repeat split; try lia. apply N.mod_small. unfold two30, two32 in *. lia.
Qed.

Lemma seg_wf_mono c nid nid' s : nid <= nid' -> seg_wf c nid s -> seg_wf c nid' s.
Proof. unfold seg_wf. intros Hle (H1 & H2 & H3 & H4 & H5 & H6). repeat split; auto. lia. Qed.

Lemma tail_ok_missing c d s :
  si_sealed s = false -> si_min s = si_base s -> lookup (name_of s) (dk_files d) = None -> tail_ok c d s.
Proof. intros H1 H2 H3. unfold tail_ok. rewrite H3. auto. Qed.

Lemma DIs_lookup_fresh c nb d ps base id :
  DIs c nb d -> dk_meta d = Some ps -> ps_next_id ps <= id -> lookup (base, id) (dk_files d) = None.
Proof.
  intros HD Hm Hle. destruct (lookup (base, id) (dk_files d)) eqn:E; [|reflexivity].
  apply (DIs_unfold c nb d ps Hm) in HD. destruct HD as (_ & _ & Hid & _).
  specialize (Hid _ _ E). cbn in Hid. lia.
Qed.

(* linked: replacing / extending the last element *)
Lemma linked_cons2 a b r :
  linked (a :: b :: r) <-> (si_base b = si_max a + 1 /\ si_min b = si_base b /\ linked (b :: r)).
Proof. reflexivity. Qed.

Lemma linked_replace_last S t t' :
  linked (S ++ [t]) -> si_base t' = si_base t -> si_min t' = si_min t -> linked (S ++ [t']).
Proof.
  intros HL Hb Hm. induction S as [|a S IH]; [exact I|].
  destruct S as [|b S'].
  - change (linked [a; t]) in HL. change (linked [a; t']). rewrite linked_cons2 in *. rewrite Hb, Hm.
    destruct HL as (H1 & H2 & _). cbn; auto.
  - change (linked (a :: b :: S' ++ [t])) in HL. change (linked (a :: b :: S' ++ [t'])).
    rewrite linked_cons2 in HL. rewrite linked_cons2. destruct HL as (H1 & H2 & H3). auto.
Qed.

Lemma linked_snoc S a b :
  linked (S ++ [a]) -> si_base b = si_max a + 1 -> si_min b = si_base b -> linked (S ++ [a; b]).
Proof.
  intros HL Hb Hm. induction S as [|x S IH]; [cbn; auto|].
  destruct S as [|y S'].
  - change (linked [x; a]) in HL. change (linked [x; a; b]). rewrite linked_cons2 in *.
    destruct HL as (H1 & H2 & _). split; [exact H1|]. split; [exact H2|]. cbn; auto.
  - change (linked (x :: y :: S' ++ [a])) in HL. change (linked (x :: y :: S' ++ [a; b])).
    rewrite linked_cons2 in HL. rewrite linked_cons2. destruct HL as (H1 & H2 & H3). auto.
Qed.

(* ---- committing a list of sealed segments followed by a brand-new tail ---- *)
Lemma hd_min_app S s t : hd_min (S ++ [s]) t = hd_min S s.
Proof. unfold hd_min. destruct S; reflexivity. Qed.

Lemma tail_es_missing d s : lookup (name_of s) (dk_files d) = None -> tail_es d s = [].
Proof. intros H. unfold tail_es, file_ents. rewrite H. apply skipn_nil. Qed.

Lemma commit_newtail c nb d nid S' base :
  cfg_ok c -> DIs c nb d ->
  (forall ps, dk_meta d = Some ps -> ps_next_id ps <= nid) -> nid + 1 <= nb ->
  Forall (seg_wf c nid) S' -> linked (S' ++ [new_segment c nid base]) ->
  Forall (sealed_ok d) S' -> 1 <= base -> base < two64 ->
  let si := new_segment c nid base in
  let d1 := apply_act d (ACommit {| ps_next_id := nid + 1; ps_segs := S' ++ [si] |}) in
  DIs c nb d1 /\ lookup (name_of si) (dk_files d1) = None /\
  dread d1 = slog_of (hd_min S' si) (sealed_es d S') /\
  dread (unpend d1) = slog_of (hd_min S' si) (sealed_es d S').
Proof.
  intros Hc HD Hn Hnb Hwf Hl Hso Hb1 Hb2 si d1.
  assert (Hfresh : lookup (name_of si) (dk_files d) = None).
  { destruct (lookup (name_of si) (dk_files d)) eqn:E; [|reflexivity]. exfalso.
    unfold DIs in HD. destruct HD as (_ & HD). destruct (dk_meta d) as [ps|] eqn:Hm.
    - destruct HD as (_ & Hid & _). specialize (Hid _ _ E). specialize (Hn ps eq_refl). cbn in Hid. lia.
    - rewrite HD in E. discriminate. }
  assert (HD1 : DIs c nb d1).
  { apply DIs_commit; auto.
    - intros ps Hm. specialize (Hn ps Hm). lia.
    - apply Forall_app. split.
      + eapply Forall_impl; [|exact Hwf]. intros s Hs. eapply seg_wf_mono; [|exact Hs]. lia.
      + constructor; [apply new_segment_wf; auto|constructor].
    - apply tail_ok_missing; auto. }
  split; [exact HD1|]. split; [exact Hfresh|].
  assert (Hm1 : dk_meta d1 = Some {| ps_next_id := nid + 1; ps_segs := S' ++ [si] |}) by reflexivity.
  assert (Hte : tail_es d1 si = []) by (apply tail_es_missing; exact Hfresh).
  split.
  - rewrite (dread_decomp c nb d1 _ S' si HD1 Hm1 eq_refl). rewrite Hte, app_nil_r.
    f_equal.
  - pose proof (DIs_unpend _ _ _ HD1) as HDu.
    rewrite (dread_decomp c nb (unpend d1) _ S' si HDu Hm1 eq_refl).
    assert (Hte' : tail_es (unpend d1) si = []).
    { apply tail_es_missing. rewrite lookup_unpend. cbn [d1 apply_act dk_files]. rewrite Hfresh. reflexivity. }
    rewrite Hte', app_nil_r. f_equal.
    change (sealed_es (unpend d1) S' = sealed_es d1 S').
    apply sealed_es_unpend.
    eapply Forall_sealed_ext; [|exact Hso]. reflexivity.
Qed.

(* sealing the tail in the metadata *)
Definition seal_info (t : seginfo) (mx istart : N) : seginfo :=
  {| si_id := si_id t; si_base := si_base t; si_min := si_min t; si_max := mx; si_codec := si_codec t;
     si_index_start := istart; si_sealed := true; si_size_limit := si_size_limit t |}.

Lemma seal_info_wf c nid t mx i : seg_wf c nid t -> seg_wf c nid (seal_info t mx i).
Proof. unfold seg_wf, seal_info. cbn. tauto. Qed.

Lemma sealed_ok_of_tail c d t f mx i :
  tail_ok c d t -> lookup (name_of t) (dk_files d) = Some f -> df_pend f = None -> df_seal f <> 0 ->
  si_min t <= mx -> mx + 1 <= si_base t + llen (df_ents f) ->
  sealed_ok d (seal_info t mx i).
Proof.
  intros (Hu & Ht) Hf Hp Hse Hmin Hmx. rewrite Hf in Ht.
  destruct Ht as ((F1 & F2 & F3 & F4 & F5) & _ & Hd & _).
  unfold sealed_ok. cbn [seal_info si_sealed si_min si_max si_base].
  split; [reflexivity|]. split; [exact Hmin|]. exists f.
  change (name_of (seal_info t mx i)) with (name_of t).
  split; [exact Hf|]. specialize (F5 Hse).
  split; [destruct (df_dir f); [reflexivity|exfalso; apply F5; apply Hd; reflexivity]|].
  split; [exact Hp|]. split; [apply F4; exact F5|exact Hmx].
Qed.

Lemma seg_visible_seal_info d t mx i :
  1 <= si_base t -> si_base t <= si_min t -> si_min t <= mx ->
  seg_visible 0 d (seal_info t mx i) = firstn (N.to_nat (mx - si_min t + 1)) (tail_es d t).
Proof.
  intros Hb Hbm Hm. unfold seg_visible, tail_es. cbn [seal_info si_sealed si_max si_min si_base].
  change (name_of (seal_info t mx i)) with (name_of t).
  destruct ((mx =? 0) || (mx <? si_min t)) eqn:E; [lia|reflexivity].
Qed.

Lemma tail_es_length c d t f :
  si_base t <= si_min t -> tail_ok c d t -> lookup (name_of t) (dk_files d) = Some f ->
  llen (tail_es d t) + si_min t = si_base t + llen (cur_ents f) \/
  (llen (cur_ents f) = 0 /\ tail_es d t = []).
Proof.
  intros Hbm (Hu & Ht) Hf. rewrite Hf in Ht. destruct Ht as (_ & _ & _ & _ & He & _).
  pose proof (llen_df_le_cur f) as Hle.
  unfold tail_es, file_ents. rewrite Hf.
  destruct (llen (cur_ents f) =? 0) eqn:Z.
  - right. split; [lia|]. apply skipn_all2. unfold llen in Z. lia.
  - left. unfold llen. rewrite skipn_length. unfold llen in *.
    destruct (N.of_nat (length (df_ents f)) =? 0) eqn:Z2; lia.
Qed.
