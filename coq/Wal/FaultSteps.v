(* FaultSteps.v -- the pending rotation with an injected I/O error; the calls
   that are refused (failed or sealed WAL); the stable store. *)
From RW Require Import Base.Bytes Base.BytesFacts Fmt.Codec Fmt.CodecFacts Fmt.Frame Wal.Model Wal.Spec Wal.Hist Wal.FaultHist
  Wal.CrashInv Wal.CrashFacts0 Wal.CrashFacts1 Wal.CrashFacts2 Wal.CrashFacts3 Wal.CrashFacts4 Wal.CrashFacts5
  Wal.CrashFacts6 Wal.CrashGlue Wal.CrashCalls1 Wal.CrashCalls2 Wal.CrashCalls3 Wal.CrashCalls4 Wal.CrashCalls5 Wal.CrashCalls6
  Wal.CrashCalls7 Wal.CrashCalls8 Wal.CrashCalls9 Wal.CrashCalls10 Wal.FaultSim Wal.FaultSim2 Wal.FaultInv Wal.FaultFacts2
  Wal.FaultFacts3 Wal.FaultNames Wal.FaultStore Wal.FaultDelete Gen.Constants.
From Coq Require Import ZifyN ZifyNat ZifyBool.
Open Scope N_scope.

Lemma set_rot_id w : set_rot w (st_rotate w) = w.
Proof. destruct w; reflexivity. Qed.

(* ------------------------------------------------------------------ *)
(* the rotation a mutating call waits for                               *)
Lemma live_settle c nb w e nom alts defer :
  cfg_ok c -> nb + 1 < two64 -> Live c nb w (e_disk e) defer -> sp_of (sh (e_disk e)) = nom -> In nom alts ->
  exists w1 e1, settle c {| ss_wal := w; ss_env := e |} = {| ss_wal := w1; ss_env := e1 |} /\ st_closed w1 = false /\
    ((Live c (nb + 1) w1 (e_disk e1) defer /\ st_rotate w1 = None /\ sp_of (sh (e_disk e1)) = nom /\
      (e_fault e = None -> e_fault e1 = None)) \/
     (e_fault e1 = None /\ st_rotate w1 = None /\
      st_failed w1 = true /\ RV c (nb + 1) w1 (e_disk e1) nom /\
      RD c (nb + 1) (e_disk e1) alts defer)).
Proof.
  intros Hc Hnb HLive Hsp Hin. pose proof HLive as (HL & Hstale). pose proof (LInv_closed _ _ _ _ HL) as Hcl.
  unfold settle. cbn [ss_wal ss_env]. destruct (st_rotate w) as [istart|] eqn:Er.
  2:{ exists w, e. split; [reflexivity|]. split; [exact Hcl|]. left.
      split; [eapply Live_mono; [| |exact HLive]; [lia|apply incl_refl]|]. auto. }
  destruct (LInv_view _ _ _ _ HL) as (S & t & f0 & tw & V).
  pose proof (lv_rot _ _ _ _ _ _ _ _ V) as Hrot. rewrite Er in Hrot.
  assert (Hse : 0 < df_seal f0 /\ istart = df_seal f0).
  { destruct (0 <? df_seal f0) eqn:Z; [inversion Hrot; split; [lia|reflexivity]|discriminate]. }
  destruct Hse as (Hse & ->).
  pose proof (lv_tw _ _ _ _ _ _ _ _ V) as (Tn & _ & _ & _ & _ & _ & Ti & _).
  (* a sealed tail carries no stale batch: every pending batch sits in an unlisted file *)
  assert (HSU : stale_unlisted (e_disk e)).
  { intros n f p Hl Hp. destruct (Hstale n f p Hl Hp) as [(t2 & Ht2 & -> & (Hz & _))|K]; [exfalso|exact K].
    assert (t2 = t) by (rewrite (lv_segs _ _ _ _ _ _ _ _ V), tail_info_app in Ht2; inversion Ht2; reflexivity). subst t2.
    pose proof (lv_file _ _ _ _ _ _ _ _ V) as K. unfold sh in K. rewrite lookup_map_files, Hl in K. cbn in K. inversion K; subst f0. cbn in Hse. lia. }
  destruct (live_shadow c nb w e defer HLive) as (HR & _ & Hex & _).
  set (X := stale_names (e_disk e)) in *. set (d := e_disk e) in *. set (ec := shenv e) in *.
  assert (HXu : forall n, In n X -> unlisted d n).
  { intros n Hx. destruct (stale_names_in _ n (LInv_NoDup_sh _ _ _ _ HL) Hx) as (f & p & Hl & Hp). apply (HSU n f p Hl Hp). }
  destruct (rotate_ok c nb w ec (df_seal f0) Hc HL eq_refl Hnb Er) as (wc' & ec' & Hrc & HL' & Hr' & Hsp' & Hext).
  destruct (rotate c w e) as [w' e'] eqn:Erot. exists w', e'. split; [reflexivity|].
  destruct (rotate_sub _ _ _ _ _ Erot) as (_ & Hms).
  assert (Hgarb : forall n, In n X -> unlisted (e_disk e') n).
  { intros n Hx. apply (unlisted_keep c nb w d (e_disk e') n HL (Hex n Hx) (HXu n Hx) Hms). }
  change (e_disk ec) with (sh d) in Hsp', Hext. rewrite Hsp in Hsp', Hext.
  destruct (rotate_lock X c w e ec w' e' wc' ec' HR Erot Hrc) as [(-> & HR')|(Hf' & _ & _ & -> & [Hd|[(ps & Hpc)|Hfl0]])];
    [| | |destruct HL' as (_ & K & _); congruence].
  - split; [apply (LInv_closed _ _ _ _ HL')|]. left.
    destruct (Rd_live c (nb + 1) _ wc' e' ec ec' X [] defer Hext HL' (Rd_of_R _ _ _ _ HR')) as (HLv & Hsps).
    { intros n f p Hx _ _ _. right. apply Hgarb. exact Hx. }
    rewrite Hsp' in Hsps.
    split; [exact HLv|]. split; [exact Hr'|]. split; [exact Hsps|].
    intros Hfe. (* without an armed fault the rotation cannot fail *)
    unfold rotate in Erot. rewrite Er, Hcl in Erot.
    destruct (tail_info (st_segs w)); [|inversion Erot; subst; exact Hfe].
    destruct (create_next _ _ _ _) as [[nid segs2] si].
    match type of Erot with context [mutate ?w0 ?t0 ?e0] => destruct (mutate w0 t0 e0) as [[r1 w1] e1] eqn:Em;
      pose proof (sh_mutate w0 t0 e0 r1 w1 e1 Hfe Em) as (_ & K) end.
    inversion Erot; subst. exact K.
  - (* the commit failed: the tail stays sealed, no rotation pending *)
    split; [exact Hcl|]. right. split; [exact Hf'|]. split; [reflexivity|]. rewrite Hd.
    + split; [reflexivity|]. split; [|
        assert (HRD0 : RD c nb d alts defer) by (apply (live_RD c nb w d alts defer HLive); rewrite Hsp; exact Hin);
        eapply RD_mono; [| | |exact HRD0]; [lia|apply incl_refl|apply incl_refl]].
      apply (RV_ext c (nb + 1) (rot_none w)); [reflexivity|reflexivity|]. rewrite <- Hsp. apply RV_of_seal.
      exists tw. split; [apply (lv_tail _ _ _ _ _ _ _ _ V)|]. split; [lia|]. split; [reflexivity|].
      split; [|exact HSU]. rewrite Ti.
      replace (set_rot (rot_none w) (Some (df_seal f0))) with w; [eapply LInv_mono; [|exact HL]; lia|].
      rewrite <- (set_rot_id w) at 1. rewrite Er. reflexivity.
  - (* committed, but the new tail could not be created *)
    split; [exact Hcl|]. right. split; [exact Hf'|]. split; [reflexivity|].
    assert (Hmd' : dk_meta (e_disk e') = Some ps).
    { destruct Hpc as (dm & (_ & M & _) & _ & Hm & _). rewrite M. exact Hm. }
    destruct (fail_after_commit c nb (nb + 1) (set_failed (rot_none w)) w (sh d) (e_disk e') X nom alts defer ps ec ec' ltac:(lia) HL eq_refl Hsp eq_refl eq_refl eq_refl eq_refl Hcl Hpc)
      as (HM & HRD).
    + intros dm Hp. destruct (ext_pfx _ _ _ _ Hext Hp) as (HDm & HAm & _). split; [exact HDm|].
      apply cand_alts. rewrite <- HAm. exact Hin.
    + intros n Hx. right. intros s Hs. apply (HXu n Hx (persistent w) s (live_meta c nb w d HL) Hs).
    + intros n s Hx Hs. apply (Hgarb n Hx ps s Hmd' Hs).
    + split; [reflexivity|]. split; [|exact HRD].
      destruct HM as [(K & _)|(_ & [(K & _)|(_ & _ & K)])]; [cbn in K; congruence| |exact K].
      destruct K as ((_ & K & _) & _). cbn in K. discriminate.
Qed.

(* ------------------------------------------------------------------ *)
(* refused calls                                                        *)
Lemma store_nil_accepts a : spec_accepts a (OStore []) = Some a.
Proof. unfold spec_accepts. cbn. destruct a; reflexivity. Qed.

Lemma delete_empty_accepts a mn mx : mx < mn -> spec_accepts a (ODelete mn mx) = Some a.
Proof.
  intros H. unfold spec_accepts. cbn [step_spec]. unfold spec_delete. replace (mx <? mn) with true by lia. cbn. destruct a; reflexivity.
Qed.

Lemma failed_store c w e ls : st_closed w = false -> st_failed w = true ->
  store_logs c w ls e = (match ls with [] => ROk | _ => RErrFailed end, w, e).
Proof. intros Hc Hf. unfold store_logs. rewrite Hc. destruct ls; [reflexivity|]. rewrite Hf. reflexivity. Qed.

Lemma failed_delete c w e mn mx : st_closed w = false -> st_failed w = true ->
  delete_range c w mn mx e = ((if mx <? mn then ROk else RErrFailed), w, e).
Proof. intros Hc Hf. unfold delete_range. rewrite Hc. destruct (mx <? mn); [reflexivity|]. rewrite Hf. reflexivity. Qed.

Lemma app_op_noop o alts : (forall a, spec_accepts a o = Some a) -> app_op o alts = alts.
Proof.
  intros H. unfold app_op. induction alts as [|a l IH]; [reflexivity|]. cbn [flat_map]. rewrite (H a), IH. reflexivity.
Qed.

(* a sealed tail without a pending rotation: appends are refused without I/O *)
Lemma seal_store c nb w e ls : Seal c nb w (e_disk e) -> ls <> [] ->
  exists r, store_logs c w ls e = (r, w, e) /\ r <> ROk.
Proof.
  intros (tw & Htw & Hidx & Hrot & HL & HN) Hne.
  destruct (LInv_view _ _ _ _ HL) as (S & t & f0 & tw' & V).
  assert (tw' = tw) by (pose proof (lv_tail _ _ _ _ _ _ _ _ V) as K; cbn in K; congruence). subst tw'.
  pose proof (lv_closed _ _ _ _ _ _ _ _ V) as Hcl. pose proof (lv_failed _ _ _ _ _ _ _ _ V) as Hfl. cbn in Hcl, Hfl.
  pose proof (lv_segs _ _ _ _ _ _ _ _ V) as Hsegs. cbn in Hsegs.
  pose proof (lv_tw _ _ _ _ _ _ _ _ V) as (Tn & Tb & _ & _ & Tnn & _ & Ti & Tc).
  pose proof (lv_twf V) as (_ & _ & Hb1 & _).
  (* the sealed tail is not empty, so the log is not empty *)
  assert (Hlast : 0 < ws_commit_idx tw).
  { pose proof (lv_tok _ _ _ _ _ _ _ _ V) as (_ & Ht'). rewrite (lv_file _ _ _ _ _ _ _ _ V) in Ht'.
    destruct Ht' as ((_ & _ & _ & _ & F5) & _). rewrite <- Ti in F5. specialize (F5 ltac:(lia)). apply llen_pos in F5.
    rewrite Tc. unfold tl_of. destruct (llen (df_ents f0) =? 0) eqn:Z; lia. }
  rewrite store_logs_unfold, Hcl. destruct ls as [|l0 ls']; [congruence|]. rewrite Hfl. cbv zeta.
  rewrite Hsegs, tail_info_app, Htw. unfold last_index. cbn [tail_last]. replace (0 <? ws_commit_idx tw) with true by lia.
  replace (ws_commit_idx tw =? 0) with false by lia. cbn [andb].
  unfold store_go. destruct (check_logs _ _) as [res nb0].
  destruct res; try (eexists; split; [reflexivity|discriminate]).
  rewrite Htw, seg_append_eq. replace (0 <? ws_index_start tw) with true by lia.
  eexists; split; [reflexivity|discriminate].
Qed.

(* ------------------------------------------------------------------ *)
(* the stable store                                                     *)
Definition set_kv (k v : bytes) (a : spst) : spst := {| sp_log := sp_log a; sp_kv := kv_set k v (sp_kv a) |}.

Lemma sp_of_set d k v : sp_of (apply_act d (ASetStable k v)) = set_kv k v (sp_of d).
Proof. rewrite sp_of_setstable. reflexivity. Qed.

Lemma sh_setstable d k v : sh (apply_act d (ASetStable k v)) = apply_act (sh d) (ASetStable k v).
Proof. reflexivity. Qed.
Lemma ad_setstable d k v : ad (apply_act d (ASetStable k v)) = apply_act (ad d) (ASetStable k v).
Proof. reflexivity. Qed.

Lemma LInv_setstable c nb w d k v : LInv c nb w d -> LInv c nb w (apply_act d (ASetStable k v)).
Proof. apply LInv_same; reflexivity. Qed.

Lemma stale_tail_ok_files c w d d' defer : dk_files d' = dk_files d -> dk_meta d' = dk_meta d ->
  stale_tail_ok c w d defer -> stale_tail_ok c w d' defer.
Proof.
  intros Hf Hm H n f p Hl Hp. rewrite Hf in Hl. destruct (H n f p Hl Hp) as [K|K]; [left; exact K|right].
  eapply unlisted_meta; [exact Hm|exact K].
Qed.

Lemma stale_unlisted_files d d' : dk_files d' = dk_files d -> dk_meta d' = dk_meta d -> stale_unlisted d -> stale_unlisted d'.
Proof. intros Hf Hm H n f p Hl Hp. rewrite Hf in Hl. eapply unlisted_meta; [exact Hm|]. apply (H n f p Hl Hp). Qed.

Lemma Mode_setstable c nb w d nom defer k v :
  Mode c nb w d nom defer -> Mode c nb w (apply_act d (ASetStable k v)) (if st_closed w then nom else set_kv k v nom) defer.
Proof.
  intros [(Hcl & Hr)|(Hcl & HM)]; rewrite Hcl; [left; auto|right]. split; [exact Hcl|].
  destruct HM as [((HL & Hst) & Hsp)|(Hf & Hr & (wc & dc & HL & Hsp & Hs & Ht & Hlk & Hstb & ND & Hlast))].
  - left. split; [split; [rewrite sh_setstable; apply LInv_setstable; exact HL|eapply stale_tail_ok_files; [| |exact Hst]; reflexivity]|].
    rewrite sh_setstable, sp_of_set, Hsp. reflexivity.
  - right. split; [exact Hf|]. split; [exact Hr|].
    exists wc, (apply_act dc (ASetStable k v)). split; [apply LInv_setstable; exact HL|]. split; [rewrite sp_of_set, Hsp; reflexivity|].
    split; [exact Hs|]. split; [exact Ht|]. split; [exact Hlk|]. split; [cbn [apply_act dk_stable]; rewrite Hstb; reflexivity|].
    split; [exact ND|exact Hlast].
Qed.

Lemma store_set_commute a ls x k v : spec_accepts a (OStore ls) = Some x -> spec_accepts (set_kv k v a) (OStore ls) = Some (set_kv k v x).
Proof.
  unfold spec_accepts. cbn [step_spec set_kv sp_log sp_kv]. destruct (spec_store (sp_log a) ls); intros E; inversion E; reflexivity.
Qed.

Lemma RD_setstable c nb d alts defer nom k v nl :
  key_ok k = true -> Forall dop_ok defer -> RD c nb d alts defer ->
  RD c nb (apply_act d (ASetStable k v)) (set_kv k v nom :: app_op (OSet k v nl) alts) defer.
Proof.
  intros Hk Hdef (HD & Hin). split; [rewrite ad_setstable; apply DIs_setstable; exact HD|].
  rewrite ad_setstable, sp_of_set.
  assert (Hacc : forall a, spec_accepts a (OSet k v nl) = Some (set_kv k v a)) by (intros a; unfold spec_accepts; cbn [step_spec]; rewrite Hk; reflexivity).
  destruct (cand_inv _ _ _ Hin) as [K|(a & o & Ka & Ko & E)].
  - apply cand_alts. right. eapply in_app_op; [exact K|apply Hacc].
  - rewrite Forall_forall in Hdef. destruct (Hdef o Ko) as (_ & ls & ->).
    eapply cand_defer; [right; eapply in_app_op; [exact Ka|apply Hacc]|exact Ko|]. apply store_set_commute. exact E.
Qed.

Lemma set_step c nb w e nom alts defer k v nl :
  st_closed w = false -> Mode c nb w (e_disk e) nom defer -> RD c nb (e_disk e) alts defer -> In nom alts -> Forall dop_ok defer ->
  exists r e', set_stable w k v nl e = (r, e') /\
    ((r = ROk /\ exists nom', spec_accepts nom (OSet k v nl) = Some nom' /\
        Mode c nb w (e_disk e') nom' defer /\ RD c nb (e_disk e') (nom' :: app_op (OSet k v nl) alts) defer) \/
     (r <> ROk /\ e_disk e' = e_disk e) \/
     (* the write was reported as failed and found applied *)
     (r <> ROk /\ exists nom', spec_accepts nom (OSet k v nl) = Some nom' /\
        Mode c nb w (e_disk e') nom' defer /\ RD c nb (e_disk e') (nom' :: app_op (OSet k v nl) alts) defer)).
Proof.
  intros Hcl HM HRD Hin Hdef. unfold set_stable. rewrite Hcl.
  destruct (key_ok k) eqn:Hk; cbn [negb].
  - assert (Happ : forall e1, e_disk e1 = apply_act (e_disk (inc_stable e true)) (ASetStable k v) ->
              exists nom', spec_accepts nom (OSet k v nl) = Some nom' /\
                Mode c nb w (e_disk e1) nom' defer /\ RD c nb (e_disk e1) (nom' :: app_op (OSet k v nl) alts) defer).
    { intros e1 D. exists (set_kv k v nom).
      split; [unfold spec_accepts; cbn [step_spec]; rewrite Hk; reflexivity|]. rewrite D. change (e_disk (inc_stable e true)) with (e_disk e).
      split; [|apply RD_setstable; assumption].
      pose proof (Mode_setstable c nb w (e_disk e) nom defer k v HM) as K. rewrite Hcl in K. exact K. }
    destruct (io_cases3 (ASetStable k v) (inc_stable e true) eq_refl) as [(e1 & E & D & _)|[(e1 & E & D & _)|(e1 & E & _ & D & _)]]; rewrite E.
    + exists ROk, e1. split; [reflexivity|]. left. split; [reflexivity|]. apply Happ. exact D.
    + exists RErrIO, e1. split; [reflexivity|]. right. left. split; [discriminate|exact D].
    + exists RErrIO, e1. split; [reflexivity|]. right. right. split; [discriminate|]. apply Happ. exact D.
  - destruct nl.
    + exists ROk, (inc_stable e true). split; [reflexivity|]. left. split; [reflexivity|]. exists nom.
      assert (Hacc : forall a, spec_accepts a (OSet k v true) = Some a) by (intros a; unfold spec_accepts; cbn [step_spec]; rewrite Hk; reflexivity).
      split; [apply Hacc|]. split; [exact HM|]. rewrite (app_op_noop _ _ Hacc).
      eapply RD_mono; [| | |exact HRD]; [lia|intros x Hx; right; exact Hx|apply incl_refl].
    + exists RErrOther, (inc_stable e true). split; [reflexivity|]. right. left. split; [discriminate|reflexivity].
Qed.

Lemma RD_seal c nb w d alts defer : Seal c nb w d -> In (sp_of (sh d)) alts -> RD c nb d alts defer.
Proof.
  intros (tw & A & B & C & HL & HN) Hin. pose proof (LInv_NoDup_sh _ _ _ _ HL) as ND.
  apply (RD_rel c nb d (sh d) (stale_names d) alts defer).
  - apply HL.
  - apply no_pend_sh.
  - apply drel_sh; [exact ND|apply stale_names_ok].
  - intros n Hx. destruct (stale_names_in _ n ND Hx) as (f & p & Hl & Hp). apply (unlisted_meta d (sh d) n eq_refl). apply (HN n f p Hl Hp).
  - apply cand_alts. exact Hin.
Qed.
