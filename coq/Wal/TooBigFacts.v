(* TooBigFacts.v -- WAL level half of C15: a batch containing an entry whose
   encoding exceeds MaxEntrySize is never acknowledged by StoreLogs, in any state
   (also after the reset of an empty first segment, also with an armed fault). *)
From RW Require Import Base.Bytes Fmt.Codec Fmt.Frame Wal.Model Gen.Constants.
Open Scope N_scope.

Definition has_too_big (ls : list log) : bool := existsb (fun l => MaxEntrySize <? enc_len l) ls.

Lemma seg_append_too_big tw ls e :
  has_too_big ls = true -> fst (fst (seg_append tw ls e)) <> ROk.
Proof.
  unfold has_too_big, seg_append. intros H.
  destruct ls as [|l0 r]; [discriminate H|].
  destruct (0 <? ws_index_start tw); [cbn; discriminate|].
  rewrite H. cbn. discriminate.
Qed.

Ltac go_case H :=
  match goal with
  | |- context [check_logs ?a ?b] =>
      let res := fresh "res" in let nb := fresh "nbytes" in
      destruct (check_logs a b) as [res nb]; destruct res; try (cbn; discriminate)
  end;
  match goal with
  | |- context [match st_tail ?w0 with _ => _ end] => destruct (st_tail w0); [|cbn; discriminate]
  end;
  match goal with
  | |- context [seg_append ?tw ?ls ?e0] =>
      let Ha := fresh "Ha" in let r0 := fresh "r" in
      pose proof (seg_append_too_big tw ls e0 H) as Ha;
      destruct (seg_append tw ls e0) as [[r0 ?] ?]; cbn in Ha;
      destruct r0; cbn; try discriminate; contradiction
  end.

Theorem store_logs_too_big c w ls e :
  has_too_big ls = true -> fst (fst (store_logs c w ls e)) <> ROk.
Proof.
  intros H. unfold store_logs.
  destruct (st_closed w); [cbn; discriminate|].
  destruct ls as [|l0 r] eqn:El; [discriminate H|]. rewrite <- El in *.
  destruct (st_failed w); [cbn; discriminate|].
  cbv zeta.
  destruct (tail_info (st_segs w)) as [ti|]; [|cbn; discriminate].
  destruct ((last_index (st_segs w) (st_tail w) =? 0) && negb (l_index l0 =? si_base ti)).
  - destruct (reset_first c w (l_index l0) e) as [[[r0 w1] e1] dels].
    destruct r0; try (cbn; discriminate).
    go_case H.
  - go_case H.
Qed.
