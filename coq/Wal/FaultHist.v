(* FaultHist.v -- histories with injected I/O errors (C10): the executable
   acceptance predicate and the statement.  Definitions only. *)
From RW Require Import Base.Bytes Fmt.Codec Fmt.Frame Wal.Model Wal.Spec Wal.Hist Gen.Constants.
Open Scope N_scope.

Inductive fstep :=
| FOp (fault : option nat) (fx : fxmode) (o : sop)
     (* the call runs with: the (n+1)-th I/O action from now fails; and, while that fault
        is armed, the modes fx: every file deletion fails / the directory listing of an
        Open fails / a failing file creation leaves the empty file behind.  A call in
        which only the modes are to bite is given a count no call reaches. *)
| FRestart.                            (* the process stops (no power loss) and the WAL is opened again *)

Record fstate := {
  fs_s : sstate;
  fs_nom : spst;            (* the state readers of the running process must see: calls
                               that returned an error are not applied                   *)
  fs_alts : list spst;      (* states a reopen may legitimately present: every call that
                               returned an error applied in full (in place) or not at all *)
  fs_defer : list sop;      (* StoreLogs calls that returned an error since the last restart:
                               the bytes of one of them may still sit, complete, behind the
                               last commit of the tail file and are then adopted by the next
                               recovery, i.e. the call is applied in full at that point     *)
  fs_ok : bool }.

Definition with_fault (s : sstate) (f : option nat) (fx : fxmode) : sstate :=
  {| ss_wal := ss_wal s;
     ss_env := {| e_acts := e_acts (ss_env s); e_disk := e_disk (ss_env s); e_fault := f; e_fx := fx;
                  e_m := e_m (ss_env s) |} |}.

Definition is_mutating (o : sop) : bool :=
  match o with OStore _ | ODelete _ _ | OSet _ _ _ => true | _ => false end.

Definition spec_accepts (sp : spst) (o : sop) : option spst :=
  match step_spec sp o with
  | (ROk, sp') => Some sp'
  | _ => None
  end.

Definition observed (s : sstate) : spst :=
  {| sp_log := abs (ss_wal s) (e_disk (ss_env s)); sp_kv := dk_stable (e_disk (ss_env s)) |}.

(* states a recovery may present: an alternative, or an alternative with one of the
   failed StoreLogs applied at the time of the restart *)
Definition candidates (alts : list spst) (defer : list sop) : list spst :=
  alts ++ flat_map (fun a => flat_map (fun o => match spec_accepts a o with Some a' => [a'] | None => [] end) defer) alts.

Definition matches (got : spst) (alts : list spst) : option spst :=
  find (spst_eqb got) alts.

Definition fstep_run (c : cfg) (h : fstate) (st : fstep) : fstate :=
  match st with
  | FOp f fx o =>
      (* Open adopts whatever complete unsynced batch sits in the tail file *)
      let s_in := match o with
                  | OReopen => {| ss_wal := ss_wal (fs_s h);
                                  ss_env := {| e_acts := e_acts (ss_env (fs_s h));
                                               e_disk := adopt_disk (e_disk (ss_env (fs_s h)));
                                               e_fault := None; e_fx := fx_none; e_m := e_m (ss_env (fs_s h)) |} |}
                  | _ => fs_s h
                  end in
      let '(r, s1) := step_model c (with_fault s_in f fx) o in
      let s' := with_fault s1 None fx_none in
      match o with
      | OReopen =>
          match r with
          | ROk =>
              match matches (observed s') (candidates (fs_alts h) (fs_defer h)) with
              | Some sp => {| fs_s := s'; fs_nom := sp; fs_alts := [sp]; fs_defer := []; fs_ok := fs_ok h |}
              | None => {| fs_s := s'; fs_nom := fs_nom h; fs_alts := fs_alts h; fs_defer := fs_defer h; fs_ok := false |}
              end
          | _ => (* a failed Open is only legitimate if a fault was injected into it *)
              {| fs_s := s'; fs_nom := fs_nom h; fs_alts := fs_alts h; fs_defer := fs_defer h;
                 fs_ok := fs_ok h && match f with Some _ => true | None => false end |}
          end
      | _ =>
          if st_closed (ss_wal (fs_s h)) then
            (* no WAL (an earlier Open failed): every call returns an error, nothing changes *)
            {| fs_s := s'; fs_nom := fs_nom h; fs_alts := fs_alts h; fs_defer := fs_defer h;
               fs_ok := fs_ok h && negb (result_eqb (res_class r) ROk) |}
          else if is_mutating o then
            match r with
            | ROk =>
                match spec_accepts (fs_nom h) o with
                | Some nom' =>
                    {| fs_s := s'; fs_nom := nom';
                       fs_alts := nom' :: flat_map (fun a => match spec_accepts a o with Some a' => [a'] | None => [] end) (fs_alts h);
                       fs_defer := fs_defer h;
                       fs_ok := fs_ok h && spst_eqb (observed s') nom' |}
                | None => {| fs_s := s'; fs_nom := fs_nom h; fs_alts := fs_alts h; fs_defer := fs_defer h; fs_ok := false |}
                end
            | _ =>
                (* a stable Set that returns an error may have taken effect (BoltDB: the
                   transaction is written, its last fsync fails); readers then see the new
                   value.  Every other failed call is invisible in the running process *)
                let nom1 := match o, spec_accepts (fs_nom h) o with
                            | OSet _ _ _, Some nom' => if spst_eqb (observed s') nom' then nom' else fs_nom h
                            | _, _ => fs_nom h
                            end in
                {| fs_s := s'; fs_nom := nom1;
                   fs_alts := fs_alts h ++ flat_map (fun a => match spec_accepts a o with Some a' => [a'] | None => [] end) (fs_alts h);
                   fs_defer := match o with OStore _ => o :: fs_defer h | _ => fs_defer h end;
                   fs_ok := fs_ok h && spst_eqb (observed s') nom1
                            (* without an injected fault an accepted call must not fail,
                               unless an earlier fault left the WAL refusing writes *)
                 |}
            end
          else
            let '(r', _) := step_spec (fs_nom h) o in
            {| fs_s := s'; fs_nom := fs_nom h; fs_alts := fs_alts h; fs_defer := fs_defer h;
               fs_ok := fs_ok h && result_eqb (res_class r) r' |}
      end
  | FRestart =>
      let s_re := {| ss_wal := ss_wal (fs_s h);
                     ss_env := {| e_acts := e_acts (ss_env (fs_s h)); e_disk := adopt_disk (e_disk (ss_env (fs_s h)));
                                  e_fault := None; e_fx := fx_none; e_m := e_m (ss_env (fs_s h)) |} |} in
      let '(r, s1) := step_model c s_re OReopen in
      match r with
      | ROk =>
          match matches (observed s1) (candidates (fs_alts h) (fs_defer h)) with
          | Some sp => {| fs_s := s1; fs_nom := sp; fs_alts := [sp]; fs_defer := []; fs_ok := fs_ok h |}
          | None => {| fs_s := s1; fs_nom := fs_nom h; fs_alts := fs_alts h; fs_defer := fs_defer h; fs_ok := false |}
          end
      | _ => {| fs_s := s1; fs_nom := fs_nom h; fs_alts := fs_alts h; fs_defer := fs_defer h; fs_ok := false |}
      end
  end.

Definition fault_run (c : cfg) (h : fstate) (steps : list fstep) : fstate := fold_left (fstep_run c) steps h.

Definition fstep_wf (st : fstep) : Prop :=
  match st with FOp _ _ o => sop_ok o | FRestart => True end.

Definition fault_init (s0 : sstate) : fstate :=
  let e := {| sp_log := sl_empty; sp_kv := [] |} in
  {| fs_s := s0; fs_nom := e; fs_alts := [e]; fs_defer := []; fs_ok := true |}.

(* C10: for every history of calls in which any I/O action (write, fsync, create --
   with or without leaving the empty file behind --, metadata commit, stable write --
   the last two with or without taking effect although they report the failure --)
   fails, and/or every file deletion of a call fails, and/or the directory listing of
   an Open fails,
     - readers of the running process always see exactly the state in which the
       calls that returned nil are applied and those that returned an error are not
       (no acknowledged entry lost or altered; nothing of a failed StoreLogs visible);
       only a stable Set that returned an error may show its value
     - a call that returned nil was acceptable to the specification
     - after a restart or a clean reopen the WAL opens and presents a state in which
       every call that returned an error is applied in full or not at all. *)
Definition fault_safety_stmt : Prop :=
  forall c steps s0, cfg_ok c -> Forall fstep_wf steps -> short_enough steps -> initial c = Some s0 ->
    fs_ok (fault_run c (fault_init s0) steps) = true.
