(* MetricNames.v -- every metric name emitted in the source (Gen/Facts.v,
   regenerated from /repo on every run) is declared in the published
   MetricDefinitions with the right kind; definitions have no duplicates. *)
From RW Require Import Base.Bytes Base.BytesFacts Gen.Facts.
Open Scope N_scope.

Definition name_in (n : list N) (l : list (list N)) : bool := existsb (beq_bytes n) l.

Definition site_declared (counters gauges : list (list N)) (s : site) : bool :=
  match s with
  | Lit true n => name_in n counters
  | Lit false n => name_in n gauges
  | NonLit => false
  end.

Fixpoint nodupb (l : list (list N)) : bool :=
  match l with
  | [] => true
  | x :: r => negb (name_in x r) && nodupb r
  end.

(* the bundled AtomicCollector panics on an undeclared name and on duplicates *)
Definition names_declared : bool :=
  forallb (site_declared wal_counters wal_gauges) wal_sites
  && forallb (site_declared vfy_counters vfy_gauges) vfy_sites
  && nodupb (wal_counters ++ wal_gauges) && nodupb (vfy_counters ++ vfy_gauges)
  && nodupb (wal_counters ++ wal_gauges ++ vfy_counters ++ vfy_gauges)
  && negb (Nat.eqb (length wal_sites) 0) && negb (Nat.eqb (length vfy_sites) 0).

Lemma names_declared_true : names_declared = true.
Proof. vm_compute. reflexivity. Qed.

Lemma site_declared_sound counters gauges sites :
  forallb (site_declared counters gauges) sites = true ->
  forall s, In s sites ->
    match s with
    | Lit true n => exists d, In d counters /\ d = n
    | Lit false n => exists d, In d gauges /\ d = n
    | NonLit => False
    end.
Proof.
  intros H s Hs. rewrite forallb_forall in H. specialize (H s Hs).
  destruct s as [b n|]; [destruct b|]; cbn in H; try discriminate;
    unfold name_in in H; apply existsb_exists in H; destruct H as (d & Hd & He);
    apply beq_bytes_eq in He; exists d; (split; [exact Hd | symmetry; exact He]).
Qed.
