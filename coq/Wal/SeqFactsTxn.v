(* SeqFactsTxn.v -- state transactions without faults: segment creation,
   mutateState, the state with a freshly created tail, frame lemmas. *)
From RW Require Import Base.Bytes Base.BytesFacts Fmt.Codec Fmt.CodecFacts Fmt.Frame
  Wal.Model Wal.Spec Wal.SeqInv Wal.SeqFactsBase Wal.SeqFactsAbs Gen.Constants.
From Coq Require Import ZifyN ZifyNat ZifyBool.
Open Scope N_scope.

Definition wal_with (nid : N) (segs : list seginfo) (tl : option wseg) (w : wal) : wal :=
  {| st_next_id := nid; st_segs := segs; st_tail := tl; st_rotate := st_rotate w;
     st_failed := st_failed w; st_closed := st_closed w |}.

Lemma cfg_seg_size c : cfg_ok c -> c_seg_size c mod two32 = c_seg_size c /\ c_seg_size c < two30.
Proof.
  intros (_ & _ & H1 & H2). split; [|exact H2]. apply N.mod_small. unfold two30, two32 in *. lia.
Qed.

Lemma seg_create_ok si e :
  e_fault e = None -> si_base si <> 0 -> lookup (name_of si) (dk_files (e_disk e)) = None ->
  seg_create si e = (Some (new_wseg si), io_post (ACreate (name_of si) (si_size_limit si)) e).
Proof.
  intros He Hb Hl. unfold seg_create. destruct (N.eqb_spec (si_base si) 0); [contradiction|].
  rewrite Hl, (io_ok _ _ He). reflexivity.
Qed.

Definition commit_env (nid : N) (segs : list seginfo) (e : env) : env :=
  io_post (ACommit {| ps_next_id := nid; ps_segs := segs |}) e.
Definition create_env (si : seginfo) (e : env) : env :=
  io_post (ACreate (name_of si) (si_size_limit si)) e.

Lemma mutate_gen_none defer w t e :
  e_fault e = None -> tx_create t = None ->
  mutate_gen defer w t e =
  (ROk, wal_with (tx_next_id t) (tx_segs t) (tx_tail t) w,
   (if defer then commit_env (tx_next_id t) (tx_segs t) e
    else delete_files (tx_delete t) (commit_env (tx_next_id t) (tx_segs t) e)),
   if defer then tx_delete t else []).
Proof.
  intros He Hc. unfold mutate_gen. rewrite (io_ok _ _ He). cbn [negb]. rewrite Hc. reflexivity.
Qed.

Lemma mutate_gen_some defer w t si e :
  e_fault e = None -> tx_create t = Some si -> si_base si <> 0 ->
  lookup (name_of si) (dk_files (e_disk e)) = None ->
  mutate_gen defer w t e =
  (ROk, wal_with (tx_next_id t) (tx_segs t) (Some (new_wseg si)) w,
   (if defer then create_env si (commit_env (tx_next_id t) (tx_segs t) e)
    else delete_files (tx_delete t) (create_env si (commit_env (tx_next_id t) (tx_segs t) e))),
   if defer then tx_delete t else []).
Proof.
  intros He Hc Hb Hl. unfold mutate_gen. rewrite (io_ok _ _ He). cbn [negb]. rewrite Hc.
  fold (commit_env (tx_next_id t) (tx_segs t) e).
  rewrite seg_create_ok; [reflexivity|reflexivity|exact Hb|exact Hl].
Qed.

(* ------------------------------------------------------------------ *)
(* frames                                                               *)
Lemma tail_ok_frame c d d' t tw :
  lookup (name_of t) (dk_files d') = lookup (name_of t) (dk_files d) -> tail_ok c d t tw -> tail_ok c d' t tw.
Proof.
  intros E (H1 & H2 & H3 & H4 & H5 & H6 & H7 & H8 & H9 & H10 & H11 & H12 & H13 & H14 & H15 & H16 & H17
            & f & Hf & Hn).
  repeat split; auto. exists f. split; [eapply file_ok_frame; eauto|exact Hn].
Qed.

Lemma abs_frame w d d' :
  (forall s, In s (st_segs w) -> lookup (name_of s) (dk_files d') = lookup (name_of s) (dk_files d)) ->
  abs w d' = abs w d.
Proof. intros E. unfold abs. rewrite (flat_map_visible_frame _ d d' _ E). reflexivity. Qed.

Lemma WInvS_frame c w d d' ss t tw :
  WInvS c w d ss t tw -> dk_meta d' = dk_meta d -> dk_inited d' = dk_inited d ->
  (forall s, In s (ss ++ [t]) -> lookup (name_of s) (dk_files d') = lookup (name_of s) (dk_files d)) ->
  (forall n, lookup n (dk_files d) = None -> lookup n (dk_files d') = None) ->
  WInvS c w d' ss t tw /\ abs w d' = abs w d.
Proof.
  intros (H1 & H2 & H3 & H4 & H5 & H6 & H7 & H8 & H9 & H10 & H11) Em Ei El En. split.
  - apply WInvS_intro; auto; try congruence.
    + intros n Hn. apply En. apply H5. exact Hn.
    + eapply sealed_ok_frame_all; [|exact H8]. intros s Hs. apply El. apply in_or_app. left. exact Hs.
    + eapply tail_ok_frame; [|exact H9]. apply El. apply in_or_app. right. left. reflexivity.
  - apply abs_frame. rewrite H6. exact El.
Qed.

(* deleting files that are not listed *)
Lemma WInvS_delete_files c w e ss t tw dels :
  WInvS c w (e_disk e) ss t tw -> e_fault e = None ->
  (forall s n, In s (ss ++ [t]) -> In n dels -> fname_eqb (name_of s) n = false) ->
  let e' := delete_files dels e in
  WInvS c w (e_disk e') ss t tw /\ abs w (e_disk e') = abs w (e_disk e) /\ e_fault e' = None /\
  dk_stable (e_disk e') = dk_stable (e_disk e) /\ e_m e' = e_m e.
Proof.
  intros HI He Hd. cbn zeta.
  destruct (delete_files_spec dels e He) as (F1 & F2 & F3 & F4 & F5 & F6 & F7).
  destruct (WInvS_frame c w (e_disk e) (e_disk (delete_files dels e)) ss t tw HI F3 F5) as [G1 G2].
  - intros s Hs. apply F6. intros n Hn. apply Hd; assumption.
  - exact F7.
  - split; [exact G1|]. split; [exact G2|]. split; [exact F1|]. split; [exact F4|exact F2].
Qed.

(* ------------------------------------------------------------------ *)
(* a freshly created, empty tail                                        *)
Lemma new_tail_ok c d id base :
  cfg_ok c -> 1 <= base -> base < two64 ->
  lookup (base, id) (dk_files d) =
    Some {| df_ents := []; df_end := 0; df_seal := 0; df_pend := None; df_dir := false;
            df_size := c_seg_size c mod two32 |} ->
  tail_ok c d (new_segment c id base) (new_wseg (new_segment c id base)).
Proof.
  intros Hc Hb1 Hb2 Hl. destruct (cfg_seg_size c Hc) as [Hs1 Hs2].
  unfold tail_ok, new_wseg, new_segment, name_of.
  cbn [si_sealed si_codec si_size_limit si_base si_min ws_n ws_name ws_base ws_limit ws_min
       ws_commit_idx ws_hdr ws_off ws_index_start si_id].
  rewrite Hs1. repeat split; try reflexivity; try lia; try (unfold two32; lia).
  exists {| df_ents := []; df_end := 0; df_seal := 0; df_pend := None; df_dir := false;
            df_size := c_seg_size c |}.
  split; [|repeat split; reflexivity].
  unfold file_ok, name_of. cbn [si_base si_id df_pend df_ents]. rewrite Hl, Hs1.
  repeat split; constructor.
Qed.

Lemma new_tail_inv c w0 d ss' base :
  cfg_ok c -> 1 <= base -> base < two64 -> st_next_id w0 + 1 < two64 ->
  fresh w0 d -> dk_inited d = true ->
  Forall (sealed_ok c d) ss' ->
  let si := new_segment c (st_next_id w0) base in
  linked (ss' ++ [si]) ->
  st_closed w0 = false -> st_failed w0 = false -> st_rotate w0 = None ->
  let d2 := apply_act (apply_act d (ACommit {| ps_next_id := st_next_id w0 + 1; ps_segs := ss' ++ [si] |}))
                      (ACreate (name_of si) (si_size_limit si)) in
  WInvS c (wal_with (st_next_id w0 + 1) (ss' ++ [si]) (Some (new_wseg si)) w0) d2 ss' si (new_wseg si).
Proof.
  intros Hc Hb1 Hb2 Hn Hf Hi HS si HL Hcl Hfa Hro d2.
  assert (Hnew : lookup (name_of si) (dk_files d) = None) by (apply Hf; cbn; lia).
  assert (Hlk : forall m, lookup m (dk_files d2) =
             if fname_eqb m (name_of si)
             then Some {| df_ents := []; df_end := 0; df_seal := 0; df_pend := None; df_dir := false;
                          df_size := si_size_limit si |}
             else lookup m (dk_files d)).
  { intros m. unfold d2. rewrite lookup_create. reflexivity. }
  apply WInvS_intro; unfold wal_with; cbn [st_closed st_failed st_next_id st_segs st_tail st_rotate]; auto.
  - unfold fresh. cbn [st_next_id]. intros n Hn'. rewrite Hlk.
    rewrite fname_neq_id by (cbn; lia). apply Hf. lia.
  - eapply sealed_ok_frame_all; [|exact HS]. intros s Hs. rewrite Hlk.
    destruct (fname_eqb (name_of s) (name_of si)) eqn:E; [|reflexivity].
    apply fname_eqb_eq in E. rewrite Forall_forall in HS.
    destruct (HS s Hs) as (_ & _ & _ & _ & _ & _ & f & (Hl & _) & _). congruence.
  - apply new_tail_ok; auto. change (base, st_next_id w0) with (name_of si).
    rewrite Hlk, fname_eqb_refl. reflexivity.
Qed.

(* createNextSegment *)
Lemma create_next_snoc c nid l x nb :
  Forall (fun s => si_base s < si_max x + 1) (l ++ [x]) -> si_max x + 1 < two64 -> nid + 1 < two64 ->
  create_next c nid (l ++ [x]) nb =
  (nid + 1, (l ++ [x]) ++ [new_segment c nid (si_max x + 1)], new_segment c nid (si_max x + 1)).
Proof.
  intros HF H1 H2. unfold create_next. rewrite tail_info_snoc.
  rewrite !mod64_small by assumption. rewrite seg_set_add; [reflexivity|exact HF].
Qed.
Lemma create_next_nil c nid nb :
  1 <= nb -> nb < two64 -> nid + 1 < two64 ->
  create_next c nid [] nb = (nid + 1, [new_segment c nid nb], new_segment c nid nb).
Proof.
  intros H0 H1 H2. unfold create_next. cbn [tail_info map last].
  destruct (N.ltb_spec 0 nb); [|lia]. rewrite !mod64_small by assumption. reflexivity.
Qed.

(* the whole transaction that installs a new empty tail after the sealed
   segments ss' *)
Lemma mutate_new_tail c defer w0 e ss' base dels :
  cfg_ok c -> e_fault e = None -> 1 <= base -> base < two64 -> st_next_id w0 + 1 < two64 ->
  fresh w0 (e_disk e) -> dk_inited (e_disk e) = true ->
  Forall (sealed_ok c (e_disk e)) ss' ->
  let si := new_segment c (st_next_id w0) base in
  linked (ss' ++ [si]) ->
  st_closed w0 = false -> st_failed w0 = false -> st_rotate w0 = None ->
  let w' := wal_with (st_next_id w0 + 1) (ss' ++ [si]) (Some (new_wseg si)) w0 in
  let e2 := create_env si (commit_env (st_next_id w0 + 1) (ss' ++ [si]) e) in
  mutate_gen defer w0 {| tx_next_id := st_next_id w0 + 1; tx_segs := ss' ++ [si]; tx_delete := dels;
                         tx_create := Some si; tx_tail := None |} e =
    (ROk, w', (if defer then e2 else delete_files dels e2), if defer then dels else []) /\
  WInvS c w' (e_disk e2) ss' si (new_wseg si) /\ e_fault e2 = None /\
  dk_stable (e_disk e2) = dk_stable (e_disk e) /\ e_m e2 = e_m e /\
  (forall m, fname_eqb m (name_of si) = false ->
             lookup m (dk_files (e_disk e2)) = lookup m (dk_files (e_disk e))).
Proof.
  intros Hc He Hb1 Hb2 Hn Hf Hi HS si HL Hcl Hfa Hro w' e2.
  assert (Hnew : lookup (name_of si) (dk_files (e_disk e)) = None) by (apply Hf; cbn; lia).
  split; [|split; [|repeat split]].
  - rewrite (mutate_gen_some defer w0 _ si e He); [reflexivity|reflexivity| |exact Hnew].
    unfold si. cbn [new_segment si_base]. lia.
  - apply new_tail_inv; assumption.
  - intros m Hm. unfold e2, create_env, commit_env. rewrite !io_post_disk, lookup_create, Hm. reflexivity.
Qed.
