(* CrashCalls7.v -- the scans of truncateHead/truncateTail over a segment list
   and what the new lists read as. *)
From RW Require Import Base.Bytes Base.BytesFacts Fmt.Codec Fmt.CodecFacts Fmt.Frame Wal.Model Wal.Spec Wal.Hist
  Wal.CrashInv Wal.CrashFacts0 Wal.CrashFacts1 Wal.CrashFacts2 Wal.CrashFacts3 Wal.CrashFacts4 Wal.CrashFacts5
  Wal.CrashFacts6 Wal.CrashGlue Wal.CrashCalls1 Wal.CrashCalls3 Wal.CrashCalls4 Wal.CrashCalls6 Gen.Constants.
From Coq Require Import ZifyN ZifyNat ZifyBool.
Open Scope N_scope.

(* ---- lists ---- *)
Lemma skipn_app_exact {A} (X Y : list A) a b : length X = a -> skipn (a + b) (X ++ Y) = skipn b Y.
Proof.
  intros <-. rewrite skipn_app. rewrite skipn_all2 by lia. cbn [app]. f_equal. lia.
Qed.
Lemma firstn_app_exact {A} (X Y : list A) a b : length X = a -> firstn (a + b) (X ++ Y) = X ++ firstn b Y.
Proof.
  intros <-. rewrite firstn_app. rewrite firstn_all2 by lia. f_equal. f_equal. lia.
Qed.

Lemma suffix_split {A} (p : A -> bool) l :
  Forall (fun x => p x = true) l \/
  exists K k D, l = K ++ k :: D /\ p k = false /\ Forall (fun x => p x = true) D.
Proof.
  induction l as [|x l IH]; [left; constructor|].
  destruct IH as [Hall|(K & k & D & -> & Hk & HD)].
  - destruct (p x) eqn:E; [left; constructor; assumption|].
    right. exists [], x, l. auto.
  - right. exists (x :: K), k, D. auto.
Qed.

Lemma prefix_split {A} (p : A -> bool) l :
  Forall (fun x => p x = true) l \/
  exists D h R, l = D ++ h :: R /\ p h = false /\ Forall (fun x => p x = true) D.
Proof.
  induction l as [|x l IH]; [left; constructor|].
  destruct (p x) eqn:E.
  - destruct IH as [Hall|(D & h & R & -> & Hh & HD)].
    + left. constructor; assumption.
    + right. exists (x :: D), h, R. split; [reflexivity|]. split; [exact Hh|constructor; assumption].
  - right. exists [], x, l. auto.
Qed.

(* ---- head_scan ---- *)
Lemma head_scan_skip new_min tl D : forall rest del ntr,
  Forall (fun s => si_sealed s = true /\ si_max s < new_min) D ->
  exists ntr', head_scan new_min tl (D ++ rest) del ntr = head_scan new_min tl rest (del ++ map name_of D) ntr'.
Proof.
  induction D as [|s D IH]; intros rest del ntr H.
  - exists ntr. cbn. rewrite app_nil_r. reflexivity.
  - inversion H as [|? ? (Hs & Hm) HD]; subst. cbn [app head_scan]. rewrite Hs.
    destruct (new_min <=? si_max s) eqn:E; [lia|].
    destruct (IH rest (del ++ [name_of s]) (if si_min s <=? si_max s then (ntr + (si_max s - si_min s + 1)) mod two64 else ntr) HD)
      as (ntr' & E'). exists ntr'. rewrite E'. cbn [map]. rewrite <- app_assoc. reflexivity.
Qed.

(* ---- tail_scan ---- *)
Lemma tail_scan_skip new_max li X : forall rrest del ntr,
  Forall (fun s => new_max < si_base s) X ->
  exists ntr', tail_scan new_max li (X ++ rrest) del ntr = tail_scan new_max li rrest (del ++ map name_of X) ntr'.
Proof.
  induction X as [|s X IH]; intros rrest del ntr H.
  - exists ntr. cbn. rewrite app_nil_r. reflexivity.
  - inversion H as [|? ? Hs HX]; subst. cbn [app tail_scan].
    destruct (si_base s <=? new_max) eqn:E; [lia|].
    destruct (IH rrest (del ++ [name_of s])
                ((ntr + sub64 (if si_sealed s then si_max s else li) (si_min s) + 1) mod two64) HX) as (ntr' & E').
    exists ntr'. rewrite E'. cbn [map]. rewrite <- app_assoc. reflexivity.
Qed.

(* ---- seg_set at the head of a list ---- *)
Lemma seg_set_head h' h R : si_base h' = si_base h -> seg_set h' (h :: R) = h' :: R.
Proof.
  intros Hb. cbn [seg_set]. destruct (si_base h' <? si_base h) eqn:E1; [lia|].
  destruct (si_base h' =? si_base h) eqn:E2; [reflexivity|lia].
Qed.

(* ---- readings ---- *)
Definition with_min (h : seginfo) (nm : N) : seginfo :=
  {| si_id := si_id h; si_base := si_base h; si_min := nm; si_max := si_max h; si_codec := si_codec h;
     si_index_start := si_index_start h; si_sealed := si_sealed h; si_size_limit := si_size_limit h |}.

Lemma seg_visible_with_min d h nm :
  si_sealed h = true -> 1 <= si_base h -> si_base h <= si_min h -> si_min h <= nm -> nm <= si_max h ->
  seg_visible 0 d (with_min h nm) = skipn (N.to_nat (nm - si_min h)) (seg_visible 0 d h).
Proof.
  intros Hs Hb Hbm H1 H2. unfold seg_visible. cbn [with_min si_sealed si_max si_min si_base]. rewrite Hs.
  change (name_of (with_min h nm)) with (name_of h).
  destruct ((si_max h =? 0) || (si_max h <? nm)) eqn:E1; [lia|].
  destruct ((si_max h =? 0) || (si_max h <? si_min h)) eqn:E2; [lia|].
  rewrite skipn_firstn_comm, skipn_skipn'. f_equal; [lia|]. f_equal. lia.
Qed.

Lemma sealed_ok_with_min d h nm : sealed_ok d h -> nm <= si_max h -> sealed_ok d (with_min h nm).
Proof.
  intros (H1 & H2 & f & Hf & H3) Hnm. split; [exact H1|]. split; [exact Hnm|]. exists f. exact (conj Hf H3).
Qed.

Lemma sealed_es_app d A B : sealed_es d (A ++ B) = sealed_es d A ++ sealed_es d B.
Proof. unfold sealed_es. apply flat_map_app. Qed.

(* the entries of a sealed prefix D in front of h *)
Lemma sealed_prefix_len d D h R t :
  Forall (sealed_ok d) (D ++ h :: R) -> Forall swf (D ++ h :: R) -> linked ((D ++ h :: R) ++ [t]) ->
  llen (sealed_es d D) + hd_min (D ++ h :: R) t = si_min h.
Proof.
  intros Hso Hw Hl. destruct (list_eq_dec_nil D) as [->|Hne].
  - unfold sealed_es, hd_min. cbn. lia.
  - apply Forall_app in Hso. destruct Hso as (HsD & _). apply Forall_app in Hw. destruct Hw as (HwD & _).
    assert (HlD : linked (D ++ [h])).
    { rewrite <- app_assoc in Hl. cbn [app] in Hl.
      replace (D ++ h :: R ++ [t]) with ((D ++ [h]) ++ (R ++ [t])) in Hl by (rewrite <- app_assoc; reflexivity).
      eapply linked_app_l; eauto. }
    pose proof (sealed_es_len d D h HsD HwD HlD Hne) as Hlen.
    assert (Hmin : si_min h = si_base h).
    { destruct (exists_last Hne) as (D' & x & ->). rewrite <- app_assoc in HlD. cbn [app] in HlD.
      destruct (linked_mid D' x h [] HlD) as (_ & Hm). exact Hm. }
    assert (Hhd : hd_min (D ++ h :: R) t = hd_min D h) by (unfold hd_min; destruct D; [congruence|reflexivity]).
    lia.
Qed.

(* ---- order of bases along a chain ---- *)
Lemma chain_base_lt A y B x :
  linked (A ++ y :: B) -> Forall sst A -> In x A -> si_base x < si_base y.
Proof.
  intros Hl Hs Hin. destruct (exists_last (l := A)) as (A' & z & ->); [intros E; subst; destruct Hin|].
  rewrite <- app_assoc in Hl. cbn [app] in Hl.
  destruct (linked_mid A' z y B Hl) as (Hb & _).
  apply Forall_app in Hs. destruct Hs as (HsA' & HsZ). inversion HsZ as [|? ? Hz _]; subst. unfold sst in Hz.
  apply in_app_or in Hin. destruct Hin as [Hin|[<-|[]]]; [|lia].
  assert (HlA : linked (A' ++ [z])).
  { replace (A' ++ z :: y :: B) with ((A' ++ [z]) ++ y :: B) in Hl by (rewrite <- app_assoc; reflexivity).
    eapply linked_app_l; eauto. }
  pose proof (linked_app_lt A' z HlA HsA') as Hlt. rewrite Forall_forall in Hlt, HsA'.
  specialize (Hlt _ Hin). specialize (HsA' _ Hin). unfold sst in HsA'. lia.
Qed.

Lemma linked_replace_head h h' X : linked (h :: X) -> si_max h' = si_max h -> linked (h' :: X).
Proof. intros Hl Hm. destruct X as [|x X']; [exact I|]. rewrite linked_cons2 in *. rewrite Hm. exact Hl. Qed.

Lemma not_listed_by_base l n :
  (forall y, In y l -> si_base y <> fst n) -> listed l n = false.
Proof.
  intros H. destruct (listed l n) eqn:E; [|reflexivity]. apply listed_spec in E. destruct E as (y & Hin & Hn).
  exfalso. apply (H y Hin). rewrite <- Hn. reflexivity.
Qed.

Lemma not_listed_by_id l n :
  (forall y, In y l -> si_id y <> snd n) -> listed l n = false.
Proof.
  intros H. destruct (listed l n) eqn:E; [|reflexivity]. apply listed_spec in E. destruct E as (y & Hin & Hn).
  exfalso. apply (H y Hin). rewrite <- Hn. reflexivity.
Qed.

(* ---- bases increase strictly along a chain ---- *)
From Coq Require Import Sorted.
Definition lt_base (a b : seginfo) : Prop := si_base a < si_base b.

Lemma chain_sorted S t : linked (S ++ [t]) -> Forall sst S -> StronglySorted lt_base (S ++ [t]).
Proof.
  induction S as [|a S IH]; intros Hl Hs.
  - cbn. constructor; constructor.
  - inversion Hs as [|? ? Ha Hs']; subst. unfold sst in Ha.
    pose proof (linked_cons_inv _ _ Hl) as Hl'. specialize (IH Hl' Hs').
    cbn [app]. constructor; [exact IH|].
    destruct (S ++ [t]) as [|b rest] eqn:E; [constructor|].
    cbn [app] in Hl. rewrite E in Hl. rewrite linked_cons2 in Hl. destruct Hl as (Hb & _).
    inversion IH as [|? ? _ Hall]; subst. constructor; [unfold lt_base; lia|].
    eapply Forall_impl; [|exact Hall]. intros y Hy. unfold lt_base in *. lia.
Qed.

Lemma sorted_app_lt A : forall B x y,
  StronglySorted lt_base (A ++ B) -> In x A -> In y B -> si_base x < si_base y.
Proof.
  induction A as [|a A IH]; intros B x y Hs Hx Hy; [destruct Hx|].
  cbn [app] in Hs. inversion Hs as [|? ? Hs' Hall]; subst.
  destruct Hx as [<-|Hx].
  - rewrite Forall_forall in Hall. apply (Hall y). apply in_or_app. right. exact Hy.
  - eapply IH; eauto.
Qed.
