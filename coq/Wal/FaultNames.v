(* FaultNames.v -- the segments a WAL operation lists afterwards carry names it listed
   before or the freshly allocated segment id: a file that is not listed and has an
   older id (garbage left by a deletion that failed) is never listed again. *)
From RW Require Import Base.Bytes Base.BytesFacts Fmt.Codec Fmt.Frame Wal.Model Wal.Spec Wal.Hist
  Wal.CrashInv Wal.CrashFacts0 Wal.CrashFacts1 Wal.CrashFacts4 Wal.CrashFacts6 Wal.CrashCalls4 Wal.FaultSim Wal.FaultSim2 Gen.Constants.
From Coq Require Import ZifyN ZifyNat ZifyBool.
Open Scope N_scope.

Definition fresh_sub (w : wal) (segs' : list seginfo) : Prop :=
  forall s, In s segs' -> (exists s0, In s0 (st_segs w) /\ name_of s = name_of s0) \/ si_id s = st_next_id w.

Definition meta_sub (w : wal) (d d' : disk) : Prop :=
  dk_meta d' = dk_meta d \/ exists ps, dk_meta d' = Some ps /\ fresh_sub w (ps_segs ps).

Lemma fresh_sub_refl w : fresh_sub w (st_segs w).
Proof. intros s Hs. left. exists s. auto. Qed.

Lemma seg_set_in si l s : In s (seg_set si l) -> s = si \/ In s l.
Proof.
  induction l as [|x r IH]; cbn [seg_set]; [intros [<-|[]]; auto|].
  destruct (si_base si <? si_base x); [intros [<-|H]; auto|].
  destruct (si_base si =? si_base x); [intros [<-|H]; [auto|right; right; exact H]|].
  intros [<-|H]; [right; left; reflexivity|]. destruct (IH H); [auto|right; right; assumption].
Qed.
Lemma seg_del_in b l s : In s (seg_del b l) -> In s l.
Proof.
  induction l as [|x r IH]; cbn [seg_del]; [auto|].
  destruct (si_base x =? b); [intros H; right; exact H|]. intros [<-|H]; [left; reflexivity|right; auto].
Qed.

Lemma create_next_in c nid segs1 nbase nid' segs2 si s :
  create_next c nid segs1 nbase = (nid', segs2, si) -> In s segs2 -> (si_id s = nid /\ s = si) \/ In s segs1.
Proof.
  unfold create_next. intros E Hs. inversion E; subst. destruct (seg_set_in _ _ _ Hs) as [->|H]; [left; split; reflexivity|right; exact H].
Qed.

(* what a state transaction does to the listed segments and the metadata *)
Lemma mutate_gen_sub defer w t e r w' e' dl : mutate_gen defer w t e = (r, w', e', dl) ->
  (st_segs w' = st_segs w \/ st_segs w' = tx_segs t) /\
  (dk_meta (e_disk e') = dk_meta (e_disk e) \/ dk_meta (e_disk e') = Some (tx_ps t)).
Proof.
  unfold mutate_gen. fold (tx_ps t).
  destruct (io_cases3 (ACommit (tx_ps t)) e eq_refl) as [(e1 & E1 & D & _)|[(e1 & E1 & D & _)|(e1 & E1 & _ & D & _)]]; rewrite E1; cbn [negb].
  2:{ intros E; inversion E; subst. cbn [st_segs]. rewrite D. auto. }
  2:{ intros E; inversion E; subst. cbn [st_segs]. rewrite D. split; [left; reflexivity|right; reflexivity]. }
  assert (Hm1 : dk_meta (e_disk e1) = Some (tx_ps t)) by (rewrite D; reflexivity).
  assert (Hdel : forall ns e0, dk_meta (e_disk (delete_files ns e0)) = dk_meta (e_disk e0)).
  { intros ns e0. destruct (delete_files_real ns e0) as (_ & _ & K). rewrite K. destruct (del_fails e0); [reflexivity|].
    apply (del_disk_meta ns (e_disk e0)). }
  destruct (tx_create t) as [si|].
  - destruct (seg_create si e1) as [sw e2] eqn:Es.
    assert (Hm2 : dk_meta (e_disk e2) = Some (tx_ps t)).
    { revert Es. unfold seg_create. destruct (si_base si =? 0); [intros E; inversion E; subst; exact Hm1|].
      destruct (lookup _ _).
      - destruct (io_cases (AFail (ACreate (name_of si) (si_size_limit si))) e1 eq_refl eq_refl) as [(x & Ex & Dx & _)|(x & Ex & Dx & _)]; rewrite Ex;
          intros E; inversion E; subst; rewrite Dx; exact Hm1.
      - destruct (io_cases (ACreate (name_of si) (si_size_limit si)) e1 eq_refl eq_refl) as [(x & Ex & Dx & _)|(x & Ex & Dx & _)]; rewrite Ex;
          intros E; inversion E; subst.
        + rewrite Dx. exact Hm1.
        + destruct (fx_leave (e_fx e1)); [unfold leave_entry; cbn [e_disk]; rewrite Dx; exact Hm1|rewrite Dx; exact Hm1]. }
    destruct sw; intros E; inversion E; subst; cbn [st_segs].
    + split; [right; reflexivity|right]. destruct defer; [exact Hm2|rewrite Hdel; exact Hm2].
    + split; [left; reflexivity|right; exact Hm2].
  - intros E; inversion E; subst. cbn [st_segs]. split; [right; reflexivity|right]. destruct defer; [exact Hm1|rewrite Hdel; exact Hm1].
Qed.

Lemma mutate_sub w t e r w' e' : mutate w t e = (r, w', e') ->
  (st_segs w' = st_segs w \/ st_segs w' = tx_segs t) /\
  (dk_meta (e_disk e') = dk_meta (e_disk e) \/ dk_meta (e_disk e') = Some (tx_ps t)).
Proof.
  unfold mutate. destruct (mutate_gen false w t e) as [[[r0 w0] e0] d0] eqn:E. intros K; inversion K; subst.
  eapply mutate_gen_sub; eauto.
Qed.

(* the two consequences used below *)
Definition op_sub (w : wal) (e : env) (w' : wal) (e' : env) : Prop :=
  fresh_sub w (st_segs w') /\ meta_sub w (e_disk e) (e_disk e').

Lemma op_sub_of w0 w t e w' e' :
  st_segs w0 = st_segs w -> fresh_sub w (tx_segs t) ->
  (st_segs w' = st_segs w0 \/ st_segs w' = tx_segs t) /\
  (dk_meta (e_disk e') = dk_meta (e_disk e) \/ dk_meta (e_disk e') = Some (tx_ps t)) ->
  op_sub w e w' e'.
Proof.
  intros Hs Hf (A & B). split.
  - destruct A as [A|A]; rewrite A; [rewrite Hs; apply fresh_sub_refl|exact Hf].
  - destruct B as [B|B]; [left; exact B|right; exists (tx_ps t); split; [exact B|exact Hf]].
Qed.

Lemma op_sub_refl w e e' : dk_meta (e_disk e') = dk_meta (e_disk e) -> op_sub w e w e'.
Proof. intros H. split; [apply fresh_sub_refl|left; exact H]. Qed.

(* ------------------------------------------------------------------ *)
(* actions other than a commit leave the metadata alone                  *)
Lemma apply_act_meta d a : (forall ps, a <> ACommit ps) -> dk_meta (apply_act d a) = dk_meta d.
Proof.
  intros H. destruct a; cbn [apply_act]; try reflexivity.
  - destruct (lookup n (dk_files d)); reflexivity.
  - destruct (lookup n (dk_files d)); reflexivity.
  - exfalso. apply (H ps). reflexivity.
Qed.
Lemma io_meta a e : (forall ps, a <> ACommit ps) -> dk_meta (e_disk (snd (io a e))) = dk_meta (e_disk e).
Proof.
  intros H. unfold io. destruct (is_delete a).
  - destruct (armed e && fx_del (e_fx e)); cbn [snd e_disk]; [reflexivity|apply apply_act_meta; exact H].
  - destruct (e_fault e) as [[|k]|]; [destruct (is_txn a && fx_land (e_fx e))|..]; cbn [snd e_disk];
      [apply apply_act_meta; exact H|reflexivity|apply apply_act_meta; exact H|apply apply_act_meta; exact H].
Qed.
Lemma delete_files_meta ns e : dk_meta (e_disk (delete_files ns e)) = dk_meta (e_disk e).
Proof.
  destruct (delete_files_real ns e) as (_ & _ & K). rewrite K. destruct (del_fails e); [reflexivity|].
  apply (del_disk_meta ns (e_disk e)).
Qed.
Lemma seg_append_meta tw ls e r tw' e' : seg_append tw ls e = (r, tw', e') -> dk_meta (e_disk e') = dk_meta (e_disk e).
Proof.
  unfold seg_append. destruct ls as [|l0 lr]; [intros E; inversion E; reflexivity|].
  destruct (0 <? ws_index_start tw); [intros E; inversion E; reflexivity|].
  destruct (existsb _ _); [intros E; inversion E; reflexivity|].
  destruct (negb _); [intros E; inversion E; reflexivity|].
  match goal with |- context [io ?a e] => pose proof (io_meta a e) as M1; destruct (io a e) as [ok1 e1] end.
  cbn [snd] in M1. destruct (negb ok1); [intros E; inversion E; subst; apply M1; intros ps; discriminate|].
  match goal with |- context [io ?a e1] => pose proof (io_meta a e1) as M2; destruct (io a e1) as [ok2 e2] end.
  cbn [snd] in M2. destruct (negb ok2); intros E; inversion E; subst; (rewrite M2; [apply M1|]; intros ps; discriminate).
Qed.
Lemma seg_force_seal_meta tw e r tw' e' : seg_force_seal tw e = (r, tw', e') -> dk_meta (e_disk e') = dk_meta (e_disk e).
Proof.
  unfold seg_force_seal. destruct (0 <? ws_index_start tw); [intros E; inversion E; reflexivity|].
  destruct (ws_n tw =? 0); [intros E; inversion E; reflexivity|].
  match goal with |- context [io ?a e] => pose proof (io_meta a e) as M1; destruct (io a e) as [ok1 e1] end.
  cbn [snd] in M1. destruct (negb ok1); [intros E; inversion E; subst; apply M1; intros ps; discriminate|].
  match goal with |- context [io ?a e1] => pose proof (io_meta a e1) as M2; destruct (io a e1) as [ok2 e2] end.
  cbn [snd] in M2. destruct (negb ok2); intros E; inversion E; subst; (rewrite M2; [apply M1|]; intros ps; discriminate).
Qed.

(* ------------------------------------------------------------------ *)
Lemma fresh_create_next c w segs1 nbase nid segs2 si :
  create_next c (st_next_id w) segs1 nbase = (nid, segs2, si) ->
  (forall s, In s segs1 -> exists s0, In s0 (st_segs w) /\ name_of s = name_of s0) ->
  fresh_sub w segs2.
Proof.
  intros E H s Hs. destruct (create_next_in _ _ _ _ _ _ _ _ E Hs) as [(Hi & _)|Hi]; [right; exact Hi|left; apply H; exact Hi].
Qed.

Lemma rotate_sub c w e w' e' : rotate c w e = (w', e') -> op_sub w e w' e'.
Proof.
  unfold rotate. destruct (st_rotate w) as [istart|]; [|intros E; inversion E; subst; apply op_sub_refl; reflexivity].
  destruct (st_closed w); [intros E; inversion E; subst; split; [intros s Hs; left; exists s; split; [exact Hs|reflexivity]|left; reflexivity]|].
  destruct (tail_info (st_segs w)) as [t|] eqn:Et; [|intros E; inversion E; subst; split; [intros s Hs; left; exists s; split; [exact Hs|reflexivity]|left; reflexivity]].
  destruct (create_next _ _ _ _) as [[nid segs2] si] eqn:Ec.
  destruct (mutate _ _ _) as [[r0 w0] e0] eqn:Em. intros E; inversion E; subst.
  apply mutate_sub in Em.
  eapply (op_sub_of _ w _ e); [reflexivity| |exact Em].
  cbn [tx_segs]. eapply fresh_create_next; [exact Ec|].
  intros s Hs. destruct (seg_set_in _ _ _ Hs) as [->|Hi]; [|exists s; auto].
  exists t. split; [apply tail_info_In; exact Et|reflexivity].
Qed.

Lemma reset_first_sub c w nb0 e r w' e' dl : reset_first c w nb0 e = (r, w', e', dl) -> op_sub w e w' e'.
Proof.
  unfold reset_first. destruct (0 <? last_index _ _); [intros E; inversion E; subst; apply op_sub_refl; reflexivity|].
  destruct (tail_info (st_segs w)) as [t|] eqn:Et.
  - destruct (si_base t =? nb0).
    + intros E. apply mutate_gen_sub in E. eapply (op_sub_of w w); [reflexivity| |exact E]. cbn [tx_segs]. apply fresh_sub_refl.
    + destruct (create_next _ _ _ _) as [[nid segs2] si] eqn:Ec. intros E. apply mutate_gen_sub in E.
      eapply (op_sub_of w w); [reflexivity| |exact E]. cbn [tx_segs]. eapply fresh_create_next; [exact Ec|].
      intros s Hs. exists s. split; [eapply seg_del_in; exact Hs|reflexivity].
  - destruct (create_next _ _ _ _) as [[nid segs2] si] eqn:Ec. intros E. apply mutate_gen_sub in E.
    eapply (op_sub_of w w); [reflexivity| |exact E]. cbn [tx_segs]. eapply fresh_create_next; [exact Ec|].
    intros s Hs. exists s. auto.
Qed.

Lemma op_sub_meta w e w' e' e'' : op_sub w e w' e' -> dk_meta (e_disk e'') = dk_meta (e_disk e') -> op_sub w e w' e''.
Proof.
  intros (A & B) H. split; [exact A|]. destruct B as [B|(ps & B & C)]; [left; rewrite H; exact B|right; exists ps; rewrite H; auto].
Qed.
Lemma op_sub_segs w e w' e' w'' : op_sub w e w' e' -> st_segs w'' = st_segs w' -> op_sub w e w'' e'.
Proof. intros (A & B) H. split; [rewrite H; exact A|exact B]. Qed.

Lemma store_go_sub last ls w1 e1 r2 w2 e2 : store_go last ls w1 e1 = (r2, w2, e2) ->
  st_segs w2 = st_segs w1 /\ dk_meta (e_disk e2) = dk_meta (e_disk e1).
Proof.
  unfold store_go. destruct (check_logs _ _) as [res nbytes].
  destruct res; try (intros E; inversion E; subst; split; reflexivity).
  destruct (st_tail w1) as [tw|]; [|intros E; inversion E; subst; split; reflexivity].
  destruct (seg_append tw ls e1) as [[ra tw'] ea] eqn:Ea. apply seg_append_meta in Ea.
  destruct ra; intros E; inversion E; subst; (split; [reflexivity|]); try exact Ea.
Qed.

Lemma store_logs_sub c w ls e r w' e' : store_logs c w ls e = (r, w', e') -> op_sub w e w' e'.
Proof.
  rewrite store_logs_unfold. destruct (st_closed w); [intros E; inversion E; subst; apply op_sub_refl; reflexivity|].
  destruct ls as [|l0 lr]; [intros E; inversion E; subst; apply op_sub_refl; reflexivity|].
  destruct (st_failed w); [intros E; inversion E; subst; apply op_sub_refl; reflexivity|]. cbv zeta.
  destruct (tail_info (st_segs w)) as [ti|]; [|intros E; inversion E; subst; apply op_sub_refl; reflexivity].
  destruct (_ && _).
  - destruct (reset_first c w (l_index l0) e) as [[[r1 w1] e1] dels] eqn:Er. apply reset_first_sub in Er.
    destruct r1; try (intros E; inversion E; subst; exact Er).
    destruct (store_go _ _ w1 e1) as [[r2 w2] e2] eqn:Eg. intros E; inversion E; subst. destruct (store_go_sub _ _ _ _ _ _ _ Eg) as (A & B).
    eapply op_sub_segs; [|exact A]. eapply op_sub_meta; [exact Er|]. rewrite delete_files_meta. exact B.
  - intros E. destruct (store_go_sub _ _ _ _ _ _ _ E) as (A & B). eapply op_sub_segs; [|exact A]. apply op_sub_refl. exact B.
Qed.

Lemma truncate_head_sub c w nm e r w' e' : truncate_head c w nm e = (r, w', e') -> op_sub w e w' e'.
Proof.
  unfold truncate_head. destruct (head_scan _ _ _ _ _) as [[[rest del] ntr] head] eqn:Eh.
  destruct (head_scan_spec _ _ _ _ _ _ _ _ _ Eh) as (sk & Hs & _ & Hh).
  assert (Hin : forall s, In s rest -> In s (st_segs w)) by (intros s Hi; rewrite Hs; apply in_or_app; right; exact Hi).
  destruct head as [h|].
  - intros E. apply mutate_sub in E. eapply (op_sub_of w w _ e); [reflexivity| |exact E]. cbn [tx_segs].
    intros s Hi. left. destruct (seg_set_in _ _ _ Hi) as [->|Hi']; [|exists s; auto].
    destruct Hh as (r0 & Hr). exists h. split; [apply Hin; rewrite Hr; left; reflexivity|reflexivity].
  - destruct (create_next _ _ _ _) as [[nid segs2] si] eqn:Ec. intros E. apply mutate_sub in E.
    eapply (op_sub_of w w _ e); [reflexivity| |exact E]. cbn [tx_segs]. eapply fresh_create_next; [exact Ec|]. intros s [].
Qed.

Lemma truncate_tail_sub c w nm e r w' e' : truncate_tail c w nm e = (r, w', e') -> op_sub w e w' e'.
Proof.
  unfold truncate_tail. destruct (tail_scan _ _ _ _ _) as [[rrest del] ntr] eqn:Et.
  destruct (tail_scan_spec _ _ _ _ _ _ _ _ Et) as (sk & Hs & _).
  assert (Hin : forall s, In s rrest -> In s (st_segs w)).
  { intros s Hi. apply in_rev. rewrite Hs. apply in_or_app. right. exact Hi. }
  destruct rrest as [|t rr].
  - destruct (create_next _ _ _ _) as [[nid segs2] si] eqn:Ec. intros E. apply mutate_sub in E.
    eapply (op_sub_of w w); [reflexivity| |exact E]. cbn [tx_segs]. eapply fresh_create_next; [exact Ec|]. intros s [].
  - assert (Hfin : forall t' nid segs2 si, name_of t' = name_of t ->
        create_next c (st_next_id w) (seg_set t' (rev (t :: rr))) 0 = (nid, segs2, si) -> fresh_sub w segs2).
    { intros t' nid segs2 si Hn Ec. eapply fresh_create_next; [exact Ec|].
      intros s Hi. destruct (seg_set_in _ _ _ Hi) as [->|Hi']; [exists t; split; [apply Hin; left; reflexivity|exact Hn]|].
      exists s. split; [apply Hin; apply in_rev; exact Hi'|reflexivity]. }
    destruct (si_sealed t).
    + destruct (create_next _ _ _ _) as [[nid segs2] si] eqn:Ec. intros E. apply mutate_sub in E.
      eapply (op_sub_of _ w _ e); [| |exact E]; [reflexivity|]. cbn [tx_segs]. eapply Hfin; [|exact Ec]. reflexivity.
    + destruct (st_tail w) as [tw|]; [|intros E; inversion E; subst; apply op_sub_refl; reflexivity].
      destruct (seg_force_seal tw e) as [[rs tw'] e1] eqn:Ef. pose proof (seg_force_seal_meta _ _ _ _ _ Ef) as M.
      destruct rs; try (intros E; inversion E; subst; split; [intros s Hi; left; exists s; split; [exact Hi|reflexivity]|left; exact M]).
      destruct (create_next _ _ _ _) as [[nid segs2] si] eqn:Ec. intros E. apply mutate_sub in E.
      eapply op_sub_meta with (e' := e'); [|reflexivity].
      assert (K : op_sub w e1 w' e').
      { eapply (op_sub_of _ w _ e1); [| |exact E]; [reflexivity|]. cbn [tx_segs]. eapply Hfin; [|exact Ec]. reflexivity. }
      destruct K as (A & B). split; [exact A|]. destruct B as [B|B]; [left; rewrite B; exact M|right; exact B].
Qed.

Lemma delete_range_sub c w mn mx e r w' e' : delete_range c w mn mx e = (r, w', e') -> op_sub w e w' e'.
Proof.
  unfold delete_range. destruct (st_closed w); [intros E; inversion E; subst; apply op_sub_refl; reflexivity|].
  destruct (mx <? mn); [intros E; inversion E; subst; apply op_sub_refl; reflexivity|].
  destruct (st_failed w); [intros E; inversion E; subst; apply op_sub_refl; reflexivity|].
  destruct (_ || _); [intros E; inversion E; subst; apply op_sub_refl; reflexivity|].
  destruct (mn <=? _); [apply truncate_head_sub|].
  destruct (_ <=? mx); [apply truncate_tail_sub|]. intros E; inversion E; subst; apply op_sub_refl; reflexivity.
Qed.

(* a file that is not listed and carries an id below the next one stays unlisted *)
Lemma fresh_sub_keep w segs' n : fresh_sub w segs' -> snd n < st_next_id w ->
  (forall s, In s (st_segs w) -> name_of s <> n) -> forall s, In s segs' -> name_of s <> n.
Proof.
  intros Hf Hid Hu s Hs. destruct (Hf s Hs) as [(s0 & Hi & Hn)|Hi].
  - rewrite Hn. apply Hu. exact Hi.
  - intros <-. unfold name_of in Hid. cbn [snd] in Hid. lia.
Qed.
