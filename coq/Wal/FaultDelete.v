(* FaultDelete.v -- DeleteRange with an injected I/O error, from a running WAL
   that accepts writes (possibly with a stale unsynced batch in its tail file). *)
From RW Require Import Base.Bytes Base.BytesFacts Fmt.Codec Fmt.CodecFacts Fmt.Frame Wal.Model Wal.Spec Wal.Hist Wal.FaultHist
  Wal.CrashInv Wal.CrashFacts0 Wal.CrashFacts1 Wal.CrashFacts2 Wal.CrashFacts3 Wal.CrashFacts4 Wal.CrashFacts5
  Wal.CrashFacts6 Wal.CrashGlue Wal.CrashCalls1 Wal.CrashCalls2 Wal.CrashCalls3 Wal.CrashCalls4 Wal.CrashCalls6
  Wal.CrashCalls7 Wal.CrashCalls8 Wal.CrashCalls9 Wal.CrashCalls10 Wal.FaultSim Wal.FaultSim2 Wal.FaultInv Wal.FaultFacts2
  Wal.FaultFacts3 Wal.FaultStore Gen.Constants.
From Coq Require Import ZifyN ZifyNat ZifyBool.
Open Scope N_scope.

(* the metadata commit succeeded but the file creation after it failed: the WAL
   refuses writes from now on; readers still see the old state *)
Lemma fail_after_commit c nb nb' wm wc dc d' o nom alts defer ps :
  nb <= nb' -> LInv c nb wc dc -> sp_of dc = nom ->
  st_segs wm = st_segs wc -> st_tail wm = st_tail wc -> st_failed wm = true -> st_rotate wm = None -> st_closed wm = false ->
  drel o d' (apply_act dc (ACommit ps)) ->
  (forall n, o = Some n -> exists t, tail_info (st_segs wm) = Some t /\ name_of t = n) ->
  DIs c nb' (apply_act dc (ACommit ps)) -> In (sp_of (apply_act dc (ACommit ps))) (candidates alts defer) ->
  (forall n ps' s, o = Some n -> Some ps = Some ps' -> In s (ps_segs ps') -> name_of s <> n) ->
  Mode c nb' wm d' nom defer /\ RD c nb' d' alts defer.
Proof.
  intros Hnb HL Hsp Hs Ht Hf Hr Hcl Hrel Hot HD Hcand Hunl.
  set (dm := apply_act dc (ACommit ps)) in *.
  pose proof HL as (_ & _ & HDc & HNc & _).
  assert (HNdm : no_pend dm) by (intros n f Hl; apply (HNc n f Hl)).
  split.
  - right. split; [exact Hcl|]. right. right. split; [exact Hf|]. split; [exact Hr|].
    exists wc, (sh dc), o. split; [eapply LInv_mono; [exact Hnb|apply LInv_sh; exact HL]|].
    split; [rewrite (sp_of_sh_clean c nb wc dc HL); exact Hsp|]. split; [exact Hs|]. split; [exact Ht|].
    split; [rewrite (drel_sh_eq _ _ _ Hrel); reflexivity|].
    split; [destruct Hrel as (_ & _ & K & _); rewrite K; reflexivity|]. split; [apply (drel_NoDup _ _ _ Hrel)|].
    split; [eapply drel_stale_ok; eauto|exact Hot].
  - eapply (RD_stale_unlisted c nb' d' dm o); eauto.
Qed.

Lemma stale_batch_base c t t' f p defer : si_base t' = si_base t -> stale_batch c t f p defer -> stale_batch c t' f p defer.
Proof. intros E H. unfold stale_batch in *. rewrite E. exact H. Qed.

Lemma keeps_tail_view {c nb w d S t f tw} (V : lview c nb w d S t f tw) : keeps_tail w (name_of t).
Proof.
  intros sk r Hs Hr Hin. rewrite (lv_segs _ _ _ _ _ _ _ _ V) in Hs.
  destruct (exists_last Hr) as (r' & x & ->). rewrite app_assoc in Hs. apply app_inj_tail in Hs. destruct Hs as (Hs & _).
  apply in_map_iff in Hin. destruct Hin as (s & Hn & Hs'). 
  assert (HinS : In s S) by (rewrite Hs; apply in_or_app; left; exact Hs').
  apply (DIs_sealed_neq c nb d _ S t s (lv_dis _ _ _ _ _ _ _ _ V) (lv_meta _ _ _ _ _ _ _ _ V) eq_refl HinS). exact Hn.
Qed.

Lemma name_base a b : name_of a = name_of b -> si_base a = si_base b.
Proof. unfold name_of. intros H. inversion H. reflexivity. Qed.

Lemma live_unsealed {c nb w d S t f tw} (V : lview c nb w d S t f tw) : st_rotate w = None ->
  df_seal f = 0 /\ ws_index_start tw = 0.
Proof.
  intros Hrot. pose proof (lv_rot _ _ _ _ _ _ _ _ V) as K. rewrite Hrot in K.
  pose proof (lv_tw _ _ _ _ _ _ _ _ V) as (_ & _ & _ & _ & _ & _ & Ti & _).
  destruct (0 <? df_seal f) eqn:Z; [discriminate|]. split; lia.
Qed.

Lemma live_delete c nb w e nom alts defer mn mx :
  cfg_ok c -> mx + 1 < two64 -> nb + 1 < two64 ->
  Live c nb w (e_disk e) defer -> st_rotate w = None -> sp_of (sh (e_disk e)) = nom -> In nom alts ->
  exists r w' e', delete_range c w mn mx e = (r, w', e') /\ st_closed w' = false /\
    ((r = ROk /\ exists nom', spec_accepts nom (ODelete mn mx) = Some nom' /\
        Live c (nb + 1) w' (e_disk e') defer /\ sp_of (sh (e_disk e')) = nom') \/
     (r <> ROk /\ Mode c (nb + 1) w' (e_disk e') nom defer /\
      RD c (nb + 1) (e_disk e') (alts ++ app_op (ODelete mn mx) alts) defer)).
Proof.
  intros Hc Hmx Hnb HLive Hrot Hsp Hin.
  pose proof HLive as (HL & _). pose proof (LInv_closed _ _ _ _ HL) as Hcl.
  destruct (live_shadow c nb w e defer HLive) as (o & HR & Hst & Hso & Hon & Hg & Hstale).
  set (ec := shenv e) in *. set (d := e_disk e) in *.
  destruct (delete_range_ok c nb w ec mn mx nom Hc HL eq_refl Hrot Hnb Hsp Hmx) as (r0 & w0 & ec' & Hsl & Hres & HL' & Hsp' & Hext).
  destruct (delete_range c w mn mx e) as [[r w'] e'] eqn:Est. exists r, w', e'. split; [reflexivity|].
  set (o1 := ODelete mn mx) in *. set (alts' := alts ++ app_op o1 alts).
  assert (Hia : incl alts alts') by (intros x Hx; apply in_or_app; left; exact Hx).
  assert (Hina : In nom alts') by (apply Hia; exact Hin).
  pose proof (LInv_closed _ _ _ _ HL') as Hcl0.
  destruct (LInv_view _ _ _ _ HL) as (S & t & f0 & tw & V).
  destruct (live_unsealed V Hrot) as (Hse & His).
  pose proof (lv_tw _ _ _ _ _ _ _ _ V) as (Tn & Tb & _ & _ & Tnn & To & _ & _).
  pose proof (lv_tok _ _ _ _ _ _ _ _ V) as (Hunsealed & _).
  pose proof (lv_tail _ _ _ _ _ _ _ _ V) as Htw.
  assert (Htinfo : tail_info (st_segs w) = Some t) by (rewrite (lv_segs _ _ _ _ _ _ _ _ V); apply tail_info_app).
  assert (Hon' : forall n, o = Some n -> n = name_of t).
  { intros n Ho. destruct (Hstale n Ho) as (t2 & _ & _ & -> & Ht2 & _). rewrite Htinfo in Ht2. inversion Ht2. reflexivity. }
  assert (Hclr : clr o (ws_name tw) = None).
  { destruct o as [n|]; [|reflexivity]. rewrite (Hon' n eq_refl), Tn. unfold clr. rewrite fname_eqb_refl. reflexivity. }
  assert (Hfin : forall dm, pfx ec ec' dm -> DP c (nb + 1) (fun x => x = nom \/ x = snd (step_spec nom o1)) dm) by (intros dm Hp; apply (ext_pfx _ _ _ _ Hext Hp)).
  assert (Hcand : forall x, x = nom \/ x = snd (step_spec nom o1) -> In x (candidates alts' defer)).
  { intros x [-> | ->]; [apply cand_alts; exact Hina|]. apply cand_alts.
    destruct (res_cases nom o1 r0 eq_refl Hres) as [(_ & Hacc)|(_ & _ & Hsnd)]; [eapply in_alts_app_op; eauto|rewrite Hsnd; exact Hina]. }
  destruct (delete_range_lock o c w mn mx e ec r w' e' r0 w0 ec' HR Hg Est Hsl) as [(-> & -> & HR' & Hok & Herr)|(Hf' & -> & Hfail)].
  - split; [exact Hcl0|].
    destruct (res_cases nom o1 r0 eq_refl Hres) as [(-> & Hacc)|(Hne & Hacc & Hsnd)].
    + left. split; [reflexivity|]. exists (snd (step_spec nom o1)). split; [exact Hacc|].
      assert (Hclean : R None e' ec' -> Live c (nb + 1) w0 (e_disk e') defer /\ sp_of (sh (e_disk e')) = snd (step_spec nom o1)).
      { intros HRn. destruct (clean_after c (nb + 1) w0 e' ec' HL' HRn) as (HLs & HNs & Hsps). rewrite Hsp' in Hsps.
        split; [apply live_clean; assumption|exact Hsps]. }
      destruct o as [n|]; [|apply Hclean; exact HR'].
      pose proof (Hon' n eq_refl) as En. subst n.
      destruct (Hstale _ eq_refl) as (t2 & f & p & _ & Ht2 & Hf & Hp & Hsb).
      assert (t2 = t) by (rewrite Htinfo in Ht2; inversion Ht2; reflexivity). subst t2.
      destruct (Hok eq_refl (name_of t) t tw eq_refl Htinfo eq_refl Hunsealed Htw Tn His) as [(ti' & Hti' & Hn' & Htl & Hkeep)|HRn]; [|apply Hclean; exact HRn].
      (* the tail and its stale batch survive the head truncation *)
      specialize (Hkeep (keeps_tail_view V)). fold d in Hkeep. rewrite Hf in Hkeep.
      destruct HR' as (Hrel' & _).
      split.
      * split; [rewrite (drel_sh_eq _ _ _ Hrel'); apply LInv_sh; exact HL'|].
        right. exists ti', f, p. split; [exact Hti'|]. split; [rewrite Hn'; exact Hkeep|]. split; [exact Hp|].
        split; [rewrite Hn'; eapply drel_stale_ok; [exact Hrel'|apply HL']|].
        apply (stale_batch_base c t ti' f p defer (name_base _ _ Hn') Hsb).
      * rewrite (drel_sh_eq _ _ _ Hrel'), (sp_of_sh_clean c _ w0 _ HL'). exact Hsp'.
    + right. split; [exact Hne|].
      destruct (Herr Hne) as [Hfl|(-> & -> & Eec)]; [destruct HL' as (_ & K & _); congruence|].
      apply (live_out c (nb + 1) w d nom alts' defer); [eapply Live_mono; [| |exact HLive]; [lia|apply incl_refl]|exact Hsp|exact Hina].
  - (* the real run failed at an I/O action *)
    assert (Hfailmode : forall ps, w' = set_failed w -> drel o (e_disk e') (apply_act (e_disk ec) (ACommit ps)) ->
              pfx ec ec' (apply_act (e_disk ec) (ACommit ps)) -> dk_meta (e_disk ec') = Some ps ->
              (forall n ti, o = Some n -> tail_info (st_segs w) = Some ti -> name_of ti = n -> si_sealed ti = false ->
                            lookup n (dk_files (e_disk ec')) = None) ->
              Mode c (nb + 1) w' (e_disk e') nom defer /\ RD c (nb + 1) (e_disk e') alts' defer).
    { intros ps -> Hrel Hpfx Hmeta Hgone. destruct (Hfin _ Hpfx) as (HDm & HAm & _).
      apply (fail_after_commit c nb (nb + 1) (set_failed w) w (sh d) (e_disk e') o nom alts' defer ps ltac:(lia) HL Hsp eq_refl eq_refl eq_refl Hrot Hcl Hrel).
      - intros n Ho. exists t. split; [exact Htinfo|symmetry; apply Hon'; exact Ho].
      - exact HDm.
      - apply Hcand. exact HAm.
      - intros n ps' s Ho K. inversion K; subst ps'.
        apply (unlisted_of_final c (nb + 1) w0 (e_disk ec') (apply_act (sh d) (ACommit ps)) n ps HL' Hmeta eq_refl); [|reflexivity].
        apply (Hgone n t Ho Htinfo (eq_sym (Hon' n Ho)) Hunsealed). }
    destruct Hfail as [[(-> & Hd)|(Ew & ps & Hrel & Hpfx & Hmeta & Hgone)]|[(tw1 & Htw1 & _ & Hn0 & -> & Hwr)|
                       (tw1 & tw' & e1 & ec1 & o' & Htw1 & Hfsc & Hfs & HR1 & _ & Ho' & Hsh1 & Hrest)]].
    + split; [exact Hcl|]. right. split; [discriminate|]. rewrite Hd.
      apply (live_out c (nb + 1) w d nom alts' defer); [eapply Live_mono; [| |exact HLive]; [lia|apply incl_refl]|exact Hsp|exact Hina].
    + split; [rewrite Ew; exact Hcl|]. right. split; [discriminate|]. apply (Hfailmode ps Ew Hrel Hpfx Hmeta Hgone).
    + (* the forced seal failed *)
      split; [exact Hcl|]. right. split; [discriminate|].
      rewrite Htw in Htw1. inversion Htw1; subst tw1.
      destruct Hwr as [Hd|(Hrel & Hpfx)].
      * rewrite Hd. apply (live_out c (nb + 1) w d nom alts' defer); [eapply Live_mono; [| |exact HLive]; [lia|apply incl_refl]|exact Hsp|exact Hina].
      * rewrite Hclr in Hrel. change (e_disk ec) with (sh d) in Hrel, Hpfx.
        destruct (force_act_pend V Hc Hse ltac:(lia)) as (len & b & Ea & Eb & Hlt).
        destruct (Hfin _ Hpfx) as (HDm & _).
        destruct (stale_after_write c nb (nb + 1) w (sh d) (e_disk e') S t f0 tw defer _ len b V Hse ltac:(lia) Ea Hlt HDm Hrel) as (HLv & Hspv).
        { rewrite Eb. intros K. congruence. }
        rewrite Hsp in Hspv. apply (live_out c (nb + 1) w (e_disk e') nom alts' defer); assumption.
    + (* the tail was sealed, then the state transaction failed *)
      rewrite Htw in Htw1. inversion Htw1; subst tw1.
      assert (Eo' : o' = None) by (rewrite (Ho' His); exact Hclr). subst o'.
      assert (Hn1 : 1 <= llen (df_ents f0)).
      { rewrite seg_force_seal_eq, His in Hfsc. change (0 <? 0) with false in Hfsc. cbv iota in Hfsc.
        destruct (ws_n tw =? 0) eqn:Z; [inversion Hfsc|]. lia. }
      assert (Hext0 : ext (DP c nb (fun x => x = nom)) ec ec).
      { apply ext_refl; [reflexivity|]. apply (LInv_DP c nb w (sh d) _ HL). exact Hsp. }
      destruct (force_seal_ok c nb (fun x => x = nom) w ec ec S t f0 tw Hc V Hext0 Hse Hn1 Hsp)
        as (tw2 & ec2 & Hfs2 & _ & HLS & HspS & Hidx & _).
      rewrite Hfsc in Hfs2. injection Hfs2 as <- <-.
      replace (0 <? ws_index_start tw') with true in HLS by lia.
      change (e_disk ec) with (sh d) in HspS. rewrite Hsp in HspS.
      destruct HR1 as (Hrel1 & _).
      assert (HN1 : no_pend (e_disk e1)) by (eapply drel_nopend; [exact Hrel1|apply HLS]).
      destruct Hrest as [(-> & Hd & Hpfx)|(-> & ps & Hrel & Hpfx & Hmeta)].
      * (* the commit failed: the tail stays sealed *)
        split; [exact Hcl|]. right. split; [discriminate|]. rewrite Hd.
        assert (HLs : LInv c (nb + 1) (set_rot (set_tail w (Some tw')) (Some (ws_index_start tw'))) (sh (e_disk e1))).
        { rewrite (drel_sh_eq _ _ _ Hrel1). eapply LInv_mono; [|apply LInv_sh; exact HLS]. lia. }
        assert (Hsps : sp_of (sh (e_disk e1)) = nom) by (rewrite (drel_sh_eq _ _ _ Hrel1), (sp_of_sh_clean c nb _ _ HLS); exact HspS).
        split.
        -- right. split; [exact Hcl|]. right. left. split; [|exact Hsps].
           exists tw'. split; [reflexivity|]. split; [exact Hidx|]. split; [exact Hrot|]. split; [exact HLs|exact HN1].
        -- eapply RD_of_clean; [exact HLs|exact HN1|rewrite Hsps; exact Hina].
      * (* the commit succeeded, the creation of the new tail failed *)
        split; [exact Hcl|]. right. split; [discriminate|].
        destruct (Hfin _ Hpfx) as (HDm & HAm & _).
        match type of HLS with LInv _ _ ?wS _ =>
          apply (fail_after_commit c nb (nb + 1) (set_failed (set_tail w (Some tw'))) wS (e_disk ec1) (e_disk e') None nom alts' defer ps ltac:(lia) HLS HspS eq_refl eq_refl eq_refl Hrot Hcl Hrel) end.
        -- intros n K; discriminate.
        -- exact HDm.
        -- apply Hcand. exact HAm.
        -- intros n ps' s K; discriminate.
Qed.
