(* FaultDelete.v -- DeleteRange with an injected I/O error, from a running WAL
   that accepts writes (possibly with a stale unsynced batch in its tail file). *)
From RW Require Import Base.Bytes Base.BytesFacts Fmt.Codec Fmt.CodecFacts Fmt.Frame Wal.Model Wal.Spec Wal.Hist Wal.FaultHist
  Wal.CrashInv Wal.CrashFacts0 Wal.CrashFacts1 Wal.CrashFacts2 Wal.CrashFacts3 Wal.CrashFacts4 Wal.CrashFacts5
  Wal.CrashFacts6 Wal.CrashGlue Wal.CrashCalls1 Wal.CrashCalls2 Wal.CrashCalls3 Wal.CrashCalls4 Wal.CrashCalls6
  Wal.CrashCalls7 Wal.CrashCalls8 Wal.CrashCalls9 Wal.CrashCalls10 Wal.FaultSim Wal.FaultSim2 Wal.FaultInv Wal.FaultFacts2
  Wal.FaultFacts3 Wal.FaultNames Wal.FaultStore Gen.Constants.
From Coq Require Import ZifyN ZifyNat ZifyBool.
Open Scope N_scope.

(* the metadata commit succeeded but the file creation after it failed: the WAL
   refuses writes from now on; readers still see the old state *)
Lemma stale_batch_base c t t' f p defer : si_base t' = si_base t -> stale_batch c t f p defer -> stale_batch c t' f p defer.
Proof. intros E H. unfold stale_batch in *. rewrite E. exact H. Qed.

Lemma keeps_tail_view {c nb w d S t f tw} (V : lview c nb w d S t f tw) : keeps_tail w (name_of t).
Proof.
  intros sk r Hs Hr Hin. rewrite (lv_segs _ _ _ _ _ _ _ _ V) in Hs.
  destruct (exists_last Hr) as (r' & x & ->). rewrite app_assoc in Hs. apply app_inj_tail in Hs. destruct Hs as (Hs & _).
  apply in_map_iff in Hin. destruct Hin as (s & Hn & Hs'). 
  assert (HinS : In s S) by (rewrite Hs; apply in_or_app; left; exact Hs').
  apply (DIs_sealed_neq c nb d _ S t s (lv_dis _ _ _ _ _ _ _ _ V) (lv_meta _ _ _ _ _ _ _ _ V) eq_refl HinS). exact Hn.
Qed.

Lemma name_base a b : name_of a = name_of b -> si_base a = si_base b.
Proof. unfold name_of. intros H. inversion H. reflexivity. Qed.

Lemma live_unsealed {c nb w d S t f tw} (V : lview c nb w d S t f tw) : st_rotate w = None ->
  df_seal f = 0 /\ ws_index_start tw = 0.
Proof.
  intros Hrot. pose proof (lv_rot _ _ _ _ _ _ _ _ V) as K. rewrite Hrot in K.
  pose proof (lv_tw _ _ _ _ _ _ _ _ V) as (_ & _ & _ & _ & _ & _ & Ti & _).
  destruct (0 <? df_seal f) eqn:Z; [discriminate|]. split; lia.
Qed.

Lemma live_delete c nb w e nom alts defer mn mx :
  cfg_ok c -> mx + 1 < two64 -> nb + 1 < two64 ->
  Live c nb w (e_disk e) defer -> st_rotate w = None -> sp_of (sh (e_disk e)) = nom -> In nom alts ->
  exists r w' e', delete_range c w mn mx e = (r, w', e') /\ st_closed w' = false /\
    ((r = ROk /\ exists nom', spec_accepts nom (ODelete mn mx) = Some nom' /\
        Live c (nb + 1) w' (e_disk e') defer /\ sp_of (sh (e_disk e')) = nom') \/
     (r <> ROk /\ Mode c (nb + 1) w' (e_disk e') nom defer /\
      RD c (nb + 1) (e_disk e') (alts ++ app_op (ODelete mn mx) alts) defer)).
Proof.
  intros Hc Hmx Hnb HLive Hrot Hsp Hin.
  pose proof HLive as (HL & Hsto). pose proof (LInv_closed _ _ _ _ HL) as Hcl.
  destruct (live_shadow c nb w e defer HLive) as (HR & Hg & Hex & HX).
  set (X := stale_names (e_disk e)) in *. set (ec := shenv e) in *. set (d := e_disk e) in *.
  destruct (delete_range_ok c nb w ec mn mx nom Hc HL eq_refl Hrot Hnb Hsp Hmx) as (r0 & w0 & ec' & Hsl & Hres & HL' & Hsp' & Hext).
  destruct (delete_range c w mn mx e) as [[r w'] e'] eqn:Est. exists r, w', e'. split; [reflexivity|].
  destruct (delete_range_sub _ _ _ _ _ _ _ _ Est) as (_ & Hms).
  assert (Hgarb : forall n, In n X -> unlisted d n -> unlisted (e_disk e') n).
  { intros n Hx Hu. apply (unlisted_keep c nb w d (e_disk e') n HL (Hex n Hx) Hu Hms). }
  set (o1 := ODelete mn mx) in *. set (alts' := alts ++ app_op o1 alts).
  assert (Hia : incl alts alts') by (intros x Hx; apply in_or_app; left; exact Hx).
  assert (Hina : In nom alts') by (apply Hia; exact Hin).
  pose proof (LInv_closed _ _ _ _ HL') as Hcl0.
  destruct (LInv_view _ _ _ _ HL) as (S & t & f0 & tw & V).
  destruct (live_unsealed V Hrot) as (Hse & His).
  pose proof (lv_tw _ _ _ _ _ _ _ _ V) as (Tn & Tb & _ & _ & Tnn & To & _ & _).
  pose proof (lv_tok _ _ _ _ _ _ _ _ V) as (Hunsealed & _).
  pose proof (lv_tail _ _ _ _ _ _ _ _ V) as Htw.
  assert (Htinfo : tail_info (st_segs w) = Some t) by (rewrite (lv_segs _ _ _ _ _ _ _ _ V); apply tail_info_app).
  assert (HXg : forall n, In n X -> n <> name_of t -> unlisted (e_disk e') n).
  { intros n Hx Hne. destruct (HX n Hx) as [(t' & Ht' & ->)|Hu]; [rewrite Htinfo in Ht'; inversion Ht'; subst; congruence|].
    apply Hgarb; assumption. }
  assert (HXw : forall n, In n X -> n <> name_of t -> forall s, In s (st_segs w) -> name_of s <> n).
  { intros n Hx Hne s Hs. destruct (HX n Hx) as [(t' & Ht' & ->)|Hu]; [rewrite Htinfo in Ht'; inversion Ht'; subst; congruence|].
    apply (Hu (persistent w) s (live_meta c nb w d HL) Hs). }
  assert (Hfin : forall dm, pfx ec ec' dm -> DP c (nb + 1) (fun x => x = nom \/ x = snd (step_spec nom o1)) dm) by (intros dm Hp; apply (ext_pfx _ _ _ _ Hext Hp)).
  assert (Hcand : forall x, x = nom \/ x = snd (step_spec nom o1) -> In x (candidates alts' defer)).
  { intros x [-> | ->]; [apply cand_alts; exact Hina|]. apply cand_alts.
    destruct (res_cases nom o1 r0 eq_refl Hres) as [(_ & Hacc)|(_ & _ & Hsnd)]; [eapply in_alts_app_op; eauto|rewrite Hsnd; exact Hina]. }
  assert (Hfin' : forall dm, pfx ec ec' dm -> DIs c (nb + 1) dm /\ In (sp_of dm) (candidates alts' defer)).
  { intros dm Hp. destruct (Hfin dm Hp) as (HDm & HAm & _). split; [exact HDm|apply Hcand; exact HAm]. }
  destruct (delete_range_lock X c w mn mx e ec r w' e' r0 w0 ec' HR Hg Est Hsl) as [(-> & -> & Herr & Hok)|(Hf' & -> & Hfail)].
  - split; [exact Hcl0|].
    destruct (res_cases nom o1 r0 eq_refl Hres) as [(-> & Hacc)|(Hne & Hacc & Hsnd)].
    + left. split; [reflexivity|]. exists (snd (step_spec nom o1)). split; [exact Hacc|].
      destruct (Hok eq_refl) as [(-> & -> & Eec)|[(ns & HRd & Hfate)|(ns & X' & HRd & Hincl & Htl)]].
      * split; [eapply Live_mono; [| |exact HLive]; [lia|apply incl_refl]|]. rewrite Eec in Hsp'. exact Hsp'.
      * destruct (Rd_live c (nb + 1) _ w0 e' ec ec' X ns defer Hext HL' HRd) as (HLv & Hsps); [|split; [exact HLv|rewrite Hsps; exact Hsp']].
        intros n f p Hx Hni Hl Hp. destruct (fname_eqb n (name_of t)) eqn:En; [|right; apply (HXg n Hx); apply fname_eqb_neq; exact En].
        apply fname_eqb_eq in En. subst n.
        destruct (Hfate t Htinfo) as [(ti' & Hti' & Hn' & _ & Hkeep)|K]; [|contradiction].
        specialize (Hkeep (keeps_tail_view V)). fold d in Hkeep. rewrite Hl in Hkeep.
        destruct (Hsto (name_of t) f p (eq_sym Hkeep) Hp) as [(t2 & Ht2 & _ & Hsb)|Hu].
        -- rewrite Htinfo in Ht2. inversion Ht2; subst t2. left. exists ti'. split; [exact Hti'|]. split; [symmetry; exact Hn'|].
           apply (stale_batch_base c t ti' f p defer (name_base _ _ Hn') Hsb).
        -- exfalso. apply (Hu (persistent w) t (live_meta c nb w d HL)); [|reflexivity].
           cbn [persistent ps_segs]. rewrite (lv_segs _ _ _ _ _ _ _ _ V). apply in_or_app. right. left. reflexivity.
      * destruct (Rd_live c (nb + 1) _ w0 e' ec ec' X' ns defer Hext HL' HRd) as (HLv & Hsps); [|split; [exact HLv|rewrite Hsps; exact Hsp']].
        intros n f p Hx Hni Hl Hp. right. apply (HXg n (Hincl n Hx)). intros ->.
        destruct (Htl t tw Htinfo Hunsealed Htw Tn His) as [K|K]; contradiction.
    + right. split; [exact Hne|].
      destruct (Herr Hne) as [Hfl|(-> & -> & Eec)]; [destruct HL' as (_ & K & _); congruence|].
      apply (live_out c (nb + 1) w d nom alts' defer); [eapply Live_mono; [| |exact HLive]; [lia|apply incl_refl]|exact Hsp|exact Hina].
  - (* the real run failed at an I/O action *)
    assert (Hnofail : st_failed w0 = false) by apply HL'.
    destruct Hfail as [(-> & [Hd|[(ps & Hpc & Hmeta & Hgone)|[(ps & ns & Hrc & Hde & Hland & Hfate)|(_ & Hfl0)]]])|[(tw1 & Htw1 & _ & Hn0 & -> & Hwr)|
                       (tw1 & tw' & e1 & ec1 & X' & Htw1 & Hfsc & Hfs & HR1 & _ & HX' & Hsh1 & -> & Hrest)]]; [| | |congruence| |].
    + split; [exact Hcl|]. right. split; [discriminate|].
      apply (failed_unchanged c nb (nb + 1) w d (e_disk e') nom alts' defer defer ltac:(lia) (incl_refl _)); try assumption.
      rewrite Hd. apply deq_refl.
    + split; [exact Hcl|]. right. split; [discriminate|].
      assert (Hmd' : dk_meta (e_disk e') = Some ps).
      { destruct Hpc as (dm & (_ & M & _) & _ & Hm & _). rewrite M. exact Hm. }
      apply (fail_after_commit c nb (nb + 1) (set_failed w) w (sh d) (e_disk e') X nom alts' defer ps ec ec' ltac:(lia) HL eq_refl Hsp eq_refl eq_refl eq_refl Hrot Hcl Hpc Hfin').
      * intros n Hx. destruct (fname_eqb n (name_of t)) eqn:En; [left; exists t; split; [exact Htinfo|apply fname_eqb_eq; exact En]|right].
        apply (HXw n Hx). apply fname_eqb_neq. exact En.
      * intros n s Hx Hs. destruct (fname_eqb n (name_of t)) eqn:En.
        -- apply fname_eqb_eq in En. subst n.
           pose proof HL' as (_ & _ & _ & _ & Hm0 & _). rewrite Hmeta in Hm0. inversion Hm0; subst ps.
           intros Hn. apply (LInv_listed_files c (nb + 1) w0 _ s HL' Hs). rewrite Hn. apply (Hgone t Htinfo Hunsealed).
        -- apply fname_eqb_neq in En. apply (HXg n Hx En ps s Hmd' Hs).
    + (* the commit of the head truncation was reported as failed and found applied: readers
         keep the old state, the next Open finds the truncation done *)
      subst r0. split; [exact Hcl|]. right. split; [discriminate|].
      assert (Hfl' : dk_files (e_disk e') = dk_files d) by (rewrite Hde; reflexivity).
      assert (Hst' : dk_stable (e_disk e') = dk_stable d) by (rewrite Hde; reflexivity).
      pose proof (LInv_NoDup_sh _ _ _ _ HL) as ND.
      destruct (res_cases nom o1 ROk eq_refl Hres) as [(_ & Hacc)|(K & _)]; [|congruence].
      split.
      * right. split; [exact Hcl|]. right. split; [reflexivity|]. split; [exact Hrot|].
        apply (RV_intro2 c (nb + 1) (set_failed w) w (sh d) (e_disk e') nom).
        -- eapply LInv_mono; [|exact HL]. lia.
        -- exact Hsp.
        -- reflexivity.
        -- reflexivity.
        -- intros n _. unfold sh, map_files. cbn [dk_files]. rewrite Hfl'. reflexivity.
        -- cbn [sh map_files dk_stable]. symmetry. exact Hst'.
        -- rewrite Hfl'. exact ND.
        -- intros n f p Hl Hp. rewrite Hfl' in Hl. destruct (Hsto n f p Hl Hp) as [(t2 & Ht2 & Hn2 & _)|Hu].
           ++ left. exists t2. auto.
           ++ right. intros s Hs. apply (Hu (persistent w) s (live_meta c nb w d HL) Hs).
      * destruct (landed_post c (nb + 1) _ w0 e' ec ec' X ns
                    (fun n f p => exists t, tail_info (st_segs w0) = Some t /\ n = name_of t /\ stale_batch c t f p defer) Hext HL' Hland)
          as (HLs & Hcls & Hsps).
        { intros n f p Hx Hni Hl Hp. destruct (fname_eqb n (name_of t)) eqn:En; [|right; apply (HXg n Hx); apply fname_eqb_neq; exact En].
          apply fname_eqb_eq in En. subst n.
          destruct (Hfate t Htinfo) as [(ti' & Hti' & Hn' & _ & _)|K]; [|contradiction].
          rewrite Hfl' in Hl. destruct (Hsto (name_of t) f p Hl Hp) as [(t2 & Ht2 & _ & Hsb)|Hu].
          - rewrite Htinfo in Ht2. inversion Ht2; subst t2. left. exists ti'. split; [exact Hti'|]. split; [symmetry; exact Hn'|].
            apply (stale_batch_base c t ti' f p defer (name_base _ _ Hn') Hsb).
          - exfalso. apply (Hu (persistent w) t (live_meta c nb w d HL)); [|reflexivity].
            cbn [persistent ps_segs]. rewrite (lv_segs _ _ _ _ _ _ _ _ V). apply in_or_app. right. left. reflexivity. }
        apply (live_RD c (nb + 1) w0 (e_disk e') alts' defer (conj HLs Hcls)).
        rewrite Hsps, Hsp'. eapply in_alts_app_op; eauto.
    + (* the forced seal failed *)
      split; [exact Hcl|]. right. split; [discriminate|].
      rewrite Htw in Htw1. inversion Htw1; subst tw1.
      destruct Hwr as [Hd|(Hrel & Hpfx)].
      * rewrite Hd. apply (live_out c (nb + 1) w d nom alts' defer); [eapply Live_mono; [| |exact HLive]; [lia|apply incl_refl]|exact Hsp|exact Hina].
      * change (e_disk ec) with (sh d) in Hrel, Hpfx.
        destruct (force_act_pend V Hc Hse ltac:(lia)) as (len & b & Ea & Eb & Hlt).
        destruct (Hfin _ Hpfx) as (HDm & _).
        destruct (stale_after_write c nb (nb + 1) w (sh d) (e_disk e') (rem (ws_name tw) X) S t f0 tw defer _ len b V Hse ltac:(lia) Ea Hlt HDm Hrel) as (HLv & Hspv).
        { rewrite <- Tn. apply rem_not. }
        { intros n Hx. apply rem_in in Hx. destruct Hx as (Hx & Hn). apply (HXg n Hx). rewrite <- Tn. exact Hn. }
        { rewrite Eb. intros K. congruence. }
        rewrite Hsp in Hspv. apply (live_out c (nb + 1) w (e_disk e') nom alts' defer); assumption.
    + (* the tail was sealed, then the state transaction failed *)
      rewrite Htw in Htw1. inversion Htw1; subst tw1.
      specialize (HX' His). subst X'.
      assert (Hn1 : 1 <= llen (df_ents f0)).
      { rewrite seg_force_seal_eq, His in Hfsc. change (0 <? 0) with false in Hfsc. cbv iota in Hfsc.
        destruct (ws_n tw =? 0) eqn:Z; [inversion Hfsc|]. lia. }
      assert (Hext0 : ext (DP c nb (fun x => x = nom)) ec ec).
      { apply ext_refl; [reflexivity|]. apply (LInv_DP c nb w (sh d) _ HL). exact Hsp. }
      destruct (force_seal_ok c nb (fun x => x = nom) w ec ec S t f0 tw Hc V Hext0 Hse Hn1 Hsp)
        as (tw2 & ec2 & Hfs2 & _ & HLS & HspS & Hidx & _).
      rewrite Hfsc in Hfs2. injection Hfs2 as <- <-.
      replace (0 <? ws_index_start tw') with true in HLS by lia.
      change (e_disk ec) with (sh d) in HspS. rewrite Hsp in HspS.
      destruct HR1 as (Hrel1 & _).
      assert (HXr : forall n, In n (rem (ws_name tw) X) -> In n X /\ n <> name_of t).
      { intros n Hx. apply rem_in in Hx. rewrite Tn in Hx. exact Hx. }
      destruct Hrest as [(Hd & Hpfx)|[(ps & Hpc & Hmeta)|(_ & Hfl0)]]; [| |congruence].
      * (* the commit failed: the tail stays sealed, the WAL refuses writes *)
        split; [exact Hcl|]. right. split; [discriminate|].
        assert (HLs : LInv c (nb + 1) (set_rot (set_tail w (Some tw')) (Some (ws_index_start tw'))) (sh (e_disk e'))).
        { rewrite Hd, (drel_sh_eq _ _ _ Hrel1). eapply LInv_mono; [|apply LInv_sh; exact HLS]. lia. }
        assert (Hsps : sp_of (sh (e_disk e')) = nom) by (rewrite Hd, (drel_sh_eq _ _ _ Hrel1), (sp_of_sh_clean c nb _ _ HLS); exact HspS).
        assert (HN1 : no_pend (e_disk ec1)) by apply HLS.
        assert (HS : Seal c (nb + 1) (set_tail w (Some tw')) (e_disk e')).
        { exists tw'. split; [reflexivity|]. split; [exact Hidx|]. split; [exact Hrot|]. split; [exact HLs|].
          intros n f p Hl Hp. rewrite Hd in Hl.
          assert (Hx : In n (rem (ws_name tw) X)) by (apply (drel_stale_ok _ _ _ Hrel1 HN1 n f Hl); congruence).
          destruct (HXr n Hx) as (Hx1 & Hx2). apply (HXg n Hx1 Hx2). }
        split.
        -- right. split; [exact Hcl|]. right. split; [reflexivity|]. split; [exact Hrot|].
           apply (RV_ext c (nb + 1) (set_tail w (Some tw'))); [reflexivity|reflexivity|].
           rewrite <- Hsps. apply RV_of_seal. exact HS.
        -- rewrite Hd. apply (RD_rel c (nb + 1) (e_disk e1) (e_disk ec1) (rem (ws_name tw) X) alts' defer).
           ++ eapply DIs_mono; [|apply HLS]. lia.
           ++ exact HN1.
           ++ exact Hrel1.
           ++ intros n Hx. destruct (HXr n Hx) as (Hx1 & Hx2). apply (unlisted_meta (e_disk e') _ n); [|apply (HXg n Hx1 Hx2)].
              rewrite Hd. symmetry. apply Hrel1.
           ++ apply cand_alts. rewrite HspS. exact Hina.
      * (* the commit succeeded, the creation of the new tail failed *)
        split; [exact Hcl|]. right. split; [discriminate|].
        assert (Hmd' : dk_meta (e_disk e') = Some ps).
        { destruct Hpc as (dm & (_ & M & _) & _ & Hm & _). rewrite M. exact Hm. }
        match type of HLS with LInv _ _ ?wS _ =>
          apply (fail_after_commit c nb (nb + 1) (set_failed (set_tail w (Some tw'))) wS (e_disk ec1) (e_disk e') (rem (ws_name tw) X) nom alts' defer ps ec1 ec' ltac:(lia) HLS eq_refl HspS eq_refl eq_refl eq_refl Hrot Hcl Hpc) end.
        -- intros dm Hp. apply Hfin'. eapply pfx_shift; [apply Hsh1|exact Hp].
        -- intros n Hx. right. destruct (HXr n Hx) as (Hx1 & Hx2). apply (HXw n Hx1 Hx2).
        -- intros n s Hx Hs. destruct (HXr n Hx) as (Hx1 & Hx2). apply (HXg n Hx1 Hx2 ps s Hmd' Hs).
Qed.
