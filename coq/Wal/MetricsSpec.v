(* MetricsSpec.v -- the TRUE totals the metric counters should show after a
   sequence of calls, computed from the contiguous-log specification alone
   (Wal/Spec.v), without looking at the WAL model.  Definitions only. *)
From RW Require Import Base.Bytes Fmt.Codec Fmt.Frame Wal.Model Wal.Spec.
Open Scope N_scope.

Record mtot := {
  t_bytes_written : N;     (* encoded bytes of the entries of accepted, non-empty StoreLogs *)
  t_entries_written : N;   (* entries of those batches *)
  t_appends : N;           (* number of those calls *)
  t_bytes_read : N;        (* encoded bytes of the entries GetLog found *)
  t_entries_read : N;      (* number of GetLog calls *)
  t_head_trunc : N;        (* entries removed by accepted DeleteRange calls from the head *)
  t_tail_trunc : N;        (* ... and from the tail *)
  t_stable_gets : N;       (* number of Get calls of the stable store *)
  t_stable_sets : N }.     (* number of Set calls of the stable store *)

Definition mtot_zero : mtot :=
  {| t_bytes_written := 0; t_entries_written := 0; t_appends := 0; t_bytes_read := 0; t_entries_read := 0;
     t_head_trunc := 0; t_tail_trunc := 0; t_stable_gets := 0; t_stable_sets := 0 |}.

(* encoded size of a batch *)
Definition enc_total (ls : list log) : N := fold_right (fun l a => enc_len l + a) 0 ls.

(* what one call adds, given the specification state before it *)
Definition mstep (sp : spst) (o : sop) (m : mtot) : mtot :=
  match o with
  | OStore ls =>
      match spec_store (sp_log sp) ls, ls with
      | Some _, _ :: _ =>
          {| t_bytes_written := t_bytes_written m + enc_total ls;
             t_entries_written := t_entries_written m + llen ls;
             t_appends := t_appends m + 1; t_bytes_read := t_bytes_read m;
             t_entries_read := t_entries_read m; t_head_trunc := t_head_trunc m;
             t_tail_trunc := t_tail_trunc m; t_stable_gets := t_stable_gets m;
             t_stable_sets := t_stable_sets m |}
      | _, _ => m
      end
  | ODelete mn mx =>
      match spec_delete (sp_log sp) mn mx with
      | Some lg' =>
          let k := llen (sl_ents (sp_log sp)) - llen (sl_ents lg') in   (* entries removed *)
          let head := mn <=? sl_first (sp_log sp) in
          {| t_bytes_written := t_bytes_written m; t_entries_written := t_entries_written m;
             t_appends := t_appends m; t_bytes_read := t_bytes_read m;
             t_entries_read := t_entries_read m;
             t_head_trunc := if head then t_head_trunc m + k else t_head_trunc m;
             t_tail_trunc := if head then t_tail_trunc m else t_tail_trunc m + k;
             t_stable_gets := t_stable_gets m; t_stable_sets := t_stable_sets m |}
      | None => m
      end
  | OGet i =>
      {| t_bytes_written := t_bytes_written m; t_entries_written := t_entries_written m;
         t_appends := t_appends m;
         t_bytes_read := t_bytes_read m + match spec_get (sp_log sp) i with Some l => enc_len l | None => 0 end;
         t_entries_read := t_entries_read m + 1; t_head_trunc := t_head_trunc m;
         t_tail_trunc := t_tail_trunc m; t_stable_gets := t_stable_gets m;
         t_stable_sets := t_stable_sets m |}
  | OSet _ _ _ =>
      {| t_bytes_written := t_bytes_written m; t_entries_written := t_entries_written m;
         t_appends := t_appends m; t_bytes_read := t_bytes_read m;
         t_entries_read := t_entries_read m; t_head_trunc := t_head_trunc m;
         t_tail_trunc := t_tail_trunc m; t_stable_gets := t_stable_gets m;
         t_stable_sets := t_stable_sets m + 1 |}
  | OGetS _ =>
      {| t_bytes_written := t_bytes_written m; t_entries_written := t_entries_written m;
         t_appends := t_appends m; t_bytes_read := t_bytes_read m;
         t_entries_read := t_entries_read m; t_head_trunc := t_head_trunc m;
         t_tail_trunc := t_tail_trunc m; t_stable_gets := t_stable_gets m + 1;
         t_stable_sets := t_stable_sets m |}
  | OFirst | OLast | OReopen => m
  end.

Fixpoint mtotals (sp : spst) (os : list sop) (m : mtot) : mtot :=
  match os with
  | [] => m
  | o :: r => mtotals (snd (step_spec sp o)) r (mstep sp o m)
  end.

Definition true_totals (os : list sop) : mtot :=
  mtotals {| sp_log := sl_empty; sp_kv := [] |} os mtot_zero.

(* the counters of the model show the true totals (the four byte/entry-range
   counters are uint64 sums: modulo 2^64) *)
Definition counters_show (m : metrics) (t : mtot) : Prop :=
  m_bytes_written m = t_bytes_written t mod two64 /\
  m_entries_written m = t_entries_written t /\
  m_appends m = t_appends t /\
  m_bytes_read m = t_bytes_read t mod two64 /\
  m_entries_read m = t_entries_read t /\
  m_head_trunc m = t_head_trunc t mod two64 /\
  m_tail_trunc m = t_tail_trunc t mod two64 /\
  m_stable_gets m = t_stable_gets t /\
  m_stable_sets m = t_stable_sets t.

(* the same without the modulus, for totals that fit *)
Definition counters_exact (m : metrics) (t : mtot) : Prop :=
  m_bytes_written m = t_bytes_written t /\
  m_entries_written m = t_entries_written t /\
  m_appends m = t_appends t /\
  m_bytes_read m = t_bytes_read t /\
  m_entries_read m = t_entries_read t /\
  m_head_trunc m = t_head_trunc t /\
  m_tail_trunc m = t_tail_trunc t /\
  m_stable_gets m = t_stable_gets t /\
  m_stable_sets m = t_stable_sets t.

(* ------------------------------------------------------------------ *)
(* segment_rotations: the truth comes from the persisted-metadata history.

   The I/O trace of a run (e_acts, newest first) holds every MetaStore commit
   with the state it persisted.  A ROTATION is a commit that, compared with the
   state persisted before it and with the segment files as they are at that
   moment (both replayed from the trace, not taken from the WAL's memory),
     - keeps every segment but the last as it was,
     - turns the last one -- the unsealed tail t -- into a sealed segment
       (index start recorded, MaxIndex recorded) with the same identity,
     - seals it AT THE LAST ENTRY ITS FILE HOLDS (nothing is cut off), and
     - appends ONE new, empty, unsealed tail with the next segment id whose
       BaseIndex is t's last index + 1.
   The other committers differ in one of these points: a head truncation and the
   reset of an empty first segment never make the list longer; a tail
   truncation that drops whole segments does not make it longer either, and one
   that cuts inside the tail seals it BELOW the last entry of its file; Open
   completing an interrupted rotation commits exactly this shape but is not
   counted by the implementation (segment_rotations is incremented in
   rotateSegmentLocked only, wal.go) -- which is why the total is per lifetime:
   it ranges over the actions recorded after the last Open returned. *)

Definition seginfo_eqb (a b : seginfo) : bool :=
  (si_id a =? si_id b) && (si_base a =? si_base b) && (si_min a =? si_min b) && (si_max a =? si_max b) &&
  (si_codec a =? si_codec b) && (si_index_start a =? si_index_start b) &&
  Bool.eqb (si_sealed a) (si_sealed b) && (si_size_limit a =? si_size_limit b).

Fixpoint segs_eqb (a b : list seginfo) : bool :=
  match a, b with
  | [], [] => true
  | x :: a', y :: b' => seginfo_eqb x y && segs_eqb a' b'
  | _, _ => false
  end.

(* the last index the file of segment s holds on disk d (0 = it holds no entry) *)
Definition file_last (d : disk) (s : seginfo) : N :=
  let n := llen (file_ents (name_of s) d) in
  if n =? 0 then 0 else si_base s + n - 1.

Definition is_rotation (d : disk) (old new : pstate) : bool :=
  match rev (ps_segs old), rev (ps_segs new) with
  | t :: rp, n :: t' :: rp' =>
      (si_max t' =? file_last d t) &&                       (* sealed at the last entry of the file *)
      negb (si_sealed t) && si_sealed t' &&
      (si_id t' =? si_id t) && (si_base t' =? si_base t) && (si_min t' =? si_min t) &&
      (si_codec t' =? si_codec t) && (si_size_limit t' =? si_size_limit t) &&
      (0 <? si_index_start t') && (0 <? si_max t') &&
      negb (si_sealed n) && (si_base n =? si_max t' + 1) && (si_min n =? si_base n) && (si_max n =? 0) &&
      (si_id n =? ps_next_id old) && (ps_next_id new =? ps_next_id old + 1) &&
      segs_eqb rp rp'                                       (* earlier segments unchanged *)
  | _, _ => false
  end.

(* what one action adds to the count, on the disk it is applied to *)
Definition act_rotation (d : disk) (a : act) : N :=
  match a, dk_meta d with
  | ACommit ps, Some old => if is_rotation d old ps then 1 else 0
  | _, _ => 0
  end.

Fixpoint rot_count (d : disk) (acts : list act) : N :=      (* acts oldest first *)
  match acts with
  | [] => 0
  | a :: r => act_rotation d a + rot_count (apply_act d a) r
  end.

(* rotations among the actions of a trace (newest first, as in e_acts) that come
   after the first [mark] ones; the disk at the mark is replayed from the trace *)
Definition trace_rotations (mark : nat) (acts : list act) : N :=
  let all := rev_append acts [] in
  rot_count (fold_left apply_act (firstn mark all) empty_disk) (skipn mark all).

(* the calls of the current lifetime: (everything up to and including the last
   Close;Open, the calls after it) *)
Fixpoint last_life (os : list sop) : list sop * list sop :=
  match os with
  | [] => ([], [])
  | o :: r =>
      let '(p, l) := last_life r in
      match p, o with
      | [], OReopen => ([OReopen], l)
      | [], _ => ([], o :: l)
      | _ :: _, _ => (o :: p, l)
      end
  end.

(* The model's run keeps ONE set of counters for the whole history (the other nine
   totals range over it); the implementation starts a fresh collector at every
   Open.  So the rotation counter of the current lifetime is the difference to the
   value at the last Open, and it equals the rotations the trace shows since then. *)
Definition rotations_show (c : cfg) (s0 : sstate) (os : list sop) : Prop :=
  let s1 := snd (run_model c s0 (fst (last_life os))) in
  let s := snd (run_model c s0 os) in
  m_rotations (e_m (ss_env s)) =
  m_rotations (e_m (ss_env s1)) + trace_rotations (length (e_acts (ss_env s1))) (e_acts (ss_env s)).
