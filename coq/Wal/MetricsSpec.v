(* MetricsSpec.v -- the TRUE totals the metric counters should show after a
   sequence of calls, computed from the contiguous-log specification alone
   (Wal/Spec.v), without looking at the WAL model.  Definitions only. *)
From RW Require Import Base.Bytes Fmt.Codec Fmt.Frame Wal.Model Wal.Spec.
Open Scope N_scope.

Record mtot := {
  t_bytes_written : N;     (* encoded bytes of the entries of accepted, non-empty StoreLogs *)
  t_entries_written : N;   (* entries of those batches *)
  t_appends : N;           (* number of those calls *)
  t_bytes_read : N;        (* encoded bytes of the entries GetLog found *)
  t_entries_read : N;      (* number of GetLog calls *)
  t_head_trunc : N;        (* entries removed by accepted DeleteRange calls from the head *)
  t_tail_trunc : N;        (* ... and from the tail *)
  t_stable_gets : N;       (* number of Get calls of the stable store *)
  t_stable_sets : N }.     (* number of Set calls of the stable store *)

Definition mtot_zero : mtot :=
  {| t_bytes_written := 0; t_entries_written := 0; t_appends := 0; t_bytes_read := 0; t_entries_read := 0;
     t_head_trunc := 0; t_tail_trunc := 0; t_stable_gets := 0; t_stable_sets := 0 |}.

(* encoded size of a batch *)
Definition enc_total (ls : list log) : N := fold_right (fun l a => enc_len l + a) 0 ls.

(* what one call adds, given the specification state before it *)
Definition mstep (sp : spst) (o : sop) (m : mtot) : mtot :=
  match o with
  | OStore ls =>
      match spec_store (sp_log sp) ls, ls with
      | Some _, _ :: _ =>
          {| t_bytes_written := t_bytes_written m + enc_total ls;
             t_entries_written := t_entries_written m + llen ls;
             t_appends := t_appends m + 1; t_bytes_read := t_bytes_read m;
             t_entries_read := t_entries_read m; t_head_trunc := t_head_trunc m;
             t_tail_trunc := t_tail_trunc m; t_stable_gets := t_stable_gets m;
             t_stable_sets := t_stable_sets m |}
      | _, _ => m
      end
  | ODelete mn mx =>
      match spec_delete (sp_log sp) mn mx with
      | Some lg' =>
          let k := llen (sl_ents (sp_log sp)) - llen (sl_ents lg') in   (* entries removed *)
          let head := mn <=? sl_first (sp_log sp) in
          {| t_bytes_written := t_bytes_written m; t_entries_written := t_entries_written m;
             t_appends := t_appends m; t_bytes_read := t_bytes_read m;
             t_entries_read := t_entries_read m;
             t_head_trunc := if head then t_head_trunc m + k else t_head_trunc m;
             t_tail_trunc := if head then t_tail_trunc m else t_tail_trunc m + k;
             t_stable_gets := t_stable_gets m; t_stable_sets := t_stable_sets m |}
      | None => m
      end
  | OGet i =>
      {| t_bytes_written := t_bytes_written m; t_entries_written := t_entries_written m;
         t_appends := t_appends m;
         t_bytes_read := t_bytes_read m + match spec_get (sp_log sp) i with Some l => enc_len l | None => 0 end;
         t_entries_read := t_entries_read m + 1; t_head_trunc := t_head_trunc m;
         t_tail_trunc := t_tail_trunc m; t_stable_gets := t_stable_gets m;
         t_stable_sets := t_stable_sets m |}
  | OSet _ _ _ =>
      {| t_bytes_written := t_bytes_written m; t_entries_written := t_entries_written m;
         t_appends := t_appends m; t_bytes_read := t_bytes_read m;
         t_entries_read := t_entries_read m; t_head_trunc := t_head_trunc m;
         t_tail_trunc := t_tail_trunc m; t_stable_gets := t_stable_gets m;
         t_stable_sets := t_stable_sets m + 1 |}
  | OGetS _ =>
      {| t_bytes_written := t_bytes_written m; t_entries_written := t_entries_written m;
         t_appends := t_appends m; t_bytes_read := t_bytes_read m;
         t_entries_read := t_entries_read m; t_head_trunc := t_head_trunc m;
         t_tail_trunc := t_tail_trunc m; t_stable_gets := t_stable_gets m + 1;
         t_stable_sets := t_stable_sets m |}
  | OFirst | OLast | OReopen => m
  end.

Fixpoint mtotals (sp : spst) (os : list sop) (m : mtot) : mtot :=
  match os with
  | [] => m
  | o :: r => mtotals (snd (step_spec sp o)) r (mstep sp o m)
  end.

Definition true_totals (os : list sop) : mtot :=
  mtotals {| sp_log := sl_empty; sp_kv := [] |} os mtot_zero.

(* the counters of the model show the true totals (the four byte/entry-range
   counters are uint64 sums: modulo 2^64) *)
Definition counters_show (m : metrics) (t : mtot) : Prop :=
  m_bytes_written m = t_bytes_written t mod two64 /\
  m_entries_written m = t_entries_written t /\
  m_appends m = t_appends t /\
  m_bytes_read m = t_bytes_read t mod two64 /\
  m_entries_read m = t_entries_read t /\
  m_head_trunc m = t_head_trunc t mod two64 /\
  m_tail_trunc m = t_tail_trunc t mod two64 /\
  m_stable_gets m = t_stable_gets t /\
  m_stable_sets m = t_stable_sets t.

(* the same without the modulus, for totals that fit *)
Definition counters_exact (m : metrics) (t : mtot) : Prop :=
  m_bytes_written m = t_bytes_written t /\
  m_entries_written m = t_entries_written t /\
  m_appends m = t_appends t /\
  m_bytes_read m = t_bytes_read t /\
  m_entries_read m = t_entries_read t /\
  m_head_trunc m = t_head_trunc t /\
  m_tail_trunc m = t_tail_trunc t /\
  m_stable_gets m = t_stable_gets t /\
  m_stable_sets m = t_stable_sets t.
