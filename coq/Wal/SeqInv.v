(* SeqInv.v -- the invariant of fault-free reachable WAL states used by the
   sequential refinement proof (C05).  Definitions only; lemmas are in
   SeqFacts*.v. *)
From RW Require Import Base.Bytes Fmt.Codec Fmt.Frame Wal.Model Wal.Spec Gen.Constants.
Open Scope N_scope.

(* the last index a listed segment holds: its sealed MaxIndex, or the tail
   writer's last committed index *)
Definition emax (tl : N) (s : seginfo) : N := if si_sealed s then si_max s else tl.

(* environment after a successful I/O action when no fault is armed *)
Definition io_post (a : act) (e : env) : env :=
  {| e_acts := a :: e_acts e; e_disk := apply_act (e_disk e) a; e_fault := None; e_fx := e_fx e; e_m := e_m e |}.

(* the file of a listed segment: present, fully synced, entries with
   consecutive indexes from BaseIndex, each a storable raft.Log *)
Definition file_ok (d : disk) (s : seginfo) (f : dfile) : Prop :=
  lookup (name_of s) (dk_files d) = Some f /\ df_pend f = None /\
  consecutive (si_base s) (df_ents f) = true /\ Forall log_ok (df_ents f).

Definition sealed_ok (c : cfg) (d : disk) (s : seginfo) : Prop :=
  si_sealed s = true /\ si_codec s = c_codec c /\
  1 <= si_base s /\ si_base s <= si_min s /\ si_min s <= si_max s /\ si_max s + 1 < two64 /\
  exists f, file_ok d s f /\ df_end f <> 0 /\ si_max s + 1 - si_base s <= llen (df_ents f).

Definition tail_ok (c : cfg) (d : disk) (t : seginfo) (tw : wseg) : Prop :=
  si_sealed t = false /\ si_codec t = c_codec c /\ si_size_limit t = c_seg_size c /\
  1 <= si_base t /\ si_base t <= si_min t /\ si_min t <= si_base t + (ws_n tw - 1) /\
  si_base t + ws_n tw < two64 /\
  ws_name tw = name_of t /\ ws_base tw = si_base t /\ ws_limit tw = c_seg_size c /\
  ws_min tw <= si_min t /\
  ws_commit_idx tw = (if ws_n tw =? 0 then 0 else si_base t + ws_n tw - 1) /\
  ws_hdr tw = (ws_off tw =? 0) /\ 8 * ws_n tw <= ws_off tw /\ ws_off tw < two32 /\
  (ws_index_start tw = 0 -> ws_off tw <= c_seg_size c) /\
  (0 < ws_index_start tw -> 0 < ws_n tw) /\
  exists f, file_ok d t f /\ llen (df_ents f) = ws_n tw /\ df_end f = ws_off tw /\
            df_seal f = ws_index_start tw.

(* adjacent listed segments: the next one starts right after the previous
   one's MaxIndex and has not been head-truncated *)
Fixpoint linked (l : list seginfo) : Prop :=
  match l with
  | s :: ((s' :: _) as r) => si_base s' = si_max s + 1 /\ si_min s' = si_base s' /\ linked r
  | _ => True
  end.

(* no file carries an id the WAL will hand out later *)
Definition fresh (w : wal) (d : disk) : Prop :=
  forall n, st_next_id w <= snd n -> lookup n (dk_files d) = None.

Definition WInvS (c : cfg) (w : wal) (d : disk) (ss : list seginfo) (t : seginfo) (tw : wseg) : Prop :=
  st_closed w = false /\ st_failed w = false /\
  dk_meta d = Some (persistent w) /\ dk_inited d = true /\ fresh w d /\
  st_segs w = ss ++ [t] /\ st_tail w = Some tw /\
  Forall (sealed_ok c d) ss /\ tail_ok c d t tw /\ linked (ss ++ [t]) /\
  st_rotate w = (if 0 <? ws_index_start tw then Some (ws_index_start tw) else None).

Definition WInv (c : cfg) (w : wal) (d : disk) : Prop := exists ss t tw, WInvS c w d ss t tw.

(* invariant of a sequential-history state *)
Definition SInv (c : cfg) (s : sstate) : Prop :=
  e_fault (ss_env s) = None /\ WInv c (ss_wal s) (e_disk (ss_env s)).
