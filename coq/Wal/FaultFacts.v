(* FaultFacts.v -- local consequences of I/O errors in the WAL model (C10):
   rollback of the segment writer, no in-memory change when the metadata commit
   fails, refusal of writes after a failed post-commit file creation. *)
From RW Require Import Base.Bytes Fmt.Codec Fmt.Frame Wal.Model Gen.Constants.
Open Scope N_scope.

(* a failed action has no effect -- except a BoltDB transaction under fx_land, which is
   reported as failed and found applied *)
Lemma io_fail_no_effect a e e' : io a e = (false, e') ->
  e_disk e' = e_disk e \/
  (is_txn a = true /\ fx_land (e_fx e) = true /\ e_fault e = Some O /\ e_disk e' = apply_act (e_disk e) a).
Proof.
  unfold io. destruct (is_delete a); [destruct (armed e && fx_del (e_fx e)); intros H; inversion H; left; reflexivity|].
  destruct (e_fault e) as [[|n]|]; [|intros H; inversion H..].
  destruct (is_txn a) eqn:Et, (fx_land (e_fx e)) eqn:El; cbn [andb]; intros H; inversion H; subst; cbn [e_disk]; auto.
Qed.

Lemma io_fail_no_effect_plain a e e' : is_txn a = false -> io a e = (false, e') -> e_disk e' = e_disk e.
Proof. intros Ht H. destruct (io_fail_no_effect a e e' H) as [K|(K & _)]; [exact K|congruence]. Qed.

(* Writer.Append: whatever fails (write or fsync), the writer state is the one
   before the call, so a failed batch is never visible through commit_idx *)
Lemma seg_append_error_rolls_back w ls e r w' e' :
  seg_append w ls e = (r, w', e') -> r <> ROk -> w' = w.
Proof.
  unfold seg_append. destruct ls as [|l0 ls']; [intros H; inversion H; congruence|].
  destruct (0 <? ws_index_start w); [intros H; inversion H; reflexivity|].
  destruct (existsb _ _); [intros H; inversion H; reflexivity|].
  destruct (negb _); [intros H; inversion H; reflexivity|].
  match goal with |- context [io ?a e] => destruct (io a e) as [ok1 e1] end.
  destruct ok1; cbn [negb].
  - match goal with |- context [io ?a e1] => destruct (io a e1) as [ok2 e2] end.
    destruct ok2; cbn [negb]; intros H; inversion H; subst; intros Hr; congruence.
  - intros H; inversion H; reflexivity.
Qed.

Lemma seg_force_seal_error_rolls_back w e r w' e' :
  seg_force_seal w e = (r, w', e') -> r <> ROk -> w' = w.
Proof.
  unfold seg_force_seal. destruct (0 <? ws_index_start w); [intros H; inversion H; congruence|].
  destruct (ws_n w =? 0); [intros H; inversion H; reflexivity|].
  match goal with |- context [io ?a e] => destruct (io a e) as [ok1 e1] end.
  destruct ok1; cbn [negb].
  - match goal with |- context [io ?a e1] => destruct (io a e1) as [ok2 e2] end.
    destruct ok2; cbn [negb]; intros H; inversion H; subst; intros Hr; congruence.
  - intros H; inversion H; reflexivity.
Qed.

(* mutateStateLocked: if the metadata commit fails nothing is published and the WAL
   refuses writes from then on (the commit may have reached the disk) *)
Definition wal_failed (w : wal) : wal :=
  {| st_next_id := st_next_id w; st_segs := st_segs w; st_tail := st_tail w;
     st_rotate := st_rotate w; st_failed := true; st_closed := st_closed w |}.

Lemma mutate_commit_failure_fails_wal w t e e1 :
  io (ACommit {| ps_next_id := tx_next_id t; ps_segs := tx_segs t |}) e = (false, e1) ->
  mutate w t e = (RErrIO, wal_failed w, e1).
Proof. intros H. unfold mutate, mutate_gen. rewrite H. reflexivity. Qed.

(* after a failed post-commit creation the WAL refuses every further write
   without touching the disk *)
Lemma failed_wal_refuses_store c w ls e :
  st_closed w = false -> st_failed w = true -> ls <> [] ->
  store_logs c w ls e = (RErrFailed, w, e).
Proof.
  intros Hc Hf Hl. unfold store_logs. rewrite Hc. destruct ls; [congruence|]. rewrite Hf. reflexivity.
Qed.

Lemma failed_wal_refuses_delete c w mn mx e :
  st_closed w = false -> st_failed w = true -> mn <= mx ->
  delete_range c w mn mx e = (RErrFailed, w, e).
Proof.
  intros Hc Hf Hm. unfold delete_range. rewrite Hc.
  replace (mx <? mn) with false by (symmetry; apply N.ltb_ge; exact Hm).
  rewrite Hf. reflexivity.
Qed.
