(* MetricsFacts.v -- the metric counters of the model show the true totals of
   Wal/MetricsSpec.v after every sequential history (C20, dynamic half). *)
From RW Require Import Base.Bytes Base.BytesFacts Fmt.Codec Fmt.CodecFacts Fmt.Frame
  Wal.Model Wal.Spec Wal.Hist Wal.SeqInv Wal.SeqFactsBase Wal.SeqFactsAbs Wal.SeqFactsTxn Wal.SeqFactsOps1
  Wal.SeqFactsOps2 Wal.SeqFactsOps3 Wal.SeqFactsMain Wal.MetricsSpec Gen.Constants.
From Coq Require Import ZifyN ZifyNat ZifyBool.
Open Scope N_scope.

Lemma two64_nz : two64 <> 0.
Proof. unfold two64. lia. Qed.

Lemma enc_total_bytes_sum ls : enc_total ls = bytes_sum ls.
Proof. reflexivity. Qed.

Lemma cs_zero : counters_show zero_metrics mtot_zero.
Proof. unfold counters_show, zero_metrics, mtot_zero; cbn. repeat split; reflexivity. Qed.

Lemma cs_rot m t : counters_show m t -> counters_show (inc_rot m) t.
Proof. intros H. exact H. Qed.

Lemma add_mod_l a b : (a mod two64 + b) mod two64 = (a + b) mod two64.
Proof. apply N.add_mod_idemp_l. exact two64_nz. Qed.
Lemma add_mod_lr a b : (a mod two64 + b mod two64) mod two64 = (a + b) mod two64.
Proof. symmetry. apply N.add_mod. exact two64_nz. Qed.

(* the rotation a mutating call waits for only moves the rotation counter *)
Lemma settle_m c s : cfg_ok c -> SInv c s -> s_nid s + 1 < two64 ->
  e_m (ss_env (settle c s)) = e_m (ss_env s) \/ e_m (ss_env (settle c s)) = inc_rot (e_m (ss_env s)).
Proof.
  intros Hc (He & ss & t & tw & HI) Hnid. unfold settle.
  assert (Hro : st_rotate (ss_wal s) = (if 0 <? ws_index_start tw then Some (ws_index_start tw) else None))
    by apply HI.
  rewrite Hro. destruct (N.ltb_spec 0 (ws_index_start tw)) as [Hp|Hp]; [|left; reflexivity].
  destruct (rotate_ok c _ _ ss t tw Hc He HI Hp Hnid)
    as (w' & e' & ss' & t' & tw' & Hr & _ & _ & _ & _ & _ & _ & Hm).
  rewrite Hr. right. exact Hm.
Qed.

Lemma metrics_step c s o sp r s' T :
  cfg_ok c -> sop_ok o -> SInv c s -> s_nid s + 2 < two64 -> sp_log sp = s_abs s ->
  step_model c s o = (r, s') ->
  counters_show (e_m (ss_env s)) T -> counters_show (e_m (ss_env s')) (mstep sp o T).
Proof.
  intros Hc Hop HS Hnid Hlog Hstep HT.
  destruct o as [ls|mn mx|i| | |k v n|k|]; cbn [step_model mstep] in *.
  - (* StoreLogs *)
    destruct (settle_ok c s Hc HS ltac:(lia)) as (ss & t & tw & He & HI & His & Habs & Hst & Hid1 & Hid2).
    assert (HT1 : counters_show (e_m (ss_env (settle c s))) T).
    { destruct (settle_m c s Hc HS ltac:(lia)) as [E|E]; rewrite E; [exact HT|apply cs_rot; exact HT]. }
    destruct Hop as [Hok Hfs].
    destruct (store_logs_ok c _ _ ss t tw ls Hc He HI His ltac:(unfold s_nid in *; lia) Hok Hfs)
      as (r0 & w' & e' & Hsl & _ & _ & _ & _ & _ & Hres).
    rewrite Hsl in Hstep. inversion Hstep; subst r s'. clear Hstep. cbn [ss_env].
    unfold s_abs in *. rewrite Hlog, <- Habs.
    destruct (spec_store _ ls) as [a'|]; destruct Hres as (_ & _ & Hm); rewrite Hm; [|destruct ls; exact HT1].
    destruct ls as [|l0 rest]; cbn [is_nil]; [exact HT1|].
    destruct HT1 as (H1 & H2 & H3 & H4 & H5 & H6 & H7 & H8 & H9).
    unfold counters_show, inc_write. cbn. rewrite H1, H2, H3. rewrite add_mod_lr.
    repeat split; auto.
  - (* DeleteRange *)
    destruct (settle_ok c s Hc HS ltac:(lia)) as (ss & t & tw & He & HI & His & Habs & Hst & Hid1 & Hid2).
    assert (HT1 : counters_show (e_m (ss_env (settle c s))) T).
    { destruct (settle_m c s Hc HS ltac:(lia)) as [E|E]; rewrite E; [exact HT|apply cs_rot; exact HT]. }
    destruct (delete_range_ok c _ _ ss t tw mn mx Hc He HI His ltac:(unfold s_nid in *; lia) Hop)
      as (r0 & w' & e' & Hsl & _ & _ & _ & _ & _ & Hres).
    rewrite Hsl in Hstep. inversion Hstep; subst r s'. clear Hstep. cbn [ss_env].
    unfold s_abs in *. rewrite Hlog, <- Habs.
    destruct (spec_delete _ mn mx) as [a'|]; [|destruct Hres as (_ & _ & Hm); rewrite Hm; exact HT1].
    destruct Hres as (_ & _ & Hdm). cbv zeta.
    destruct HT1 as (H1 & H2 & H3 & H4 & H5 & H6 & H7 & H8 & H9).
    destruct Hdm as [[Hm Hk]|[[Hh Hm]|[Hh Hm]]]; rewrite Hm; unfold counters_show; cbn.
    + rewrite Hk, N.sub_diag, !N.add_0_r. destruct (mn <=? _); repeat split; auto.
    + destruct (N.leb_spec mn (sl_first (abs (ss_wal (settle c s)) (e_disk (ss_env (settle c s)))))); [|lia].
      rewrite H6, add_mod_l. repeat split; auto.
    + destruct (N.leb_spec mn (sl_first (abs (ss_wal (settle c s)) (e_disk (ss_env (settle c s)))))); [lia|].
      rewrite H7, add_mod_l. repeat split; auto.
  - (* GetLog *)
    destruct HS as (He & ss & t & tw & HI).
    destruct (get_log_ok c _ _ ss t tw i HI) as (r0 & e' & Hg & _ & _ & _ & Hm).
    rewrite Hg in Hstep. inversion Hstep; subst r s'. clear Hstep. cbn [ss_env].
    rewrite Hm, (raw_get_spec _ _ _ _ _ _ i HI). unfold s_abs in Hlog. rewrite Hlog.
    destruct HT as (H1 & H2 & H3 & H4 & H5 & H6 & H7 & H8 & H9).
    destruct (spec_get _ i) as [l|]; unfold counters_show, inc_read; cbn.
    + rewrite H4, H5, add_mod_l. repeat split; auto.
    + rewrite H5, N.add_0_r. repeat split; auto.
  - inversion Hstep; subst r s'. exact HT.
  - inversion Hstep; subst r s'. exact HT.
  - (* Set *)
    destruct HS as (He & ss & t & tw & HI).
    destruct (set_stable_ok c _ _ ss t tw k v n He HI) as (r0 & e' & Hs & _ & _ & _ & _ & _ & _ & Hm).
    rewrite Hs in Hstep. inversion Hstep; subst r s'. clear Hstep. cbn [ss_env]. rewrite Hm.
    destruct HT as (H1 & H2 & H3 & H4 & H5 & H6 & H7 & H8 & H9).
    unfold counters_show, inc_stable; cbn. rewrite H9. repeat split; auto.
  - (* Get *)
    destruct HS as (He & ss & t & tw & HI).
    rewrite (get_stable_ok c _ _ ss t tw k HI) in Hstep. inversion Hstep; subst r s'. clear Hstep. cbn [ss_env].
    destruct HT as (H1 & H2 & H3 & H4 & H5 & H6 & H7 & H8 & H9).
    unfold counters_show, inc_stable; cbn. rewrite H8. repeat split; auto.
  - (* Close; Open *)
    destruct HS as (He & ss & t & tw & HI).
    destruct (reopen_ok c _ _ ss t tw Hc He HI ltac:(unfold s_nid in *; lia))
      as (w' & e' & ss' & t' & tw' & Ho & _ & _ & _ & _ & _ & _ & _ & Hm).
    rewrite Ho in Hstep. inversion Hstep; subst r s'. clear Hstep. cbn [ss_env]. rewrite Hm. exact HT.
Qed.

Lemma metrics_run c : forall os s sp T,
  cfg_ok c -> Forall sop_ok os -> SInv c s -> s_nid s + 2 * N.of_nat (length os) < two64 ->
  sp_log sp = s_abs s -> sp_kv sp = s_kv s -> counters_show (e_m (ss_env s)) T ->
  counters_show (e_m (ss_env (snd (run_model c s os)))) (mtotals sp os T).
Proof.
  induction os as [|o os IH]; intros s sp T Hc Hops HS Hnid Hlog Hkv HT; [exact HT|].
  inversion Hops as [|? ? Hop Hops']; subst. cbn [run_model mtotals]. cbn [length] in Hnid.
  destruct (step_model c s o) as [r s1] eqn:Estep.
  destruct (step_ok c s o sp r s1 Hc Hop HS ltac:(lia) Hlog Hkv Estep) as (HS1 & _ & Ha & Hk & Hid1 & Hid2).
  assert (HT1 := metrics_step c s o sp r s1 T Hc Hop HS ltac:(lia) Hlog Estep HT).
  specialize (IH s1 (snd (step_spec sp o)) (mstep sp o T) Hc Hops' HS1 ltac:(lia) (eq_sym Ha) (eq_sym Hk) HT1).
  destruct (run_model c s1 os) as [rs s2]. exact IH.
Qed.

Theorem counters_true c os s0 :
  cfg_ok c -> Forall sop_ok os -> short_enough os -> initial c = Some s0 ->
  counters_show (e_m (ss_env (snd (run_model c s0 os)))) (true_totals os).
Proof.
  intros Hc Hops Hshort Hinit.
  destruct (initial_inv c s0 Hc Hinit) as (HS & Ha & Hk & Hid & Hm).
  apply metrics_run; auto.
  - rewrite Hid. unfold short_enough in Hshort. unfold two64. lia.
  - rewrite Hm. exact cs_zero.
Qed.

(* without the modulus when the true totals fit in 64 bits *)
Theorem counters_true_exact c os s0 :
  cfg_ok c -> Forall sop_ok os -> short_enough os -> initial c = Some s0 ->
  t_bytes_written (true_totals os) < two64 -> t_bytes_read (true_totals os) < two64 ->
  t_head_trunc (true_totals os) < two64 -> t_tail_trunc (true_totals os) < two64 ->
  counters_exact (e_m (ss_env (snd (run_model c s0 os)))) (true_totals os).
Proof.
  intros Hc Hops Hshort Hinit B1 B2 B3 B4.
  destruct (counters_true c os s0 Hc Hops Hshort Hinit) as (H1 & H2 & H3 & H4 & H5 & H6 & H7 & H8 & H9).
  rewrite N.mod_small in H1, H4, H6, H7 by assumption. repeat split; assumption.
Qed.
