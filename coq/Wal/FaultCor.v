(* FaultCor.v -- corollaries of fault_safety in plain terms (used by Props/C10.v). *)
From RW Require Import Base.Bytes Base.BytesFacts Fmt.Codec Fmt.CodecFacts Fmt.Frame Wal.Model Wal.Spec Wal.Hist Wal.FaultHist
  Wal.CrashInv Wal.CrashFacts0 Wal.CrashFacts1 Wal.CrashFacts2 Wal.CrashFacts3 Wal.CrashFacts4 Wal.CrashFacts5
  Wal.CrashFacts6 Wal.CrashGlue Wal.CrashCalls1 Wal.CrashCalls2 Wal.FaultSim Wal.FaultSim2 Wal.FaultInv Wal.FaultFacts2
  Wal.FaultFacts3 Wal.FaultNames Wal.FaultStore Wal.FaultDelete Wal.FaultSteps Wal.FaultThm Gen.Constants.
From Coq Require Import ZifyN ZifyNat ZifyBool.
Open Scope N_scope.

Definition fault_hist_ok (c : cfg) (steps : list fstep) : Prop :=
  cfg_ok c /\ Forall fstep_wf steps /\ short_enough steps.

(* the invariant holds after every history *)
Theorem fault_invariant c steps s0 : fault_hist_ok c steps -> initial c = Some s0 ->
  exists nb, nb + 4 < two64 /\ FInv c nb (fault_run c (fault_init s0) steps).
Proof.
  intros (Hc & Hwf & Hshort) Hinit. exists (1 + 2 * N.of_nat (length steps)).
  assert (Hb : 1 + 2 * N.of_nat (length steps) + 4 < two64) by (unfold short_enough in Hshort; unfold two64; lia).
  split; [exact Hb|]. apply (FInv_run c steps 1 (fault_init s0) Hc Hwf ltac:(lia) (FInv_init c s0 Hc Hinit)).
Qed.

(* ---- readers of the running process see the nominal state ---- *)
Lemma FInv_observed c nb h : FInv c nb h -> st_closed (ss_wal (fs_s h)) = false -> observed (fs_s h) = fs_nom h.
Proof.
  intros (_ & _ & _ & _ & _ & _ & _ & HM) Hcl. destruct (fs_s h) as [w e] eqn:E. cbn [ss_wal ss_env] in *.
  eapply observed_Mode; eauto.
Qed.

Lemma FInv_getlog c nb h i : cfg_ok c -> nb + 2 < two64 -> FInv c nb h -> st_closed (ss_wal (fs_s h)) = false -> i < two64 ->
  result_eqb (res_class (fst (get_log (ss_wal (fs_s h)) i (ss_env (fs_s h))))) (fst (step_spec (fs_nom h) (OGet i))) = true.
Proof.
  intros Hc Hnb (_ & _ & Hgn & _ & _ & _ & _ & HM) Hcl Hi. destruct (fs_s h) as [w e] eqn:E. cbn [ss_wal ss_env] in *.
  destruct (read_step c nb w e (fs_nom h) (OGet i) Hc Hi Hnb I (Mode_RV _ _ _ _ _ _ HM Hcl) Hcl Hgn) as (r & e' & Hst & _ & _ & Hres).
  cbn [step_model ss_wal ss_env] in Hst. destruct (get_log w i e) as [r0 e0]. inversion Hst; subst. exact Hres.
Qed.

Lemma res_class_log r l : result_eqb (res_class r) (RLog l) = true -> r = RLog l.
Proof.
  destruct r; cbn; intros H; try discriminate. apply log_eqb_eq in H. subst. reflexivity.
Qed.
Lemma res_class_notfound r : result_eqb (res_class r) RErrNotFound = true -> r = RErrNotFound.
Proof. destruct r; cbn; intros H; try discriminate; reflexivity. Qed.

(* ---- entries of an accepted StoreLogs ---- *)
Lemma consecutive_nth ls : forall i k l, consecutive i ls = true -> nth_error ls k = Some l -> l_index l = i + N.of_nat k.
Proof.
  induction ls as [|x ls IH]; intros i k l Hc Hn; [destruct k; discriminate|].
  cbn [consecutive] in Hc. apply andb_true_iff in Hc. destruct Hc as (H1 & H2). destruct k as [|k]; cbn [nth_error] in Hn.
  - inversion Hn; subst. lia.
  - rewrite (IH _ _ _ H2 Hn). lia.
Qed.

Lemma spec_store_get nom ls nom' l : spec_accepts nom (OStore ls) = Some nom' -> In l ls ->
  l_index l + 1 < two64 -> spec_get (sp_log nom') (l_index l) = Some l.
Proof.
  unfold spec_accepts. cbn [step_spec]. unfold spec_store. intros Hacc Hin Hb.
  destruct ls as [|l0 ls']; [destruct Hin|]. set (ls := l0 :: ls') in *.
  destruct (consecutive (l_index l0) ls && (sl_is_empty (sp_log nom) || (l_index l0 =? spec_last (sp_log nom) + 1))) eqn:E; [|discriminate].
  inversion Hacc; subst nom'. clear Hacc. cbn [sp_log].
  apply andb_true_iff in E. destruct E as (Hcons & Hpos).
  destruct (In_nth_error _ _ Hin) as (k & Hk). pose proof (consecutive_nth ls _ k l Hcons Hk) as Hidx.
  assert (Hklt : (k < length ls)%nat) by (apply nth_error_Some; congruence).
  unfold sl_is_empty in Hpos |- *. unfold spec_last, sl_is_empty in Hpos.
  destruct (sl_ents (sp_log nom)) as [|e0 es] eqn:Ees.
  - cbn [app orb]. unfold spec_get, spec_last, sl_is_empty. cbn [sl_ents sl_first]. unfold ls at 1 2. cbn [orb].
    replace (l_index l <? l_index l0) with false by lia.
    replace (l_index l0 + llen ls - 1 <? l_index l) with false by (unfold llen; lia). cbn [orb].
    replace (N.to_nat (l_index l - l_index l0)) with k by lia. exact Hk.
  - cbn [orb] in Hpos. apply N.eqb_eq in Hpos. unfold llen in Hpos.
    set (first := sl_first (sp_log nom)) in *.
    unfold spec_get, spec_last, sl_is_empty. cbn [sl_ents sl_first app orb].
    replace (l_index l <? first) with false by (unfold llen in *; cbn [length] in *; lia).
    replace (first + llen (e0 :: es ++ ls) - 1 <? l_index l) with false by (unfold llen in *; cbn [length] in *; rewrite app_length; lia).
    cbn [orb]. change (e0 :: es ++ ls) with ((e0 :: es) ++ ls). rewrite nth_error_app2 by (cbn [length] in *; lia).
    replace (N.to_nat (l_index l - first) - length (e0 :: es))%nat with k by (cbn [length] in *; lia). exact Hk.
Qed.

Lemma get_log_fst w i e1 e2 : e_disk e1 = e_disk e2 -> fst (get_log w i e1) = fst (get_log w i e2).
Proof.
  intros H. unfold get_log. rewrite H. destruct (st_closed w); [reflexivity|].
  repeat match goal with |- context [match ?x with _ => _ end] => destruct x end; reflexivity.
Qed.

(* ---- one more StoreLogs after any history ---- *)
Lemma store_step_cases c nb h f fx ls : cfg_ok c -> sop_ok (OStore ls) -> nb + 4 < two64 -> FInv c nb h ->
  st_closed (ss_wal (fs_s h)) = false ->
  let '(r, s1) := step_model c (with_fault (fs_s h) f fx) (OStore ls) in
  st_closed (ss_wal s1) = false /\
  exists h', FInv c (nb + 2) h' /\ fs_s h' = with_fault s1 None fx_none /\
    ((r = ROk /\ spec_accepts (fs_nom h) (OStore ls) = Some (fs_nom h')) \/
     (r <> ROk /\ fs_nom h' = fs_nom h)).
Proof.
  intros Hc Hop Hnb HI Hcl.
  pose proof (fop_step c nb h f fx (OStore ls) Hc Hop ltac:(discriminate) ltac:(lia) HI) as HI'.
  unfold fop_run in HI'. rewrite Hcl in HI'. cbn [is_mutating] in HI'.
  pose proof HI as (Hok & Hf & Hgn & Hin & Hga & Hdo & HRD & HM).
  destruct (fs_s h) as [w e] eqn:Es. cbn [ss_wal ss_env] in *.
  destruct (mut_step c nb w {| e_acts := e_acts e; e_disk := e_disk e; e_fault := f; e_fx := fx; e_m := e_m e |} (fs_nom h) (fs_alts h) (fs_defer h) (OStore ls) Hc Hop eq_refl ltac:(lia) Hcl HM HRD Hin Hdo)
    as (r & w' & e' & Hst & Hcl' & Hpost).
  change (with_fault {| ss_wal := w; ss_env := e |} f fx) with {| ss_wal := w; ss_env := {| e_acts := e_acts e; e_disk := e_disk e; e_fault := f; e_fx := fx; e_m := e_m e |} |} in *.
  rewrite Hst in HI' |- *. cbn [ss_wal]. split; [exact Hcl'|].
  destruct Hpost as [(-> & nom' & Hacc & _)|[(Hr & _)|(_ & k & v & n & nom' & K & _)]]; [| |discriminate K].
  - rewrite Hacc in HI'. eexists. split; [exact HI'|]. split; [reflexivity|]. left. split; [reflexivity|exact Hacc].
  - destruct r; try congruence; (eexists; split; [exact HI'|]; split; [reflexivity|]; right; split; [discriminate|reflexivity]).
Qed.

(* ------------------------------------------------------------------ *)
(* the corollaries                                                      *)

(* (a) while the WAL is open, readers see exactly the nominal state: every call
   that returned nil applied, every call that returned an error not applied *)
Theorem nominal_view c steps s0 : fault_hist_ok c steps -> initial c = Some s0 ->
  let h := fault_run c (fault_init s0) steps in
  st_closed (ss_wal (fs_s h)) = false ->
  observed (fs_s h) = fs_nom h /\
  forall i, i < two64 ->
    result_eqb (res_class (fst (get_log (ss_wal (fs_s h)) i (ss_env (fs_s h))))) (fst (step_spec (fs_nom h) (OGet i))) = true.
Proof.
  intros Hok Hinit h Hcl. destruct (fault_invariant c steps s0 Hok Hinit) as (nb & Hnb & HI). fold h in HI.
  split; [eapply FInv_observed; eauto|]. intros i Hi. apply (FInv_getlog c nb h i (proj1 Hok) ltac:(lia) HI Hcl Hi).
Qed.

(* (b) every entry of a StoreLogs that returned nil is returned by GetLog *)
Theorem acked_visible_in_process c steps s0 f fx ls l : fault_hist_ok c steps -> initial c = Some s0 -> sop_ok (OStore ls) ->
  let h := fault_run c (fault_init s0) steps in
  st_closed (ss_wal (fs_s h)) = false ->
  let '(r, s1) := step_model c (with_fault (fs_s h) f fx) (OStore ls) in
  r = ROk -> In l ls -> fst (get_log (ss_wal s1) (l_index l) (ss_env s1)) = RLog l.
Proof.
  intros Hok Hinit Hop h Hcl. destruct (fault_invariant c steps s0 Hok Hinit) as (nb & Hnb & HI). fold h in HI.
  pose proof (store_step_cases c nb h f fx ls (proj1 Hok) Hop Hnb HI Hcl) as K.
  destruct (step_model c (with_fault (fs_s h) f fx) (OStore ls)) as [r s1]. destruct K as (Hcl1 & h' & HI' & Hs' & Hcase).
  intros -> Hin. destruct Hcase as [(_ & Hacc)|(K & _)]; [|congruence].
  assert (Hl : log_ok l) by (destruct Hop as (Hl & _); unfold logs_ok in Hl; rewrite Forall_forall in Hl; apply Hl; exact Hin).
  pose proof Hl as (Hwf & _ & Hb & _).
  assert (Hcl' : st_closed (ss_wal (fs_s h')) = false) by (rewrite Hs'; exact Hcl1).
  pose proof (FInv_getlog c (nb + 2) h' (l_index l) (proj1 Hok) ltac:(lia) HI' Hcl' ltac:(lia)) as Hg.
  cbn [step_spec] in Hg. rewrite (spec_store_get _ _ _ l Hacc Hin Hb) in Hg. cbn [fst] in Hg.
  rewrite Hs' in Hg. cbn [with_fault ss_wal ss_env] in Hg.
  apply res_class_log. erewrite get_log_fst; [exact Hg|reflexivity].
Qed.

(* (c) a StoreLogs that returned an error changed nothing readers can see: GetLog
   answers from the state before the call *)
Theorem failed_store_invisible c steps s0 f fx ls i : fault_hist_ok c steps -> initial c = Some s0 -> sop_ok (OStore ls) ->
  let h := fault_run c (fault_init s0) steps in
  st_closed (ss_wal (fs_s h)) = false -> i < two64 ->
  let '(r, s1) := step_model c (with_fault (fs_s h) f fx) (OStore ls) in
  r <> ROk ->
  result_eqb (res_class (fst (get_log (ss_wal s1) i (ss_env s1)))) (fst (step_spec (fs_nom h) (OGet i))) = true.
Proof.
  intros Hok Hinit Hop h Hcl Hi. destruct (fault_invariant c steps s0 Hok Hinit) as (nb & Hnb & HI). fold h in HI.
  pose proof (store_step_cases c nb h f fx ls (proj1 Hok) Hop Hnb HI Hcl) as K.
  destruct (step_model c (with_fault (fs_s h) f fx) (OStore ls)) as [r s1]. destruct K as (Hcl1 & h' & HI' & Hs' & Hcase).
  intros Hr. destruct Hcase as [(K & _)|(_ & Hnom)]; [congruence|].
  assert (Hcl' : st_closed (ss_wal (fs_s h')) = false) by (rewrite Hs'; exact Hcl1).
  pose proof (FInv_getlog c (nb + 2) h' i (proj1 Hok) ltac:(lia) HI' Hcl' Hi) as Hg.
  rewrite Hnom, Hs' in Hg. cbn [with_fault ss_wal ss_env] in Hg.
  erewrite get_log_fst; [exact Hg|reflexivity].
Qed.

(* in particular an index beyond the nominal log is not found *)
Corollary failed_store_not_found c steps s0 f fx ls l : fault_hist_ok c steps -> initial c = Some s0 -> sop_ok (OStore ls) ->
  let h := fault_run c (fault_init s0) steps in
  st_closed (ss_wal (fs_s h)) = false -> In l ls -> spec_get (sp_log (fs_nom h)) (l_index l) = None ->
  let '(r, s1) := step_model c (with_fault (fs_s h) f fx) (OStore ls) in
  r <> ROk -> fst (get_log (ss_wal s1) (l_index l) (ss_env s1)) = RErrNotFound.
Proof.
  intros Hok Hinit Hop h Hcl Hin Hnone.
  assert (Hl : l_index l < two64).
  { destruct Hop as (Hl & _). unfold logs_ok in Hl. rewrite Forall_forall in Hl. destruct (Hl l Hin) as (_ & _ & Hb & _). lia. }
  pose proof (failed_store_invisible c steps s0 f fx ls (l_index l) Hok Hinit Hop Hcl Hl) as K. cbv zeta in K. fold h in K.
  destruct (step_model c (with_fault (fs_s h) f fx) (OStore ls)) as [r s1]. intros Hr. specialize (K Hr).
  cbn [step_spec] in K. rewrite Hnone in K. cbn [fst] in K. apply res_class_notfound. exact K.
Qed.

(* (d) a restart (no power loss) after any history opens the WAL and presents a state in
   which every failed call is applied as a whole or not at all: a member of
   candidates alts defer, i.e. an alternative (each failed call applied in place or not)
   possibly followed by one failed StoreLogs in full *)
Theorem reopen_whole_or_nothing c steps s0 : fault_hist_ok c steps -> initial c = Some s0 ->
  let h := fault_run c (fault_init s0) steps in
  let h' := fstep_run c h FRestart in
  st_closed (ss_wal (fs_s h')) = false /\ fs_ok h' = true /\
  In (fs_nom h') (candidates (fs_alts h) (fs_defer h)) /\ observed (fs_s h') = fs_nom h'.
Proof.
  intros Hok Hinit h h'. destruct (fault_invariant c steps s0 Hok Hinit) as (nb & Hnb & HI). fold h in HI.
  pose proof (FInv_step c nb h FRestart (proj1 Hok) I ltac:(lia) HI) as HI'. fold h' in HI'.
  unfold h'. cbn [fstep_run].
  destruct (reopen_step c nb h None fx_none (proj1 Hok) ltac:(lia) HI) as (r & s1 & Hst & Hcase). cbv zeta in Hst.
  unfold h' in HI'. cbn [fstep_run] in HI'. rewrite Hst in HI' |- *.
  destruct Hcase as [(-> & Hcl & HL & HN & Hcand & Hfe)|(_ & Hfn & _)]; [|congruence].
  destruct s1 as [w1 e1]. cbn [ss_wal ss_env] in *.
  rewrite (observed_clean c (nb + 1) w1 e1 HL HN), (matches_in _ _ Hcand) in HI' |- *.
  cbn [fs_s fs_nom fs_ok ss_wal]. split; [exact Hcl|]. split; [apply HI'|]. split; [exact Hcand|].
  apply (observed_clean c (nb + 1) w1 e1 HL HN).
Qed.


(* ------------------------------------------------------------------ *)
(* the local effect of the three further fault kinds                    *)

(* a failed file creation leaves the disk as it was, or with the empty file *)
Lemma failed_create_effect si e e' : seg_create si e = (None, e') ->
  e_disk e' = e_disk e \/ e_disk e' = apply_act (e_disk e) (ACreate (name_of si) 0).
Proof.
  unfold seg_create. destruct (si_base si =? 0); [intros E; inversion E; auto|].
  destruct (lookup _ _).
  - destruct (io_cases (AFail (ACreate (name_of si) (si_size_limit si))) e eq_refl eq_refl) as [(x & Ex & Dx & _)|(x & Ex & Dx & _)];
      rewrite Ex; intros E; inversion E; subst; left; rewrite Dx; reflexivity.
  - destruct (io_cases (ACreate (name_of si) (si_size_limit si)) e eq_refl eq_refl) as [(x & Ex & Dx & _)|(x & Ex & Dx & _)];
      rewrite Ex; intros E; inversion E; subst.
    destruct (fx_leave (e_fx e)); [right; unfold leave_entry; cbn [e_disk]; rewrite Dx; reflexivity|left; exact Dx].
Qed.

(* a failed deletion keeps the file and does not use up the armed fault *)
Lemma failed_delete_effect n e e' : io (ADelete n) e = (false, e') ->
  e_disk e' = e_disk e /\ e_fault e' = e_fault e /\ armed e = true /\ fx_del (e_fx e) = true.
Proof.
  unfold io. cbn [is_delete]. destruct (armed e) eqn:Ea, (fx_del (e_fx e)) eqn:Ed; cbn [andb]; intros E; inversion E; subst.
  cbn. auto.
Qed.

(* Open with a failing directory listing: an error, the disk is left as MetaStore.Load made it *)
Lemma failed_listing_fails_open c e :
  negb (FirstExternalCodecID <=? c_codec c) && negb (c_codec c =? BinaryCodecID) = false ->
  dk_inited (e_disk e) = true -> armed e = true -> fx_list (e_fx e) = true ->
  open_wal c e = (OErr RErrIO, list_failed e) /\ e_disk (list_failed e) = e_disk e /\
  fx_list (e_fx (list_failed e)) = false.
Proof.
  intros Hc Hi Ha Hl. unfold open_wal. rewrite Hc, Hi. cbn [negb]. rewrite Ha, Hl. cbn [andb]. auto.
Qed.
