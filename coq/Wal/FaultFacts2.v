(* FaultFacts2.v -- readers of a running process whose disk carries a stale
   unsynced batch (or whose metadata ran ahead of the in-memory state) see the
   nominal state; the normalised views of such a disk. *)
From RW Require Import Base.Bytes Base.BytesFacts Fmt.Codec Fmt.CodecFacts Fmt.Frame Wal.Model Wal.Spec Wal.Hist Wal.FaultHist
  Wal.CrashInv Wal.CrashFacts0 Wal.CrashFacts1 Wal.CrashFacts2 Wal.CrashFacts3 Wal.CrashFacts4 Wal.CrashFacts5
  Wal.CrashFacts6 Wal.CrashGlue Wal.CrashCalls1 Wal.CrashCalls2 Wal.CrashCalls3 Wal.CrashCalls4 Wal.CrashCalls6 Wal.CrashCalls7 Wal.CrashCalls8 Wal.CrashCalls9 Wal.FaultSim Wal.FaultSim2 Wal.FaultInv Gen.Constants.
From Coq Require Import ZifyN ZifyNat ZifyBool.
Open Scope N_scope.

(* ---- reading a file that may carry a stale batch ---- *)
Lemma seg_read_sh_nopend n b i d f :
  lookup n (dk_files d) = Some f -> df_pend f = None -> seg_read n b i d = seg_read n b i (sh d).
Proof.
  intros Hl Hp. unfold seg_read, sh. rewrite lookup_map_files, Hl. cbn. unfold cur_ents. rewrite Hp. reflexivity.
Qed.
Lemma seg_read_sh_none n b i d :
  lookup n (dk_files d) = None -> seg_read n b i d = seg_read n b i (sh d).
Proof. intros Hl. unfold seg_read, sh. rewrite lookup_map_files, Hl. reflexivity. Qed.
Lemma seg_read_sh_short n b i d f :
  lookup n (dk_files d) = Some f -> (N.to_nat (i - b) < length (df_ents f))%nat -> seg_read n b i d = seg_read n b i (sh d).
Proof.
  intros Hl Hlt. unfold seg_read, sh. rewrite lookup_map_files, Hl. cbn. unfold cur_ents.
  destruct (df_pend f); [|reflexivity]. apply nth_error_app1. exact Hlt.
Qed.

Lemma seg_read_files n b i d d' : dk_files d = dk_files d' -> seg_read n b i d = seg_read n b i d'.
Proof. intros H. unfold seg_read. rewrite H. reflexivity. Qed.

Lemma file_ents_files n d d' : dk_files d = dk_files d' -> file_ents n d = file_ents n d'.
Proof. intros H. unfold file_ents. rewrite H. reflexivity. Qed.

Lemma file_ents_sh_nopend n d : (forall f, lookup n (dk_files d) = Some f -> df_pend f = None) ->
  file_ents n d = file_ents n (sh d).
Proof.
  intros H. unfold file_ents, sh. rewrite lookup_map_files. destruct (lookup n (dk_files d)) as [f|]; [|reflexivity].
  cbn. unfold cur_ents. rewrite (H f eq_refl). reflexivity.
Qed.

(* the view of the clean shadow state behind a running process *)
Record rview (c : cfg) (nb : N) (w : wal) (d : disk) (wc : wal) (dc : disk) (S : list seginfo) (t : seginfo)
  (f0 : dfile) (tw : wseg) : Prop := {
  rv_view : lview c nb wc dc S t f0 tw;
  rv_segs : st_segs w = st_segs wc;
  rv_tail : st_tail w = st_tail wc;
  rv_files : forall n, lookup n (dk_files dc) <> None -> lookup n (dk_files (sh d)) = lookup n (dk_files dc);
  rv_nodup : NoDup (map fst (dk_files d));
  rv_stale : forall n f s, lookup n (dk_files d) = Some f -> df_pend f <> None -> In s S -> name_of s <> n }.

Lemma RV_view c nb w d nom : RV c nb w d nom ->
  exists wc dc S t f0 tw, rview c nb w d wc dc S t f0 tw /\ sp_of dc = nom /\ dk_stable dc = dk_stable d.
Proof.
  intros (wc & dc & HL & Hsp & Hs & Ht & Hf & Hst & ND & Hso).
  destruct (LInv_view _ _ _ _ HL) as (S & t & f0 & tw & V).
  exists wc, dc, S, t, f0, tw. split; [|auto]. constructor; auto.
  intros n f s Hl Hp Hin Hn.
  assert (Hin' : In s (st_segs w)) by (rewrite Hs, (lv_segs _ _ _ _ _ _ _ _ V); apply in_or_app; left; exact Hin).
  pose proof (Hso n f s Hl Hp Hin' Hn) as K. rewrite Hs, (lv_segs _ _ _ _ _ _ _ _ V), tail_info_app in K. inversion K; subst s.
  apply (DIs_sealed_neq c nb dc _ S t t (lv_dis _ _ _ _ _ _ _ _ V) (lv_meta _ _ _ _ _ _ _ _ V) eq_refl Hin). reflexivity.
Qed.

Section Reads.
Variables (c : cfg) (nb : N) (w : wal) (d : disk) (wc : wal) (dc : disk) (S : list seginfo) (t : seginfo)
  (f0 : dfile) (tw : wseg).
Hypothesis RVw : rview c nb w d wc dc S t f0 tw.

Let V := rv_view _ _ _ _ _ _ _ _ _ _ RVw.

Lemma rv_lookup n g : lookup n (dk_files dc) = Some g -> exists f, lookup n (dk_files d) = Some f /\ g = sh_file f.
Proof.
  intros Hg. pose proof (rv_files _ _ _ _ _ _ _ _ _ _ RVw n ltac:(rewrite Hg; discriminate)) as K. rewrite Hg in K.
  unfold sh in K. rewrite lookup_map_files in K. destruct (lookup n (dk_files d)) as [f|]; [|discriminate].
  cbn in K. inversion K. exists f. auto.
Qed.

Lemma rv_tail_file : exists f, lookup (name_of t) (dk_files d) = Some f /\ f0 = sh_file f.
Proof. apply rv_lookup. apply (lv_file _ _ _ _ _ _ _ _ V). Qed.

Lemma rv_sealed_file s : In s S -> exists f, lookup (name_of s) (dk_files d) = Some f /\ df_pend f = None /\
  lookup (name_of s) (dk_files dc) = Some (sh_file f).
Proof.
  intros Hin. pose proof (lv_sealed _ _ _ _ _ _ _ _ V) as Hso. rewrite Forall_forall in Hso.
  destruct (Hso s Hin) as (_ & _ & g & Hg & _). destruct (rv_lookup _ _ Hg) as (f & Hf & ->).
  exists f. split; [exact Hf|]. split; [|exact Hg].
  destruct (df_pend f) eqn:E; [|reflexivity]. exfalso.
  apply (rv_stale _ _ _ _ _ _ _ _ _ _ RVw (name_of s) f s Hf ltac:(congruence) Hin). reflexivity.
Qed.

Lemma rv_other_file s : In s S -> file_ents (name_of s) d = file_ents (name_of s) dc.
Proof.
  intros Hin. destruct (rv_sealed_file s Hin) as (f & Hf & Hp & Hg). unfold file_ents. rewrite Hf, Hg.
  unfold cur_ents. rewrite Hp. reflexivity.
Qed.

Lemma rv_seg_read_other s b i : In s S -> seg_read (name_of s) b i d = seg_read (name_of s) b i dc.
Proof.
  intros Hin. destruct (rv_sealed_file s Hin) as (f & Hf & Hp & Hg). unfold seg_read. rewrite Hf, Hg.
  unfold cur_ents. rewrite Hp. reflexivity.
Qed.

Lemma rv_tail_lookup i : tail_lookup tw i d = tail_lookup tw i dc.
Proof.
  destruct rv_tail_file as (f & Hf & E0).
  pose proof (lv_tw _ _ _ _ _ _ _ _ V) as (Tn & Tb & Tm & _ & _ & _ & _ & Tc).
  unfold tail_lookup. destruct ((i <? ws_base tw) || (i <? ws_min tw) || (ws_commit_idx tw <? i)) eqn:E; [reflexivity|].
  rewrite Tn. unfold seg_read. rewrite Hf, (lv_file _ _ _ _ _ _ _ _ V). rewrite E0. unfold cur_ents at 2. cbn [sh_file df_pend df_ents].
  rewrite Tc, Tb in E. subst f0. cbn [sh_file df_ents] in E.
  pose proof (lv_twf V) as (_ & _ & Hb1 & _).
  unfold cur_ents. destruct (df_pend f); [|reflexivity]. apply nth_error_app1.
  unfold tl_of, llen in E. rewrite Tb. destruct (N.of_nat (length (df_ents f)) =? 0) eqn:Z; lia.
Qed.

Lemma rv_tail_name_neq s : In s S -> name_of s <> name_of t.
Proof.
  intros Hin. eapply (DIs_sealed_neq c nb dc _ S t s); [apply (lv_dis _ _ _ _ _ _ _ _ V)|apply (lv_meta _ _ _ _ _ _ _ _ V)|reflexivity|exact Hin].
Qed.

(* the abstraction function does not see the stale batch *)
Lemma rv_seg_visible_tail : seg_visible (tail_last (Some tw)) d t = seg_visible (tail_last (Some tw)) dc t.
Proof.
  destruct rv_tail_file as (f & Hf & E0).
  pose proof (lv_tw _ _ _ _ _ _ _ _ V) as (Tn & Tb & Tm & _ & _ & _ & _ & Tc).
  pose proof (lv_twf V) as (_ & _ & Hb1 & _ & Hbm & _).
  pose proof (lv_tok _ _ _ _ _ _ _ _ V) as (Hu & _).
  unfold seg_visible. rewrite Hu. cbn [tail_last]. rewrite Tc.
  destruct ((tl_of (si_base t) (df_ents f0) =? 0) || (tl_of (si_base t) (df_ents f0) <? si_min t)) eqn:E; [reflexivity|].
  unfold file_ents. rewrite Hf, (lv_file _ _ _ _ _ _ _ _ V). unfold cur_ents at 2. rewrite (lv_pend _ _ _ _ _ _ _ _ V).
  subst f0. cbn [sh_file df_ents] in *. unfold cur_ents. destruct (df_pend f) as [p|]; [|reflexivity].
  unfold tl_of, llen in *. destruct (N.of_nat (length (df_ents f)) =? 0) eqn:Z; [lia|].
  rewrite skipn_app_le by lia.
  replace (N.to_nat (si_base t + N.of_nat (length (df_ents f)) - 1 - si_min t + 1))
    with (length (skipn (N.to_nat (si_min t - si_base t)) (df_ents f)) + 0)%nat by (rewrite skipn_length; lia).
  rewrite firstn_app_2. cbn [firstn]. rewrite app_nil_r, Nat.add_0_r. rewrite firstn_all. reflexivity.
Qed.

Lemma rv_abs : abs w d = dread dc.
Proof.
  rewrite <- (LInv_abs c nb wc dc (LInv_of_view V)). rewrite !abs_is_gen.
  rewrite (rv_segs _ _ _ _ _ _ _ _ _ _ RVw), (rv_tail _ _ _ _ _ _ _ _ _ _ RVw), (lv_segs _ _ _ _ _ _ _ _ V), (lv_tail _ _ _ _ _ _ _ _ V).
  unfold abs_gen. rewrite !flat_map_app. cbn [flat_map]. rewrite !app_nil_r.
  rewrite rv_seg_visible_tail.
  rewrite (flat_visible_ext (tail_last (Some tw)) dc d S); [reflexivity|].
  intros s Hs. apply rv_other_file. exact Hs.
Qed.

(* GetLog *)
Lemma rv_get_log i e ec : e_disk e = d -> e_disk ec = dc -> st_closed w = st_closed wc ->
  fst (get_log w i e) = fst (get_log wc i ec).
Proof.
  intros Ed Edc Hcl. unfold get_log. rewrite Hcl. destruct (st_closed wc); [reflexivity|].
  rewrite (rv_segs _ _ _ _ _ _ _ _ _ _ RVw), (rv_tail _ _ _ _ _ _ _ _ _ _ RVw), (lv_segs _ _ _ _ _ _ _ _ V), (lv_tail _ _ _ _ _ _ _ _ V).
  rewrite tail_info_app, Ed, Edc, rv_tail_lookup.
  destruct (if si_min t <=? i then tail_lookup tw i dc else None) as [l|]; [reflexivity|].
  destruct (find_segment (S ++ [t]) i) as [s|] eqn:Efs; [|reflexivity].
  destruct (fname_eqb (ws_name tw) (name_of s)) eqn:En.
  - destruct (tail_lookup tw i dc); reflexivity.
  - assert (HinS : In s S).
    { destruct (find_segment_sound _ _ _ Efs) as (Hin & _). apply in_app_or in Hin. destruct Hin as [K|[<-|[]]]; [exact K|].
      pose proof (lv_tw _ _ _ _ _ _ _ _ V) as (Tn & _). rewrite Tn, fname_eqb_refl in En. discriminate. }
    rewrite (rv_seg_read_other _ _ _ HinS). destruct (seg_read (name_of s) (si_base s) i dc); reflexivity.
Qed.

End Reads.

(* ------------------------------------------------------------------ *)
(* non-mutating calls                                                   *)
Definition env_on (d : disk) : env := {| e_acts := []; e_disk := d; e_fault := None; e_fx := fx_none; e_m := zero_metrics |}.

Definition is_read (o : sop) : Prop :=
  match o with OGet _ | OFirst | OLast | OGetS _ => True | _ => False end.

Lemma read_step c nb w e nom o :
  cfg_ok c -> sop_ok o -> nb + 2 < two64 -> is_read o -> RV c nb w (e_disk e) nom -> st_closed w = false -> sp_good nom ->
  exists r e', step_model c {| ss_wal := w; ss_env := e |} o = (r, {| ss_wal := w; ss_env := e' |}) /\
    e_disk e' = e_disk e /\ e_fault e' = e_fault e /\
    result_eqb (res_class r) (fst (step_spec nom o)) = true.
Proof.
  intros Hc Hop Hnb Hrd HRV Hcl Hg.
  destruct (RV_view _ _ _ _ _ HRV) as (wc & dc & S & t & f0 & tw & RVw & Hsp & Hst).
  pose proof (rv_view _ _ _ _ _ _ _ _ _ _ RVw) as V. pose proof (LInv_of_view V) as HL.
  pose proof (LInv_closed _ _ _ _ HL) as Hclc.
  set (sc := {| ss_wal := wc; ss_env := env_on dc |}).
  destruct o as [ls|mn mx|i| | |k v n|k|]; try destruct Hrd.
  - (* GetLog *)
    destruct (call_get c i nb sc nom Hc Hop Hnb HL eq_refl Hsp Hg) as (rc & sc' & Hstep & Hres & _).
    cbn [step_model sc ss_wal ss_env] in Hstep. cbn [step_model ss_wal ss_env].
    pose proof (rv_get_log c nb w (e_disk e) wc dc S t f0 tw RVw i e (env_on dc) eq_refl eq_refl ltac:(congruence)) as Hfst.
    destruct (get_log w i e) as [r e'] eqn:Eg. destruct (get_log wc i (env_on dc)) as [r2 e2] eqn:Eg2.
    cbn [fst] in Hfst. injection Hstep as <- _. subst r2. exists r, e'. split; [reflexivity|].
    assert (He' : e_disk e' = e_disk e /\ e_fault e' = e_fault e).
    { unfold get_log in Eg. rewrite Hcl in Eg.
      repeat match type of Eg with context [match ?x with _ => _ end] => destruct x end; inversion Eg; subst; split; reflexivity. }
    destruct He'. auto.
  - (* FirstIndex *)
    destruct (call_first c nb sc nom Hc Hop Hnb HL eq_refl Hsp Hg) as (rc & sc' & Hstep & Hres & _).
    cbn [step_model sc ss_wal ss_env] in Hstep. cbn [step_model ss_wal ss_env]. inversion Hstep; subst.
    exists (first_index_op w), e. split; [reflexivity|]. split; [reflexivity|]. split; [reflexivity|].
    unfold first_index_op in *. rewrite Hcl. rewrite Hclc in Hres.
    rewrite (rv_segs _ _ _ _ _ _ _ _ _ _ RVw), (rv_tail _ _ _ _ _ _ _ _ _ _ RVw). exact Hres.
  - (* LastIndex *)
    destruct (call_last c nb sc nom Hc Hop Hnb HL eq_refl Hsp Hg) as (rc & sc' & Hstep & Hres & _).
    cbn [step_model sc ss_wal ss_env] in Hstep. cbn [step_model ss_wal ss_env]. inversion Hstep; subst.
    exists (last_index_op w), e. split; [reflexivity|]. split; [reflexivity|]. split; [reflexivity|].
    unfold last_index_op in *. rewrite Hcl. rewrite Hclc in Hres.
    rewrite (rv_segs _ _ _ _ _ _ _ _ _ _ RVw), (rv_tail _ _ _ _ _ _ _ _ _ _ RVw). exact Hres.
  - (* stable Get *)
    cbn [step_model ss_wal ss_env step_spec fst]. unfold get_stable. rewrite Hcl.
    eexists _, _. split; [reflexivity|]. split; [reflexivity|]. split; [reflexivity|].
    cbn [res_class result_eqb]. rewrite <- Hsp. cbn [sp_of sp_kv]. rewrite Hst. apply beq_bytes_refl.
Qed.

(* every call on a closed handle fails and changes nothing *)
Lemma closed_step c w e o : st_closed w = true -> st_rotate w = None ->
  match o with OReopen => False | _ => True end ->
  exists r e', step_model c {| ss_wal := w; ss_env := e |} o = (r, {| ss_wal := w; ss_env := e' |}) /\
    e_disk e' = e_disk e /\ e_fault e' = e_fault e /\ result_eqb (res_class r) ROk = false.
Proof.
  intros Hcl Hrot Ho. destruct o as [ls|mn mx|i| | |k v n|k|]; try destruct Ho; cbn [step_model].
  - unfold settle. cbn [ss_wal ss_env]. rewrite Hrot. cbn [ss_wal ss_env]. unfold store_logs. rewrite Hcl.
    eexists _, _. split; [reflexivity|]. auto.
  - unfold settle. cbn [ss_wal ss_env]. rewrite Hrot. cbn [ss_wal ss_env]. unfold delete_range. rewrite Hcl.
    eexists _, _. split; [reflexivity|]. auto.
  - cbn [ss_wal ss_env]. unfold get_log. rewrite Hcl. eexists _, _. split; [reflexivity|]. auto.
  - unfold first_index_op. cbn [ss_wal]. rewrite Hcl. eexists _, _. split; [reflexivity|]. auto.
  - unfold last_index_op. cbn [ss_wal]. rewrite Hcl. eexists _, _. split; [reflexivity|]. auto.
  - cbn [ss_wal ss_env]. unfold set_stable. rewrite Hcl. eexists _, _. split; [reflexivity|]. auto.
  - cbn [ss_wal ss_env]. unfold get_stable. rewrite Hcl. eexists _, _. split; [reflexivity|]. auto.
Qed.

(* ------------------------------------------------------------------ *)
(* modes give read views                                                *)
Lemma observed_RV c nb w e nom : RV c nb w (e_disk e) nom -> observed {| ss_wal := w; ss_env := e |} = nom.
Proof.
  intros HRV. destruct (RV_view _ _ _ _ _ HRV) as (wc & dc & S & t & f0 & tw & RVw & Hsp & Hst).
  unfold observed. cbn [ss_wal ss_env]. rewrite (rv_abs _ _ _ _ _ _ _ _ _ _ RVw), <- Hst. exact Hsp.
Qed.

Lemma stale_ok_nopend d : no_pend d -> stale_ok [] d.
Proof. intros H n f Hl Hp. exfalso. apply Hp. apply (H n f Hl). Qed.

Lemma sh_keys d : map fst (dk_files (sh d)) = map fst (dk_files d).
Proof. apply map_files_keys. Qed.

Lemma LInv_NoDup_sh c nb w d : LInv c nb w (sh d) -> NoDup (map fst (dk_files d)).
Proof. intros (_ & _ & HD & _). rewrite <- sh_keys. apply (DIs_NoDup _ _ _ HD). Qed.

Lemma RV_intro c nb w wc d nom :
  LInv c nb wc (sh d) -> sp_of (sh d) = nom -> st_segs w = st_segs wc -> st_tail w = st_tail wc ->
  (forall n f p, lookup n (dk_files d) = Some f -> df_pend f = Some p ->
     (exists t, tail_info (st_segs wc) = Some t /\ n = name_of t) \/ unlisted d n) ->
  RV c nb w d nom.
Proof.
  intros HL Hsp Hs Ht Hst. pose proof (LInv_NoDup_sh _ _ _ _ HL) as ND.
  exists wc, (sh d). split; [exact HL|]. split; [exact Hsp|]. split; [exact Hs|]. split; [exact Ht|].
  split; [intros n _; reflexivity|]. split; [reflexivity|]. split; [exact ND|].
  intros n f s Hl Hp Hin Hn. destruct (df_pend f) as [p|] eqn:Ep; [|congruence].
  destruct (LInv_view _ _ _ _ HL) as (S & t & f0 & tw & V). rewrite Hs, (lv_segs _ _ _ _ _ _ _ _ V) in Hin |- *.
  rewrite tail_info_app. apply in_app_or in Hin. destruct Hin as [Hin|[<-|[]]]; [exfalso|reflexivity].
  destruct (Hst n f p Hl Ep) as [(t' & Ht' & ->)|Hu].
  - rewrite (lv_segs _ _ _ _ _ _ _ _ V), tail_info_app in Ht'. inversion Ht'; subst t'.
    apply (DIs_sealed_neq c nb (sh d) _ S t s (lv_dis _ _ _ _ _ _ _ _ V) (lv_meta _ _ _ _ _ _ _ _ V) eq_refl Hin). exact Hn.
  - apply (Hu _ s (lv_meta _ _ _ _ _ _ _ _ V)); [cbn; apply in_or_app; left; exact Hin|exact Hn].
Qed.

Lemma RV_of_live c nb w d defer : Live c nb w d defer -> RV c nb w d (sp_of (sh d)).
Proof.
  intros (HL & Hst). apply (RV_intro c nb w w d _ HL eq_refl eq_refl eq_refl).
  intros n f p Hl Hp. destruct (Hst n f p Hl Hp) as [(t & A & B & _)|K]; [left; exists t; auto|right; exact K].
Qed.

Lemma RV_of_seal c nb w d : Seal c nb w d -> RV c nb w d (sp_of (sh d)).
Proof.
  intros (tw & Ht & His & Hr & HL & Hn). apply (RV_intro c nb w _ d _ HL eq_refl eq_refl eq_refl).
  intros n f p Hl Hp. right. apply (Hn n f p Hl Hp).
Qed.

Lemma Mode_RV c nb w d nom defer : Mode c nb w d nom defer -> st_closed w = false -> RV c nb w d nom.
Proof.
  intros [(A & _)|(_ & [(A & <-)|(_ & _ & A)])] Hcl; [congruence| |exact A].
  eapply RV_of_live; eauto.
Qed.

(* ------------------------------------------------------------------ *)
(* symmetry of the strict relation                                      *)
Lemma drel_sym d dc : drel [] d dc -> drel [] dc d.
Proof.
  intros H. pose proof (drel_strict_in d dc H) as HF. pose proof (drel_NoDup _ _ _ H) as ND.
  destruct H as (H1 & H2 & H3 & H4 & H5 & H6).
  split.
  { clear - HF. induction HF as [|a b l lc (E & (A & B & C & _) & P) _ IH]; constructor; [|exact IH].
    split; [auto|]. unfold frel. repeat split; auto. }
  repeat split; auto. intros n f g A B _. symmetry. apply (H6 n g f B A). intros [].
Qed.

Lemma drel_nopend d dc : drel [] d dc -> no_pend dc -> no_pend d.
Proof.
  intros (H1 & _ & _ & _ & _ & H6) Hn n f Hl. destruct (lrel_lookup_some n _ _ f H1 Hl) as (g & Hg & _).
  rewrite (H6 n f g Hl Hg ltac:(intros [])). apply (Hn n g Hg).
Qed.

(* ------------------------------------------------------------------ *)
(* restart / reopen                                                     *)
Lemma adopt_keys d : map fst (dk_files (adopt_disk d)) = map fst (dk_files d).
Proof. rewrite adopt_is_map. apply map_files_keys. Qed.
Lemma ad_keys d : map fst (dk_files (ad d)) = map fst (dk_files d).
Proof. unfold ad, dirfix. rewrite map_files_keys. apply adopt_keys. Qed.

Lemma live_clean c nb w d defer : LInv c nb w (sh d) -> no_pend d -> Live c nb w d defer.
Proof. intros H Hn. split; [exact H|]. intros n f p Hl Hp. rewrite (Hn n f Hl) in Hp. discriminate. Qed.

Lemma RD_of_clean c nb w d alts defer : LInv c nb w (sh d) -> no_pend d -> In (sp_of (sh d)) alts -> RD c nb d alts defer.
Proof.
  intros HL Hn Hin. pose proof (LInv_NoDup_sh _ _ _ _ HL) as ND. unfold RD. rewrite (ad_nopend d ND Hn).
  split; [apply HL|apply cand_alts; exact Hin].
Qed.

(* files whose deletion failed can be put back under a live state *)
Lemma LInv_undelete c nb w d ns : LInv c nb w (del_disk ns d) -> DIs c nb d -> no_pend d -> LInv c nb w d.
Proof.
  intros (H1 & H2 & H3 & H4 & H5 & t & f & tw & A & B & C & D & E) HD HN.
  pose proof (DIs_NoDup _ _ _ HD) as ND. destruct (del_disk_meta ns d) as (M1 & _).
  split; [exact H1|]. split; [exact H2|]. split; [exact HD|]. split; [exact HN|]. split; [rewrite <- M1; exact H5|].
  exists t, f, tw. split; [exact A|]. split; [|auto].
  rewrite (del_disk_lookup ns d (name_of t) ND) in B. destruct (mem_name (name_of t) ns); [discriminate|exact B].
Qed.

Lemma rems_nil ns : rems ns [] = [].
Proof. induction ns as [|n ns IH]; [reflexivity|exact IH]. Qed.

Lemma open_segs_err c : forall segs acc e r sl tl e', open_segs c segs acc e = (r, sl, tl, e') -> r = ROk \/ res_class r = RErrOther.
Proof.
  induction segs as [|si segs IH]; intros acc e r sl tl e'; cbn [open_segs].
  - intros E; inversion E; auto.
  - destruct (negb (si_codec si =? c_codec c)); [intros E; inversion E; auto|].
    destruct (negb (si_sealed si)).
    + destruct segs; [|intros E; inversion E; auto].
      destruct (match seg_recover si e with None => seg_create si e | Some x => (x, e) end) as [sw e1].
      destruct sw as [sw|]; [|intros E; inversion E; auto].
      destruct (0 <? _); intros E; inversion E; auto.
    + destruct (lookup _ _) as [f|]; [|intros E; inversion E; auto].
      destruct (cur_end f =? 0); [intros E; inversion E; auto|]. apply IH.
Qed.

Lemma open_err_not_ok c e x e' : open_wal c e = (OErr x, e') -> x <> ROk.
Proof.
  unfold open_wal. destruct (_ && _); [intros E; inversion E; discriminate|].
  destruct (if dk_inited (e_disk e) then (true, e) else io AInitMeta e) as [ok0 e0].
  destruct (negb ok0); [intros E; inversion E; discriminate|].
  destruct (armed e0 && fx_list (e_fx e0)); [intros E; inversion E; discriminate|].
  destruct (open_segs c _ [] e0) as [[[r segs] tail] e1] eqn:Eo.
  destruct (open_segs_err c _ _ _ _ _ _ _ Eo) as [-> | Hr].
  - destruct tail as [tw|]; [intros E; inversion E|].
    destruct (io _ e1) as [ok1 e2]. destruct (negb ok1); [intros E; inversion E; discriminate|].
    destruct (seg_create _ e2) as [sw e3]. destruct sw; intros E; inversion E; discriminate.
  - destruct r; cbn in Hr; try discriminate; intros E; inversion E; discriminate.
Qed.

Lemma reopen_ok c nb d alts defer acts f fx m :
  cfg_ok c -> nb + 1 < two64 -> RD c nb d alts defer ->
  let e := {| e_acts := acts; e_disk := adopt_disk d; e_fault := f; e_fx := fx; e_m := m |} in
  exists res e', open_wal c e = (res, e') /\
    ((exists w', res = OOk w' /\ LInv c (nb + 1) w' (sh (e_disk e')) /\ no_pend (e_disk e') /\
                 sp_of (sh (e_disk e')) = sp_of (ad d) /\ (f = None -> e_fault e' = None)) \/
     (f <> None /\ (exists x, res = OErr x /\ x <> ROk) /\ RD c (nb + 1) (e_disk e') alts defer)).
Proof.
  intros Hc Hnb (HD & Hcand) e.
  set (ec := {| e_acts := acts; e_disk := ad d; e_fault := None; e_fx := fx; e_m := m |}).
  assert (ND : NoDup (map fst (dk_files (adopt_disk d)))) by (rewrite adopt_keys, <- ad_keys; apply (DIs_NoDup _ _ _ HD)).
  assert (Hrel : drel [] (adopt_disk d) (ad d)) by (apply drel_dirfix; exact ND).
  destruct (open_wal_ok c nb ec Hc eq_refl HD (no_pend_ad d) Hnb) as (wc & ec' & Hoc & Hext & HLc & _).
  destruct (open_wal c e) as [res e'] eqn:Ho. exists res, e'. split; [reflexivity|].
  assert (Hsame : forall (dr dcl : disk), drel [] dr dcl -> LInv c (nb + 1) wc dcl -> sp_of dcl = sp_of (ad d) ->
            LInv c (nb + 1) wc (sh dr) /\ no_pend dr /\ sp_of (sh dr) = sp_of (ad d)).
  { intros dr dcl Hdr HLcl Hspcl. pose proof HLcl as (_ & _ & HDc & HNc & _).
    rewrite (drel_sh_eq _ _ _ Hdr). split; [apply LInv_sh; exact HLcl|]. split; [eapply drel_nopend; eauto|].
    rewrite <- (dirfix_nopend _ (DIs_NoDup _ _ _ HDc) HNc), sp_of_dirfix. exact Hspcl. }
  pose proof (ext_final _ _ _ Hext) as (_ & _ & Hsfin).
  destruct f as [k|].
  - destruct (open_wal_lock c e ec res e' (OOk wc) ec' (conj Hrel eq_refl) Ho Hoc) as [(-> & ns & HRd)|((x & ->) & dm & F3 & F4)].
    + left. exists wc. split; [reflexivity|].
      destruct HRd as [HR'|(ecp & HR' & Eec & Ha & _)].
      * rewrite rems_nil in HR'. destruct (Hsame _ _ (proj1 HR') HLc Hsfin) as (X1 & X2 & X3).
        split; [exact X1|]. split; [exact X2|]. split; [exact X3|]. discriminate.
      * assert (Hp : pfx ec ec' (e_disk ecp)).
        { eapply pfx_more; [apply pfx_end; exact Ha|]. rewrite Eec. apply sh_delete_files. apply HR'. }
        destruct (ext_pfx _ _ _ _ Hext Hp) as (HDp & HNp & Hsp).
        assert (HLp : LInv c (nb + 1) wc (e_disk ecp)).
        { apply (LInv_undelete c (nb + 1) wc (e_disk ecp) ns); [|exact HDp|exact HNp].
          rewrite <- (delete_files_disk ns ecp (proj2 HR')), <- Eec. exact HLc. }
        destruct (Hsame _ _ (proj1 HR') HLp Hsp) as (X1 & X2 & X3).
        split; [exact X1|]. split; [exact X2|]. split; [exact X3|]. discriminate.
    + right. split; [discriminate|]. split; [exists x; split; [reflexivity|eapply open_err_not_ok; exact Ho]|].
      destruct (ext_pfx _ _ _ _ Hext F4) as (HDm & HNm & Hsm).
      assert (Hn' : no_pend (e_disk e')) by (eapply drel_nopend; eauto).
      pose proof (drel_NoDup _ _ _ F3) as ND'.
      unfold RD. rewrite (ad_nopend _ ND' Hn'), (drel_sh_eq _ _ _ F3).
      rewrite <- (dirfix_nopend _ (DIs_NoDup _ _ _ HDm) HNm). split; [apply DIs_dirfix; exact HDm|].
      rewrite sp_of_dirfix, Hsm. exact Hcand.
  - (* no fault armed: run the simulation the other way round *)
    pose proof (sh_open_wal c ec (OOk wc) ec' eq_refl Hoc) as (_ & Hfc).
    assert (Hfe : e_fault e' = None) by (apply (sh_open_wal c e res e' eq_refl Ho)).
    destruct (open_wal_lock c ec e (OOk wc) ec' res e' (conj (drel_sym _ _ Hrel) eq_refl) Hoc Ho) as [(<- & ns & HRd)|((x & F2) & _)]; [|discriminate].
    left. exists wc. split; [reflexivity|].
    destruct HRd as [HR'|(ecp & _ & _ & _ & K)]; [|congruence].
    rewrite rems_nil in HR'.
    destruct (Hsame _ _ (drel_sym _ _ (proj1 HR')) HLc Hsfin) as (X1 & X2 & X3).
    split; [exact X1|]. split; [exact X2|]. split; [exact X3|]. intros _. exact Hfe.
Qed.
