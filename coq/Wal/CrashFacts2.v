(* CrashFacts2.v -- a crash preserves the structural invariant and yields the
   reading with or without the pending batch; single non-metadata actions. *)
From RW Require Import Base.Bytes Base.BytesFacts Fmt.Codec Fmt.Frame Wal.Model Wal.Spec Wal.Hist
  Wal.CrashInv Wal.CrashFacts0 Wal.CrashFacts1 Gen.Constants.
From Coq Require Import ZifyN ZifyNat ZifyBool.
Open Scope N_scope.

Lemma llen_df_le_cur f : llen (df_ents f) <= llen (cur_ents f).
Proof. unfold cur_ents. destruct (df_pend f); [rewrite llen_app|]; lia. Qed.

Lemma sealed_es_ext d d' S :
  (forall s, In s S -> file_ents (name_of s) d' = file_ents (name_of s) d) ->
  sealed_es d' S = sealed_es d S.
Proof. apply flat_visible_ext. Qed.

Lemma sealed_file_ents_unpend d s : sealed_ok d s -> file_ents (name_of s) (unpend d) = file_ents (name_of s) d.
Proof.
  intros (_ & _ & f & Hf & _ & Hp & _). rewrite file_ents_unpend. unfold file_ents. rewrite Hf.
  unfold cur_ents. rewrite Hp. reflexivity.
Qed.

Lemma sealed_es_unpend d S : Forall (sealed_ok d) S -> sealed_es (unpend d) S = sealed_es d S.
Proof.
  intros H. apply sealed_es_ext. intros s Hin. rewrite Forall_forall in H. apply sealed_file_ents_unpend. auto.
Qed.

(* ---- crash ---- *)
Lemma crash_no_pend cc d : NoDup (map fst (dk_files d)) -> no_pend (crash_disk cc d).
Proof.
  intros ND n f. unfold crash_disk; cbn [dk_files]. rewrite lookup_crash by exact ND.
  destruct (lookup n (dk_files d)) as [g|]; [|discriminate].
  destruct (negb (df_dir g) && negb (mem_name n (cc_keep_file cc))); [discriminate|].
  intros H; inversion H; subst. unfold crashed_file.
  destruct (df_pend g); [destruct (mem_name n (cc_keep_batch cc))|]; reflexivity.
Qed.

Lemma crashed_sealed k f : df_pend f = None -> df_dir f = true ->
  df_ents (crashed_file k f) = df_ents f /\ df_end (crashed_file k f) = df_end f /\
  df_pend (crashed_file k f) = None /\ df_dir (crashed_file k f) = true.
Proof. intros Hp Hd. unfold crashed_file. rewrite Hp. cbn. auto. Qed.

Lemma crashed_cases k f :
  (df_ents (crashed_file k f) = cur_ents f /\ df_end (crashed_file k f) = cur_end f /\ df_seal (crashed_file k f) = cur_seal f
   \/ df_ents (crashed_file k f) = df_ents f /\ df_end (crashed_file k f) = df_end f /\ df_seal (crashed_file k f) = df_seal f)
  /\ df_pend (crashed_file k f) = None /\ df_dir (crashed_file k f) = true.
Proof.
  unfold crashed_file, cur_ents, cur_end, cur_seal. destruct (df_pend f); [destruct k|]; cbn; auto.
Qed.

Lemma DIs_crash c nb cc d : DIs c nb d -> DIs c nb (crash_disk cc d).
Proof.
  intros HD. pose proof (DIs_NoDup _ _ _ HD) as ND.
  destruct (dk_meta d) as [ps|] eqn:Hm.
  - destruct (DIs_segs _ _ _ _ HD Hm) as (S & t & Hs).
    destruct (DIs_parts _ _ _ _ _ _ HD Hm Hs) as (H1 & H2 & H3 & H4 & H5 & H6 & H7).
    apply (DIs_build c nb _ ps S t); auto.
    + cbn. apply crash_NoDup. exact ND.
    + intros n f. cbn [crash_disk dk_files]. rewrite lookup_crash by exact ND.
      destruct (lookup n (dk_files d)) as [g|] eqn:E; [|discriminate]. intros _. eapply H3; eauto.
    + rewrite Forall_forall in *. intros s Hin. destruct (H6 s Hin) as (Ha & Hb & f & Hf & Hd & Hp & He & Hl).
      split; [exact Ha|]. split; [exact Hb|].
      exists (crashed_file (mem_name (name_of s) (cc_keep_batch cc)) f).
      cbn [crash_disk dk_files]. rewrite lookup_crash by exact ND. rewrite Hf, Hd. cbn [negb andb].
      destruct (crashed_sealed (mem_name (name_of s) (cc_keep_batch cc)) f Hp Hd) as (E1 & E2 & E3 & E4).
      rewrite E1, E2, E3, E4. auto.
    + destruct H7 as (Hu & H7). split; [exact Hu|].
      cbn [crash_disk dk_files]. rewrite lookup_crash by exact ND.
      destruct (lookup (name_of t) (dk_files d)) as [f|]; [|exact H7].
      destruct H7 as (Ha & Hb & Hc & Hd & He & Hf).
      destruct (negb (df_dir f) && negb (mem_name (name_of t) (cc_keep_file cc))) eqn:Ek.
      * destruct (df_dir f); [discriminate|]. rewrite Hc in He by reflexivity. exact He.
      * set (g := crashed_file (mem_name (name_of t) (cc_keep_batch cc)) f).
        destruct (crashed_cases (mem_name (name_of t) (cc_keep_batch cc)) f) as (Hcase & Hp & Hdir).
        fold g in Hcase, Hp, Hdir.
        assert (Hcur : cur_ents g = df_ents g /\ cur_end g = df_end g /\ cur_seal g = df_seal g).
        { unfold cur_ents, cur_end, cur_seal. rewrite Hp. auto. }
        destruct Hcur as (C1 & C2 & C3). rewrite C1, C2, C3, Hp, Hdir.
        pose proof (llen_df_le_cur f) as Hle.
        destruct Hcase as [(E1 & E2 & E3)|(E1 & E2 & E3)]; rewrite E1, E2, E3.
        -- repeat split; try apply Hb; try congruence.
           destruct (llen (cur_ents f) =? 0) eqn:Z1; destruct (llen (df_ents f) =? 0) eqn:Z2; lia.
        -- repeat split; try apply Ha; try congruence. lia.
  - unfold DIs in *. rewrite Hm in HD. destruct HD as (_ & HD).
    cbn [crash_disk dk_files dk_meta]. rewrite Hm, HD. cbn. split; [constructor|reflexivity].
Qed.

Lemma crash_reading c nb cc d :
  DIs c nb d -> sp_of (crash_disk cc d) = sp_of d \/ sp_of (crash_disk cc d) = sp_of (unpend d).
Proof.
  intros HD. pose proof (DIs_NoDup _ _ _ HD) as ND.
  pose proof (DIs_crash c nb cc d HD) as HDc. pose proof (DIs_unpend c nb d HD) as HDu.
  unfold sp_of. cbn [crash_disk unpend dk_stable].
  destruct (dk_meta d) as [ps|] eqn:Hm.
  - destruct (DIs_segs _ _ _ _ HD Hm) as (S & t & Hs).
    rewrite (dread_decomp c nb (crash_disk cc d) ps S t HDc Hm Hs).
    rewrite (dread_decomp c nb d ps S t HD Hm Hs).
    rewrite (dread_decomp c nb (unpend d) ps S t HDu Hm Hs).
    destruct (DIs_parts _ _ _ _ _ _ HD Hm Hs) as (H1 & H2 & H3 & H4 & H5 & H6 & H7).
    assert (Es : sealed_es (crash_disk cc d) S = sealed_es d S).
    { apply sealed_es_ext. intros s Hin. rewrite Forall_forall in H6.
      destruct (H6 s Hin) as (_ & _ & f & Hf & Hd & Hp & _). unfold file_ents.
      cbn [crash_disk dk_files]. rewrite lookup_crash by exact ND. rewrite Hf, Hd. cbn [negb andb].
      unfold crashed_file, cur_ents. rewrite Hp. cbn. reflexivity. }
    rewrite Es, (sealed_es_unpend d S H6).
    assert (Et : tail_es (crash_disk cc d) t = tail_es d t \/ tail_es (crash_disk cc d) t = tail_es (unpend d) t).
    { unfold tail_es. rewrite file_ents_unpend. unfold file_ents. cbn [crash_disk dk_files].
      rewrite lookup_crash by exact ND. destruct H7 as (_ & H7).
      destruct (lookup (name_of t) (dk_files d)) as [f|]; [|left; reflexivity].
      destruct H7 as (_ & _ & Hc & _).
      destruct (negb (df_dir f) && negb (mem_name (name_of t) (cc_keep_file cc))) eqn:Ek.
      - right. destruct (df_dir f); [discriminate|]. rewrite Hc by reflexivity. reflexivity.
      - destruct (crashed_cases (mem_name (name_of t) (cc_keep_batch cc)) f) as (Hcase & Hp & Hdir).
        assert (Hcg : cur_ents (crashed_file (mem_name (name_of t) (cc_keep_batch cc)) f)
                      = df_ents (crashed_file (mem_name (name_of t) (cc_keep_batch cc)) f)).
        { unfold cur_ents. rewrite Hp. reflexivity. }
        rewrite Hcg.
        destruct Hcase as [(E1 & _)|(E1 & _)]; rewrite E1; [left|right]; reflexivity. }
    destruct Et as [-> | ->]; [left|right]; reflexivity.
  - left. unfold dread. cbn [crash_disk dk_meta]. rewrite Hm. reflexivity.
Qed.

(* ---- deleting an unlisted file ---- *)
Lemma remove_map_unpend n fs :
  map (fun nf : fname * dfile => (fst nf, unpend_file (snd nf))) (remove n fs) =
  remove n (map (fun nf : fname * dfile => (fst nf, unpend_file (snd nf))) fs).
Proof.
  induction fs as [|[m g] r IH]; cbn [remove map fst snd]; [reflexivity|].
  destruct (fname_eqb n m); cbn [map fst snd]; [reflexivity|rewrite IH; reflexivity].
Qed.

Lemma unpend_delete d n : unpend (apply_act d (ADelete n)) = apply_act (unpend d) (ADelete n).
Proof. unfold unpend, apply_act; cbn [dk_files dk_meta dk_stable dk_inited]. rewrite remove_map_unpend. reflexivity. Qed.

Lemma listed_false_neq segs n s : listed segs n = false -> In s segs -> name_of s <> n.
Proof.
  intros H Hin E. assert (listed segs n = true); [|congruence]. apply listed_spec. eauto.
Qed.

Lemma DIs_delete c nb d n ps :
  DIs c nb d -> dk_meta d = Some ps -> listed (ps_segs ps) n = false -> DIs c nb (apply_act d (ADelete n)).
Proof.
  intros HD Hm Hl. pose proof (DIs_NoDup _ _ _ HD) as ND.
  eapply DIs_frame; [exact HD|reflexivity| | |].
  - cbn. apply remove_NoDup. exact ND.
  - intros m f. cbn [apply_act dk_files]. rewrite lookup_remove by exact ND.
    destruct (fname_eqb m n); [discriminate|eauto].
  - intros ps' s Hm' Hin. rewrite Hm in Hm'. inversion Hm'; subst ps'.
    cbn [apply_act dk_files]. apply lookup_remove_neq. eapply listed_false_neq; eauto.
Qed.

Lemma dread_delete d n ps :
  dk_meta d = Some ps -> listed (ps_segs ps) n = false -> dread (apply_act d (ADelete n)) = dread d.
Proof.
  intros Hm Hl. apply dread_ext; [reflexivity|].
  intros ps' s Hm' Hin. rewrite Hm in Hm'. inversion Hm'; subst ps'.
  apply file_ents_ext. cbn [apply_act dk_files]. apply lookup_remove_neq. eapply listed_false_neq; eauto.
Qed.

Lemma DP_delete c nb A d n ps :
  DP c nb A d -> dk_meta d = Some ps -> listed (ps_segs ps) n = false -> DP c nb A (apply_act d (ADelete n)).
Proof.
  intros (HD & Ha & Hu) Hm Hl. split; [eapply DIs_delete; eauto|]. split.
  - unfold sp_of in *. rewrite (dread_delete d n ps Hm Hl). exact Ha.
  - unfold sp_of in *. rewrite unpend_delete. rewrite (dread_delete (unpend d) n ps Hm Hl). exact Hu.
Qed.

(* ---- stable store / InitMeta: the log part is untouched ---- *)
Lemma DIs_setstable c nb d k v : DIs c nb d -> DIs c nb (apply_act d (ASetStable k v)).
Proof. apply DIs_same; reflexivity. Qed.
Lemma DIs_initmeta c nb d : DIs c nb d -> DIs c nb (apply_act d AInitMeta).
Proof. apply DIs_same; reflexivity. Qed.
Lemma dread_same d d' : dk_files d' = dk_files d -> dk_meta d' = dk_meta d -> dread d' = dread d.
Proof.
  intros Hf Hm. apply dread_ext; [exact Hm|]. intros. unfold file_ents. rewrite Hf. reflexivity.
Qed.
Lemma sp_of_initmeta d : sp_of (apply_act d AInitMeta) = sp_of d.
Proof. unfold sp_of. rewrite (dread_same d (apply_act d AInitMeta)) by reflexivity. reflexivity. Qed.
Lemma DP_initmeta c nb A d : DP c nb A d -> DP c nb A (apply_act d AInitMeta).
Proof.
  intros (HD & Ha & Hu). split; [apply DIs_initmeta; exact HD|]. split.
  - rewrite sp_of_initmeta. exact Ha.
  - change (unpend (apply_act d AInitMeta)) with (apply_act (unpend d) AInitMeta). rewrite sp_of_initmeta. exact Hu.
Qed.
Lemma sp_of_setstable d k v :
  sp_of (apply_act d (ASetStable k v)) = {| sp_log := dread d; sp_kv := kv_set k v (dk_stable d) |}.
Proof. unfold sp_of. rewrite (dread_same d (apply_act d (ASetStable k v))) by reflexivity. reflexivity. Qed.

(* ---- actions on the tail's file ---- *)
Definition fresh_file (sz : N) : dfile :=
  {| df_ents := []; df_end := 0; df_seal := 0; df_pend := None; df_dir := false; df_size := sz |}.

Lemma tail_wf c nb d ps S t :
  DIs c nb d -> dk_meta d = Some ps -> ps_segs ps = S ++ [t] -> seg_wf c (ps_next_id ps) t.
Proof.
  intros HD Hm Hs. destruct (DIs_parts _ _ _ _ _ _ HD Hm Hs) as (_ & _ & _ & H4 & _).
  rewrite Forall_forall in H4. apply H4. apply in_or_app; right; left; reflexivity.
Qed.

Lemma DIs_create_tail c nb d ps S t sz :
  DIs c nb d -> dk_meta d = Some ps -> ps_segs ps = S ++ [t] ->
  lookup (name_of t) (dk_files d) = None ->
  DIs c nb (apply_act d (ACreate (name_of t) sz)).
Proof.
  intros HD Hm Hs Hn.
  destruct (DIs_parts _ _ _ _ _ _ HD Hm Hs) as (H1 & H2 & H3 & H4 & H5 & H6 & H7).
  destruct (tail_wf _ _ _ _ _ _ HD Hm Hs) as (_ & _ & Hb1 & Hb2 & _).
  eapply (DIs_update_tail c nb d _ ps S t (fresh_file sz)); eauto; try reflexivity.
  destruct H7 as (Hu & H7). rewrite Hn in H7. split; [exact Hu|].
  cbn [apply_act dk_files]. rewrite lookup_update_eq.
  cbn [df_ents df_end df_seal df_pend df_dir cur_ents cur_end cur_seal].
  change (llen (@nil log)) with 0. cbn [N.eqb].
  repeat split; try apply fsz_ok_nil; auto; try congruence. lia.
Qed.

Lemma sp_of_tail_ext d d' ps S t :
  dk_meta d = Some ps -> ps_segs ps = S ++ [t] ->
  dk_meta d' = dk_meta d -> dk_stable d' = dk_stable d ->
  (forall s, In s S -> lookup (name_of s) (dk_files d') = lookup (name_of s) (dk_files d)) ->
  file_ents (name_of t) d' = file_ents (name_of t) d ->
  sp_of d' = sp_of d.
Proof.
  intros Hm Hs Hm' Hst HS Ht. unfold sp_of. rewrite Hst. f_equal.
  apply dread_ext; [exact Hm'|]. intros ps' s E Hin. rewrite Hm in E; inversion E; subst ps'.
  rewrite Hs in Hin. apply in_app_or in Hin. destruct Hin as [Hin|[<-|[]]]; [|exact Ht].
  apply file_ents_ext. apply HS. exact Hin.
Qed.

Lemma DP_create_tail c nb A d ps S t sz :
  DP c nb A d -> dk_meta d = Some ps -> ps_segs ps = S ++ [t] ->
  lookup (name_of t) (dk_files d) = None ->
  DP c nb A (apply_act d (ACreate (name_of t) sz)).
Proof.
  intros (HD & Ha & Hu) Hm Hs Hn. split; [eapply DIs_create_tail; eauto|].
  assert (Hneq : forall s, In s S -> name_of s <> name_of t) by (intros; eapply DIs_sealed_neq; eauto).
  split.
  - rewrite (sp_of_tail_ext d _ ps S t Hm Hs); auto.
    + intros s Hin. cbn [apply_act dk_files]. apply lookup_update_neq. auto.
    + unfold file_ents. cbn [apply_act dk_files]. rewrite lookup_update_eq, Hn. reflexivity.
  - rewrite (sp_of_tail_ext (unpend d) _ ps S t Hm Hs); auto.
    + intros s Hin. rewrite !lookup_unpend. cbn [apply_act dk_files]. rewrite lookup_update_neq by auto. reflexivity.
    + rewrite !file_ents_unpend. cbn [apply_act dk_files]. rewrite lookup_update_eq, Hn. reflexivity.
Qed.

(* the write of a batch at the synced end of the tail file *)
Definition with_pend (f : dfile) (b : pbatch) : dfile :=
  {| df_ents := df_ents f; df_end := df_end f; df_seal := df_seal f; df_pend := Some b;
     df_dir := df_dir f; df_size := df_size f |}.

Lemma apply_write d n off l b f :
  lookup n (dk_files d) = Some f -> df_pend f = None ->
  apply_act d (AWrite n off l b) =
  {| dk_files := update n (with_pend f b) (dk_files d); dk_meta := dk_meta d;
     dk_stable := dk_stable d; dk_inited := dk_inited d |}.
Proof. intros Hf Hp. cbn [apply_act]. rewrite Hf, Hp. reflexivity. Qed.

Lemma DIs_write_tail c nb d ps S t f off l b :
  DIs c nb d -> dk_meta d = Some ps -> ps_segs ps = S ++ [t] ->
  lookup (name_of t) (dk_files d) = Some f -> df_pend f = None -> df_seal f = 0 ->
  fsz_ok (c_seg_size c) (df_ents f ++ pb_ents b) (pb_end b) (pb_seal b) ->
  si_base t + llen (df_ents f ++ pb_ents b) < two64 ->
  DIs c nb (apply_act d (AWrite (name_of t) off l b)).
Proof.
  intros HD Hm Hs Hf Hp Hse Hsz Hbd.
  destruct (DIs_parts _ _ _ _ _ _ HD Hm Hs) as (H1 & H2 & H3 & H4 & H5 & H6 & H7).
  rewrite (apply_write d _ off l b f Hf Hp).
  eapply (DIs_update_tail c nb d _ ps S t (with_pend f b)); eauto; try reflexivity.
  destruct H7 as (Hu & H7). rewrite Hf in H7. split; [exact Hu|].
  cbn [dk_files]. rewrite lookup_update_eq.
  destruct H7 as (Ha & Hb & Hc & Hd & He & Hg).
  unfold cur_ents, cur_end, cur_seal. cbn [with_pend df_ents df_end df_seal df_pend df_dir].
  split; [exact Ha|]. split; [exact Hsz|]. split; [exact Hc|]. split; [intros K; congruence|].
  split; [exact He|exact Hbd].
Qed.

Definition synced_file (f : dfile) : dfile :=
  {| df_ents := cur_ents f; df_end := cur_end f; df_seal := cur_seal f; df_pend := None;
     df_dir := true; df_size := df_size f |}.

Lemma apply_sync d n f :
  lookup n (dk_files d) = Some f ->
  apply_act d (ASync n) =
  {| dk_files := update n (synced_file f) (dk_files d); dk_meta := dk_meta d;
     dk_stable := dk_stable d; dk_inited := dk_inited d |}.
Proof.
  intros Hf. cbn [apply_act]. rewrite Hf. unfold synced_file, cur_ents, cur_end, cur_seal.
  destruct (df_pend f); reflexivity.
Qed.

Lemma DIs_sync_tail c nb d ps S t f :
  DIs c nb d -> dk_meta d = Some ps -> ps_segs ps = S ++ [t] ->
  lookup (name_of t) (dk_files d) = Some f ->
  DIs c nb (apply_act d (ASync (name_of t))).
Proof.
  intros HD Hm Hs Hf.
  destruct (DIs_parts _ _ _ _ _ _ HD Hm Hs) as (H1 & H2 & H3 & H4 & H5 & H6 & H7).
  rewrite (apply_sync d _ f Hf).
  eapply (DIs_update_tail c nb d _ ps S t (synced_file f)); eauto; try reflexivity.
  destruct H7 as (Hu & H7). rewrite Hf in H7. split; [exact Hu|].
  cbn [dk_files]. rewrite lookup_update_eq.
  destruct H7 as (Ha & Hb & Hc & Hd & He & Hg).
  pose proof (llen_df_le_cur f) as Hle.
  unfold synced_file. cbn [df_ents df_end df_seal df_pend df_dir cur_ents cur_end cur_seal].
  repeat split; try apply Hb; auto; try congruence.
  destruct (llen (cur_ents f) =? 0) eqn:Z1; destruct (llen (df_ents f) =? 0) eqn:Z2; lia.
Qed.

(* readings after a change of the tail file *)
Lemma dread_tail_file c nb d ps S t :
  DIs c nb d -> dk_meta d = Some ps -> ps_segs ps = S ++ [t] ->
  dread d = slog_of (hd_min S t) (sealed_es d S ++ tail_es d t) /\
  dread (unpend d) = slog_of (hd_min S t) (sealed_es d S ++ tail_es (unpend d) t).
Proof.
  intros HD Hm Hs. split; [eapply dread_decomp; eauto|].
  rewrite (dread_decomp c nb (unpend d) ps S t (DIs_unpend _ _ _ HD) Hm Hs).
  destruct (DIs_parts _ _ _ _ _ _ HD Hm Hs) as (H1 & H2 & H3 & H4 & H5 & H6 & H7).
  rewrite (sealed_es_unpend d S H6). reflexivity.
Qed.

Lemma sealed_es_update d d' S t f' :
  dk_files d' = update (name_of t) f' (dk_files d) ->
  (forall s, In s S -> name_of s <> name_of t) -> sealed_es d' S = sealed_es d S.
Proof.
  intros Hf Hn. apply sealed_es_ext. intros s Hin. apply file_ents_ext. rewrite Hf.
  apply lookup_update_neq. auto.
Qed.
