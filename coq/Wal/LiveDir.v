(* LiveDir.v -- the directory of a RUNNING WAL (C13, first clause): definitions.
   After every call that returns in an Up state the directory holds exactly the
   files of the listed segments.  The model deletes the files of dropped segments
   when the call that drops them returns (mutate / the deferred deletions of
   reset_first at the end of StoreLogs); deletion delayed by readers that still hold
   a reference to an older state is outside this sequential model.
   Definitions only; proofs in LiveDirFacts.v. *)
From RW Require Import Base.Bytes Fmt.Codec Fmt.Frame Wal.Model Wal.Spec Wal.Hist Wal.CrashExamples Gen.Constants.
Open Scope N_scope.

Definition names (d : disk) : list fname := map fst (dk_files d).

(* every file is the file of a segment of [segs] or is named in [del] *)
Definition covx (segs : list seginfo) (del : list fname) (d : disk) : Prop :=
  forall n, In n (names d) -> listed segs n = true \/ In n del.
Definition cov (segs : list seginfo) (d : disk) : Prop :=
  forall n, In n (names d) -> listed segs n = true.

(* executable: the directory is exact whenever the WAL is up *)
Definition live_dir_ok (h : hstate) : bool :=
  match hs_mode h with
  | Up s => dir_exact (e_disk (ss_env s))
  | Down _ => true
  end.

Definition live_dir_exact_stmt : Prop :=
  forall c steps s,
    (cfg_ok c /\ Forall hstep_wf steps /\ short_enough steps) ->
    hs_mode (hist_run c hist_init steps) = Up s ->
    dir_exact (e_disk (ss_env s)) = true.

(* the segments of [segs] lying wholly inside the deleted range [mn, mx]: a sealed
   segment with min..max inside it; [tl] = last index of the (unsealed) tail *)
Definition seg_inside (mn mx tl : N) (s : seginfo) : bool :=
  let hi := if si_sealed s then si_max s else tl in
  (mn <=? si_min s) && (hi <=? mx) && (si_min s <=? hi).

(* the literal form of the property text for one DeleteRange that returns nil:
   no file of a segment that was listed before and lay wholly inside [mn, mx] exists
   afterwards, every remaining file belongs to a listed segment and every listed
   segment has its file *)
Definition delete_reclaims_stmt : Prop :=
  forall c steps s mn mx,
    (cfg_ok c /\ Forall hstep_wf (steps ++ [HOp (ODelete mn mx)]) /\ short_enough (steps ++ [HOp (ODelete mn mx)])) ->
    hs_mode (hist_run c hist_init steps) = Up s ->
    fst (step_model c s (ODelete mn mx)) = ROk ->
    let s0 := settle c s in
    let s' := snd (step_model c s (ODelete mn mx)) in
    (forall x, In x (st_segs (ss_wal s0)) ->
       seg_inside mn mx (tail_last (st_tail (ss_wal s0))) x = true ->
       lookup (name_of x) (dk_files (e_disk (ss_env s'))) = None) /\
    (forall n f, lookup n (dk_files (e_disk (ss_env s'))) = Some f -> listed (st_segs (ss_wal s')) n = true) /\
    (forall x, In x (st_segs (ss_wal s')) -> lookup (name_of x) (dk_files (e_disk (ss_env s'))) <> None).

(* ---- a concrete history for the non-vacuity examples of Props/C13.v ----
   segment size 128: two 56-byte entries per segment.  Seven single-entry appends give
   the sealed segments (1,0) = [1,2], (3,1) = [3,4], (5,2) = [5,6] and the tail (7,3) = [7];
   DeleteRange(0,5) drops (1,0) and (3,1) whole and keeps entry 6 of (5,2);
   DeleteRange(7,9) drops the tail (7,3) whole and installs the new tail (7,4). *)
Definition hist_live_stores : list hstep :=
  HOpen :: map (fun i => HOp (OStore [ex_log i 1])) [1; 2; 3; 4; 5; 6; 7].
Definition hist_live_head : list hstep := hist_live_stores ++ [HOp (ODelete 0 5)].
Definition hist_live_trunc : list hstep := hist_live_head ++ [HOp (ODelete 7 9)].

(* the directory and the segment list (name, min, max, sealed) of the running WAL *)
Definition live_files (c : cfg) (steps : list hstep) : list fname :=
  match hs_mode (hist_run c hist_init steps) with Up s => names (e_disk (ss_env s)) | Down _ => [] end.
Definition live_segs (c : cfg) (steps : list hstep) : list (fname * N * N * bool) :=
  match hs_mode (hist_run c hist_init steps) with
  | Up s => map (fun x => (name_of x, si_min x, si_max x, si_sealed x)) (st_segs (ss_wal s))
  | Down _ => []
  end.
Definition live_rotation_pending (c : cfg) (steps : list hstep) : bool :=
  match hs_mode (hist_run c hist_init steps) with
  | Up s => match st_rotate (ss_wal s) with Some _ => true | None => false end
  | Down _ => false
  end.
(* which of the segments DeleteRange(mn, mx) works on lie wholly inside the range *)
Definition live_inside (c : cfg) (steps : list hstep) (mn mx : N) : list (fname * bool) :=
  match hs_mode (hist_run c hist_init steps) with
  | Up s => let s0 := settle c s in
            map (fun x => (name_of x, seg_inside mn mx (tail_last (st_tail (ss_wal s0))) x)) (st_segs (ss_wal s0))
  | Down _ => []
  end.
