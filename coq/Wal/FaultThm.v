(* FaultThm.v -- every history of calls with injected I/O errors, restarts and
   reopens keeps the invariant FInv; the statement fault_safety_stmt (C10). *)
From RW Require Import Base.Bytes Base.BytesFacts Fmt.Codec Fmt.CodecFacts Fmt.Frame Wal.Model Wal.Spec Wal.Hist Wal.FaultHist
  Wal.CrashInv Wal.CrashFacts0 Wal.CrashFacts1 Wal.CrashFacts2 Wal.CrashFacts3 Wal.CrashFacts4 Wal.CrashFacts5
  Wal.CrashFacts6 Wal.CrashGlue Wal.CrashCalls1 Wal.CrashCalls2 Wal.CrashCalls3 Wal.CrashCalls4 Wal.CrashCalls5 Wal.CrashCalls6
  Wal.CrashCalls7 Wal.CrashCalls8 Wal.CrashCalls9 Wal.CrashCalls10 Wal.FaultSim Wal.FaultSim2 Wal.FaultInv Wal.FaultFacts2
  Wal.FaultFacts3 Wal.FaultNames Wal.FaultStore Wal.FaultDelete Wal.FaultSteps Gen.Constants.
From Coq Require Import ZifyN ZifyNat ZifyBool.
Open Scope N_scope.

Definition dfr (o : sop) (defer : list sop) : list sop := match o with OStore _ => o :: defer | _ => defer end.

Definition mut_post (c : cfg) (nb : N) (w' : wal) (d' : disk) (nom : spst) (alts : list spst) (defer : list sop)
  (o : sop) (r : result) : Prop :=
  (r = ROk /\ exists nom', spec_accepts nom o = Some nom' /\ Mode c nb w' d' nom' defer /\
                           RD c nb d' (nom' :: app_op o alts) defer) \/
  (r <> ROk /\ Mode c nb w' d' nom (dfr o defer) /\ RD c nb d' (alts ++ app_op o alts) (dfr o defer)) \/
  (* a stable Set reported as failed and found applied *)
  (r <> ROk /\ exists k v n nom', o = OSet k v n /\ spec_accepts nom o = Some nom' /\ Mode c nb w' d' nom' defer /\
                RD c nb d' (alts ++ app_op o alts) defer).

Lemma incl_dfr o defer : incl defer (dfr o defer).
Proof. destruct o; cbn; try apply incl_refl. intros x Hx; right; exact Hx. Qed.

Lemma RV_mono c nb nb' w d nom : nb <= nb' -> RV c nb w d nom -> RV c nb' w d nom.
Proof.
  intros Hn (wc & dc & HL & R). exists wc, dc. split; [eapply LInv_mono; eauto|exact R].
Qed.

Lemma Mode_mono c nb nb' w d nom defer defer' : nb <= nb' -> incl defer defer' ->
  Mode c nb w d nom defer -> Mode c nb' w d nom defer'.
Proof.
  intros Hn Hi [H|(Hcl & [(HL & Hsp)|(Hf & Hr & HRV)])]; [left; exact H|right; split; [exact Hcl|]..].
  - left. split; [eapply Live_mono; eauto|exact Hsp].
  - right. split; [exact Hf|]. split; [exact Hr|]. eapply RV_mono; eauto.
Qed.

Lemma post_mono c nb nb' w' d' nom alts defer o r : nb <= nb' ->
  mut_post c nb w' d' nom alts defer o r -> mut_post c nb' w' d' nom alts defer o r.
Proof.
  intros Hn [(A & nom' & B & C & D)|[(A & B & C)|(A & k & v & n & nom' & B & B' & C & D)]]; [left|right; left|right; right].
  - split; [exact A|]. exists nom'. split; [exact B|]. split; [eapply Mode_mono; [exact Hn|apply incl_refl|exact C]|].
    eapply RD_mono; [exact Hn|apply incl_refl|apply incl_refl|exact D].
  - split; [exact A|]. split; [eapply Mode_mono; [exact Hn|apply incl_refl|exact B]|].
    eapply RD_mono; [exact Hn|apply incl_refl|apply incl_refl|exact C].
  - split; [exact A|]. exists k, v, n, nom'. split; [exact B|]. split; [exact B'|].
    split; [eapply Mode_mono; [exact Hn|apply incl_refl|exact C]|].
    eapply RD_mono; [exact Hn|apply incl_refl|apply incl_refl|exact D].
Qed.

Lemma post_err_unchanged c nb w d nom alts defer o r : r <> ROk ->
  Mode c nb w d nom defer -> RD c nb d alts defer -> mut_post c nb w d nom alts defer o r.
Proof.
  intros Hr HM HRD. right. left. split; [exact Hr|]. split; [eapply Mode_mono; [apply N.le_refl|apply incl_dfr|exact HM]|].
  eapply RD_mono; [apply N.le_refl| |apply incl_dfr|exact HRD]. intros x Hx. apply in_or_app. left. exact Hx.
Qed.

Lemma post_ok_noop c nb w d nom alts defer o : (forall a, spec_accepts a o = Some a) ->
  Mode c nb w d nom defer -> RD c nb d alts defer -> mut_post c nb w d nom alts defer o ROk.
Proof.
  intros Hacc HM HRD. left. split; [reflexivity|]. exists nom. split; [apply Hacc|]. split; [exact HM|].
  rewrite (app_op_noop _ _ Hacc). eapply RD_mono; [apply N.le_refl| |apply incl_refl|exact HRD]. intros x Hx. right. exact Hx.
Qed.

Lemma post_live_ok c nb w' d' nom nom' alts defer o :
  spec_accepts nom o = Some nom' -> Live c nb w' d' defer -> sp_of (sh d') = nom' -> mut_post c nb w' d' nom alts defer o ROk.
Proof.
  intros Hacc HL Hsp. left. split; [reflexivity|]. exists nom'. split; [exact Hacc|].
  apply (live_out c nb w' d' nom' (nom' :: app_op o alts) defer HL Hsp). left. reflexivity.
Qed.

Lemma settle_none c w e : st_rotate w = None -> settle c {| ss_wal := w; ss_env := e |} = {| ss_wal := w; ss_env := e |}.
Proof. intros H. unfold settle. cbn. rewrite H. reflexivity. Qed.

Lemma store_nil c w e : st_closed w = false -> store_logs c w [] e = (ROk, w, e).
Proof. intros H. unfold store_logs. rewrite H. reflexivity. Qed.

(* ------------------------------------------------------------------ *)
(* StoreLogs / DeleteRange from the degraded modes (no settle needed)    *)
Lemma store_fail c nb w e nom alts defer ls :
  st_closed w = false -> st_failed w = true -> Mode c nb w (e_disk e) nom defer -> RD c nb (e_disk e) alts defer ->
  exists r, store_logs c w ls e = (r, w, e) /\ mut_post c nb w (e_disk e) nom alts defer (OStore ls) r.
Proof.
  intros Hcl Hfl HM HRD. rewrite (failed_store c w e ls Hcl Hfl). destruct ls as [|l0 ls'].
  - exists ROk. split; [reflexivity|]. apply post_ok_noop; [apply store_nil_accepts|exact HM|exact HRD].
  - exists RErrFailed. split; [reflexivity|]. apply post_err_unchanged; [discriminate|exact HM|exact HRD].
Qed.

Lemma delete_fail c nb w e nom alts defer mn mx :
  st_closed w = false -> st_failed w = true -> Mode c nb w (e_disk e) nom defer -> RD c nb (e_disk e) alts defer ->
  exists r, delete_range c w mn mx e = (r, w, e) /\ mut_post c nb w (e_disk e) nom alts defer (ODelete mn mx) r.
Proof.
  intros Hcl Hfl HM HRD. rewrite (failed_delete c w e mn mx Hcl Hfl). destruct (mx <? mn) eqn:E.
  - exists ROk. split; [reflexivity|]. apply post_ok_noop; [intros a; apply delete_empty_accepts; lia|exact HM|exact HRD].
  - exists RErrFailed. split; [reflexivity|]. apply post_err_unchanged; [discriminate|exact HM|exact HRD].
Qed.

Lemma Mode_fail c nb w d nom defer : st_closed w = false -> st_failed w = true -> st_rotate w = None -> RV c nb w d nom ->
  Mode c nb w d nom defer.
Proof. intros A B C D. right. split; [exact A|]. right. auto. Qed.

(* ------------------------------------------------------------------ *)
(* one mutating call                                                    *)
Lemma mut_step c nb w e nom alts defer o :
  cfg_ok c -> sop_ok o -> is_mutating o = true -> nb + 2 < two64 -> st_closed w = false ->
  Mode c nb w (e_disk e) nom defer -> RD c nb (e_disk e) alts defer -> In nom alts -> Forall dop_ok defer ->
  exists r w' e', step_model c {| ss_wal := w; ss_env := e |} o = (r, {| ss_wal := w'; ss_env := e' |}) /\
    st_closed w' = false /\ mut_post c (nb + 2) w' (e_disk e') nom alts defer o r.
Proof.
  intros Hc Hop Hmut Hnb Hcl HM HRD Hin Hdef.
  destruct o as [ls|mn mx|i| | |k v n|k|]; try discriminate.
  - (* StoreLogs *)
    destruct Hop as (Hok & HF). cbn [step_model].
    destruct HM as [(K & _)|(_ & [(HLive & Hsp)|(Hfl & Hrot & HRV)])]; [congruence| |].
    + destruct (live_settle c nb w e nom alts defer Hc ltac:(lia) HLive Hsp Hin) as (w1 & e1 & Hset & Hcl1 & Hcase).
      rewrite Hset. cbn [ss_wal ss_env].
      destruct Hcase as [(HL1 & Hr1 & Hsp1 & _)|(Hf1 & Hr1 & Hfl1 & HRV1 & HRD1)].
      * destruct (live_store c (nb + 1) w1 e1 nom alts defer ls Hc Hok HF ltac:(lia) HL1 Hr1 Hsp1 Hin) as (r & w' & e' & Hst & Hcl' & Hres).
        rewrite Hst. exists r, w', e'. split; [reflexivity|]. split; [exact Hcl'|]. replace (nb + 2) with (nb + 1 + 1) by lia.
        destruct Hres as [(-> & nom' & Hacc & HL' & Hsp')|(Hne & HM' & HRD')].
        -- eapply post_live_ok; eauto.
        -- right. left. auto.
      * destruct (store_fail c (nb + 1) w1 e1 nom alts defer ls Hcl1 Hfl1 (Mode_fail _ _ _ _ _ _ Hcl1 Hfl1 Hr1 HRV1) HRD1) as (r & Hst & Hpost). rewrite Hst.
        exists r, w1, e1. split; [reflexivity|]. split; [exact Hcl1|]. eapply post_mono; [|exact Hpost]. lia.
    + rewrite (settle_none c w e Hrot). cbn [ss_wal ss_env].
      destruct (store_fail c nb w e nom alts defer ls Hcl Hfl (Mode_fail _ _ _ _ _ _ Hcl Hfl Hrot HRV) HRD) as (r & Hst & Hpost). rewrite Hst.
      exists r, w, e. split; [reflexivity|]. split; [exact Hcl|]. eapply post_mono; [|exact Hpost]. lia.
  - (* DeleteRange *)
    cbn [step_model]. cbn [sop_ok] in Hop.
    destruct HM as [(K & _)|(_ & [(HLive & Hsp)|(Hfl & Hrot & HRV)])]; [congruence| |].
    + destruct (live_settle c nb w e nom alts defer Hc ltac:(lia) HLive Hsp Hin) as (w1 & e1 & Hset & Hcl1 & Hcase).
      rewrite Hset. cbn [ss_wal ss_env].
      destruct Hcase as [(HL1 & Hr1 & Hsp1 & _)|(Hf1 & Hr1 & Hfl1 & HRV1 & HRD1)].
      * destruct (live_delete c (nb + 1) w1 e1 nom alts defer mn mx Hc Hop ltac:(lia) HL1 Hr1 Hsp1 Hin) as (r & w' & e' & Hst & Hcl' & Hres).
        rewrite Hst. exists r, w', e'. split; [reflexivity|]. split; [exact Hcl'|]. replace (nb + 2) with (nb + 1 + 1) by lia.
        destruct Hres as [(-> & nom' & Hacc & HL' & Hsp')|(Hne & HM' & HRD')].
        -- eapply post_live_ok; eauto.
        -- right. left. auto.
      * destruct (delete_fail c (nb + 1) w1 e1 nom alts defer mn mx Hcl1 Hfl1 (Mode_fail _ _ _ _ _ _ Hcl1 Hfl1 Hr1 HRV1) HRD1) as (r & Hst & Hpost). rewrite Hst.
        exists r, w1, e1. split; [reflexivity|]. split; [exact Hcl1|]. eapply post_mono; [|exact Hpost]. lia.
    + rewrite (settle_none c w e Hrot). cbn [ss_wal ss_env].
      destruct (delete_fail c nb w e nom alts defer mn mx Hcl Hfl (Mode_fail _ _ _ _ _ _ Hcl Hfl Hrot HRV) HRD) as (r & Hst & Hpost). rewrite Hst.
      exists r, w, e. split; [reflexivity|]. split; [exact Hcl|]. eapply post_mono; [|exact Hpost]. lia.
  - (* stable Set *)
    cbn [step_model ss_wal ss_env].
    destruct (set_step c nb w e nom alts defer k v n Hcl HM HRD Hin Hdef) as (r & e' & Hs & Hres). rewrite Hs.
    exists r, w, e'. split; [reflexivity|]. split; [exact Hcl|].
    destruct Hres as [(-> & nom' & Hacc & HM' & HRD')|[(Hne & Hd)|(Hne & nom' & Hacc & HM' & HRD')]].
    + eapply post_mono; [|left; split; [reflexivity|]; exists nom'; split; [exact Hacc|]; split; [exact HM'|exact HRD']]. lia.
    + rewrite Hd. eapply post_mono; [|apply post_err_unchanged; [exact Hne|exact HM|exact HRD]]. lia.
    + eapply post_mono; [|right; right; split; [exact Hne|]; exists k, v, n, nom'; split; [reflexivity|]; split; [exact Hacc|]; split; [exact HM'|]]; [lia|].
      eapply RD_mono; [apply N.le_refl| |apply incl_refl|exact HRD'].
      intros x [<-|Hx]; apply in_or_app; right; [eapply in_app_op; eauto|exact Hx].
Qed.

(* ------------------------------------------------------------------ *)
(* bookkeeping of the ghost state                                       *)
Lemma accepts_good a o a' : sp_good a -> sop_ok o -> spec_accepts a o = Some a' -> sp_good a'.
Proof. intros Hg Ho E. rewrite (spec_accepts_step _ _ _ E). apply step_spec_good; assumption. Qed.

Lemma app_op_good o alts : Forall sp_good alts -> sop_ok o -> Forall sp_good (app_op o alts).
Proof.
  intros Hg Ho. rewrite Forall_forall in *. intros x Hx. unfold app_op in Hx. apply in_flat_map in Hx.
  destruct Hx as (a & Ha & Hx). destruct (spec_accepts a o) as [a'|] eqn:E; [|destruct Hx]. destruct Hx as [<-|[]].
  eapply accepts_good; [apply Hg; exact Ha|exact Ho|exact E].
Qed.

Lemma cand_good alts defer x : Forall sp_good alts -> Forall dop_ok defer -> In x (candidates alts defer) -> sp_good x.
Proof.
  intros Hg Hd Hx. rewrite Forall_forall in *. destruct (cand_inv _ _ _ Hx) as [K|(a & o & Ka & Ko & E)]; [apply Hg; exact K|].
  eapply accepts_good; [apply Hg; exact Ka|apply (Hd o Ko)|exact E].
Qed.

Lemma dfr_ok o defer : sop_ok o -> Forall dop_ok defer -> Forall dop_ok (dfr o defer).
Proof. intros Ho Hd. destruct o; cbn; try exact Hd. constructor; [split; [exact Ho|eexists; reflexivity]|exact Hd]. Qed.

Lemma observed_Mode c nb w e nom defer : Mode c nb w (e_disk e) nom defer -> st_closed w = false ->
  observed {| ss_wal := w; ss_env := e |} = nom.
Proof. intros HM Hcl. eapply observed_RV. eapply Mode_RV; eauto. Qed.

Lemma with_fault_disk s f fx : e_disk (ss_env (with_fault s f fx)) = e_disk (ss_env s) /\ ss_wal (with_fault s f fx) = ss_wal s.
Proof. split; reflexivity. Qed.

(* ------------------------------------------------------------------ *)
(* one step of a history                                                *)
Lemma reopen_step c nb h f fx (HcOK : cfg_ok c) : nb + 2 < two64 -> FInv c nb h ->
  let s_in := {| ss_wal := ss_wal (fs_s h);
                 ss_env := {| e_acts := e_acts (ss_env (fs_s h)); e_disk := adopt_disk (e_disk (ss_env (fs_s h)));
                              e_fault := f; e_fx := fx; e_m := e_m (ss_env (fs_s h)) |} |} in
  exists r s1, step_model c s_in OReopen = (r, s1) /\
    ((r = ROk /\ st_closed (ss_wal s1) = false /\
      LInv c (nb + 1) (ss_wal s1) (sh (e_disk (ss_env s1))) /\ no_pend (e_disk (ss_env s1)) /\
      In (sp_of (sh (e_disk (ss_env s1)))) (candidates (fs_alts h) (fs_defer h)) /\
      (f = None -> e_fault (ss_env s1) = None)) \/
     (r <> ROk /\ f <> None /\ st_closed (ss_wal s1) = true /\ st_rotate (ss_wal s1) = None /\
      RD c (nb + 1) (e_disk (ss_env s1)) (fs_alts h) (fs_defer h))).
Proof.
  intros Hnb (Hok & Hf & Hgn & Hin & Hga & Hdo & HRD & HM) s_in. cbn [step_model s_in ss_env ss_wal].
  destruct (reopen_ok c nb _ (fs_alts h) (fs_defer h) (e_acts (ss_env (fs_s h))) f fx (e_m (ss_env (fs_s h))) HcOK ltac:(lia) HRD)
    as (res & e' & Ho & Hcase). rewrite Ho.
  destruct Hcase as [(w' & -> & HL & HN & Hsp & Hfe)|(Hfn & (x & -> & Hx) & HRD')].
  - eexists _, _. split; [reflexivity|]. left. cbn [ss_wal ss_env]. split; [reflexivity|].
    split; [apply (LInv_closed _ _ _ _ HL)|]. split; [exact HL|]. split; [exact HN|]. split; [rewrite Hsp; apply HRD|exact Hfe].
  - eexists _, _. split; [reflexivity|]. right. cbn [ss_wal ss_env close st_closed st_rotate]. auto.
Qed.

Lemma observed_wf s f fx : observed (with_fault s f fx) = observed s.
Proof. reflexivity. Qed.

Definition fop_run (c : cfg) (h : fstate) (f : option nat) (fx : fxmode) (o : sop) : fstate :=
  let '(r, s1) := step_model c (with_fault (fs_s h) f fx) o in
  let s' := with_fault s1 None fx_none in
  if st_closed (ss_wal (fs_s h)) then
    {| fs_s := s'; fs_nom := fs_nom h; fs_alts := fs_alts h; fs_defer := fs_defer h;
       fs_ok := fs_ok h && negb (result_eqb (res_class r) ROk) |}
  else if is_mutating o then
    match r with
    | ROk =>
        match spec_accepts (fs_nom h) o with
        | Some nom' =>
            {| fs_s := s'; fs_nom := nom'; fs_alts := nom' :: app_op o (fs_alts h); fs_defer := fs_defer h;
               fs_ok := fs_ok h && spst_eqb (observed s') nom' |}
        | None => {| fs_s := s'; fs_nom := fs_nom h; fs_alts := fs_alts h; fs_defer := fs_defer h; fs_ok := false |}
        end
    | _ =>
        let nom1 := match o, spec_accepts (fs_nom h) o with
                    | OSet _ _ _, Some nom' => if spst_eqb (observed s') nom' then nom' else fs_nom h
                    | _, _ => fs_nom h
                    end in
        {| fs_s := s'; fs_nom := nom1; fs_alts := fs_alts h ++ app_op o (fs_alts h);
           fs_defer := dfr o (fs_defer h); fs_ok := fs_ok h && spst_eqb (observed s') nom1 |}
    end
  else
    let '(r', _) := step_spec (fs_nom h) o in
    {| fs_s := s'; fs_nom := fs_nom h; fs_alts := fs_alts h; fs_defer := fs_defer h;
       fs_ok := fs_ok h && result_eqb (res_class r) r' |}.

Lemma fstep_run_other c h f fx o : o <> OReopen -> fstep_run c h (FOp f fx o) = fop_run c h f fx o.
Proof. intros Hne. destruct o; try congruence; reflexivity. Qed.

Lemma fop_step c nb h f fx o : cfg_ok c -> sop_ok o -> o <> OReopen -> nb + 2 < two64 -> FInv c nb h ->
  FInv c (nb + 2) (fop_run c h f fx o).
Proof.
  intros Hc Hop Hne Hnb (Hok & Hf & Hgn & Hin & Hga & Hdo & HRD & HM). unfold fop_run.
  destruct (fs_s h) as [w e] eqn:Es. cbn [ss_wal ss_env] in *.
  set (ef := {| e_acts := e_acts e; e_disk := e_disk e; e_fault := f; e_fx := fx; e_m := e_m e |}).
  change (with_fault {| ss_wal := w; ss_env := e |} f fx) with {| ss_wal := w; ss_env := ef |}.
  destruct (st_closed w) eqn:Hcl.
  - (* no WAL: every call fails *)
    assert (Hr : st_rotate w = None) by (destruct HM as [(_ & K)|(K & _)]; [exact K|congruence]).
    destruct (closed_step c w ef o Hcl Hr ltac:(destruct o; try exact I; congruence)) as (r & e' & Hst & Hd & _ & Hres).
    rewrite Hst. unfold FInv. cbn [fs_ok fs_s fs_nom fs_alts fs_defer with_fault ss_env ss_wal e_fault e_disk].
    rewrite Hok, Hres, Hd. cbn [andb negb e_disk ef].
    split; [reflexivity|]. split; [reflexivity|]. split; [exact Hgn|]. split; [exact Hin|]. split; [exact Hga|]. split; [exact Hdo|].
    split; [eapply RD_mono; [| | |exact HRD]; [lia|apply incl_refl|apply incl_refl]|].
    left. auto.
  - destruct (is_mutating o) eqn:Hmut.
    + destruct (mut_step c nb w ef (fs_nom h) (fs_alts h) (fs_defer h) o Hc Hop Hmut Hnb Hcl HM HRD Hin Hdo)
        as (r & w' & e' & Hst & Hcl' & Hpost). rewrite Hst.
      set (s1 := with_fault {| ss_wal := w'; ss_env := e' |} None fx_none).
      (* the nominal state after a failed call *)
      set (nom1 := match o with
                   | OSet k v n => match spec_accepts (fs_nom h) (OSet k v n) with
                                   | Some nom' => if spst_eqb (observed s1) nom' then nom' else fs_nom h
                                   | None => fs_nom h
                                   end
                   | _ => fs_nom h
                   end).
      assert (Hfin : forall nomx deferx, r <> ROk -> nom1 = nomx -> sp_good nomx -> In nomx (fs_alts h ++ app_op o (fs_alts h)) ->
                Mode c (nb + 2) w' (e_disk e') nomx deferx -> incl deferx (dfr o (fs_defer h)) ->
                RD c (nb + 2) (e_disk e') (fs_alts h ++ app_op o (fs_alts h)) (dfr o (fs_defer h)) ->
                FInv c (nb + 2) {| fs_s := s1; fs_nom := nom1;
                      fs_alts := fs_alts h ++ app_op o (fs_alts h); fs_defer := dfr o (fs_defer h);
                      fs_ok := fs_ok h && spst_eqb (observed s1) nom1 |}).
      { intros nomx deferx Hr En Hgx Hinx HMx Hix HRDx. rewrite En. unfold FInv, s1. rewrite observed_wf.
        cbn [fs_ok fs_s fs_nom fs_alts fs_defer with_fault ss_env ss_wal e_fault e_disk].
        rewrite (observed_Mode c (nb + 2) w' _ nomx deferx); [|exact HMx|exact Hcl'].
        rewrite Hok, spst_eqb_refl. split; [reflexivity|]. split; [reflexivity|]. split; [exact Hgx|].
        split; [exact Hinx|].
        split; [apply Forall_app; split; [exact Hga|apply app_op_good; assumption]|].
        split; [apply dfr_ok; assumption|]. split; [exact HRDx|]. eapply Mode_mono; [apply N.le_refl|exact Hix|exact HMx]. }
      destruct Hpost as [(-> & nom' & Hacc & HM' & HRD')|[(Hr & HM' & HRD')|(Hr & k & v & n & nom' & -> & Hacc & HM' & HRD')]].
      * rewrite Hacc. unfold FInv, s1. rewrite observed_wf. cbn [fs_ok fs_s fs_nom fs_alts fs_defer with_fault ss_env ss_wal e_fault e_disk].
        rewrite (observed_Mode c (nb + 2) w' _ nom' (fs_defer h)); [|exact HM'|exact Hcl'].
        rewrite Hok, spst_eqb_refl. split; [reflexivity|]. split; [reflexivity|].
        split; [eapply accepts_good; eauto|]. split; [left; reflexivity|].
        split; [constructor; [eapply accepts_good; eauto|apply app_op_good; assumption]|]. split; [exact Hdo|]. split; [exact HRD'|exact HM'].
      * assert (En : nom1 = fs_nom h).
        { (* readers see the old state: the nominal state stays *)
          pose proof (observed_Mode c (nb + 2) w' e' (fs_nom h) (dfr o (fs_defer h)) HM' Hcl') as Hobs.
          unfold nom1. destruct o; try reflexivity. destruct (spec_accepts (fs_nom h) _) as [nomy|] eqn:Ey; [|reflexivity].
          unfold s1. rewrite observed_wf, Hobs. destruct (spst_eqb (fs_nom h) nomy) eqn:Eq; [|reflexivity].
          apply spst_eqb_eq in Eq. symmetry. exact Eq. }
        destruct r; try congruence;
          (apply (Hfin (fs_nom h) (dfr o (fs_defer h))); [discriminate|exact En|exact Hgn|apply in_or_app; left; exact Hin|exact HM'|apply incl_refl|exact HRD']).
      * assert (En : nom1 = nom').
        { pose proof (observed_Mode c (nb + 2) w' e' nom' (fs_defer h) HM' Hcl') as Hobs.
          unfold nom1. rewrite Hacc. unfold s1. rewrite observed_wf, Hobs, spst_eqb_refl. reflexivity. }
        assert (HRD2 : RD c (nb + 2) (e_disk e') (fs_alts h ++ app_op (OSet k v n) (fs_alts h)) (dfr (OSet k v n) (fs_defer h))).
        { eapply RD_mono; [apply N.le_refl|apply incl_refl|apply incl_dfr|exact HRD']. }
        destruct r; try congruence;
          (apply (Hfin nom' (fs_defer h)); [discriminate|exact En|eapply accepts_good; eauto|apply in_or_app; right; eapply in_app_op; eauto|exact HM'|apply incl_dfr|exact HRD2]).
    + (* a read *)
      assert (Hrd : is_read o) by (destruct o; try exact I; try discriminate; congruence).
      destruct (read_step c nb w ef (fs_nom h) o Hc Hop Hnb Hrd (Mode_RV _ _ _ _ _ _ HM Hcl) Hcl Hgn) as (r & e' & Hst & Hd & _ & Hres).
      rewrite Hst. destruct (step_spec (fs_nom h) o) as [r' sp'] eqn:Esp. cbn [fst] in Hres.
      unfold FInv. cbn [fs_ok fs_s fs_nom fs_alts fs_defer with_fault ss_env ss_wal e_fault e_disk].
      rewrite Hok, Hres, Hd. cbn [andb e_disk ef].
      split; [reflexivity|]. split; [reflexivity|]. split; [exact Hgn|]. split; [exact Hin|]. split; [exact Hga|]. split; [exact Hdo|].
      split; [eapply RD_mono; [| | |exact HRD]; [lia|apply incl_refl|apply incl_refl]|].
      eapply Mode_mono; [| |exact HM]; [lia|apply incl_refl].
Qed.

Lemma FInv_after_open c nb h s1 (sp : spst) :
  nb + 2 < two64 -> FInv c nb h -> st_closed (ss_wal s1) = false ->
  LInv c (nb + 1) (ss_wal s1) (sh (e_disk (ss_env s1))) -> no_pend (e_disk (ss_env s1)) ->
  sp = sp_of (sh (e_disk (ss_env s1))) -> In sp (candidates (fs_alts h) (fs_defer h)) -> e_fault (ss_env s1) = None ->
  FInv c (nb + 2) {| fs_s := s1; fs_nom := sp; fs_alts := [sp]; fs_defer := []; fs_ok := fs_ok h |}.
Proof.
  intros Hnb (Hok & Hf & Hgn & Hin & Hga & Hdo & HRD & HM) Hcl HL HN -> Hc Hfe.
  unfold FInv. cbn [fs_ok fs_s fs_nom fs_alts fs_defer].
  split; [exact Hok|]. split; [exact Hfe|]. split; [eapply cand_good; eauto|]. split; [left; reflexivity|].
  split; [constructor; [eapply cand_good; eauto|constructor]|]. split; [constructor|].
  assert (HL2 : LInv c (nb + 2) (ss_wal s1) (sh (e_disk (ss_env s1)))) by (eapply LInv_mono; [|exact HL]; lia).
  split; [eapply RD_of_clean; [exact HL2|exact HN|left; reflexivity]|].
  apply Mode_live; [apply live_clean; assumption|reflexivity].
Qed.

Lemma observed_clean c nb w e : LInv c nb w (sh (e_disk e)) -> no_pend (e_disk e) ->
  observed {| ss_wal := w; ss_env := e |} = sp_of (sh (e_disk e)).
Proof.
  intros HL HN. apply (observed_RV c nb). apply (RV_of_live c nb w (e_disk e) []). apply live_clean; assumption.
Qed.

Lemma FInv_step c nb h st : cfg_ok c -> fstep_wf st -> nb + 2 < two64 -> FInv c nb h -> FInv c (nb + 2) (fstep_run c h st).
Proof.
  intros Hc Hwf Hnb HI. destruct st as [f fx o|].
  - destruct o as [ls|mn mx|i| | |k v n|k|] eqn:Eo;
      try (rewrite fstep_run_other by discriminate; apply fop_step; auto; discriminate).
    (* Close; Open *)
    cbn [fstep_run].
    
    pose proof HI as (Hok & Hf & Hgn & Hin & Hga & Hdo & HRD & HM).
    match goal with |- context [step_model c (with_fault ?si f fx) OReopen] => 
      change (with_fault si f fx) with {| ss_wal := ss_wal (fs_s h);
                 ss_env := {| e_acts := e_acts (ss_env (fs_s h)); e_disk := adopt_disk (e_disk (ss_env (fs_s h)));
                              e_fault := f; e_fx := fx; e_m := e_m (ss_env (fs_s h)) |} |} end.
    destruct (reopen_step c nb h f fx Hc Hnb HI) as (r & s1 & Hst & Hcase). cbv zeta in Hst. rewrite Hst.
    destruct Hcase as [(-> & Hcl & HL & HN & Hcand & _)|(Hr & Hfn & Hcl & Hrot & HRD')].
    + destruct s1 as [w1 e1]. cbn [ss_wal ss_env] in *.
      rewrite observed_wf, (observed_clean c (nb + 1) w1 e1 HL HN), (matches_in _ _ Hcand).
      apply (FInv_after_open c nb h (with_fault {| ss_wal := w1; ss_env := e1 |} None fx_none) _ Hnb HI Hcl HL HN eq_refl Hcand eq_refl).
    + assert (Ebr : forall (X : fstate), match r with ROk => X | _ =>
                 {| fs_s := with_fault s1 None fx_none; fs_nom := fs_nom h; fs_alts := fs_alts h; fs_defer := fs_defer h;
                    fs_ok := fs_ok h && match f with Some _ => true | None => false end |} end =
                 {| fs_s := with_fault s1 None fx_none; fs_nom := fs_nom h; fs_alts := fs_alts h; fs_defer := fs_defer h;
                    fs_ok := fs_ok h && match f with Some _ => true | None => false end |}).
      { intros X. destruct r; try reflexivity. congruence. }
      rewrite Ebr. unfold FInv. cbn [fs_ok fs_s fs_nom fs_alts fs_defer with_fault ss_env ss_wal e_fault e_disk].
      rewrite Hok. destruct f as [k|]; [|congruence]. split; [reflexivity|]. split; [reflexivity|].
      split; [exact Hgn|]. split; [exact Hin|]. split; [exact Hga|]. split; [exact Hdo|].
      split; [eapply RD_mono; [| | |exact HRD']; [lia|apply incl_refl|apply incl_refl]|]. left. auto.
  - (* restart *)
    cbn [fstep_run]. pose proof HI as (Hok & Hf & Hgn & Hin & Hga & Hdo & HRD & HM).
    destruct (reopen_step c nb h None fx_none Hc Hnb HI) as (r & s1 & Hst & Hcase). cbv zeta in Hst. rewrite Hst.
    destruct Hcase as [(-> & Hcl & HL & HN & Hcand & Hfe)|(_ & Hfn & _)]; [|congruence].
    destruct s1 as [w1 e1]. cbn [ss_wal ss_env] in *.
    rewrite (observed_clean c (nb + 1) w1 e1 HL HN), (matches_in _ _ Hcand).
    apply (FInv_after_open c nb h {| ss_wal := w1; ss_env := e1 |} _ Hnb HI Hcl HL HN eq_refl Hcand (Hfe eq_refl)).
Qed.

(* ------------------------------------------------------------------ *)
(* histories                                                            *)
Lemma FInv_run c steps : forall nb h, cfg_ok c -> Forall fstep_wf steps ->
  nb + 2 * N.of_nat (length steps) + 2 < two64 -> FInv c nb h ->
  FInv c (nb + 2 * N.of_nat (length steps)) (fault_run c h steps).
Proof.
  unfold fault_run. induction steps as [|st steps IH]; intros nb h Hc Hwf Hnb HI.
  - cbn [length fold_left]. replace (nb + 2 * N.of_nat 0) with nb by lia. exact HI.
  - inversion Hwf as [|? ? Hw1 Hw2]; subst. cbn [fold_left length]. cbn [length] in Hnb.
    replace (nb + 2 * N.of_nat (S (length steps))) with ((nb + 2) + 2 * N.of_nat (length steps)) by lia.
    apply IH; auto; [lia|]. apply FInv_step; auto. lia.
Qed.

Lemma FInv_init c s0 : cfg_ok c -> initial c = Some s0 -> FInv c 1 (fault_init s0).
Proof.
  intros Hc Hinit. unfold initial in Hinit.
  assert (HD0 : DIs c 0 (e_disk fresh_env)) by (split; [constructor|reflexivity]).
  assert (HN0 : no_pend (e_disk fresh_env)) by (intros n f H; discriminate).
  destruct (open_wal_ok c 0 fresh_env Hc eq_refl HD0 HN0 ltac:(unfold two64; lia)) as (w & e' & Ho & Hext & HL & _).
  rewrite Ho in Hinit. inversion Hinit; subst s0. clear Hinit.
  destruct (ext_final _ _ _ Hext) as (_ & HN & Hsp). pose proof (ext_fault _ _ _ Hext) as Hf.
  assert (Hsp0 : sp_of (e_disk fresh_env) = {| sp_log := sl_empty; sp_kv := [] |}) by reflexivity. rewrite Hsp0 in Hsp.
  unfold FInv, fault_init. cbn [fs_ok fs_s fs_nom fs_alts fs_defer ss_env ss_wal].
  split; [reflexivity|]. split; [exact Hf|]. split; [constructor|]. split; [left; reflexivity|].
  split; [constructor; [constructor|constructor]|]. split; [constructor|].
  assert (HLs : LInv c 1 w (sh (e_disk e'))) by (apply LInv_sh; exact HL).
  assert (Hsps : sp_of (sh (e_disk e')) = {| sp_log := sl_empty; sp_kv := [] |}) by (rewrite (sp_of_sh_clean c _ w _ HL); exact Hsp).
  split; [eapply RD_of_clean; [exact HLs|exact HN|rewrite Hsps; left; reflexivity]|].
  apply Mode_live; [apply live_clean; assumption|exact Hsps].
Qed.

Theorem fault_safety : fault_safety_stmt.
Proof.
  unfold fault_safety_stmt. intros c steps s0 Hc Hwf Hshort Hinit.
  pose proof (FInv_init c s0 Hc Hinit) as HI.
  assert (Hb : 1 + 2 * N.of_nat (length steps) + 2 < two64) by (unfold short_enough in Hshort; unfold two64; lia).
  apply (FInv_run c steps 1 (fault_init s0) Hc Hwf Hb HI).
Qed.
