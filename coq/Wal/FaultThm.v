(* FaultThm.v -- every history of calls with injected I/O errors, restarts and
   reopens keeps the invariant FInv; the statement fault_safety_stmt (C10). *)
From RW Require Import Base.Bytes Base.BytesFacts Fmt.Codec Fmt.CodecFacts Fmt.Frame Wal.Model Wal.Spec Wal.Hist Wal.FaultHist
  Wal.CrashInv Wal.CrashFacts0 Wal.CrashFacts1 Wal.CrashFacts2 Wal.CrashFacts3 Wal.CrashFacts4 Wal.CrashFacts5
  Wal.CrashFacts6 Wal.CrashGlue Wal.CrashCalls1 Wal.CrashCalls2 Wal.CrashCalls3 Wal.CrashCalls4 Wal.CrashCalls5 Wal.CrashCalls6
  Wal.CrashCalls7 Wal.CrashCalls8 Wal.CrashCalls9 Wal.CrashCalls10 Wal.FaultSim Wal.FaultSim2 Wal.FaultInv Wal.FaultFacts2
  Wal.FaultFacts3 Wal.FaultStore Wal.FaultDelete Wal.FaultSteps Wal.FaultSeal Gen.Constants.
From Coq Require Import ZifyN ZifyNat ZifyBool.
Open Scope N_scope.

Definition dfr (o : sop) (defer : list sop) : list sop := match o with OStore _ => o :: defer | _ => defer end.

Definition mut_post (c : cfg) (nb : N) (w' : wal) (d' : disk) (nom : spst) (alts : list spst) (defer : list sop)
  (o : sop) (r : result) : Prop :=
  (r = ROk /\ exists nom', spec_accepts nom o = Some nom' /\ Mode c nb w' d' nom' defer /\
                           RD c nb d' (nom' :: app_op o alts) defer) \/
  (r <> ROk /\ Mode c nb w' d' nom (dfr o defer) /\ RD c nb d' (alts ++ app_op o alts) (dfr o defer)).

Lemma incl_dfr o defer : incl defer (dfr o defer).
Proof. destruct o; cbn; try apply incl_refl. intros x Hx; right; exact Hx. Qed.

Lemma RV_mono c nb nb' w d nom : nb <= nb' -> RV c nb w d nom -> RV c nb' w d nom.
Proof.
  intros Hn (wc & dc & o & HL & R). exists wc, dc, o. split; [eapply LInv_mono; eauto|exact R].
Qed.

Lemma Mode_mono c nb nb' w d nom defer defer' : nb <= nb' -> incl defer defer' ->
  Mode c nb w d nom defer -> Mode c nb' w d nom defer'.
Proof.
  intros Hn Hi [H|(Hcl & [(HL & Hsp)|[((tw & A & B & C & HL & HN) & Hsp)|(Hf & Hr & HRV)]])]; [left; exact H|right; split; [exact Hcl|]..].
  - left. split; [eapply Live_mono; eauto|exact Hsp].
  - right. left. split; [|exact Hsp]. exists tw. split; [exact A|]. split; [exact B|]. split; [exact C|]. split; [eapply LInv_mono; eauto|exact HN].
  - right. right. split; [exact Hf|]. split; [exact Hr|]. eapply RV_mono; eauto.
Qed.

Lemma post_mono c nb nb' w' d' nom alts defer o r : nb <= nb' ->
  mut_post c nb w' d' nom alts defer o r -> mut_post c nb' w' d' nom alts defer o r.
Proof.
  intros Hn [(A & nom' & B & C & D)|(A & B & C)]; [left|right].
  - split; [exact A|]. exists nom'. split; [exact B|]. split; [eapply Mode_mono; [exact Hn|apply incl_refl|exact C]|].
    eapply RD_mono; [exact Hn|apply incl_refl|apply incl_refl|exact D].
  - split; [exact A|]. split; [eapply Mode_mono; [exact Hn|apply incl_refl|exact B]|].
    eapply RD_mono; [exact Hn|apply incl_refl|apply incl_refl|exact C].
Qed.

Lemma post_err_unchanged c nb w d nom alts defer o r : r <> ROk ->
  Mode c nb w d nom defer -> RD c nb d alts defer -> mut_post c nb w d nom alts defer o r.
Proof.
  intros Hr HM HRD. right. split; [exact Hr|]. split; [eapply Mode_mono; [apply N.le_refl|apply incl_dfr|exact HM]|].
  eapply RD_mono; [apply N.le_refl| |apply incl_dfr|exact HRD]. intros x Hx. apply in_or_app. left. exact Hx.
Qed.

Lemma post_ok_noop c nb w d nom alts defer o : (forall a, spec_accepts a o = Some a) ->
  Mode c nb w d nom defer -> RD c nb d alts defer -> mut_post c nb w d nom alts defer o ROk.
Proof.
  intros Hacc HM HRD. left. split; [reflexivity|]. exists nom. split; [apply Hacc|]. split; [exact HM|].
  rewrite (app_op_noop _ _ Hacc). eapply RD_mono; [apply N.le_refl| |apply incl_refl|exact HRD]. intros x Hx. right. exact Hx.
Qed.

Lemma post_live_ok c nb w' d' nom nom' alts defer o :
  spec_accepts nom o = Some nom' -> Live c nb w' d' defer -> sp_of (sh d') = nom' -> mut_post c nb w' d' nom alts defer o ROk.
Proof.
  intros Hacc HL Hsp. left. split; [reflexivity|]. exists nom'. split; [exact Hacc|].
  apply (live_out c nb w' d' nom' (nom' :: app_op o alts) defer HL Hsp). left. reflexivity.
Qed.

Lemma settle_none c w e : st_rotate w = None -> settle c {| ss_wal := w; ss_env := e |} = {| ss_wal := w; ss_env := e |}.
Proof. intros H. unfold settle. cbn. rewrite H. reflexivity. Qed.

Lemma store_nil c w e : st_closed w = false -> store_logs c w [] e = (ROk, w, e).
Proof. intros H. unfold store_logs. rewrite H. reflexivity. Qed.

(* ------------------------------------------------------------------ *)
(* StoreLogs / DeleteRange from the degraded modes (no settle needed)    *)
Lemma Mode_seal c nb w d nom defer : Seal c nb w d -> sp_of (sh d) = nom -> Mode c nb w d nom defer.
Proof.
  intros HS Hsp. right. destruct HS as (tw & A & B & C & HL & HN). split; [apply (LInv_closed _ _ _ _ HL)|].
  right. left. split; [exists tw; auto|exact Hsp].
Qed.

Lemma RD_seal c nb w d alts defer : Seal c nb w d -> In (sp_of (sh d)) alts -> RD c nb d alts defer.
Proof. intros (tw & A & B & C & HL & HN) Hin. eapply RD_of_clean; eauto. Qed.

Lemma store_seal c nb w e nom alts defer ls : Seal c nb w (e_disk e) -> sp_of (sh (e_disk e)) = nom -> In nom alts ->
  exists r, store_logs c w ls e = (r, w, e) /\ mut_post c nb w (e_disk e) nom alts defer (OStore ls) r.
Proof.
  intros HS Hsp Hin. pose proof (Mode_seal c nb w _ nom defer HS Hsp) as HM.
  assert (HRD : RD c nb (e_disk e) alts defer) by (apply (RD_seal c nb w _ alts defer HS); rewrite Hsp; exact Hin).
  destruct ls as [|l0 ls'].
  - exists ROk. split; [apply store_nil; destruct HM as [(K & _)|(K & _)]; [destruct HS as (tw & _ & _ & _ & HL & _); pose proof (LInv_closed _ _ _ _ HL) as X; cbn in X; congruence|exact K]|].
    apply post_ok_noop; [apply store_nil_accepts|exact HM|exact HRD].
  - destruct (seal_store c nb w e (l0 :: ls') HS ltac:(discriminate)) as (r & Hr & Hne). exists r. split; [exact Hr|].
    apply post_err_unchanged; assumption.
Qed.

Lemma store_fail c nb w e nom alts defer ls :
  st_closed w = false -> st_failed w = true -> Mode c nb w (e_disk e) nom defer -> RD c nb (e_disk e) alts defer ->
  exists r, store_logs c w ls e = (r, w, e) /\ mut_post c nb w (e_disk e) nom alts defer (OStore ls) r.
Proof.
  intros Hcl Hfl HM HRD. rewrite (failed_store c w e ls Hcl Hfl). destruct ls as [|l0 ls'].
  - exists ROk. split; [reflexivity|]. apply post_ok_noop; [apply store_nil_accepts|exact HM|exact HRD].
  - exists RErrFailed. split; [reflexivity|]. apply post_err_unchanged; [discriminate|exact HM|exact HRD].
Qed.

Lemma delete_fail c nb w e nom alts defer mn mx :
  st_closed w = false -> st_failed w = true -> Mode c nb w (e_disk e) nom defer -> RD c nb (e_disk e) alts defer ->
  exists r, delete_range c w mn mx e = (r, w, e) /\ mut_post c nb w (e_disk e) nom alts defer (ODelete mn mx) r.
Proof.
  intros Hcl Hfl HM HRD. rewrite (failed_delete c w e mn mx Hcl Hfl). destruct (mx <? mn) eqn:E.
  - exists ROk. split; [reflexivity|]. apply post_ok_noop; [intros a; apply delete_empty_accepts; lia|exact HM|exact HRD].
  - exists RErrFailed. split; [reflexivity|]. apply post_err_unchanged; [discriminate|exact HM|exact HRD].
Qed.

Lemma Mode_fail c nb w d nom defer : st_closed w = false -> st_failed w = true -> st_rotate w = None -> RV c nb w d nom ->
  Mode c nb w d nom defer.
Proof. intros A B C D. right. split; [exact A|]. right. right. auto. Qed.

(* ------------------------------------------------------------------ *)
(* one mutating call                                                    *)
Lemma mut_step c nb w e nom alts defer o :
  cfg_ok c -> sop_ok o -> is_mutating o = true -> nb + 2 < two64 -> st_closed w = false ->
  Mode c nb w (e_disk e) nom defer -> RD c nb (e_disk e) alts defer -> In nom alts -> Forall dop_ok defer ->
  exists r w' e', step_model c {| ss_wal := w; ss_env := e |} o = (r, {| ss_wal := w'; ss_env := e' |}) /\
    st_closed w' = false /\ mut_post c (nb + 2) w' (e_disk e') nom alts defer o r.
Proof.
  intros Hc Hop Hmut Hnb Hcl HM HRD Hin Hdef.
  destruct o as [ls|mn mx|i| | |k v n|k|]; try discriminate.
  - (* StoreLogs *)
    destruct Hop as (Hok & HF). cbn [step_model].
    destruct HM as [(K & _)|(_ & [(HLive & Hsp)|[(HS & Hsp)|(Hfl & Hrot & HRV)]])]; [congruence| | |].
    + destruct (live_settle c nb w e nom alts defer Hc ltac:(lia) HLive Hsp Hin) as (w1 & e1 & Hset & Hcl1 & Hcase).
      rewrite Hset. cbn [ss_wal ss_env].
      destruct Hcase as [(HL1 & Hr1 & Hsp1 & _)|(Hf1 & Hr1 & [(HS1 & Hsp1)|(Hfl1 & HRV1)] & HRD1)].
      * destruct (live_store c (nb + 1) w1 e1 nom alts defer ls Hc Hok HF ltac:(lia) HL1 Hr1 Hsp1 Hin) as (r & w' & e' & Hst & Hcl' & Hres).
        rewrite Hst. exists r, w', e'. split; [reflexivity|]. split; [exact Hcl'|]. replace (nb + 2) with (nb + 1 + 1) by lia.
        destruct Hres as [(-> & nom' & Hacc & HL' & Hsp')|(Hne & HM' & HRD')].
        -- eapply post_live_ok; eauto.
        -- right. auto.
      * destruct (store_seal c (nb + 1) w1 e1 nom alts defer ls HS1 Hsp1 Hin) as (r & Hst & Hpost). rewrite Hst.
        exists r, w1, e1. split; [reflexivity|]. split; [exact Hcl1|]. eapply post_mono; [|exact Hpost]. lia.
      * destruct (store_fail c (nb + 1) w1 e1 nom alts defer ls Hcl1 Hfl1 (Mode_fail _ _ _ _ _ _ Hcl1 Hfl1 Hr1 HRV1) HRD1) as (r & Hst & Hpost). rewrite Hst.
        exists r, w1, e1. split; [reflexivity|]. split; [exact Hcl1|]. eapply post_mono; [|exact Hpost]. lia.
    + assert (Hr : st_rotate w = None) by (destruct HS as (tw & _ & _ & K & _); exact K).
      rewrite (settle_none c w e Hr). cbn [ss_wal ss_env].
      destruct (store_seal c nb w e nom alts defer ls HS Hsp Hin) as (r & Hst & Hpost). rewrite Hst.
      exists r, w, e. split; [reflexivity|]. split; [exact Hcl|]. eapply post_mono; [|exact Hpost]. lia.
    + rewrite (settle_none c w e Hrot). cbn [ss_wal ss_env].
      destruct (store_fail c nb w e nom alts defer ls Hcl Hfl (Mode_fail _ _ _ _ _ _ Hcl Hfl Hrot HRV) HRD) as (r & Hst & Hpost). rewrite Hst.
      exists r, w, e. split; [reflexivity|]. split; [exact Hcl|]. eapply post_mono; [|exact Hpost]. lia.
  - (* DeleteRange *)
    cbn [step_model]. cbn [sop_ok] in Hop.
    assert (Hseal : forall nb1 w1 e1, nb1 + 1 <= nb + 2 -> nb1 + 1 < two64 -> Seal c nb1 w1 (e_disk e1) -> sp_of (sh (e_disk e1)) = nom -> st_closed w1 = false ->
      exists r w' e', delete_range c w1 mn mx e1 = (r, w', e') /\ st_closed w' = false /\ mut_post c (nb + 2) w' (e_disk e') nom alts defer (ODelete mn mx) r).
    { intros nb1 w1 e1 Hle Hlt HS1 Hsp1 Hcl1.
      destruct (seal_delete c nb1 w1 e1 nom alts defer mn mx Hc Hop Hlt HS1 Hsp1 Hin) as (r & w' & e' & Hd & Hcl' & Hres).
      exists r, w', e'. split; [exact Hd|]. split; [exact Hcl'|]. eapply post_mono; [exact Hle|]. exact Hres. }
    destruct HM as [(K & _)|(_ & [(HLive & Hsp)|[(HS & Hsp)|(Hfl & Hrot & HRV)]])]; [congruence| | |].
    + destruct (live_settle c nb w e nom alts defer Hc ltac:(lia) HLive Hsp Hin) as (w1 & e1 & Hset & Hcl1 & Hcase).
      rewrite Hset. cbn [ss_wal ss_env].
      destruct Hcase as [(HL1 & Hr1 & Hsp1 & _)|(Hf1 & Hr1 & [(HS1 & Hsp1)|(Hfl1 & HRV1)] & HRD1)].
      * destruct (live_delete c (nb + 1) w1 e1 nom alts defer mn mx Hc Hop ltac:(lia) HL1 Hr1 Hsp1 Hin) as (r & w' & e' & Hst & Hcl' & Hres).
        rewrite Hst. exists r, w', e'. split; [reflexivity|]. split; [exact Hcl'|]. replace (nb + 2) with (nb + 1 + 1) by lia.
        destruct Hres as [(-> & nom' & Hacc & HL' & Hsp')|(Hne & HM' & HRD')].
        -- eapply post_live_ok; eauto.
        -- right. auto.
      * destruct (Hseal (nb + 1) w1 e1 ltac:(lia) ltac:(lia) HS1 Hsp1 Hcl1) as (r & w' & e' & Hd & Hcl' & Hpost). rewrite Hd.
        exists r, w', e'. auto.
      * destruct (delete_fail c (nb + 1) w1 e1 nom alts defer mn mx Hcl1 Hfl1 (Mode_fail _ _ _ _ _ _ Hcl1 Hfl1 Hr1 HRV1) HRD1) as (r & Hst & Hpost). rewrite Hst.
        exists r, w1, e1. split; [reflexivity|]. split; [exact Hcl1|]. eapply post_mono; [|exact Hpost]. lia.
    + assert (Hr : st_rotate w = None) by (destruct HS as (tw & _ & _ & K & _); exact K).
      rewrite (settle_none c w e Hr). cbn [ss_wal ss_env].
      destruct (Hseal nb w e ltac:(lia) ltac:(lia) HS Hsp Hcl) as (r & w' & e' & Hd & Hcl' & Hpost). rewrite Hd. exists r, w', e'. auto.
    + rewrite (settle_none c w e Hrot). cbn [ss_wal ss_env].
      destruct (delete_fail c nb w e nom alts defer mn mx Hcl Hfl (Mode_fail _ _ _ _ _ _ Hcl Hfl Hrot HRV) HRD) as (r & Hst & Hpost). rewrite Hst.
      exists r, w, e. split; [reflexivity|]. split; [exact Hcl|]. eapply post_mono; [|exact Hpost]. lia.
  - (* stable Set *)
    cbn [step_model ss_wal ss_env].
    destruct (set_step c nb w e nom alts defer k v n Hcl HM HRD Hin Hdef) as (r & e' & Hs & Hres). rewrite Hs.
    exists r, w, e'. split; [reflexivity|]. split; [exact Hcl|].
    destruct Hres as [(-> & nom' & Hacc & HM' & HRD')|(Hne & Hd)].
    + eapply post_mono; [|left; split; [reflexivity|]; exists nom'; split; [exact Hacc|]; split; [exact HM'|exact HRD']]. lia.
    + rewrite Hd. eapply post_mono; [|apply post_err_unchanged; [exact Hne|exact HM|exact HRD]]. lia.
Qed.
