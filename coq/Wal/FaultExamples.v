(* FaultExamples.v -- concrete histories with injected I/O errors (definitions
   only) used as non-vacuity examples by Props/C10.v. *)
From RW Require Import Base.Bytes Fmt.Codec Fmt.Frame Wal.Model Wal.Spec Wal.Hist Wal.FaultHist Wal.CrashExamples Wal.ModelOld Gen.Constants.
Open Scope N_scope.

(* a call with a counted fault only *)
Notation FO f o := (FOp f fx_none o).

(* A: the fsync of a 2-entry append fails (write ok, fault on the 2nd action); the
   entries are not visible; a shorter batch with another term is then written at the
   same offset; after a restart only that batch is there *)
Definition fh_fsync_then_shorter : list fstep :=
  [FO None (OStore [ex_log 1 1]);
   FO (Some 1%nat) (OStore [ex_log 2 1; ex_log 3 1]);
   FO None (OGet 2); FO None OLast;
   FO None (OStore [ex_log 2 2]);
   FO None (OGet 2); FRestart; FO None OLast; FO None (OGet 2); FO None (OGet 3)].

(* A': the same failed fsync followed directly by a restart: the complete batch sits
   behind the last commit and is adopted by the recovery (the failed call is applied,
   as a whole, at restart time) *)
Definition fh_fsync_then_restart : list fstep :=
  [FO None (OStore [ex_log 1 1]);
   FO (Some 1%nat) (OStore [ex_log 2 1; ex_log 3 1]);
   FO None OLast; FRestart; FO None OLast; FO None (OGet 3)].

(* B: tail truncation inside the unsealed tail: force-seal write and fsync, metadata
   commit succeed, the creation of the new tail fails (4th action): the WAL refuses
   writes, readers still see the old state; after a reopen the truncation is applied *)
Definition fh_trunc_create_fails : list fstep :=
  [FO None (OStore [ex_log 1 1; ex_log 2 1; ex_log 3 1]);
   FO (Some 3%nat) (ODelete 3 3);
   FO None (OStore [ex_log 4 1]); FO None OLast; FO None (OGet 3);
   FO None OReopen; FO None OLast; FO None (OStore [ex_log 3 5]); FO None (OGet 3)].

(* C: the commit of the pending rotation fails (1st action of the next StoreLogs): the
   tail stays sealed, appends are refused until a restart completes the rotation *)
Definition fh_rotation_commit_fails : list fstep :=
  [FO None (OStore [ex_log 1 1]); FO None (OStore [ex_log 2 1]);
   FO (Some 0%nat) (OStore [ex_log 3 1]);
   FO None (OStore [ex_log 3 1]); FO None OLast; FO None (ODelete 1 1); FO None OFirst;
   FRestart; FO None (OStore [ex_log 3 1]); FO None OLast; FO None OFirst].

(* D: a fault inside Open (which has to complete an interrupted rotation: its metadata
   commit fails): Open returns an error, every call fails, the next Open succeeds *)
Definition fh_fault_in_open : list fstep :=
  [FO None (OStore [ex_log 1 1]); FO None (OStore [ex_log 2 1]);
   FO (Some 0%nat) OReopen; FO None OLast; FO None (OStore [ex_log 3 1]);
   FO None OReopen; FO None OLast; FO None (OStore [ex_log 3 1]); FO None (OGet 3)].

(* E: a failed stable-store write, and a failed head truncation whose commit fails *)
Definition fh_misc : list fstep :=
  [FO None (OSet [107] [1] false); FO (Some 0%nat) (OSet [107] [2] false); FO None (OGetS [107]);
   FO None (OStore [ex_log 1 1; ex_log 2 1]); FO (Some 0%nat) (ODelete 0 1); FO None OFirst;
   FRestart; FO None OFirst; FO None (OGetS [107])].

(* the fault modes; they are in force while a counted fault is armed, so a call that
   is to see only the mode carries a count no call reaches *)
Definition fx_deletes : fxmode := {| fx_del := true; fx_list := false; fx_leave := false; fx_land := false |}.
Definition fx_listing : fxmode := {| fx_del := false; fx_list := true; fx_leave := false; fx_land := false |}.
Definition fx_leaves : fxmode := {| fx_del := false; fx_list := false; fx_leave := true; fx_land := false |}.
Definition never : option nat := Some 200%nat.

(* F: every deletion of a head truncation fails: the truncation is applied, the files
   stay; the clean-up of the next Open fails as well; the one after removes them *)
Definition fh_delete_fails : list fstep :=
  [FO None (OStore [ex_log 1 1]); FO None (OStore [ex_log 2 1]); FO None (OStore [ex_log 3 1]);
   FO None (OStore [ex_log 4 1]); FO None (OStore [ex_log 5 1]);
   FOp never fx_deletes (ODelete 1 4); FO None OFirst; FO None (OStore [ex_log 6 1]);
   FOp never fx_deletes OReopen; FO None OFirst; FO None OLast;
   FO None OReopen; FO None OFirst; FO None OLast; FO None (OStore [ex_log 7 1])].

(* F': the deletion of the old tail fails when the empty first segment is replaced *)
Definition fh_reset_delete_fails : list fstep :=
  [FOp never fx_deletes (OStore [ex_log 5 1]); FO None OFirst; FO None (OStore [ex_log 6 1]);
   FRestart; FO None OFirst; FO None OLast].

(* G: the directory listing of an Open fails: Open returns an error, every call fails,
   the next Open succeeds *)
Definition fh_list_fails : list fstep :=
  [FO None (OStore [ex_log 1 1]); FO None (OStore [ex_log 2 1]);
   FOp never fx_listing OReopen; FO None OLast; FO None (OStore [ex_log 3 1]);
   FO None OReopen; FO None OLast; FO None (OStore [ex_log 3 1]); FO None (OGet 3)].

(* H: the creation of the new tail after a tail truncation fails and leaves the empty
   file behind: the WAL refuses writes; the next Open adopts the file as the tail *)
Definition fh_trunc_create_leaves : list fstep :=
  [FO None (OStore [ex_log 1 1; ex_log 2 1; ex_log 3 1]);
   FOp (Some 3%nat) fx_leaves (ODelete 3 3);
   FO None (OStore [ex_log 4 1]); FO None OLast;
   FO None OReopen; FO None OLast; FO None (OStore [ex_log 3 5]); FO None (OGet 3)].

(* H': the same for the file of a rotation *)
Definition fh_rotate_create_leaves : list fstep :=
  [FO None (OStore [ex_log 1 1]); FO None (OStore [ex_log 2 1]);
   FOp (Some 1%nat) fx_leaves (OStore [ex_log 3 1]);
   FO None (OStore [ex_log 3 1]); FO None OLast;
   FRestart; FO None (OStore [ex_log 3 1]); FO None OLast; FO None (OGet 3)].

(* I: a metadata commit that reports a failure but has reached the disk (finding F4).
   Two appends fill and seal segment 1; the DeleteRange waits for the rotation (commit,
   create: the empty tail segment 2) and then truncates entry 2: segment 2 is dropped as a
   whole, nothing is force-sealed; its commit (3rd action of the call) fails and lands.
   The WAL refuses the next StoreLogs; the next Open finds the truncation done *)
Definition fx_lands : fxmode := {| fx_del := false; fx_list := false; fx_leave := false; fx_land := true |}.
Definition fh_commit_lands : list fstep :=
  [FO None (OStore [ex_log 1 1]); FO None (OStore [ex_log 2 1]);
   FOp (Some 2%nat) fx_lands (ODelete 2 2);
   FO None (OStore [ex_log 3 1]); FO None OLast; FO None (OGet 2);
   FO None OReopen; FO None OLast; FO None (OStore [ex_log 2 7]); FO None (OGet 2)].

(* I': a stable Set whose transaction fails and lands: readers see the new value *)
Definition fh_set_lands : list fstep :=
  [FO None (OSet [107] [1] false); FOp (Some 0%nat) fx_lands (OSet [107] [2] false); FO None (OGetS [107]);
   FRestart; FO None (OGetS [107])].

(* I'': the same history as I on the code before the repair (mutate_gen_old: the failed
   commit is taken for a commit that did not happen): the state after the two appends and
   the rotation, the truncation with the commit that fails and lands, StoreLogs [3], Open *)
Definition old_f4_run (c : cfg) : result * bool * result * N * N :=
  match initial c with
  | None => (RErrOther, false, RErrOther, 0, 0)
  | Some s0 =>
      let h := fault_run c (fault_init s0) [FO None (OStore [ex_log 1 1]); FO None (OStore [ex_log 2 1])] in
      let s1 := settle c (fs_s h) in
      let e1 := ss_env s1 in
      let '(r2, w2, e2) := truncate_tail_old c (ss_wal s1) 1
                             {| e_acts := e_acts e1; e_disk := e_disk e1; e_fault := Some 0%nat; e_fx := fx_lands; e_m := e_m e1 |} in
      let '(r3, w3, e3) := store_logs c w2 [ex_log 3 1]
                             {| e_acts := e_acts e2; e_disk := e_disk e2; e_fault := None; e_fx := fx_none; e_m := e_m e2 |} in
      let last_before := last_index (st_segs w3) (st_tail w3) in
      match open_wal c {| e_acts := e_acts e3; e_disk := adopt_disk (e_disk e3); e_fault := None; e_fx := fx_none; e_m := e_m e3 |} with
      | (OOk w4, _) => (r2, st_failed w2, r3, last_before, last_index (st_segs w4) (st_tail w4))
      | (OErr _, _) => (r2, st_failed w2, r3, last_before, 0)
      end
  end.

Definition fault_final (c : cfg) (steps : list fstep) : fstate :=
  match initial c with
  | Some s0 => fault_run c (fault_init s0) steps
  | None => fault_init {| ss_wal := {| st_next_id := 0; st_segs := []; st_tail := None; st_rotate := None;
                                       st_failed := false; st_closed := true |}; ss_env := fresh_env |}
  end.

Definition ff_ok (c : cfg) (steps : list fstep) : bool := fs_ok (fault_final c steps).
Definition ff_last (c : cfg) (steps : list fstep) : N := spec_last (sp_log (fs_nom (fault_final c steps))).
Definition ff_first (c : cfg) (steps : list fstep) : N := spec_first (sp_log (fs_nom (fault_final c steps))).
Definition ff_term (c : cfg) (steps : list fstep) (i : N) : option N :=
  option_map l_term (spec_get (sp_log (fs_nom (fault_final c steps))) i).
Definition ff_kv (c : cfg) (steps : list fstep) (k : bytes) : bytes := kv_get k (sp_kv (fs_nom (fault_final c steps))).
Definition ff_flags (c : cfg) (steps : list fstep) : bool * bool :=
  let w := ss_wal (fs_s (fault_final c steps)) in (st_failed w, st_closed w).
(* the result of the last call of the history *)
Definition ff_result (c : cfg) (steps : list fstep) (f : option nat) (o : sop) : result :=
  fst (step_model c (with_fault (fs_s (fault_final c steps)) f fx_none) o).
(* the number of segment files on the disk *)
Definition ff_nfiles (c : cfg) (steps : list fstep) : nat := length (dk_files (e_disk (ss_env (fs_s (fault_final c steps))))).
Definition ff_result_fx (c : cfg) (steps : list fstep) (f : option nat) (fx : fxmode) (o : sop) : result :=
  fst (step_model c (with_fault (fs_s (fault_final c steps)) f fx) o).
