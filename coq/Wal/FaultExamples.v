(* FaultExamples.v -- concrete histories with injected I/O errors (definitions
   only) used as non-vacuity examples by Props/C10.v. *)
From RW Require Import Base.Bytes Fmt.Codec Fmt.Frame Wal.Model Wal.Spec Wal.Hist Wal.FaultHist Wal.CrashExamples Gen.Constants.
Open Scope N_scope.

(* A: the fsync of a 2-entry append fails (write ok, fault on the 2nd action); the
   entries are not visible; a shorter batch with another term is then written at the
   same offset; after a restart only that batch is there *)
Definition fh_fsync_then_shorter : list fstep :=
  [FOp None (OStore [ex_log 1 1]);
   FOp (Some 1%nat) (OStore [ex_log 2 1; ex_log 3 1]);
   FOp None (OGet 2); FOp None OLast;
   FOp None (OStore [ex_log 2 2]);
   FOp None (OGet 2); FRestart; FOp None OLast; FOp None (OGet 2); FOp None (OGet 3)].

(* A': the same failed fsync followed directly by a restart: the complete batch sits
   behind the last commit and is adopted by the recovery (the failed call is applied,
   as a whole, at restart time) *)
Definition fh_fsync_then_restart : list fstep :=
  [FOp None (OStore [ex_log 1 1]);
   FOp (Some 1%nat) (OStore [ex_log 2 1; ex_log 3 1]);
   FOp None OLast; FRestart; FOp None OLast; FOp None (OGet 3)].

(* B: tail truncation inside the unsealed tail: force-seal write and fsync, metadata
   commit succeed, the creation of the new tail fails (4th action): the WAL refuses
   writes, readers still see the old state; after a reopen the truncation is applied *)
Definition fh_trunc_create_fails : list fstep :=
  [FOp None (OStore [ex_log 1 1; ex_log 2 1; ex_log 3 1]);
   FOp (Some 3%nat) (ODelete 3 3);
   FOp None (OStore [ex_log 4 1]); FOp None OLast; FOp None (OGet 3);
   FOp None OReopen; FOp None OLast; FOp None (OStore [ex_log 3 5]); FOp None (OGet 3)].

(* C: the commit of the pending rotation fails (1st action of the next StoreLogs): the
   tail stays sealed, appends are refused until a restart completes the rotation *)
Definition fh_rotation_commit_fails : list fstep :=
  [FOp None (OStore [ex_log 1 1]); FOp None (OStore [ex_log 2 1]);
   FOp (Some 0%nat) (OStore [ex_log 3 1]);
   FOp None (OStore [ex_log 3 1]); FOp None OLast; FOp None (ODelete 1 1); FOp None OFirst;
   FRestart; FOp None (OStore [ex_log 3 1]); FOp None OLast; FOp None OFirst].

(* D: a fault inside Open (which has to complete an interrupted rotation: its metadata
   commit fails): Open returns an error, every call fails, the next Open succeeds *)
Definition fh_fault_in_open : list fstep :=
  [FOp None (OStore [ex_log 1 1]); FOp None (OStore [ex_log 2 1]);
   FOp (Some 0%nat) OReopen; FOp None OLast; FOp None (OStore [ex_log 3 1]);
   FOp None OReopen; FOp None OLast; FOp None (OStore [ex_log 3 1]); FOp None (OGet 3)].

(* E: a failed stable-store write, and a failed head truncation whose commit fails *)
Definition fh_misc : list fstep :=
  [FOp None (OSet [107] [1] false); FOp (Some 0%nat) (OSet [107] [2] false); FOp None (OGetS [107]);
   FOp None (OStore [ex_log 1 1; ex_log 2 1]); FOp (Some 0%nat) (ODelete 0 1); FOp None OFirst;
   FRestart; FOp None OFirst; FOp None (OGetS [107])].

Definition fault_final (c : cfg) (steps : list fstep) : fstate :=
  match initial c with
  | Some s0 => fault_run c (fault_init s0) steps
  | None => fault_init {| ss_wal := {| st_next_id := 0; st_segs := []; st_tail := None; st_rotate := None;
                                       st_failed := false; st_closed := true |}; ss_env := fresh_env |}
  end.

Definition ff_ok (c : cfg) (steps : list fstep) : bool := fs_ok (fault_final c steps).
Definition ff_last (c : cfg) (steps : list fstep) : N := spec_last (sp_log (fs_nom (fault_final c steps))).
Definition ff_first (c : cfg) (steps : list fstep) : N := spec_first (sp_log (fs_nom (fault_final c steps))).
Definition ff_term (c : cfg) (steps : list fstep) (i : N) : option N :=
  option_map l_term (spec_get (sp_log (fs_nom (fault_final c steps))) i).
Definition ff_kv (c : cfg) (steps : list fstep) (k : bytes) : bytes := kv_get k (sp_kv (fs_nom (fault_final c steps))).
Definition ff_flags (c : cfg) (steps : list fstep) : bool * bool :=
  let w := ss_wal (fs_s (fault_final c steps)) in (st_failed w, st_closed w).
(* the result of the last call of the history *)
Definition ff_result (c : cfg) (steps : list fstep) (f : option nat) (o : sop) : result :=
  fst (step_model c (with_fault (fs_s (fault_final c steps)) f) o).
