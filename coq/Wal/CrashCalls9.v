(* CrashCalls9.v -- truncateTail. *)
From RW Require Import Base.Bytes Base.BytesFacts Fmt.Codec Fmt.CodecFacts Fmt.Frame Wal.Model Wal.Spec Wal.Hist
  Wal.CrashInv Wal.CrashFacts0 Wal.CrashFacts1 Wal.CrashFacts2 Wal.CrashFacts3 Wal.CrashFacts4 Wal.CrashFacts5
  Wal.CrashFacts6 Wal.CrashGlue Wal.CrashCalls1 Wal.CrashCalls3 Wal.CrashCalls4 Wal.CrashCalls6 Wal.CrashCalls7
  Wal.CrashCalls8 Gen.Constants.
From Coq Require Import ZifyN ZifyNat ZifyBool Sorted.
Open Scope N_scope.

Lemma seg_visible_seal_sealed d k mx i :
  si_sealed k = true -> 1 <= si_base k -> si_base k <= si_min k -> si_min k <= mx -> mx <= si_max k ->
  seg_visible 0 d (seal_info k mx i) = firstn (N.to_nat (mx - si_min k + 1)) (seg_visible 0 d k).
Proof.
  intros Hs Hb Hbm H1 H2. unfold seg_visible. cbn [seal_info si_sealed si_max si_min si_base]. rewrite Hs.
  change (name_of (seal_info k mx i)) with (name_of k).
  destruct ((mx =? 0) || (mx <? si_min k)) eqn:E1; [lia|].
  destruct ((si_max k =? 0) || (si_max k <? si_min k)) eqn:E2; [lia|].
  rewrite firstn_firstn. f_equal. lia.
Qed.

Lemma sealed_ok_seal_info d k mx i :
  sealed_ok d k -> si_min k <= mx -> mx <= si_max k -> sealed_ok d (seal_info k mx i).
Proof.
  intros (H1 & H2 & f & Hf & H3 & H4 & H5 & H6) Ha Hb. split; [reflexivity|]. split; [exact Ha|].
  exists f. change (name_of (seal_info k mx i)) with (name_of k). cbn [seal_info si_max si_base].
  repeat split; auto. lia.
Qed.

Lemma slog_of_inj first es es' : es <> [] -> slog_of first es = slog_of first es' -> es = es'.
Proof.
  intros Hne H. destruct es as [|x r]; [congruence|]. destruct es' as [|y r']; cbn in H; [discriminate|].
  inversion H. reflexivity.
Qed.

(* the segment holding new_max is already sealed *)
Lemma trunc_tail_sealed c nb (A : spst -> Prop) w0 w e0 e K k D' t f tw new_max dels :
  cfg_ok c -> lview c nb w (e_disk e) (K ++ k :: D') t f tw -> ext (DP c nb A) e0 e ->
  st_rotate w0 = None -> st_failed w0 = false -> st_closed w0 = false ->
  st_next_id w + 1 <= nb -> nb < two64 ->
  si_base k <= new_max -> (forall y, In y (D' ++ [t]) -> new_max < si_base y) ->
  hd_min (K ++ k :: D') t <= new_max ->
  (forall n, In n dels -> exists y, In y (D' ++ [t]) /\ name_of y = n) ->
  let d := e_disk e in
  let S := K ++ k :: D' in
  let a1 := {| sp_log := slog_of (hd_min S t) (firstn (N.to_nat (new_max + 1 - hd_min S t)) (lv_es d S t f)); sp_kv := dk_stable d |} in
  let t' := seal_info k new_max (si_index_start k) in
  let si := new_segment c (st_next_id w) (new_max + 1) in
  A a1 ->
  exists w' e',
    mutate w0 {| tx_next_id := st_next_id w + 1; tx_segs := (K ++ [t']) ++ [si]; tx_delete := dels;
                 tx_create := Some si; tx_tail := None |} e = (ROk, w', e') /\
    ext (DP c nb A) e0 e' /\ LInv c nb w' (e_disk e') /\ sp_of (e_disk e') = a1.
Proof.
  intros Hc V He Hrot Hfail Hclosed Hnid Hnb Hbk HD Hfirst Hdels d S a1 t' si HA.
  subst d. set (d := e_disk e) in *.
  pose proof (lv_sealed _ _ _ _ _ _ _ _ V) as Hso. pose proof (lv_Swf V) as Hw. pose proof (lv_Ssst V) as Hsst.
  pose proof (lv_linked _ _ _ _ _ _ _ _ V) as Hl. pose proof (lv_wf _ _ _ _ _ _ _ _ V) as Hwf.
  fold S in Hso, Hw, Hsst, Hl, Hwf.
  assert (HsoK := Hso). unfold S in HsoK. apply Forall_app in HsoK. destruct HsoK as (HsoK & HsoH).
  inversion HsoH as [|? ? Hsk HsoD]; subst.
  assert (HwK := Hw). unfold S in HwK. apply Forall_app in HwK. destruct HwK as (HwK & HwH).
  inversion HwH as [|? ? (Hkb1 & Hkbm) HwD]; subst.
  pose proof Hsk as (Hks & Hkmm & _).
  pose proof (sealed_prefix_len d K k D' t Hso Hw Hl) as Hplen. fold S in Hplen.
  assert (HlK : linked (K ++ [k])).
  { unfold S in Hl. rewrite <- app_assoc in Hl. cbn [app] in Hl.
    replace (K ++ k :: D' ++ [t]) with ((K ++ [k]) ++ (D' ++ [t])) in Hl by (rewrite <- app_assoc; reflexivity).
    eapply linked_app_l; eauto. }
  (* new_max lies inside k *)
  assert (Hmx : new_max <= si_max k).
  { unfold S in Hl. rewrite <- app_assoc in Hl. cbn [app] in Hl.
    destruct (D' ++ [t]) as [|y Y] eqn:EY; [destruct D'; discriminate|].
    destruct (linked_mid K k y Y Hl) as (Hb & _). specialize (HD y (or_introl eq_refl)). lia. }
  assert (Hmink : si_min k <= new_max).
  { destruct (list_eq_dec_nil K) as [->|Hne].
    - unfold hd_min in Hfirst. cbn in Hfirst. exact Hfirst.
    - destruct (exists_last Hne) as (K' & x & EK). rewrite EK in HlK. rewrite <- app_assoc in HlK. cbn [app] in HlK.
      destruct (linked_mid K' x k [] HlK) as (_ & Hm). lia. }
  pose proof (chain_sorted S t Hl Hsst) as Hsorted.
  unfold mutate.
  destruct (mutate_newtail_ok c nb A false w0 e0 e (st_next_id w) (K ++ [t']) (new_max + 1) dels Hc He)
    as (w' & e' & Hmut & He' & HL' & Hs' & _).
  - apply (lv_nopend _ _ _ _ _ _ _ _ V).
  - exact Hrot.
  - exact Hfail.
  - exact Hclosed.
  - fold d. intros ps E. rewrite (lv_meta _ _ _ _ _ _ _ _ V) in E. inversion E. cbn. lia.
  - exact Hnid.
  - unfold S in Hwf. rewrite <- app_assoc in Hwf. apply Forall_app in Hwf. destruct Hwf as (HwfK & Hwf').
    cbn [app] in Hwf'. inversion Hwf' as [|? ? Hwk _]; subst. apply Forall_app. split; [exact HwfK|].
    constructor; [apply seal_info_wf; exact Hwk|constructor].
  - fold d. apply Forall_app. split; [exact HsoK|]. constructor; [|constructor].
    apply sealed_ok_seal_info; assumption.
  - lia.
  - pose proof (lv_tok _ _ _ _ _ _ _ _ V) as (_ & Ht'). fold d in Ht'. rewrite (lv_file _ _ _ _ _ _ _ _ V) in Ht'.
    destruct Ht' as (_ & _ & _ & _ & _ & Hb).
    pose proof (linked_app_lt S t Hl Hsst) as Hlt. rewrite Forall_forall in Hlt.
    specialize (Hlt k ltac:(unfold S; apply in_or_app; right; left; reflexivity)).
    pose proof (lv_twf V) as (_ & _ & _ & Hb2 & _). lia.
  - rewrite <- app_assoc. cbn [app]. apply linked_snoc; [|reflexivity|reflexivity].
    eapply linked_replace_last; [exact HlK|reflexivity|reflexivity].
  - (* deleted names are not listed any more *)
    intros n Hin. destruct (Hdels n Hin) as (y & Hy & <-).
    rewrite listed_app, listed_single. apply orb_false_iff. split.
    + apply not_listed_by_base. intros z Hz. cbn [name_of fst].
      assert (Hzb : exists z0, In z0 (K ++ [k]) /\ si_base z0 = si_base z).
      { apply in_app_or in Hz. destruct Hz as [Hz|[<-|[]]]; [exists z; split; [apply in_or_app; left; exact Hz|reflexivity]|].
        exists k. split; [apply in_or_app; right; left; reflexivity|reflexivity]. }
      destruct Hzb as (z0 & Hz0 & <-).
      assert (Hs2 : StronglySorted lt_base ((K ++ [k]) ++ (D' ++ [t]))).
      { unfold S in Hsorted. rewrite <- !app_assoc in *. cbn [app] in *. exact Hsorted. }
      pose proof (sorted_app_lt (K ++ [k]) (D' ++ [t]) z0 y Hs2 Hz0 Hy). lia.
    + apply fname_eqb_neq. unfold name_of. cbn [new_segment si_base si_id]. intros E. inversion E as [[E1 E2]].
      rewrite Forall_forall in Hwf. destruct (Hwf y) as (_ & _ & _ & _ & _ & Hid); [unfold S; rewrite <- app_assoc; cbn [app]; apply in_or_app; right; right; exact Hy|].
      lia.
  - (* the new reading *)
    fold d. fold si. fold t'. unfold a1 in HA.
    assert (Er : slog_of (hd_min (K ++ [t']) si) (sealed_es d (K ++ [t'])) =
                 slog_of (hd_min S t) (firstn (N.to_nat (new_max + 1 - hd_min S t)) (lv_es d S t f))).
    { assert (Eh : hd_min (K ++ [t']) si = hd_min S t) by (unfold hd_min, S; destruct K; reflexivity).
      rewrite Eh. f_equal. rewrite sealed_es_app. unfold sealed_es at 2. cbn [flat_map]. rewrite app_nil_r.
      unfold t'. rewrite (seg_visible_seal_sealed d k new_max _ Hks Hkb1 Hkbm Hmink Hmx).
      unfold lv_es. unfold S at 2. rewrite sealed_es_app, sealed_es_cons, <- !app_assoc.
      destruct (seg_visible_sealed_facts d k Hsk Hkb1 Hkbm) as (Hvl & _).
      replace (N.to_nat (new_max + 1 - hd_min S t)) with (length (sealed_es d K) + N.to_nat (new_max - si_min k + 1))%nat
        by (unfold llen in Hplen; lia).
      rewrite (firstn_app_exact (sealed_es d K) _ (length (sealed_es d K)) _ eq_refl). f_equal.
      rewrite firstn_app. replace (N.to_nat (new_max - si_min k + 1) - length (seg_visible 0 d k))%nat with O by (unfold llen in Hvl; lia).
      cbn [firstn]. rewrite app_nil_r. reflexivity. }
    rewrite Er. exact HA.
  - fold si t' in Hmut. rewrite Hmut. exists w', e'. split; [reflexivity|]. split; [exact He'|]. split; [exact HL'|].
    rewrite Hs'. fold d si t'. unfold a1. f_equal.
    assert (Eh : hd_min (K ++ [t']) si = hd_min S t) by (unfold hd_min, S; destruct K; reflexivity).
    rewrite Eh. f_equal. rewrite sealed_es_app. unfold sealed_es at 2. cbn [flat_map]. rewrite app_nil_r.
    unfold t'. rewrite (seg_visible_seal_sealed d k new_max _ Hks Hkb1 Hkbm Hmink Hmx).
    unfold lv_es. unfold S at 2. rewrite sealed_es_app, sealed_es_cons, <- !app_assoc.
    destruct (seg_visible_sealed_facts d k Hsk Hkb1 Hkbm) as (Hvl & _).
    replace (N.to_nat (new_max + 1 - hd_min S t)) with (length (sealed_es d K) + N.to_nat (new_max - si_min k + 1))%nat
      by (unfold llen in Hplen; lia).
    rewrite (firstn_app_exact (sealed_es d K) _ (length (sealed_es d K)) _ eq_refl). f_equal.
    rewrite firstn_app. replace (N.to_nat (new_max - si_min k + 1) - length (seg_visible 0 d k))%nat with O by (unfold llen in Hvl; lia).
    cbn [firstn]. rewrite app_nil_r. reflexivity.
Qed.

(* the segment holding new_max is the (non-empty) tail, already force-sealed on disk *)
Lemma trunc_tail_unsealed c nb (A : spst -> Prop) w0 w e0 e S t f tw new_max istart :
  cfg_ok c -> lview c nb w (e_disk e) S t f tw -> ext (DP c nb A) e0 e ->
  st_rotate w0 = None -> st_failed w0 = false -> st_closed w0 = false ->
  st_next_id w + 1 <= nb -> nb < two64 ->
  df_seal f <> 0 -> hd_min S t <= new_max -> si_base t <= new_max -> new_max <= tl_of (si_base t) (df_ents f) ->
  let d := e_disk e in
  let a1 := {| sp_log := slog_of (hd_min S t) (firstn (N.to_nat (new_max + 1 - hd_min S t)) (lv_es d S t f)); sp_kv := dk_stable d |} in
  let t' := seal_info t new_max istart in
  let si := new_segment c (st_next_id w) (new_max + 1) in
  A a1 ->
  exists w' e',
    mutate w0 {| tx_next_id := st_next_id w + 1; tx_segs := (S ++ [t']) ++ [si]; tx_delete := [];
                 tx_create := Some si; tx_tail := None |} e = (ROk, w', e') /\
    ext (DP c nb A) e0 e' /\ LInv c nb w' (e_disk e') /\ sp_of (e_disk e') = a1.
Proof.
  intros Hc V He Hrot Hfail Hclosed Hnid Hnb Hse Hfirst Hbt Hmx d a1 t' si HA.
  subst d. set (d := e_disk e) in *.
  pose proof (lv_twf V) as (_ & _ & Hb1 & _ & Hbm & _).
  assert (Hmint : si_min t <= new_max).
  { destruct (list_eq_dec_nil S) as [->|Hne]; [unfold hd_min in Hfirst; cbn in Hfirst; exact Hfirst|].
    destruct (lv_hd_min_lt V Hne) as (_ & Hmt). lia. }
  destruct (seal_tail_facts V new_max istart Hse Hmint Hmx) as (F1 & F2 & F3 & F4 & F5 & F6 & F7).
  fold t' in F1, F2, F3, F4, F5, F6.
  assert (Er : slog_of (hd_min (S ++ [t']) si) (sealed_es d (S ++ [t'])) =
               slog_of (hd_min S t) (firstn (N.to_nat (new_max + 1 - hd_min S t)) (lv_es d S t f))).
  { rewrite F6, F5. f_equal. unfold lv_es. rewrite <- (lv_tail_es V).
    destruct (list_eq_dec_nil S) as [->|Hne].
    - unfold sealed_es, hd_min. cbn [flat_map hd app]. f_equal. lia.
    - destruct (lv_hd_min_lt V Hne) as (Hlt & Hmt).
      pose proof (sealed_es_len d S t (lv_sealed _ _ _ _ _ _ _ _ V) (lv_Swf V) (lv_linked _ _ _ _ _ _ _ _ V) Hne) as Hlen.
      replace (N.to_nat (new_max + 1 - hd_min S t)) with (length (sealed_es d S) + N.to_nat (new_max - si_min t + 1))%nat
        by (unfold llen in Hlen; lia).
      rewrite (firstn_app_exact (sealed_es d S) _ (length (sealed_es d S)) _ eq_refl). reflexivity. }
  unfold mutate.
  destruct (mutate_newtail_ok c nb A false w0 e0 e (st_next_id w) (S ++ [t']) (new_max + 1) [] Hc He)
    as (w' & e' & Hmut & He' & HL' & Hs' & _).
  - apply (lv_nopend _ _ _ _ _ _ _ _ V).
  - exact Hrot.
  - exact Hfail.
  - exact Hclosed.
  - fold d. intros ps E. rewrite (lv_meta _ _ _ _ _ _ _ _ V) in E. inversion E. cbn. lia.
  - exact Hnid.
  - exact F1.
  - exact F2.
  - lia.
  - exact F7.
  - apply F3; reflexivity.
  - intros n [].
  - fold d si. rewrite Er. exact HA.
  - fold si in Hmut. rewrite Hmut. exists w', e'. split; [reflexivity|]. split; [exact He'|]. split; [exact HL'|].
    rewrite Hs'. fold d si. unfold a1. rewrite Er. reflexivity.
Qed.

Lemma LInv_of_view {c nb w d S t f tw} (V : lview c nb w d S t f tw) : LInv c nb w d.
Proof.
  split; [apply (lv_closed _ _ _ _ _ _ _ _ V)|]. split; [apply (lv_failed _ _ _ _ _ _ _ _ V)|].
  split; [apply (lv_dis _ _ _ _ _ _ _ _ V)|]. split; [apply (lv_nopend _ _ _ _ _ _ _ _ V)|].
  split; [rewrite (lv_meta _ _ _ _ _ _ _ _ V); unfold persistent; rewrite (lv_segs _ _ _ _ _ _ _ _ V); reflexivity|].
  exists t, f, tw. split; [rewrite (lv_segs _ _ _ _ _ _ _ _ V); apply tail_info_app|].
  split; [apply (lv_file _ _ _ _ _ _ _ _ V)|]. split; [apply (lv_tail _ _ _ _ _ _ _ _ V)|].
  split; [apply (lv_tw _ _ _ _ _ _ _ _ V)|apply (lv_rot _ _ _ _ _ _ _ _ V)].
Qed.

Lemma truncate_tail_ok c nb (A : spst -> Prop) w e S t f tw new_max :
  cfg_ok c -> lview c nb w (e_disk e) S t f tw -> e_fault e = None -> st_rotate w = None ->
  st_next_id w + 1 <= nb -> nb < two64 ->
  lv_es (e_disk e) S t f <> [] -> hd_min S t <= new_max -> new_max + 1 <= si_base t + llen (df_ents f) - 1 ->
  let d := e_disk e in
  let a1 := {| sp_log := slog_of (hd_min S t) (firstn (N.to_nat (new_max + 1 - hd_min S t)) (lv_es d S t f)); sp_kv := dk_stable d |} in
  A (sp_of d) -> A a1 ->
  exists w' e', truncate_tail c w new_max e = (ROk, w', e') /\ ext (DP c nb A) e e' /\
                LInv c nb w' (e_disk e') /\ sp_of (e_disk e') = a1.
Proof.
  intros Hc V Hf Hrot Hnid Hnb Hne Hfirst Hlast d a1 HAa HA. subst d. set (d := e_disk e) in *.
  pose proof (LInv_of_view V) as HLd. fold d in HLd.
  assert (He00 : ext (DP c nb A) e e).
  { apply ext_refl; [exact Hf|]. eapply LInv_DP; [exact HLd|exact HAa]. }
  pose proof (lv_sealed _ _ _ _ _ _ _ _ V) as Hso. pose proof (lv_tok _ _ _ _ _ _ _ _ V) as (Hu & _).
  pose proof (lv_twf V) as (_ & _ & Hb1 & _ & Hbm & _). pose proof (lv_Swf V) as Hw.
  pose proof (lv_nid _ _ _ _ _ _ _ _ V) as Hnid0.
  unfold truncate_tail. rewrite (lv_last V), (lv_segs _ _ _ _ _ _ _ _ V).
  destruct (suffix_split (fun s => new_max <? si_base s) (S ++ [t])) as [Hall|(K & k & D & ES & Hk & HD)].
  { (* impossible: the first segment starts at or below new_max *)
    exfalso. rewrite Forall_forall in Hall.
    destruct S as [|s S'].
    - specialize (Hall t (or_introl eq_refl)). cbn beta in Hall. unfold hd_min in Hfirst. cbn in Hfirst. lia.
    - specialize (Hall s (or_introl eq_refl)). cbn beta in Hall. unfold hd_min in Hfirst. cbn [hd] in Hfirst.
      inversion Hw as [|? ? (Hsb & Hsm) _]; subst. lia. }
  assert (HD' : Forall (fun s => new_max < si_base s) (rev D)).
  { rewrite Forall_forall in *. intros s Hs. apply in_rev in Hs. specialize (HD s Hs). cbn beta in HD. lia. }
  rewrite ES. rewrite rev_app_distr. cbn [rev]. rewrite <- app_assoc. cbn [app].
  destruct (tail_scan_skip new_max (spec_last (dread d)) (rev D) (k :: rev K) [] 0 HD') as (ntr' & Ets).
  rewrite Ets. cbn [tail_scan app]. replace (si_base k <=? new_max) with true by lia.
  cbn [rev]. rewrite rev_involutive.
  destruct (si_sealed k) eqn:Eks.
  - (* already sealed: k is one of S *)
    destruct (list_eq_dec_nil D) as [->|HneD].
    { exfalso. apply app_inj_tail in ES. destruct ES as (_ & <-). congruence. }
    destruct (exists_last HneD) as (D' & x & ED). subst D.
    replace (K ++ k :: D' ++ [x]) with ((K ++ k :: D') ++ [x]) in ES by (rewrite <- app_assoc; reflexivity).
    apply app_inj_tail in ES. destruct ES as (ES & <-). subst S.
    fold (seal_info k new_max (si_index_start k)).
    rewrite (seg_set_last (seal_info k new_max (si_index_start k)) K k); [|
      | reflexivity].
    2:{ pose proof (chain_sorted _ t (lv_linked _ _ _ _ _ _ _ _ V) (lv_Ssst V)) as Hsorted.
        rewrite <- app_assoc in Hsorted. cbn [app] in Hsorted.
        rewrite Forall_forall. intros z Hz.
        apply (sorted_app_lt K (k :: D' ++ [t]) z k Hsorted Hz (or_introl eq_refl)). }
    unfold create_next. rewrite tail_info_app. cbn [seal_info si_max].
    fold (seal_info k new_max (si_index_start k)).
    assert (Hnm : new_max + 1 < two64).
    { pose proof (lv_tok _ _ _ _ _ _ _ _ V) as (_ & Ht'). fold d in Ht'. rewrite (lv_file _ _ _ _ _ _ _ _ V) in Ht'.
      destruct Ht' as (_ & _ & _ & _ & _ & Hb). unfold cur_ents in Hb. rewrite (lv_pend _ _ _ _ _ _ _ _ V) in Hb. lia. }
    rewrite (N.mod_small (new_max + 1) two64) by exact Hnm.
    rewrite (N.mod_small (st_next_id w + 1) two64) by lia.
    rewrite (seg_set_snoc (new_segment c (st_next_id w) (new_max + 1)) (K ++ [seal_info k new_max (si_index_start k)])).
    2:{ apply Forall_app. split.
        - pose proof (chain_sorted _ t (lv_linked _ _ _ _ _ _ _ _ V) (lv_Ssst V)) as Hsorted.
          rewrite <- app_assoc in Hsorted. cbn [app] in Hsorted.
          rewrite Forall_forall. intros z Hz.
          pose proof (sorted_app_lt K (k :: D' ++ [t]) z k Hsorted Hz (or_introl eq_refl)). cbn. lia.
        - constructor; [cbn; lia|constructor]. }
    match goal with |- context [mutate ?w0 _ (add_m e ?m)] =>
      destruct (trunc_tail_sealed c nb A w0 w e (add_m e m) K k D' t f tw new_max (map name_of (rev (D' ++ [t]))) Hc V
                  (ext_add_m _ _ _ m He00) Hrot (lv_failed _ _ _ _ _ _ _ _ V) (lv_closed _ _ _ _ _ _ _ _ V) Hnid Hnb)
        as (w' & e' & Hmut & He' & HL' & Hs') end.
    + lia.
    + intros y Hy. rewrite Forall_forall in HD. specialize (HD y Hy). cbn beta in HD. lia.
    + exact Hfirst.
    + intros n Hin. apply in_map_iff in Hin. destruct Hin as (y & <- & Hy). exists y. split; [apply in_rev; exact Hy|reflexivity].
    + exact HA.
    + cbn [app] in Hmut. rewrite Hmut. exists w', e'. auto.
  - (* the tail itself: force-seal first *)
    assert (ED : D = [] /\ K = S /\ k = t).
    { destruct (list_eq_dec_nil D) as [->|HneD].
      - apply app_inj_tail in ES. destruct ES as (-> & ->). auto.
      - exfalso. destruct (exists_last HneD) as (D' & x & ED). subst D.
        replace (K ++ k :: D' ++ [x]) with ((K ++ k :: D') ++ [x]) in ES by (rewrite <- app_assoc; reflexivity).
        apply app_inj_tail in ES. destruct ES as (ES & _). rewrite Forall_forall in Hso.
        destruct (Hso k) as (Hks & _); [rewrite ES; apply in_or_app; right; left; reflexivity|]. congruence. }
    destruct ED as (-> & -> & ->). clear ES.
    rewrite (lv_tail _ _ _ _ _ _ _ _ V).
    assert (Hse : df_seal f = 0).
    { pose proof (lv_rot _ _ _ _ _ _ _ _ V) as Hr. rewrite Hrot in Hr. destruct (0 <? df_seal f) eqn:E; [discriminate|lia]. }
    assert (Hn1 : 1 <= llen (df_ents f)) by lia.
    destruct (force_seal_ok c nb A w e e S t f tw Hc V He00 Hse Hn1 HAa)
      as (tw' & e1 & Hfs & He1 & HL1 & Hs1 & Hist & (f' & Hf' & Hents')).
    rewrite Hfs.
    set (w2 := {| st_next_id := st_next_id w; st_segs := st_segs w; st_tail := Some tw';
                  st_rotate := if 0 <? ws_index_start tw' then Some (ws_index_start tw') else None;
                  st_failed := st_failed w; st_closed := st_closed w |}) in *.
    destruct (LInv_view _ _ _ _ HL1) as (S2 & t2 & f2 & tw2 & V2).
    assert (E2 : S2 = S /\ t2 = t).
    { pose proof (lv_segs _ _ _ _ _ _ _ _ V2) as E. cbn [w2 st_segs] in E. rewrite (lv_segs _ _ _ _ _ _ _ _ V) in E.
      apply app_inj_tail in E. destruct E; auto. }
    destruct E2 as (-> & ->).
    assert (Ef2 : f2 = f').
    { pose proof (lv_file _ _ _ _ _ _ _ _ V2) as E. rewrite Hf' in E. inversion E. reflexivity. }
    subst f2.
    assert (Hse2 : df_seal f' <> 0).
    { pose proof (lv_rot _ _ _ _ _ _ _ _ V2) as Hr. cbn [w2 st_rotate] in Hr.
      replace (0 <? ws_index_start tw') with true in Hr by lia.
      destruct (0 <? df_seal f') eqn:E; [lia|discriminate]. }
    fold (seal_info t new_max (ws_index_start tw')).
    rewrite (seg_set_last (seal_info t new_max (ws_index_start tw')) S t (lv_bases_lt V) eq_refl).
    unfold create_next. rewrite tail_info_app. cbn [seal_info si_max].
    fold (seal_info t new_max (ws_index_start tw')).
    assert (Hnm : new_max + 1 < two64).
    { pose proof (lv_tok _ _ _ _ _ _ _ _ V) as (_ & Ht'). fold d in Ht'. rewrite (lv_file _ _ _ _ _ _ _ _ V) in Ht'.
      destruct Ht' as (_ & _ & _ & _ & _ & Hb). unfold cur_ents in Hb. rewrite (lv_pend _ _ _ _ _ _ _ _ V) in Hb. lia. }
    rewrite (N.mod_small (new_max + 1) two64) by exact Hnm.
    rewrite (N.mod_small (st_next_id w + 1) two64) by lia.
    rewrite (seg_set_snoc (new_segment c (st_next_id w) (new_max + 1)) (S ++ [seal_info t new_max (ws_index_start tw')])).
    2:{ apply Forall_app. split.
        - eapply Forall_impl; [|apply (lv_bases_lt V)]. intros z Hz. cbn beta in Hz. cbn. lia.
        - constructor; [cbn; lia|constructor]. }
    (* the reading did not change by the force-seal *)
    assert (Eles : lv_es (e_disk e1) S t f' = lv_es d S t f).
    { pose proof (lv_read _ _ _ _ _ _ _ _ V2) as R2. pose proof (lv_read _ _ _ _ _ _ _ _ V) as R1.
      fold (lv_es (e_disk e1) S t f') in R2. fold d in R1. fold (lv_es d S t f) in R1.
      assert (Hd : dread (e_disk e1) = dread d) by (unfold sp_of in Hs1; inversion Hs1 as [[Hx Hy]]; exact Hx).
      rewrite R2, R1 in Hd. symmetry. apply (slog_of_inj (hd_min S t)); [exact Hne|symmetry; exact Hd]. }
    assert (Hkv : dk_stable (e_disk e1) = dk_stable d) by (unfold sp_of in Hs1; inversion Hs1 as [[Hx Hy]]; exact Hy).
    cbn [rev map].
    match goal with |- context [mutate ?w0 _ (add_m e1 ?m)] =>
      destruct (trunc_tail_unsealed c nb A w0 w2 e (add_m e1 m) S t f' tw2 new_max (ws_index_start tw') Hc V2
                  (ext_add_m _ _ _ m He1) Hrot (lv_failed _ _ _ _ _ _ _ _ V) (lv_closed _ _ _ _ _ _ _ _ V) Hnid Hnb Hse2 Hfirst)
        as (w' & e' & Hmut & He' & HL' & Hs') end.
    + lia.
    + rewrite Hents'. unfold tl_of. destruct (llen (df_ents f) =? 0) eqn:Z; lia.
    + cbn [add_m with_m e_disk]. rewrite Eles, Hkv. exact HA.
    + cbn [app w2 st_next_id] in Hmut. rewrite Hmut. exists w', e'. split; [reflexivity|]. split; [exact He'|].
      split; [exact HL'|]. rewrite Hs'. cbn [add_m with_m e_disk]. rewrite Eles, Hkv. reflexivity.
Qed.
