(* CrashCalls2.v -- call_ok for GetLog. *)
From RW Require Import Base.Bytes Base.BytesFacts Fmt.Codec Fmt.CodecFacts Fmt.Frame Wal.Model Wal.Spec Wal.Hist
  Wal.CrashInv Wal.CrashFacts0 Wal.CrashFacts1 Wal.CrashFacts2 Wal.CrashFacts3 Wal.CrashFacts4 Wal.CrashFacts5
  Wal.CrashFacts6 Wal.CrashGlue Wal.CrashCalls1 Gen.Constants.
From Coq Require Import ZifyN ZifyNat ZifyBool.
Open Scope N_scope.

(* ---- seek_split / find_segment ---- *)
Lemma seek_split_spec idx P : forall acc s n R,
  Forall (fun x => si_base x < idx) P -> si_base s <= idx -> idx < si_base n ->
  seek_split idx acc (P ++ s :: n :: R) =
  if idx =? si_base s then (rev P ++ acc, s :: n :: R) else (s :: rev P ++ acc, n :: R).
Proof.
  induction P as [|x P IH]; intros acc s n R HP Hs Hn.
  - cbn [app seek_split rev]. destruct (idx <=? si_base s) eqn:E1.
    + destruct (idx =? si_base s) eqn:E2; [reflexivity|lia].
    + destruct (idx =? si_base s) eqn:E2; [lia|]. destruct (idx <=? si_base n) eqn:E3; [reflexivity|lia].
  - inversion HP as [|? ? Hx HP']; subst. cbn [app seek_split].
    destruct (idx <=? si_base x) eqn:E1; [lia|]. rewrite IH by assumption.
    cbn [rev]. rewrite <- !app_assoc. reflexivity.
Qed.

Lemma seek_split_in idx l : forall acc b r,
  seek_split idx acc l = (b, r) ->
  (forall x, In x b -> In x acc \/ In x l) /\ (forall x, In x r -> In x l).
Proof.
  induction l as [|y l IH]; intros acc b r H; cbn [seek_split] in H.
  - inversion H; subst. split; [auto|intros x []].
  - destruct (idx <=? si_base y).
    + inversion H; subst. split; [auto|auto].
    + destruct (IH _ _ _ H) as (H1 & H2). split.
      * intros x Hx. destruct (H1 x Hx) as [[<-|Ha]|Hl]; [right; left; reflexivity|left; exact Ha|right; right; exact Hl].
      * intros x Hx. right. apply H2. exact Hx.
Qed.

Lemma find_segment_sound segs idx s :
  find_segment segs idx = Some s ->
  In s segs /\ si_min s <= idx /\ (si_max s = 0 \/ idx <= si_max s).
Proof.
  unfold find_segment. destruct (seek_split idx [] segs) as [b r] eqn:E.
  destruct (seek_split_in _ _ _ _ _ E) as (H1 & H2).
  destruct r as [|x r']; [discriminate|].
  set (cand := if idx <? si_base x then match b with p :: _ => Some p | [] => None end else Some x).
  assert (Hc : forall y, cand = Some y -> In y segs).
  { unfold cand. intros y. destruct (idx <? si_base x).
    - destruct b as [|p b']; [discriminate|]. intros Hy; inversion Hy; subst.
      destruct (H1 y (or_introl eq_refl)) as [[]|Hl]; exact Hl.
    - intros Hy; inversion Hy; subst. apply H2. left; reflexivity. }
  destruct cand as [y|]; [|discriminate].
  destruct ((si_min y <=? idx) && ((si_max y =? 0) || (idx <=? si_max y))) eqn:Ec; [|discriminate].
  intros Hy; inversion Hy; subst. split; [apply Hc; reflexivity|]. lia.
Qed.

Lemma find_segment_sealed d S t s idx :
  Forall (sealed_ok d) S -> Forall swf S -> linked (S ++ [t]) -> In s S ->
  si_min s <= idx -> idx <= si_max s ->
  find_segment (S ++ [t]) idx = Some s.
Proof.
  intros Hso Hw Hl Hin H1 H2.
  destruct (in_split _ _ Hin) as (P & Q & ES).
  assert (Hnr : exists n R, Q ++ [t] = n :: R).
  { destruct Q as [|q Q']; [exists t, []; reflexivity|exists q, (Q' ++ [t]); reflexivity]. }
  destruct Hnr as (n & R & EQ).
  assert (Eseg : S ++ [t] = P ++ s :: n :: R).
  { rewrite ES, <- app_assoc. cbn [app]. rewrite EQ. reflexivity. }
  rewrite Eseg in Hl |- *.
  destruct (linked_mid P s n R Hl) as (Hbn & _).
  pose proof (sealed_swf_sst d S Hso Hw) as Hsst.
  rewrite ES in Hsst, Hw. apply Forall_app in Hsst. destruct Hsst as (HsP & HsS).
  inversion HsS as [|? ? Hss _]; subst. unfold sst in Hss.
  assert (HlP : linked (P ++ [s])).
  { replace (P ++ s :: n :: R) with ((P ++ [s]) ++ n :: R) in Hl by (rewrite <- app_assoc; reflexivity).
    eapply linked_app_l; eauto. }
  pose proof (linked_app_lt P s HlP HsP) as HltP.
  assert (HP : Forall (fun x => si_base x < idx) P).
  { rewrite Forall_forall in *. intros x Hx. specialize (HltP x Hx). specialize (HsP x Hx). unfold sst in HsP. lia. }
  unfold find_segment. rewrite (seek_split_spec idx P [] s n R HP) by lia.
  destruct (idx =? si_base s) eqn:E.
  - destruct (idx <? si_base s) eqn:E2; [lia|].
    destruct ((si_min s <=? idx) && ((si_max s =? 0) || (idx <=? si_max s))) eqn:E3; [reflexivity|lia].
  - destruct (idx <? si_base n) eqn:E2; [|lia].
    destruct ((si_min s <=? idx) && ((si_max s =? 0) || (idx <=? si_max s))) eqn:E3; [reflexivity|lia].
Qed.

Lemma sealed_cover d S t idx :
  Forall (sealed_ok d) S -> Forall swf S -> linked (S ++ [t]) -> S <> [] ->
  hd_min S t <= idx -> idx < si_base t ->
  exists s, In s S /\ si_min s <= idx /\ idx <= si_max s.
Proof.
  induction S as [|a S IH]; intros Hso Hw Hl Hne H1 H2; [congruence|].
  unfold hd_min in H1. cbn [hd] in H1.
  destruct (idx <=? si_max a) eqn:E.
  - exists a. split; [left; reflexivity|lia].
  - inversion Hso as [|? ? Ha Hso']; subst. inversion Hw as [|? ? Hwa Hw']; subst.
    destruct S as [|b S'].
    + cbn in Hl. lia.
    + change (linked (a :: b :: S' ++ [t])) in Hl. rewrite linked_cons2 in Hl. destruct Hl as (L1 & L2 & L3).
      destruct (IH Hso' Hw' L3 ltac:(discriminate)) as (s & Hin & Hs); [unfold hd_min; cbn [hd]; lia|exact H2|].
      exists s. split; [right; exact Hin|exact Hs].
Qed.

(* ---- positions in the reading ---- *)
Lemma lv_nth_tail {c nb w d S t f tw} (V : lview c nb w d S t f tw) idx :
  si_min t <= idx ->
  nth_error (lv_es d S t f) (N.to_nat (idx - hd_min S t)) = nth_error (df_ents f) (N.to_nat (idx - si_base t)).
Proof.
  intros H1. unfold lv_es. pose proof (lv_twf V) as (_ & _ & Hb1 & _ & Hbm & _).
  destruct (list_eq_dec_nil S) as [ES|Hne].
  - subst S. unfold sealed_es, hd_min. cbn [flat_map hd app]. rewrite nth_error_skipn'. f_equal. lia.
  - pose proof (sealed_es_len d S t (lv_sealed _ _ _ _ _ _ _ _ V) (lv_Swf V) (lv_linked _ _ _ _ _ _ _ _ V) Hne) as Hl.
    destruct (lv_hd_min_lt V Hne) as (Hlt & Hmt).
    rewrite nth_error_app2 by (unfold llen in Hl; lia).
    rewrite nth_error_skipn'. f_equal. unfold llen in Hl. lia.
Qed.

Lemma lv_nth_sealed {c nb w d S t f tw} (V : lview c nb w d S t f tw) s idx :
  In s S -> si_min s <= idx -> idx <= si_max s ->
  nth_error (lv_es d S t f) (N.to_nat (idx - hd_min S t)) =
  nth_error (file_ents (name_of s) d) (N.to_nat (idx - si_base s)).
Proof.
  intros Hin H1 H2. unfold lv_es.
  apply (sealed_es_nth d S t s idx _ (lv_sealed _ _ _ _ _ _ _ _ V) (lv_Swf V) (lv_linked _ _ _ _ _ _ _ _ V) Hin H1 H2).
Qed.

Lemma codec_view_wf l : wf_log l -> codec_view l = l.
Proof.
  intros H. destruct (decode_encode l H) as (bs & E1 & E2). unfold codec_view. rewrite E1, E2. reflexivity.
Qed.

Lemma spec_get_In s i l : spec_get s i = Some l -> In l (sl_ents s).
Proof.
  unfold spec_get. destruct (sl_is_empty s || (i <? sl_first s) || (spec_last s <? i)); [discriminate|].
  apply nth_error_In.
Qed.

Lemma spec_get_slog first es i :
  spec_get (slog_of first es) i =
  if (llen es =? 0) || (i <? first) || (first + llen es - 1 <? i) then None
  else nth_error es (N.to_nat (i - first)).
Proof.
  destruct es as [|x r]; [reflexivity|].
  unfold spec_get, spec_last. cbn [slog_of sl_is_empty sl_ents sl_first orb].
  destruct (llen (x :: r) =? 0) eqn:Z; [rewrite llen_cons in Z; lia|]. reflexivity.
Qed.

Lemma hd_min_le S t s : Forall sst S -> linked (S ++ [t]) -> In s S -> hd_min S t <= si_min s.
Proof.
  intros Hs Hl Hin. destruct S as [|a S']; [destruct Hin|]. unfold hd_min. cbn [hd].
  destruct Hin as [<-|Hin]; [lia|].
  inversion Hs as [|? ? Ha Hs']; subst. unfold sst in Ha.
  pose proof (chain_after S' a t s Hl Hs' Hin). lia.
Qed.

Lemma get_log_ok c nb w e S t f tw a i :
  lview c nb w (e_disk e) S t f tw -> sp_of (e_disk e) = a -> sp_good a ->
  exists r x y, get_log w i e = (r, inc_read e x y) /\
                result_eqb (res_class r) (fst (step_spec a (OGet i))) = true.
Proof.
  intros V Hsp Hg. set (d := e_disk e) in *.
  pose proof (lv_twf V) as (_ & _ & Hb1 & _ & Hbm & _).
  pose proof (lv_tw _ _ _ _ _ _ _ _ V) as (Tn & Tb & Tm & _ & _ & _ & _ & Tc).
  pose proof (lv_min_cond V) as Hmc. pose proof (lv_len V) as Hlen. pose proof (lv_es_nil V) as Hnil.
  pose proof (lv_sealed _ _ _ _ _ _ _ _ V) as Hso. pose proof (lv_Swf V) as Hw.
  pose proof (lv_linked _ _ _ _ _ _ _ _ V) as Hl.
  pose proof (sealed_swf_sst d S Hso Hw) as Hsst.
  set (n := llen (df_ents f)) in *. set (es := lv_es d S t f) in *. set (first := hd_min S t) in *.
  assert (Hspec : spec_get (sp_log a) i =
                  if (llen es =? 0) || (i <? first) || (first + llen es - 1 <? i) then None
                  else nth_error es (N.to_nat (i - first))).
  { rewrite <- Hsp. cbn [sp_of sp_log]. rewrite (lv_read _ _ _ _ _ _ _ _ V). apply spec_get_slog. }
  assert (Hfm : first <= si_min t).
  { destruct (list_eq_dec_nil S) as [->|Hne]; [unfold first, hd_min; cbn; lia|]. destruct (lv_hd_min_lt V Hne). lia. }
  (* how the result is judged *)
  assert (Hhit : forall l, spec_get (sp_log a) i = Some l ->
            result_eqb (res_class (RLog (codec_view l))) (fst (step_spec a (OGet i))) = true).
  { intros l Hs. cbn [step_spec]. rewrite Hs. cbn [fst res_class result_eqb].
    rewrite codec_view_wf; [apply log_eqb_refl|].
    apply spec_get_In in Hs. unfold sp_good in Hg. rewrite Forall_forall in Hg. apply (Hg l Hs). }
  assert (Hmiss : spec_get (sp_log a) i = None ->
            result_eqb (res_class RErrNotFound) (fst (step_spec a (OGet i))) = true).
  { intros Hs. cbn [step_spec]. rewrite Hs. reflexivity. }
  (* the tail lookup *)
  assert (HTL : tail_lookup tw i d =
                if (i <? si_base t) || (i <? ws_min tw) || (tl_of (si_base t) (df_ents f) <? i) then None
                else nth_error (df_ents f) (N.to_nat (i - si_base t))).
  { unfold tail_lookup, seg_read. rewrite Tn, Tb, Tc. fold d. rewrite (lv_file _ _ _ _ _ _ _ _ V).
    unfold cur_ents. rewrite (lv_pend _ _ _ _ _ _ _ _ V). reflexivity. }
  unfold get_log. rewrite (lv_closed _ _ _ _ _ _ _ _ V), (lv_tail _ _ _ _ _ _ _ _ V), (lv_segs _ _ _ _ _ _ _ _ V), tail_info_app.
  fold d.
  destruct (si_min t <=? i) eqn:Emin.
  - (* at or above the tail's first index *)
    destruct ((n =? 0) || (tl_of (si_base t) (df_ents f) <? i)) eqn:Eout.
    + (* beyond the last index *)
      assert (HTN : tail_lookup tw i d = None).
      { rewrite HTL. unfold tl_of in *. fold n in Eout |- *. destruct (n =? 0) eqn:Z.
        - replace (0 <? i) with true by lia. rewrite orb_true_r. reflexivity.
        - cbn [orb] in Eout. rewrite Eout, orb_true_r. reflexivity. }
      assert (Hnone : spec_get (sp_log a) i = None).
      { rewrite Hspec. unfold tl_of in Eout. fold n in Eout.
        destruct ((llen es =? 0) || (i <? first) || (first + llen es - 1 <? i)) eqn:E; [reflexivity|].
        exfalso. destruct (n =? 0) eqn:Z; lia. }
      rewrite HTN.
      destruct (find_segment (S ++ [t]) i) as [s0|] eqn:Efs.
      * destruct (find_segment_sound _ _ _ Efs) as (Hin & Hm0 & Hx0).
        apply in_app_or in Hin. destruct Hin as [Hin|[<-|[]]].
        -- exfalso. rewrite Forall_forall in Hsst. pose proof (Hsst _ Hin) as Hs0. unfold sst in Hs0.
           pose proof (linked_app_lt S t Hl (sealed_swf_sst d S Hso Hw)) as Hlt. rewrite Forall_forall in Hlt.
           specialize (Hlt _ Hin). rewrite Forall_forall in Hw. destruct (Hw _ Hin). lia.
        -- rewrite Tn, fname_eqb_refl. eexists _, _, _. split; [reflexivity|apply Hmiss; exact Hnone].
      * eexists _, _, _. split; [reflexivity|apply Hmiss; exact Hnone].
    + (* inside the tail *)
      assert (Hn0 : n <> 0 /\ i <= si_base t + n - 1).
      { unfold tl_of in Eout. fold n in Eout. destruct (n =? 0) eqn:Z; [discriminate|]. cbn [orb] in Eout. lia. }
      destruct Hn0 as (Hn0 & Hile).
      assert (Hex : exists l, nth_error (df_ents f) (N.to_nat (i - si_base t)) = Some l).
      { destruct (nth_error (df_ents f) (N.to_nat (i - si_base t))) eqn:En; [eauto|].
        apply nth_error_None in En. unfold n, llen in *. lia. }
      destruct Hex as (l & Hl').
      assert (HTS : tail_lookup tw i d = Some l).
      { rewrite HTL. unfold tl_of. fold n. destruct (n =? 0) eqn:Z; [lia|].
        destruct ((i <? si_base t) || (i <? ws_min tw) || (si_base t + n - 1 <? i)) eqn:E; [lia|exact Hl']. }
      rewrite HTS.
      assert (Hsome : spec_get (sp_log a) i = Some l).
      { rewrite Hspec. destruct ((llen es =? 0) || (i <? first) || (first + llen es - 1 <? i)) eqn:E; [exfalso; lia|].
        unfold es, first. rewrite (lv_nth_tail V i) by lia. exact Hl'. }
      eexists _, _, _. split; [reflexivity|]. apply (Hhit l Hsome).
  - (* below the tail's first index *)
    destruct (find_segment (S ++ [t]) i) as [s0|] eqn:Efs.
    + destruct (find_segment_sound _ _ _ Efs) as (Hin & Hm0 & Hx0).
      apply in_app_or in Hin. destruct Hin as [Hin|[<-|[]]]; [|lia].
      rewrite Forall_forall in Hsst. pose proof (Hsst _ Hin) as Hs0. unfold sst in Hs0.
      pose proof (linked_app_lt S t Hl (sealed_swf_sst d S Hso Hw)) as Hlt. rewrite Forall_forall in Hlt.
      specialize (Hlt _ Hin).
      assert (Hb0 : 1 <= si_base s0) by (rewrite Forall_forall in Hw; destruct (Hw _ Hin); assumption).
      assert (Him : i <= si_max s0) by lia.
      assert (Hnt : fname_eqb (ws_name tw) (name_of s0) = false).
      { rewrite Tn. apply fname_eqb_neq. unfold name_of. intros E; inversion E. lia. }
      rewrite Hnt.
      assert (Hfirst : first <= si_min s0).
      { apply hd_min_le; auto. rewrite Forall_forall. exact Hsst. }
      pose proof (lv_nth_sealed V s0 i Hin Hm0 Him) as Hnth. fold es first in Hnth.
      assert (Hsp2 : spec_get (sp_log a) i = nth_error es (N.to_nat (i - first))).
      { rewrite Hspec. destruct ((llen es =? 0) || (i <? first) || (first + llen es - 1 <? i)) eqn:E; [exfalso; lia|reflexivity]. }
      unfold seg_read. fold d. change (match lookup (name_of s0) (dk_files d) with
                                       | Some f0 => nth_error (cur_ents f0) (N.to_nat (i - si_base s0))
                                       | None => None end)
        with (match lookup (name_of s0) (dk_files d) with
              | Some f0 => nth_error (cur_ents f0) (N.to_nat (i - si_base s0))
              | None => None end).
      assert (Hrd : match lookup (name_of s0) (dk_files d) with
                    | Some f0 => nth_error (cur_ents f0) (N.to_nat (i - si_base s0))
                    | None => None end = nth_error (file_ents (name_of s0) d) (N.to_nat (i - si_base s0))).
      { unfold file_ents. destruct (lookup (name_of s0) (dk_files d)); [reflexivity|].
        destruct (N.to_nat (i - si_base s0)); reflexivity. }
      rewrite Hrd, <- Hnth.
      destruct (nth_error es (N.to_nat (i - first))) as [l|] eqn:En.
      * eexists _, _, _. split; [reflexivity|]. apply (Hhit l). exact Hsp2.
      * exfalso. apply nth_error_None in En. unfold llen in *. lia.
    + assert (Hnone : spec_get (sp_log a) i = None).
      { rewrite Hspec. destruct ((llen es =? 0) || (i <? first) || (first + llen es - 1 <? i)) eqn:E; [reflexivity|].
        exfalso. destruct (list_eq_dec_nil S) as [ES|Hne].
        - subst S. unfold first, hd_min in E. cbn [hd] in E. lia.
        - destruct (lv_hd_min_lt V Hne) as (Hlt & Hmt).
          destruct (sealed_cover d S t i Hso Hw Hl Hne) as (s1 & Hin1 & Hs1a & Hs1b); [fold first; lia|lia|].
          rewrite (find_segment_sealed d S t s1 i Hso Hw Hl Hin1 Hs1a Hs1b) in Efs. discriminate. }
      eexists _, _, _. split; [reflexivity|apply Hmiss; exact Hnone].
Qed.

Lemma call_get c i : call_ok c (OGet i).
Proof.
  intros nb s a Hc _ Hnb HL Hf Hsp Hg. cbn [step_model].
  destruct (LInv_view _ _ _ _ HL) as (S & t & f & tw & V).
  destruct (get_log_ok c nb (ss_wal s) (ss_env s) S t f tw a i V Hsp Hg) as (r & x & y & Hgl & Hres).
  rewrite Hgl. eexists _, _. split; [reflexivity|]. cbn [ss_wal ss_env].
  split; [exact Hres|].
  assert (Ea : snd (step_spec a (OGet i)) = a) by (cbn [step_spec]; destruct (spec_get (sp_log a) i); reflexivity).
  rewrite Ea.
  split; [eapply LInv_mono; [|exact HL]; lia|]. split; [exact Hsp|].
  apply ext_add_m. eapply ext_refl_LInv; eauto.
Qed.
