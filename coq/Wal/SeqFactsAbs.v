(* SeqFactsAbs.v -- structure of the listed segments under the invariant and
   what the abstraction function [abs] computes from them. *)
From RW Require Import Base.Bytes Base.BytesFacts Fmt.Codec Fmt.CodecFacts Fmt.Frame
  Wal.Model Wal.Spec Wal.SeqInv Wal.SeqFactsBase Gen.Constants.
From Coq Require Import ZifyN ZifyNat ZifyBool.
Open Scope N_scope.

Lemma WInvS_intro c w d ss t tw :
  st_closed w = false -> st_failed w = false ->
  dk_meta d = Some (persistent w) -> dk_inited d = true -> fresh w d ->
  st_segs w = ss ++ [t] -> st_tail w = Some tw ->
  Forall (sealed_ok c d) ss -> tail_ok c d t tw -> linked (ss ++ [t]) ->
  st_rotate w = (if 0 <? ws_index_start tw then Some (ws_index_start tw) else None) ->
  WInvS c w d ss t tw.
Proof. intros. unfold WInvS. tauto. Qed.

(* ------------------------------------------------------------------ *)
(* linked lists of segments                                             *)
Lemma linked_tail s r : linked (s :: r) -> linked r.
Proof. destruct r as [|s' r]; [intros _; exact I|]. cbn [linked]. tauto. Qed.
Lemma linked_app_inv a s b : linked (a ++ s :: b) -> linked (a ++ [s]) /\ linked (s :: b).
Proof.
  induction a as [|x a IH]; cbn [app].
  - intros H. split; [exact I|exact H].
  - destruct a as [|y a]; cbn [app] in *.
    + cbn [linked]. intros (H1 & H2 & H3). repeat split; auto.
    + intros (H1 & H2 & H3). destruct (IH H3) as [H4 H5]. split; [|exact H5].
      repeat split; auto.
Qed.
Lemma linked_app_intro a s b : linked (a ++ [s]) -> linked (s :: b) -> linked (a ++ s :: b).
Proof.
  induction a as [|x a IH]; cbn [app]; intros H1 H2; [exact H2|].
  destruct a as [|y a]; cbn [app] in *.
  - destruct H1 as (H3 & H4 & _). repeat split; auto.
  - destruct H1 as (H3 & H4 & H5). repeat split; auto.
Qed.
Lemma linked_app_l a b : linked (a ++ b) -> linked a.
Proof.
  destruct b as [|s b]; [rewrite app_nil_r; auto|].
  intros H. apply linked_app_inv in H. destruct H as [H _].
  clear -H. induction a as [|x a IH]; [exact I|].
  destruct a as [|y a]; [exact I|]. cbn [app] in *. destruct H as (H1 & H2 & H3). repeat split; auto.
Qed.
Lemma linked_app_r a b : linked (a ++ b) -> linked b.
Proof. induction a as [|x a IH]; cbn [app]; [auto|]. intros H. apply IH. eapply linked_tail; eauto. Qed.
Lemma linked_cons_min s s' r : linked (s :: s' :: r) -> si_base s' = si_max s + 1 /\ si_min s' = si_base s'.
Proof. cbn [linked]. tauto. Qed.
(* replacing a segment by one with the same BaseIndex and MaxIndex keeps the links to the right;
   the same BaseIndex and MinIndex keeps those to the left *)
Lemma linked_head_replace h h' r :
  si_max h' = si_max h -> linked (h :: r) -> linked (h' :: r).
Proof. destruct r as [|s r]; [intros; exact I|]. cbn [linked]. intros ->. tauto. Qed.
Lemma linked_last_replace a s s' :
  si_base s' = si_base s -> si_min s' = si_min s -> linked (a ++ [s]) -> linked (a ++ [s']).
Proof.
  intros Hb Hm. induction a as [|x a IH]; [intros; exact I|].
  destruct a as [|y a]; cbn [app] in *.
  - cbn [linked]. rewrite Hb, Hm. tauto.
  - intros (H1 & H2 & H3). repeat split; auto.
Qed.

Definition srange (s : seginfo) : Prop := si_base s <= si_min s /\ si_min s <= si_max s.
Lemma sealed_srange c d s : sealed_ok c d s -> srange s.
Proof. intros (_ & _ & _ & H1 & H2 & _). split; assumption. Qed.
Lemma linked_lt ss t :
  Forall srange ss -> linked (ss ++ [t]) -> Forall (fun s => si_max s < si_base t) ss.
Proof.
  induction ss as [|s r IH]; intros HF HL; [constructor|].
  inversion HF as [|? ? Hs HF']; subst. destruct r as [|s' r'].
  - cbn [app linked] in HL. constructor; [lia|constructor].
  - cbn [app] in HL. destruct HL as (H1 & H2 & H3).
    specialize (IH HF' H3). constructor; [|exact IH].
    inversion IH as [|? ? Hs' _]; subst. inversion HF' as [|? ? [Hr1 Hr2] _]; subst. lia.
Qed.
Lemma linked_base_lt ss t :
  Forall srange ss -> linked (ss ++ [t]) -> Forall (fun s => si_base s < si_base t) ss.
Proof.
  intros HF HL. assert (H := linked_lt _ _ HF HL).
  rewrite Forall_forall in *. intros s Hs. specialize (H s Hs). destruct (HF s Hs). lia.
Qed.

(* ------------------------------------------------------------------ *)
(* the sorted segment map                                               *)
Lemma tail_info_snoc l t : tail_info (l ++ [t]) = Some t.
Proof. unfold tail_info. rewrite map_app. cbn [map]. apply last_last. Qed.
Lemma seg_set_add x l :
  Forall (fun s => si_base s < si_base x) l -> seg_set x l = l ++ [x].
Proof.
  induction l as [|y l IH]; intros H; [reflexivity|].
  inversion H as [|? ? Hy Hl]; subst. cbn [seg_set app].
  destruct (N.ltb_spec (si_base x) (si_base y)); [lia|].
  destruct (N.eqb_spec (si_base x) (si_base y)); [lia|]. rewrite IH by exact Hl. reflexivity.
Qed.
Lemma seg_set_replace_last x l t :
  Forall (fun s => si_base s < si_base t) l -> si_base x = si_base t -> seg_set x (l ++ [t]) = l ++ [x].
Proof.
  intros H E. induction l as [|y l IH].
  - cbn [app seg_set]. rewrite E, N.ltb_irrefl, N.eqb_refl. reflexivity.
  - inversion H as [|? ? Hy Hl]; subst. cbn [seg_set app].
    destruct (N.ltb_spec (si_base x) (si_base y)); [lia|].
    destruct (N.eqb_spec (si_base x) (si_base y)); [lia|]. rewrite IH by exact Hl. reflexivity.
Qed.
Lemma seg_set_head x h r : si_base x = si_base h -> seg_set x (h :: r) = x :: r.
Proof. intros E. cbn [seg_set]. rewrite E, N.ltb_irrefl, N.eqb_refl. reflexivity. Qed.

(* ------------------------------------------------------------------ *)
(* files of listed segments                                             *)
Lemma file_ents_ok d s f : file_ok d s f -> file_ents (name_of s) d = df_ents f.
Proof. intros (Hl & Hp & _). unfold file_ents, cur_ents. rewrite Hl, Hp. reflexivity. Qed.
Lemma file_ok_frame d d' s f :
  lookup (name_of s) (dk_files d') = lookup (name_of s) (dk_files d) -> file_ok d s f -> file_ok d' s f.
Proof. intros E (Hl & H). split; [congruence|exact H]. Qed.
Lemma sealed_ok_frame c d d' s :
  lookup (name_of s) (dk_files d') = lookup (name_of s) (dk_files d) -> sealed_ok c d s -> sealed_ok c d' s.
Proof.
  intros E (H1 & H2 & H3 & H4 & H5 & H6 & f & Hf & H7). repeat split; auto.
  exists f. split; [eapply file_ok_frame; eauto|exact H7].
Qed.
Lemma sealed_ok_frame_all c d d' ss :
  (forall s, In s ss -> lookup (name_of s) (dk_files d') = lookup (name_of s) (dk_files d)) ->
  Forall (sealed_ok c d) ss -> Forall (sealed_ok c d') ss.
Proof.
  intros E H. rewrite Forall_forall in *. intros s Hs. eapply sealed_ok_frame; [apply E; exact Hs|auto].
Qed.
Lemma seg_visible_frame tl d d' s :
  lookup (name_of s) (dk_files d') = lookup (name_of s) (dk_files d) ->
  seg_visible tl d' s = seg_visible tl d s.
Proof. intros E. unfold seg_visible, file_ents. rewrite E. reflexivity. Qed.
Lemma flat_map_visible_frame tl d d' ss :
  (forall s, In s ss -> lookup (name_of s) (dk_files d') = lookup (name_of s) (dk_files d)) ->
  flat_map (seg_visible tl d') ss = flat_map (seg_visible tl d) ss.
Proof.
  induction ss as [|s r IH]; intros E; [reflexivity|]. cbn [flat_map].
  rewrite (seg_visible_frame tl d d' s) by (apply E; left; reflexivity).
  rewrite IH by (intros x Hx; apply E; right; exact Hx). reflexivity.
Qed.

(* ------------------------------------------------------------------ *)
(* visible part of a segment                                            *)
Lemma seg_visible_eq tl d s : 1 <= si_min s ->
  seg_visible tl d s =
  firstn (N.to_nat (emax tl s + 1 - si_min s))
         (skipn (N.to_nat (si_min s - si_base s)) (file_ents (name_of s) d)).
Proof.
  intros Hm. unfold seg_visible. fold (emax tl s).
  destruct (N.eqb_spec (emax tl s) 0) as [E|E]; cbn [orb].
  - rewrite E. replace (N.to_nat (0 + 1 - si_min s)) with 0%nat by lia. reflexivity.
  - destruct (N.ltb_spec (emax tl s) (si_min s)) as [L|L].
    + replace (N.to_nat (emax tl s + 1 - si_min s)) with 0%nat by lia. reflexivity.
    + replace (emax tl s - si_min s + 1) with (emax tl s + 1 - si_min s) by lia. reflexivity.
Qed.

Lemma emax_sealed tl s : si_sealed s = true -> emax tl s = si_max s.
Proof. unfold emax. intros ->. reflexivity. Qed.
Lemma emax_unsealed tl s : si_sealed s = false -> emax tl s = tl.
Proof. unfold emax. intros ->. reflexivity. Qed.

Lemma vis_sealed c d tl s : sealed_ok c d s ->
  exists f, file_ok d s f /\ si_max s + 1 - si_base s <= llen (df_ents f) /\
  seg_visible tl d s = firstn (N.to_nat (si_max s + 1 - si_min s))
                              (skipn (N.to_nat (si_min s - si_base s)) (df_ents f)) /\
  llen (seg_visible tl d s) = si_max s + 1 - si_min s /\
  consecutive (si_min s) (seg_visible tl d s) = true /\
  Forall log_ok (seg_visible tl d s).
Proof.
  intros (H1 & H2 & H3 & H4 & H5 & H6 & f & Hf & H7 & H8).
  exists f. split; [exact Hf|]. split; [exact H8|].
  rewrite seg_visible_eq by lia. rewrite (emax_sealed _ _ H1), (file_ents_ok _ _ _ Hf).
  destruct Hf as (_ & _ & Hc & Hok).
  split; [reflexivity|]. split; [|split].
  - unfold llen in *. rewrite firstn_length, skipn_length. lia.
  - apply consecutive_firstn.
    replace (si_min s) with (si_base s + N.of_nat (N.to_nat (si_min s - si_base s))) at 1 by lia.
    apply consecutive_skipn. exact Hc.
  - rewrite Forall_forall in *. intros x Hx. apply Hok.
    apply (In_skipn_sub _ _ _ (In_firstn_sub _ _ _ Hx)).
Qed.

Lemma vis_tail c d t tw : tail_ok c d t tw ->
  exists f, file_ok d t f /\ llen (df_ents f) = ws_n tw /\ df_end f = ws_off tw /\
  df_seal f = ws_index_start tw /\
  seg_visible (ws_commit_idx tw) d t = skipn (N.to_nat (si_min t - si_base t)) (df_ents f) /\
  llen (seg_visible (ws_commit_idx tw) d t) = si_base t + ws_n tw - si_min t /\
  consecutive (si_min t) (seg_visible (ws_commit_idx tw) d t) = true /\
  Forall log_ok (seg_visible (ws_commit_idx tw) d t).
Proof.
  intros (H1 & H2 & H3 & H4 & H5 & H6 & H7 & H8 & H9 & H10 & H11 & H12 & H13 & H14 & H15 & H16 & H17
          & f & Hf & Hn & He & Hs).
  exists f. split; [exact Hf|]. split; [exact Hn|]. split; [exact He|]. split; [exact Hs|].
  rewrite seg_visible_eq by lia. rewrite (emax_unsealed _ _ H1), (file_ents_ok _ _ _ Hf).
  destruct Hf as (_ & _ & Hc & Hok).
  assert (E : firstn (N.to_nat (ws_commit_idx tw + 1 - si_min t))
                (skipn (N.to_nat (si_min t - si_base t)) (df_ents f))
              = skipn (N.to_nat (si_min t - si_base t)) (df_ents f)).
  { rewrite H12. destruct (N.eqb_spec (ws_n tw) 0) as [E0|E0].
    - rewrite E0 in Hn. apply llen_0 in Hn. rewrite Hn, skipn_nil, firstn_nil. reflexivity.
    - apply firstn_all2. rewrite skipn_length. unfold llen in Hn. lia. }
  rewrite E. split; [reflexivity|]. split; [|split].
  - unfold llen in *. rewrite skipn_length. lia.
  - replace (si_min t) with (si_base t + N.of_nat (N.to_nat (si_min t - si_base t))) at 1 by lia.
    apply consecutive_skipn. exact Hc.
  - rewrite Forall_forall in *. intros x Hx. apply Hok. apply (In_skipn_sub _ _ _ Hx).
Qed.

(* ------------------------------------------------------------------ *)
(* FirstIndex / LastIndex                                               *)
Lemma tail_commit c d t tw : tail_ok c d t tw ->
  ws_commit_idx tw = (if ws_n tw =? 0 then 0 else si_base t + ws_n tw - 1) /\ 1 <= si_base t.
Proof. intros H. split; apply H. Qed.

Lemma last_index_inv c d ss t tw :
  tail_ok c d t tw ->
  last_index (ss ++ [t]) (Some tw) =
  if ws_n tw =? 0 then (match ss with [] => 0 | _ => si_base t - 1 end) else si_base t + ws_n tw - 1.
Proof.
  intros HT. destruct (tail_commit _ _ _ _ HT) as [Hc Hb].
  unfold last_index. cbn [tail_last]. rewrite Hc. destruct (N.eqb_spec (ws_n tw) 0) as [E|E].
  - rewrite N.ltb_irrefl. rewrite rev_unit. destruct ss as [|s r]; [reflexivity|].
    destruct (rev (s :: r)) as [|x xs] eqn:Er.
    + apply (f_equal (@length _)) in Er. rewrite rev_length in Er. discriminate.
    + destruct (N.eqb_spec (si_base t) 0); [lia|reflexivity].
  - destruct (N.ltb_spec 0 (si_base t + ws_n tw - 1)); [reflexivity|lia].
Qed.

Lemma first_index_inv c d ss t tw :
  Forall (sealed_ok c d) ss -> tail_ok c d t tw ->
  first_index (ss ++ [t]) (Some tw) =
  match ss with [] => if ws_n tw =? 0 then 0 else si_min t | s :: _ => si_min s end.
Proof.
  intros HS HT. destruct (tail_commit _ _ _ _ HT) as [Hc Hb]. unfold first_index. cbn [tail_last].
  destruct ss as [|s r]; cbn [app].
  - destruct HT as (H1 & _). rewrite H1. cbn [negb andb]. rewrite Hc.
    destruct (N.eqb_spec (ws_n tw) 0) as [E|E]; [reflexivity|].
    destruct (N.eqb_spec (si_base t + ws_n tw - 1) 0); [lia|reflexivity].
  - inversion HS as [|? ? (H1 & _) _]; subst. rewrite H1. reflexivity.
Qed.

(* ------------------------------------------------------------------ *)
(* the concatenation of the visible parts is one contiguous run          *)
Lemma content_chain c d t tw : tail_ok c d t tw -> forall ss,
  Forall (sealed_ok c d) ss -> linked (ss ++ [t]) ->
  let es := flat_map (seg_visible (ws_commit_idx tw) d) (ss ++ [t]) in
  consecutive (si_min (hd t ss)) es = true /\ si_min (hd t ss) + llen es = si_base t + ws_n tw /\
  Forall log_ok es.
Proof.
  intros HT. induction ss as [|s r IH]; intros HS HL; cbn zeta.
  - cbn [app flat_map hd]. rewrite app_nil_r.
    destruct (vis_tail _ _ _ _ HT) as (f & _ & _ & _ & _ & _ & Hlen & Hc & Hok).
    assert (Hr : si_base t <= si_min t /\ si_min t <= si_base t + (ws_n tw - 1)) by (split; apply HT).
    repeat split; auto. lia.
  - inversion HS as [|? ? Hs HS']; subst. cbn [app flat_map hd].
    assert (HL' : linked (r ++ [t])) by (eapply linked_tail; exact HL).
    destruct (IH HS' HL') as (IH1 & IH2 & IH3).
    destruct (vis_sealed _ _ (ws_commit_idx tw) _ Hs) as (f & _ & _ & _ & Hlen & Hc & Hok).
    assert (Hr := sealed_srange _ _ _ Hs). destruct Hr as [Hr1 Hr2].
    assert (Hnext : si_min (hd t r) = si_max s + 1).
    { destruct r as [|s' r']; cbn [app hd] in *; destruct HL as (E1 & E2 & _); lia. }
    rewrite consecutive_app, llen_app, Hc, Hlen. cbn [andb].
    replace (si_min s + (si_max s + 1 - si_min s)) with (si_max s + 1) by lia.
    rewrite <- Hnext. repeat split; [exact IH1|lia|]. apply Forall_app. split; assumption.
Qed.

Lemma content_nonempty c d t tw ss :
  tail_ok c d t tw -> Forall (sealed_ok c d) ss -> linked (ss ++ [t]) ->
  (flat_map (seg_visible (ws_commit_idx tw) d) (ss ++ [t]) = [] <-> last_index (ss ++ [t]) (Some tw) = 0).
Proof.
  intros HT HS HL. destruct (content_chain _ _ _ _ HT ss HS HL) as (_ & Hlen & _).
  rewrite (last_index_inv _ _ _ _ _ HT).
  assert (Hr : 1 <= si_base t /\ si_base t <= si_min t /\ si_min t <= si_base t + (ws_n tw - 1))
    by (repeat split; apply HT).
  assert (Hlt := linked_lt ss t (Forall_impl _ (sealed_srange c d) HS) HL).
  split.
  - intros E. rewrite E in Hlen. rewrite llen_nil in Hlen.
    destruct ss as [|s r]; cbn [hd] in Hlen.
    + destruct (N.eqb_spec (ws_n tw) 0); lia.
    + inversion Hlt as [|? ? Hs _]; subst. inversion HS as [|? ? Hs' _]; subst.
      destruct (sealed_srange _ _ _ Hs'). lia.
  - intros E. apply llen_0. destruct (N.eqb_spec (ws_n tw) 0) as [E0|E0]; [|lia].
    destruct ss as [|s r]; cbn [hd] in Hlen; [lia|].
    inversion Hlt as [|? ? Hs _]; subst. inversion HS as [|? ? Hs' _]; subst.
    destruct Hs' as (_ & _ & ? & ? & ? & _). lia.
Qed.

(* what abs is, in terms of FirstIndex/LastIndex and the visible entries *)
Lemma abs_eq c w d ss t tw : WInvS c w d ss t tw ->
  abs w d = if last_index (st_segs w) (st_tail w) =? 0 then sl_empty
            else {| sl_first := first_index (st_segs w) (st_tail w);
                    sl_ents := flat_map (seg_visible (ws_commit_idx tw) d) (ss ++ [t]) |}.
Proof.
  intros (_ & _ & _ & _ & _ & Hsegs & Htail & HS & HT & HL & _).
  unfold abs. rewrite Hsegs, Htail. cbn [tail_last].
  assert (H := content_nonempty _ _ _ _ _ HT HS HL).
  destruct (flat_map (seg_visible (ws_commit_idx tw) d) (ss ++ [t])) as [|x xs] eqn:E.
  - rewrite (proj1 H eq_refl). reflexivity.
  - destruct (N.eqb_spec (last_index (ss ++ [t]) (Some tw)) 0) as [E0|E0]; [|reflexivity].
    apply H in E0. discriminate.
Qed.

Lemma abs_props c w d ss t tw : WInvS c w d ss t tw ->
  let a := abs w d in
  let F := first_index (st_segs w) (st_tail w) in
  let L := last_index (st_segs w) (st_tail w) in
  spec_first a = F /\ spec_last a = L /\ (sl_is_empty a = true <-> L = 0) /\
  Forall log_ok (sl_ents a) /\
  (L <> 0 -> a = {| sl_first := F; sl_ents := flat_map (seg_visible (ws_commit_idx tw) d) (ss ++ [t]) |} /\
             F = si_min (hd t ss) /\ 1 <= F /\ F <= L /\ L + 1 = F + llen (sl_ents a) /\ L + 1 < two64 /\
             consecutive F (sl_ents a) = true).
Proof.
  intros HI. cbn zeta. rewrite (abs_eq _ _ _ _ _ _ HI).
  destruct HI as (_ & _ & _ & _ & _ & Hsegs & Htail & HS & HT & HL & _).
  rewrite Hsegs, Htail.
  destruct (content_chain _ _ _ _ HT ss HS HL) as (Hc & Hlen & Hok).
  assert (HF := first_index_inv _ _ _ _ _ HS HT). assert (HLi := last_index_inv c d ss _ _ HT).
  assert (Hr : 1 <= si_base t /\ si_base t <= si_min t /\ si_min t <= si_base t + (ws_n tw - 1)
               /\ si_base t + ws_n tw < two64) by (repeat split; apply HT).
  assert (Hlt := linked_lt ss t (Forall_impl _ (sealed_srange c d) HS) HL).
  destruct (N.eqb_spec (last_index (ss ++ [t]) (Some tw)) 0) as [E0|E0].
  - unfold spec_first, spec_last. cbn [sl_empty sl_is_empty sl_ents].
    assert (HF0 : first_index (ss ++ [t]) (Some tw) = 0).
    { rewrite HF. rewrite HLi in E0. destruct (ws_n tw =? 0) eqn:En; [|lia].
      destruct ss as [|s r]; [reflexivity|]. exfalso.
      inversion HS as [|? ? Hs' _]; subst. inversion Hlt as [|? ? Hs _]; subst.
      destruct Hs' as (_ & _ & ? & ? & ? & _). lia. }
    rewrite E0, HF0. repeat split; auto; try (intros; contradiction).
  - assert (Hne : flat_map (seg_visible (ws_commit_idx tw) d) (ss ++ [t]) <> []).
    { intros E. apply (content_nonempty _ _ _ _ _ HT HS HL) in E. contradiction. }
    assert (HFm : first_index (ss ++ [t]) (Some tw) = si_min (hd t ss)).
    { rewrite HF. destruct ss as [|s r]; [|reflexivity]. cbn [hd].
      destruct (ws_n tw =? 0) eqn:En; [|reflexivity]. rewrite HLi in E0. congruence. }
    assert (Hfl : 1 <= si_min (hd t ss) /\ si_min (hd t ss) <= si_base t + ws_n tw - 1).
    { destruct ss as [|s r]; cbn [hd].
      - rewrite HLi in E0. destruct (N.eqb_spec (ws_n tw) 0); [congruence|lia].
      - inversion HS as [|? ? Hs' _]; subst. inversion Hlt as [|? ? Hs _]; subst.
        destruct Hs' as (_ & _ & ? & ? & ? & _). lia. }
    assert (HLe : last_index (ss ++ [t]) (Some tw) = si_base t + ws_n tw - 1).
    { rewrite HLi. destruct (ws_n tw =? 0) eqn:En; [|reflexivity].
      destruct ss as [|s r]; [rewrite HLi in E0; congruence|lia]. }
    unfold spec_first, spec_last, sl_is_empty. cbn [sl_ents sl_first].
    destruct (flat_map (seg_visible (ws_commit_idx tw) d) (ss ++ [t])) as [|x xs] eqn:Ees; [congruence|].
    rewrite <- Ees in *. rewrite HFm, HLe.
    repeat split; auto; try lia; try discriminate.
Qed.
