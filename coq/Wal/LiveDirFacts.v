(* LiveDirFacts.v -- the directory of a running WAL is exact after every call
   (Wal/LiveDir.v).  The crash proof (CrashCalls*.v) already keeps LInv, which says
   that every listed segment has its file; what is added here is the converse:
   every file is the file of a listed segment ([cov]).  It is an invariant of the
   name sets only: names of files before a call + created - deleted, against the
   segment list before the call with the transaction's changes. *)
From RW Require Import Base.Bytes Base.BytesFacts Fmt.Codec Fmt.CodecFacts Fmt.Frame Wal.Model Wal.Spec Wal.Hist
  Wal.CrashInv Wal.CrashFacts0 Wal.CrashFacts1 Wal.CrashFacts2 Wal.CrashFacts3 Wal.CrashFacts4 Wal.CrashFacts5
  Wal.CrashFacts6 Wal.CrashGlue Wal.CrashCalls1 Wal.CrashCalls2 Wal.CrashCalls3 Wal.CrashCalls4 Wal.CrashCalls5
  Wal.CrashCalls6 Wal.CrashCalls7 Wal.CrashCalls8 Wal.CrashCalls9 Wal.CrashCalls10 Wal.CrashThm Wal.LiveDir
  Wal.CrashExamples Wal.CrashExamplesFacts Gen.Constants.
From Coq Require Import ZifyN ZifyNat ZifyBool Sorted.
Open Scope N_scope.

(* ---- names of files under the I/O actions ---- *)
Lemma in_names_lookup n d : In n (names d) <-> lookup n (dk_files d) <> None.
Proof.
  unfold names. split.
  - intros Hin E. apply lookup_None in E. contradiction.
  - intros H. destruct (lookup n (dk_files d)) as [f|] eqn:E; [|congruence].
    eapply lookup_some_in; eauto.
Qed.

Lemma update_names n f fs : lookup n fs <> None -> map fst (update n f fs) = map fst fs.
Proof.
  induction fs as [|[m g] r IH]; cbn [lookup update map fst]; intros H; [congruence|].
  destruct (fname_eqb n m) eqn:E; cbn [map fst].
  - apply fname_eqb_eq in E. subst. reflexivity.
  - rewrite IH by exact H. reflexivity.
Qed.

Lemma names_write d n off l b : names (apply_act d (AWrite n off l b)) = names d.
Proof.
  unfold names. cbn [apply_act]. destruct (lookup n (dk_files d)) as [f|] eqn:E; [|reflexivity].
  cbn [dk_files]. apply update_names. congruence.
Qed.

Lemma names_sync d n : names (apply_act d (ASync n)) = names d.
Proof.
  unfold names. cbn [apply_act]. destruct (lookup n (dk_files d)) as [f|] eqn:E; [|reflexivity].
  cbn [dk_files]. apply update_names. congruence.
Qed.

Lemma names_create d n sz k : In k (names (apply_act d (ACreate n sz))) <-> k = n \/ In k (names d).
Proof. unfold names. cbn [apply_act dk_files]. apply update_keys_in. Qed.

Lemma NoDup_create d n sz : NoDup (names d) -> NoDup (names (apply_act d (ACreate n sz))).
Proof. unfold names. cbn [apply_act dk_files]. apply update_NoDup. Qed.

Lemma names_del_disk ns d k :
  NoDup (names d) -> In k (names (del_disk ns d)) -> In k (names d) /\ ~ In k ns.
Proof.
  intros ND Hin. apply in_names_lookup in Hin. rewrite (del_disk_lookup ns d k ND) in Hin.
  destruct (mem_name k ns) eqn:E; [congruence|]. split; [apply in_names_lookup; exact Hin|].
  intros Hk. apply mem_name_spec in Hk. congruence.
Qed.

Lemma NoDup_del_disk ns d : NoDup (names d) -> NoDup (names (del_disk ns d)).
Proof. apply del_disk_NoDup. Qed.

Lemma delete_files_fault ns : forall e, e_fault e = None -> e_fault (delete_files ns e) = None.
Proof.
  unfold delete_files. induction ns as [|n ns IH]; intros e Hf; cbn [fold_left]; [exact Hf|].
  rewrite (io_ok (ADelete n) e Hf). cbn [snd]. apply IH. reflexivity.
Qed.

(* ---- cov / covx ---- *)
Lemma covx_nil segs d : covx segs [] d <-> cov segs d.
Proof.
  unfold covx, cov. split; intros H n Hn; [destruct (H n Hn) as [K|[]]; exact K|left; auto].
Qed.

Lemma cov_names segs d d' : names d' = names d -> cov segs d -> cov segs d'.
Proof. unfold cov. intros E H n Hn. rewrite E in Hn. auto. Qed.

Lemma covx_names segs del d d' : names d' = names d -> covx segs del d -> covx segs del d'.
Proof. unfold covx. intros E H n Hn. rewrite E in Hn. auto. Qed.

Lemma covx_delete segs del e :
  e_fault e = None -> NoDup (names (e_disk e)) -> covx segs del (e_disk e) ->
  cov segs (e_disk (delete_files del e)).
Proof.
  intros Hf ND H n Hn. rewrite (delete_files_disk del e Hf) in Hn.
  destruct (names_del_disk del (e_disk e) n ND Hn) as (H1 & H2).
  destruct (H n H1) as [K|K]; [exact K|contradiction].
Qed.

(* dir_exact in terms of cov *)
Lemma dir_exact_cov d ps : dk_meta d = Some ps -> dir_exact d = true -> cov (ps_segs ps) d.
Proof.
  intros Hm H n Hn. unfold dir_exact in H. rewrite Hm in H. apply andb_true_iff in H. destruct H as (H & _).
  rewrite forallb_forall in H. unfold names in Hn. apply in_map_iff in Hn. destruct Hn as ([m f] & <- & Hin).
  apply (H _ Hin).
Qed.

Lemma LInv_cov_exact c nb w d : LInv c nb w d -> cov (st_segs w) d -> dir_exact d = true.
Proof.
  intros HL Hc. pose proof HL as (_ & _ & HD & _ & Hm & _).
  apply (dir_exact_intro d (persistent w) Hm (DIs_NoDup _ _ _ HD)).
  - intros n f Hl. apply Hc. apply in_names_lookup. congruence.
  - intros s Hin. eapply LInv_listed_files; eauto.
Qed.

Lemma LInv_exact_cov c nb w d : LInv c nb w d -> dir_exact d = true -> cov (st_segs w) d.
Proof.
  intros (_ & _ & _ & _ & Hm & _) H. apply (dir_exact_cov d (persistent w) Hm H).
Qed.

(* ---- lists of segments ---- *)
Lemma listed_cons x r n : listed (x :: r) n = fname_eqb (name_of x) n || listed r n.
Proof. reflexivity. Qed.

Lemma listed_in s l : In s l -> listed l (name_of s) = true.
Proof. intros H. apply listed_spec. exists s. auto. Qed.

Lemma listed_names l n : listed l n = true <-> In n (map name_of l).
Proof.
  rewrite listed_spec, in_map_iff. split; intros (s & A & B); exists s; auto.
Qed.

(* seg_set keeps every name except those of other segments with the same base *)
Lemma seg_set_listed si l n :
  listed l n = true -> (fst n = si_base si -> n = name_of si) -> listed (seg_set si l) n = true.
Proof.
  intros Hl Hb. induction l as [|x r IH]; [discriminate|]. cbn [seg_set].
  destruct (si_base si <? si_base x) eqn:E1.
  - rewrite listed_cons, Hl. apply orb_true_r.
  - destruct (si_base si =? si_base x) eqn:E2.
    + rewrite listed_cons in *. apply orb_true_iff in Hl. destruct Hl as [Hx|Hr]; [|rewrite Hr; apply orb_true_r].
      apply fname_eqb_eq in Hx. subst n. rewrite <- Hb; [rewrite fname_eqb_refl; reflexivity|].
      cbn. apply N.eqb_eq in E2. congruence.
    + rewrite listed_cons in *. apply orb_true_iff in Hl. destruct Hl as [Hx|Hr]; [rewrite Hx; reflexivity|].
      rewrite (IH Hr). apply orb_true_r.
Qed.

Lemma seg_set_listed_self si l : listed (seg_set si l) (name_of si) = true.
Proof.
  induction l as [|x r IH]; cbn [seg_set].
  - rewrite listed_cons, fname_eqb_refl. reflexivity.
  - destruct (si_base si <? si_base x); [rewrite listed_cons, fname_eqb_refl; reflexivity|].
    destruct (si_base si =? si_base x); [rewrite listed_cons, fname_eqb_refl; reflexivity|].
    rewrite listed_cons, IH. apply orb_true_r.
Qed.

Lemma tail_info_none l : tail_info l = None -> l = [].
Proof.
  destruct l as [|x r]; [reflexivity|]. intros H. exfalso.
  destruct (exists_last (l := x :: r)) as (l' & y & E); [discriminate|]. rewrite E, tail_info_app in H. discriminate.
Qed.

(* bases are pairwise distinct in a sorted list *)
Lemma sorted_base_inj l x y :
  StronglySorted lt_base l -> In x l -> In y l -> si_base x = si_base y -> x = y.
Proof.
  induction l as [|a l IH]; intros Hs Hx Hy Hb; [destruct Hx|].
  inversion Hs as [|? ? Hs' Hall]; subst. rewrite Forall_forall in Hall. unfold lt_base in Hall.
  destruct Hx as [<-|Hx]; destruct Hy as [<-|Hy].
  - reflexivity.
  - specialize (Hall _ Hy). lia.
  - specialize (Hall _ Hx). lia.
  - apply IH; assumption.
Qed.

(* ---- the scans of DeleteRange ---- *)
Definition max_idx (tl : N) (s : seginfo) : N := if si_sealed s then si_max s else tl.

Lemma head_scan_parts nm tl : forall segs del ntr rest del' ntr' head,
  head_scan nm tl segs del ntr = (rest, del', ntr', head) ->
  exists D, segs = D ++ rest /\ del' = del ++ map name_of D /\
    head = match rest with [] => None | h :: _ => Some h end /\
    Forall (fun s => max_idx tl s < nm) D /\
    match rest with [] => True | h :: _ => nm <= max_idx tl h end.
Proof.
  induction segs as [|s r IH]; intros del ntr rest del' ntr' head H; cbn [head_scan] in H.
  - inversion H; subst. exists []. cbn [map app]. rewrite app_nil_r. repeat (split; [reflexivity|]). split; [constructor|exact I].
  - fold (max_idx tl s) in H. destruct (nm <=? max_idx tl s) eqn:E.
    + inversion H; subst. exists []. cbn [map app]. rewrite app_nil_r. split; [reflexivity|]. split; [reflexivity|].
      split; [reflexivity|]. split; [constructor|lia].
    + apply IH in H. destruct H as (D & E1 & E2 & E3 & E4 & E5). exists (s :: D).
      split; [cbn; rewrite E1; reflexivity|]. split; [rewrite E2, <- app_assoc; reflexivity|].
      split; [exact E3|]. split; [constructor; [lia|exact E4]|exact E5].
Qed.

Lemma tail_scan_parts nm li : forall rsegs del ntr rrest del' ntr',
  tail_scan nm li rsegs del ntr = (rrest, del', ntr') ->
  exists X, rsegs = X ++ rrest /\ del' = del ++ map name_of X /\
    Forall (fun s => nm < si_base s) X /\
    match rrest with [] => True | t0 :: _ => si_base t0 <= nm end.
Proof.
  induction rsegs as [|s r IH]; intros del ntr rrest del' ntr' H; cbn [tail_scan] in H.
  - inversion H; subst. exists []. cbn [map app]. rewrite app_nil_r. repeat (split; [reflexivity|]). split; [constructor|exact I].
  - destruct (si_base s <=? nm) eqn:E.
    + inversion H; subst. exists []. cbn [map app]. rewrite app_nil_r. split; [reflexivity|]. split; [reflexivity|].
      split; [constructor|lia].
    + apply IH in H. destruct H as (X & E1 & E2 & E3 & E4). exists (s :: X).
      split; [cbn; rewrite E1; reflexivity|]. split; [rewrite E2, <- app_assoc; reflexivity|].
      split; [constructor; [lia|exact E3]|exact E4].
Qed.

(* ---- a state transaction ---- *)
Lemma mutate_gen_files defer w t e r w' e' dels :
  e_fault e = None -> NoDup (names (e_disk e)) -> st_failed w = false ->
  mutate_gen defer w t e = (r, w', e', dels) -> st_failed w' = false ->
  r = ROk /\ st_segs w' = tx_segs t /\ dels = (if defer then tx_delete t else []) /\
  e_fault e' = None /\ NoDup (names (e_disk e')) /\
  forall n, In n (names (e_disk e')) ->
    (In n (names (e_disk e)) \/ exists si, tx_create t = Some si /\ n = name_of si) /\
    (defer = false -> ~ In n (tx_delete t)).
Proof.
  intros Hf ND Hw H Hw'. unfold mutate_gen in H. rewrite (io_ok _ e Hf) in H. cbn [negb] in H.
  set (e1 := io_env (ACommit {| ps_next_id := tx_next_id t; ps_segs := tx_segs t |}) e) in *.
  assert (Hf1 : e_fault e1 = None) by reflexivity.
  assert (Hn1 : names (e_disk e1) = names (e_disk e)) by reflexivity.
  destruct (tx_create t) as [si|] eqn:Ec.
  - unfold seg_create in H. destruct (si_base si =? 0).
    { inversion H; subst. cbn in Hw'. discriminate. }
    destruct (lookup (name_of si) (dk_files (e_disk e1))) eqn:El.
    { rewrite (io_ok _ e1 Hf1) in H. inversion H; subst. cbn in Hw'. discriminate. }
    rewrite (io_ok _ e1 Hf1) in H.
    set (e2 := io_env (ACreate (name_of si) (si_size_limit si)) e1) in *.
    assert (ND2 : NoDup (names (e_disk e2))) by (apply NoDup_create; rewrite Hn1; exact ND).
    assert (Hin2 : forall n, In n (names (e_disk e2)) -> In n (names (e_disk e)) \/ n = name_of si).
    { intros n Hn. apply names_create in Hn. rewrite Hn1 in Hn. tauto. }
    destruct defer; inversion H; subst; cbn [st_segs].
    + split; [reflexivity|]. split; [reflexivity|]. split; [reflexivity|]. split; [reflexivity|].
      split; [exact ND2|]. intros n Hn. split; [|discriminate].
      destruct (Hin2 n Hn) as [K|K]; [left; exact K|right; exists si; auto].
    + split; [reflexivity|]. split; [reflexivity|]. split; [reflexivity|].
      split; [apply delete_files_fault; reflexivity|].
      rewrite (delete_files_disk _ e2 eq_refl).
      split; [apply NoDup_del_disk; exact ND2|]. intros n Hn.
      destruct (names_del_disk _ _ _ ND2 Hn) as (K1 & K2). split; [|intros _; exact K2].
      destruct (Hin2 n K1) as [K|K]; [left; exact K|right; exists si; auto].
  - destruct defer; inversion H; subst; cbn [st_segs].
    + split; [reflexivity|]. split; [reflexivity|]. split; [reflexivity|]. split; [reflexivity|].
      split; [rewrite Hn1; exact ND|]. intros n Hn. split; [left; rewrite <- Hn1; exact Hn|discriminate].
    + split; [reflexivity|]. split; [reflexivity|]. split; [reflexivity|].
      split; [apply delete_files_fault; reflexivity|].
      rewrite (delete_files_disk _ e1 eq_refl).
      assert (ND1 : NoDup (names (e_disk e1))) by (rewrite Hn1; exact ND).
      split; [apply NoDup_del_disk; exact ND1|]. intros n Hn.
      destruct (names_del_disk _ _ _ ND1 Hn) as (K1 & K2). split; [left; rewrite <- Hn1; exact K1|intros _; exact K2].
Qed.

Lemma mutate_gen_cov defer w t e r w' e' dels segs :
  e_fault e = None -> NoDup (names (e_disk e)) -> st_failed w = false ->
  mutate_gen defer w t e = (r, w', e', dels) -> st_failed w' = false ->
  cov segs (e_disk e) ->
  (forall n, listed segs n = true -> ~ In n (tx_delete t) -> listed (tx_segs t) n = true) ->
  (forall si, tx_create t = Some si -> listed (tx_segs t) (name_of si) = true) ->
  r = ROk /\ st_segs w' = tx_segs t /\ e_fault e' = None /\ NoDup (names (e_disk e')) /\
  covx (st_segs w') dels (e_disk e') /\ (defer = false -> dels = []).
Proof.
  intros Hf ND Hw H Hw' Hc Hkeep Hnew.
  destruct (mutate_gen_files defer w t e r w' e' dels Hf ND Hw H Hw') as (E1 & E2 & E3 & E4 & E5 & E6).
  split; [exact E1|]. split; [exact E2|]. split; [exact E4|]. split; [exact E5|].
  split; [|intros ->; exact E3]. rewrite E2. intros n Hn. destruct (E6 n Hn) as ([K|(si & Hs & ->)] & K2).
  - destruct (mem_name n (tx_delete t)) eqn:Em.
    + apply mem_name_spec in Em. destruct defer; [right; rewrite E3; exact Em|exfalso; apply (K2 eq_refl); exact Em].
    + left. apply Hkeep; [apply Hc; exact K|]. intros Hin. apply mem_name_spec in Hin. congruence.
  - left. apply Hnew. exact Hs.
Qed.

Lemma mutate_cov w t e r w' e' segs :
  e_fault e = None -> NoDup (names (e_disk e)) -> st_failed w = false ->
  mutate w t e = (r, w', e') -> st_failed w' = false ->
  cov segs (e_disk e) ->
  (forall n, listed segs n = true -> ~ In n (tx_delete t) -> listed (tx_segs t) n = true) ->
  (forall si, tx_create t = Some si -> listed (tx_segs t) (name_of si) = true) ->
  cov (st_segs w') (e_disk e') /\ st_segs w' = tx_segs t /\ e_fault e' = None.
Proof.
  intros Hf ND Hw H Hw' Hc Hkeep Hnew. unfold mutate in H.
  destruct (mutate_gen false w t e) as [[[r1 w1] e1] d1] eqn:Em. inversion H; subst.
  destruct (mutate_gen_cov false w t e r w' e' d1 segs Hf ND Hw Em Hw' Hc Hkeep Hnew) as (_ & E2 & E3 & _ & E5 & E6).
  rewrite (E6 eq_refl) in E5. apply covx_nil in E5. auto.
Qed.

(* ---- head truncation: no invariant needed ---- *)
Lemma truncate_head_cov c w nm e r w' e' :
  e_fault e = None -> NoDup (names (e_disk e)) -> st_failed w = false ->
  truncate_head c w nm e = (r, w', e') -> st_failed w' = false ->
  cov (st_segs w) (e_disk e) -> cov (st_segs w') (e_disk e').
Proof.
  intros Hf ND Hw H Hw' Hc. unfold truncate_head in H.
  destruct (head_scan nm (tail_last (st_tail w)) (st_segs w) [] 0) as [[[rest del] ntr] head] eqn:Ehs.
  destruct (head_scan_parts _ _ _ _ _ _ _ _ _ Ehs) as (D & E1 & E2 & E3 & _). cbn [app] in E2.
  destruct rest as [|h R]; subst head.
  - unfold create_next in H. cbv beta iota zeta in H. change (tail_info []) with (@None seginfo) in H. cbv beta iota in H.
    match type of H with mutate _ _ ?e0 = _ =>
      eapply (mutate_cov _ _ e0 _ _ _ (st_segs w)) in H; [apply H|exact Hf|exact ND|exact Hw|exact Hw'|exact Hc| |] end.
    + cbn [tx_segs tx_delete]. intros n Hl Hd. exfalso. apply Hd. rewrite E2. apply listed_names.
      rewrite E1, app_nil_r in Hl. exact Hl.
    + cbn [tx_segs tx_create seg_set]. intros si Hs. inversion Hs; subst. rewrite listed_cons, fname_eqb_refl. reflexivity.
  - match type of H with mutate _ _ ?e0 = _ =>
      eapply (mutate_cov _ _ e0 _ _ _ (st_segs w)) in H; [apply H|exact Hf|exact ND|exact Hw|exact Hw'|exact Hc| |] end.
    + cbn [tx_segs tx_delete]. intros n Hl Hd. rewrite seg_set_head by reflexivity.
      rewrite E1, listed_app in Hl. apply orb_true_iff in Hl. destruct Hl as [Hl|Hl].
      * exfalso. apply Hd. rewrite E2. apply listed_names. exact Hl.
      * rewrite listed_cons in *. exact Hl.
    + cbn [tx_create]. discriminate.
Qed.

(* ---- appends and the force-seal do not change the set of names ---- *)
Lemma seg_append_names tw ls e r tw' e' :
  e_fault e = None -> seg_append tw ls e = (r, tw', e') ->
  names (e_disk e') = names (e_disk e) /\ e_fault e' = None.
Proof.
  intros Hf H. unfold seg_append in H. destruct ls as [|l0 ls']; [inversion H; subst; auto|].
  destruct (0 <? ws_index_start tw); [inversion H; subst; auto|].
  destruct (existsb _ (l0 :: ls')); [inversion H; subst; auto|].
  destruct (negb (l_index l0 =? ws_base tw + ws_n tw)); [inversion H; subst; auto|].
  cbv zeta in H. rewrite (io_ok _ e Hf) in H. cbn [negb] in H.
  match type of H with context [io (ASync ?n) ?e1] => rewrite (io_ok (ASync n) e1 eq_refl) in H end.
  cbn [negb] in H. inversion H; subst. cbn [io_env e_disk e_fault]. rewrite names_sync, names_write. auto.
Qed.

Lemma seg_force_seal_names tw e r tw' e' :
  e_fault e = None -> seg_force_seal tw e = (r, tw', e') ->
  names (e_disk e') = names (e_disk e) /\ e_fault e' = None.
Proof.
  intros Hf H. unfold seg_force_seal in H.
  destruct (0 <? ws_index_start tw); [inversion H; subst; auto|].
  destruct (ws_n tw =? 0); [inversion H; subst; auto|].
  cbv zeta in H. rewrite (io_ok _ e Hf) in H. cbn [negb] in H.
  match type of H with context [io (ASync ?n) ?e1] => rewrite (io_ok (ASync n) e1 eq_refl) in H end.
  cbn [negb] in H. inversion H; subst. cbn [io_env e_disk e_fault]. rewrite names_sync, names_write. auto.
Qed.

Lemma store_go_names last ls w e r w' e' :
  e_fault e = None -> store_go last ls w e = (r, w', e') ->
  st_segs w' = st_segs w /\ st_failed w' = st_failed w /\
  names (e_disk e') = names (e_disk e) /\ e_fault e' = None.
Proof.
  intros Hf H. unfold store_go in H. destruct (check_logs last ls) as [res nbytes].
  destruct res; try (inversion H; subst; auto; fail).
  destruct (st_tail w) as [tw|]; [|inversion H; subst; auto].
  destruct (seg_append tw ls e) as [[r1 tw'] e1] eqn:Ea.
  destruct (seg_append_names _ _ _ _ _ _ Hf Ea) as (N1 & F1).
  destruct r1; inversion H; subst; auto.
Qed.

(* ---- tail truncation ---- *)
Definition tt_finish (c : cfg) (w : wal) (del : list fname) (t' : seginfo) (ntr' : N) (rest : list seginfo)
  (tw : option wseg) (e : env) : result * wal * env :=
  let segs1 := seg_set t' rest in
  let '(nid, segs2, si) := create_next c (st_next_id w) segs1 0 in
  let e0 := add_m e (fun m => {| m_bytes_written := m_bytes_written m; m_entries_written := m_entries_written m;
                                 m_appends := m_appends m; m_bytes_read := m_bytes_read m;
                                 m_entries_read := m_entries_read m; m_rotations := m_rotations m;
                                 m_head_trunc := m_head_trunc m; m_tail_trunc := (m_tail_trunc m + ntr') mod two64;
                                 m_stable_gets := m_stable_gets m; m_stable_sets := m_stable_sets m |}) in
  mutate {| st_next_id := st_next_id w; st_segs := st_segs w; st_tail := tw; st_rotate := st_rotate w;
            st_failed := st_failed w; st_closed := st_closed w |}
         {| tx_next_id := nid; tx_segs := segs2; tx_delete := del; tx_create := Some si; tx_tail := None |} e0.

Lemma truncate_tail_unfold c w new_max e :
  truncate_tail c w new_max e =
  let lastidx := last_index (st_segs w) (st_tail w) in
  let '(rrest, del, ntr) := tail_scan new_max lastidx (rev (st_segs w)) [] 0 in
  match rrest with
  | [] =>
      let '(nid, segs2, si) := create_next c (st_next_id w) [] 0 in
      mutate w {| tx_next_id := nid; tx_segs := segs2; tx_delete := del; tx_create := Some si; tx_tail := None |} e
  | t :: _ =>
      let rest := rev rrest in
      if si_sealed t then
        let t' := {| si_id := si_id t; si_base := si_base t; si_min := si_min t; si_max := new_max;
                     si_codec := si_codec t; si_index_start := si_index_start t; si_sealed := true;
                     si_size_limit := si_size_limit t |} in
        tt_finish c w del t' ((ntr + sub64 (si_max t) new_max) mod two64) rest (st_tail w) e
      else
        match st_tail w with
        | None => (RErrOther, w, e)
        | Some tw =>
            let '(r, tw', e1) := seg_force_seal tw e in
            match r with
            | ROk =>
                let t' := {| si_id := si_id t; si_base := si_base t; si_min := si_min t; si_max := new_max;
                             si_codec := si_codec t; si_index_start := ws_index_start tw'; si_sealed := true;
                             si_size_limit := si_size_limit t |} in
                tt_finish c w del t' ((ntr + sub64 lastidx new_max) mod two64) rest (Some tw') e1
            | _ => (r, {| st_next_id := st_next_id w; st_segs := st_segs w; st_tail := Some tw';
                          st_rotate := st_rotate w; st_failed := st_failed w; st_closed := st_closed w |}, e1)
            end
        end
  end.
Proof. reflexivity. Qed.

Lemma tt_finish_cov c w del t' ntr' X t0 tw e r w' e' segs nm :
  e_fault e = None -> NoDup (names (e_disk e)) -> st_failed w = false ->
  tt_finish c w del t' ntr' (X ++ [t0]) tw e = (r, w', e') -> st_failed w' = false ->
  cov segs (e_disk e) ->
  (forall n, listed segs n = true -> ~ In n del -> listed (X ++ [t0]) n = true) ->
  Forall (fun s => si_base s < si_base t0) X -> name_of t' = name_of t0 -> si_max t' = nm ->
  si_base t0 <= nm -> nm + 1 < two64 ->
  cov (st_segs w') (e_disk e').
Proof.
  intros Hf ND Hw H Hw' Hc Hkeep HX Hname Hmax Hb Hnm. unfold tt_finish in H. cbv zeta in H.
  assert (Hbase : si_base t' = si_base t0) by (apply (f_equal fst) in Hname; exact Hname).
  rewrite (seg_set_last t' X t0 HX Hbase) in H.
  unfold create_next in H. rewrite tail_info_app, Hmax in H. cbv beta iota zeta in H.
  rewrite (N.mod_small (nm + 1) two64) in H by exact Hnm.
  match type of H with mutate ?w0 _ ?e0 = _ =>
    eapply (mutate_cov w0 _ e0 _ _ _ segs) in H; [apply H|exact Hf|exact ND|exact Hw|exact Hw'|exact Hc| |] end.
  - cbn [tx_segs tx_delete]. intros n Hl Hd. specialize (Hkeep n Hl Hd).
    assert (Hl' : listed (X ++ [t']) n = true).
    { rewrite listed_app, listed_single in *. rewrite Hname. exact Hkeep. }
    apply seg_set_listed; [exact Hl'|]. cbn [new_segment si_base]. intros Hfst. exfalso.
    apply listed_spec in Hl'. destruct Hl' as (x & Hin & <-). cbn [name_of fst] in Hfst.
    apply in_app_or in Hin. destruct Hin as [Hin|[<-|[]]]; [|lia].
    rewrite Forall_forall in HX. specialize (HX _ Hin). cbn beta in HX. lia.
  - cbn [tx_segs tx_create]. intros si Hs. inversion Hs; subst. apply seg_set_listed_self.
Qed.

Lemma truncate_tail_cov c w nm e r w' e' :
  e_fault e = None -> NoDup (names (e_disk e)) -> st_failed w = false ->
  StronglySorted lt_base (st_segs w) -> nm + 1 < two64 ->
  truncate_tail c w nm e = (r, w', e') -> st_failed w' = false ->
  cov (st_segs w) (e_disk e) -> cov (st_segs w') (e_disk e').
Proof.
  intros Hf ND Hw Hsorted Hnm H Hw' Hc. rewrite truncate_tail_unfold in H. cbv zeta in H.
  destruct (tail_scan nm (last_index (st_segs w) (st_tail w)) (rev (st_segs w)) [] 0) as [[rrest del] ntr] eqn:Ets.
  destruct (tail_scan_parts _ _ _ _ _ _ _ _ Ets) as (Xd & E1 & E2 & E3 & E4). cbn [app] in E2.
  assert (Esegs : st_segs w = rev rrest ++ rev Xd).
  { rewrite <- rev_app_distr, <- E1, rev_involutive. reflexivity. }
  assert (Hkeep : forall n, listed (st_segs w) n = true -> ~ In n del -> listed (rev rrest) n = true).
  { intros n Hl Hd. rewrite Esegs, listed_app in Hl. apply orb_true_iff in Hl. destruct Hl as [Hl|Hl]; [exact Hl|].
    exfalso. apply Hd. rewrite E2. apply listed_names in Hl. rewrite map_rev in Hl. apply in_rev in Hl. exact Hl. }
  destruct rrest as [|t0 rr].
  - unfold create_next in H. change (tail_info []) with (@None seginfo) in H. cbv beta iota zeta in H.
    eapply (mutate_cov w _ e _ _ _ (st_segs w)) in H; [apply H|exact Hf|exact ND|exact Hw|exact Hw'|exact Hc| |].
    + cbn [tx_segs tx_delete]. intros n Hl Hd. specialize (Hkeep n Hl Hd). discriminate.
    + cbn [tx_segs tx_create seg_set]. intros si Hs. inversion Hs; subst. rewrite listed_cons, fname_eqb_refl. reflexivity.
  - cbn [rev] in *.
    assert (HX : Forall (fun s => si_base s < si_base t0) (rev rr)).
    { rewrite Forall_forall. intros z Hz. rewrite Esegs, <- app_assoc in Hsorted.
      apply (sorted_app_lt (rev rr) ([t0] ++ rev Xd) z t0 Hsorted Hz). left. reflexivity. }
    destruct (si_sealed t0).
    + eapply tt_finish_cov in H; try eassumption; reflexivity.
    + destruct (st_tail w) as [tw|]; [|inversion H; subst; exact Hc].
      destruct (seg_force_seal tw e) as [[r1 tw'] e1] eqn:Efs.
      destruct (seg_force_seal_names _ _ _ _ _ Hf Efs) as (N1 & F1).
      assert (ND1 : NoDup (names (e_disk e1))) by (rewrite N1; exact ND).
      assert (Hc1 : cov (st_segs w) (e_disk e1)) by (eapply cov_names; eauto).
      destruct r1; try (inversion H; subst; exact Hc1).
      eapply tt_finish_cov in H; try eassumption; reflexivity.
Qed.

Lemma delete_range_cov c w mn mx e r w' e' :
  e_fault e = None -> NoDup (names (e_disk e)) -> st_failed w = false ->
  StronglySorted lt_base (st_segs w) -> mx + 1 < two64 ->
  delete_range c w mn mx e = (r, w', e') -> st_failed w' = false ->
  cov (st_segs w) (e_disk e) -> cov (st_segs w') (e_disk e').
Proof.
  intros Hf ND Hw Hs Hmx H Hw' Hc. unfold delete_range in H.
  destruct (st_closed w); [inversion H; subst; exact Hc|].
  destruct (mx <? mn) eqn:Emm; [inversion H; subst; exact Hc|].
  rewrite Hw in H.
  destruct ((mx <? first_index (st_segs w) (st_tail w)) || (last_index (st_segs w) (st_tail w) <? mn));
    [inversion H; subst; exact Hc|].
  destruct (mn <=? first_index (st_segs w) (st_tail w)).
  - apply (truncate_head_cov c w _ e r w' e' Hf ND Hw H Hw' Hc).
  - destruct (last_index (st_segs w) (st_tail w) <=? mx); [|inversion H; subst; exact Hc].
    apply (truncate_tail_cov c w (mn - 1) e r w' e' Hf ND Hw Hs ltac:(lia) H Hw' Hc).
Qed.

Lemma store_go_flag last ls w e r w' e' : store_go last ls w e = (r, w', e') -> st_failed w' = st_failed w.
Proof.
  intros H. unfold store_go in H. destruct (check_logs last ls) as [res nbytes].
  destruct res; try (inversion H; subst; reflexivity).
  destruct (st_tail w) as [tw|]; [|inversion H; subst; reflexivity].
  destruct (seg_append tw ls e) as [[r1 tw'] e1]. destruct r1; inversion H; subst; reflexivity.
Qed.

(* ---- StoreLogs: the reset of the empty first segment defers its deletion ---- *)
Lemma reset_first_cov c w nb e r w1 e1 dels :
  e_fault e = None -> NoDup (names (e_disk e)) -> st_failed w = false ->
  (last_index (st_segs w) (st_tail w) = 0 -> exists t, st_segs w = [t]) ->
  reset_first c w nb e = (r, w1, e1, dels) -> st_failed w1 = false ->
  cov (st_segs w) (e_disk e) ->
  e_fault e1 = None /\ NoDup (names (e_disk e1)) /\ covx (st_segs w1) dels (e_disk e1) /\
  (r = ROk \/ dels = []).
Proof.
  intros Hf ND Hw Hone H Hw1 Hc. unfold reset_first in H.
  destruct (0 <? last_index (st_segs w) (st_tail w)) eqn:El.
  { inversion H; subst. split; [exact Hf|]. split; [exact ND|]. split; [apply covx_nil; exact Hc|right; reflexivity]. }
  destruct (Hone ltac:(lia)) as (t & Es). rewrite Es in H. change (tail_info [t]) with (Some t) in H. cbv beta iota in H.
  destruct (si_base t =? nb).
  - destruct (mutate_gen_cov true w _ e r w1 e1 dels (st_segs w) Hf ND Hw H Hw1 Hc) as (E1 & E2 & E3 & E4 & E5 & _).
    + cbn [tx_segs tx_delete]. intros n Hl _. rewrite <- Es. exact Hl.
    + cbn [tx_create]. discriminate.
    + split; [exact E3|]. split; [exact E4|]. split; [exact E5|left; exact E1].
  - cbn [seg_del] in H. rewrite N.eqb_refl in H. unfold create_next in H.
    change (tail_info []) with (@None seginfo) in H. cbv beta iota zeta in H.
    destruct (mutate_gen_cov true w _ e r w1 e1 dels (st_segs w) Hf ND Hw H Hw1 Hc) as (E1 & E2 & E3 & E4 & E5 & _).
    + cbn [tx_segs tx_delete]. intros n Hl Hd. exfalso. apply Hd. left.
      rewrite Es, listed_single in Hl. apply fname_eqb_eq in Hl. exact Hl.
    + cbn [tx_segs tx_create seg_set]. intros si Hs. inversion Hs; subst. rewrite listed_cons, fname_eqb_refl. reflexivity.
    + split; [exact E3|]. split; [exact E4|]. split; [exact E5|left; exact E1].
Qed.

Lemma store_logs_cov c w ls e r w' e' :
  e_fault e = None -> NoDup (names (e_disk e)) -> st_failed w = false ->
  (last_index (st_segs w) (st_tail w) = 0 -> exists t, st_segs w = [t]) ->
  store_logs c w ls e = (r, w', e') -> st_failed w' = false ->
  cov (st_segs w) (e_disk e) -> cov (st_segs w') (e_disk e').
Proof.
  intros Hf ND Hw Hone H Hw' Hc. rewrite store_logs_unfold in H.
  destruct (st_closed w); [inversion H; subst; exact Hc|].
  destruct ls as [|l0 ls']; [inversion H; subst; exact Hc|].
  rewrite Hw in H. cbv zeta in H.
  destruct (tail_info (st_segs w)) as [ti|]; [|inversion H; subst; exact Hc].
  destruct ((last_index (st_segs w) (st_tail w) =? 0) && negb (l_index l0 =? si_base ti)).
  - destruct (reset_first c w (l_index l0) e) as [[[r1 w1] e1] dels] eqn:Er.
    assert (Hgo : forall r2 w2 e2, store_go (last_index (st_segs w) (st_tail w)) (l0 :: ls') w1 e1 = (r2, w2, e2) ->
              st_failed w2 = false -> r1 = ROk -> cov (st_segs w2) (e_disk (delete_files dels e2))).
    { intros r2 w2 e2 Hg Hw2 _.
      assert (Hw1 : st_failed w1 = false) by (rewrite <- (store_go_flag _ _ _ _ _ _ _ Hg); exact Hw2).
      destruct (reset_first_cov c w (l_index l0) e r1 w1 e1 dels Hf ND Hw Hone Er Hw1 Hc) as (F1 & ND1 & C1 & _).
      destruct (store_go_names _ _ _ _ _ _ _ F1 Hg) as (S2 & _ & N2 & F2).
      rewrite S2. apply covx_delete; [exact F2|rewrite N2; exact ND1|]. eapply covx_names; eauto. }
    destruct r1; try (inversion H; subst;
      destruct (reset_first_cov c w (l_index l0) e _ w' e' dels Hf ND Hw Hone Er Hw' Hc) as (_ & _ & C1 & [K | ->]);
      [discriminate|apply covx_nil; exact C1]; fail).
    destruct (store_go _ _ w1 e1) as [[r2 w2] e2] eqn:Eg. inversion H; subst. eapply Hgo; eauto.
  - destruct (store_go_names _ _ _ _ _ _ _ Hf H) as (S2 & _ & N2 & _). rewrite S2. eapply cov_names; eauto.
Qed.

(* ---- the background rotation ---- *)
Lemma rotate_cov c nb w e w' e' :
  LInv c nb w (e_disk e) -> e_fault e = None ->
  rotate c w e = (w', e') -> st_failed w' = false ->
  cov (st_segs w) (e_disk e) -> cov (st_segs w') (e_disk e').
Proof.
  intros HL Hf H Hw' Hc. unfold rotate in H.
  destruct (st_rotate w) as [istart|] eqn:Hrot; [|inversion H; subst; exact Hc].
  destruct (LInv_view _ _ _ _ HL) as (S & t & f & tw & V).
  pose proof (lv_rot _ _ _ _ _ _ _ _ V) as Hr. rewrite Hrot in Hr.
  destruct (0 <? df_seal f) eqn:Es; [|discriminate].
  assert (Hse : df_seal f <> 0) by lia.
  pose proof (lv_min_cond V) as Hmc.
  set (mx := tl_of (si_base t) (df_ents f)).
  assert (Hn0 : 0 < llen (df_ents f)).
  { pose proof (lv_tok _ _ _ _ _ _ _ _ V) as (_ & Ht'). rewrite (lv_file _ _ _ _ _ _ _ _ V) in Ht'.
    destruct Ht' as ((_ & _ & _ & _ & F5) & _). apply llen_pos. apply F5. exact Hse. }
  assert (Hmin : si_min t <= mx). { unfold mx, tl_of in *. destruct (llen (df_ents f) =? 0) eqn:Z; lia. }
  destruct (seal_tail_facts V mx istart Hse Hmin ltac:(unfold mx; lia)) as (_ & _ & _ & F4 & _ & _ & F7).
  rewrite (lv_closed _ _ _ _ _ _ _ _ V), (lv_segs _ _ _ _ _ _ _ _ V), tail_info_app in H.
  rewrite (lv_tail_last V) in H. fold mx in H. cbv zeta in H. fold (seal_info t mx istart) in H.
  rewrite (seg_set_last (seal_info t mx istart) S t (lv_bases_lt V) eq_refl) in H.
  unfold create_next in H. rewrite tail_info_app in H. change (si_max (seal_info t mx istart)) with mx in H.
  rewrite (N.mod_small (mx + 1) two64) in H by exact F7. cbv beta iota zeta in H.
  match type of H with context [mutate ?w0 ?tx ?e0] => destruct (mutate w0 tx e0) as [[r1 w1] e1] eqn:Em end.
  inversion H; subst w1 e1.
  eapply (mutate_cov _ _ _ _ _ _ (st_segs w)) in Em; [apply Em|exact Hf| |apply (lv_failed _ _ _ _ _ _ _ _ V)|exact Hw'|exact Hc| |].
  - eapply DIs_NoDup. apply (lv_dis _ _ _ _ _ _ _ _ V).
  - cbn [tx_segs tx_delete]. intros n Hl _. rewrite (lv_segs _ _ _ _ _ _ _ _ V) in Hl.
    assert (Hl' : listed (S ++ [seal_info t mx istart]) n = true).
    { rewrite listed_app, listed_single in *. exact Hl. }
    apply seg_set_listed; [exact Hl'|]. cbn [new_segment si_base]. intros Hfst. exfalso.
    apply listed_spec in Hl'. destruct Hl' as (x & Hin & <-). cbn [name_of fst] in Hfst.
    rewrite Forall_forall in F4. specialize (F4 _ Hin). cbn beta in F4. lia.
  - cbn [tx_segs tx_create]. intros si Hs. inversion Hs; subst. apply seg_set_listed_self.
Qed.

Lemma settle_cov c nb s :
  LInv c nb (ss_wal s) (e_disk (ss_env s)) -> e_fault (ss_env s) = None ->
  st_failed (ss_wal (settle c s)) = false ->
  cov (st_segs (ss_wal s)) (e_disk (ss_env s)) ->
  cov (st_segs (ss_wal (settle c s))) (e_disk (ss_env (settle c s))).
Proof.
  intros HL Hf Hw' Hc. unfold settle in *. destruct (st_rotate (ss_wal s)); [|exact Hc].
  destruct (rotate c (ss_wal s) (ss_env s)) as [w' e'] eqn:Er. cbn [ss_wal ss_env] in *.
  eapply rotate_cov; eauto.
Qed.

(* ---- facts of a live state used above ---- *)
Lemma lv_sorted {c nb w d S t f tw} (V : lview c nb w d S t f tw) : StronglySorted lt_base (st_segs w).
Proof.
  rewrite (lv_segs _ _ _ _ _ _ _ _ V). apply chain_sorted; [apply (lv_linked _ _ _ _ _ _ _ _ V)|apply (lv_Ssst V)].
Qed.

Lemma lv_last0_single {c nb w d S t f tw} (V : lview c nb w d S t f tw) :
  last_index (st_segs w) (st_tail w) = 0 -> exists t0, st_segs w = [t0].
Proof.
  intros H. rewrite (lv_segs _ _ _ _ _ _ _ _ V) in *. destruct S as [|s S']; [exists t; reflexivity|]. exfalso.
  unfold last_index in H. destruct (0 <? tail_last (st_tail w)) eqn:E; [lia|].
  rewrite rev_app_distr in H. cbn [rev app] in H.
  pose proof (lv_bases_lt V) as Hlt. inversion Hlt as [|? ? Hs _]; subst.
  pose proof (lv_Swf V) as Hwf. inversion Hwf as [|? ? (Hb1 & _) _]; subst.
  destruct (rev S' ++ [s]) as [|y ys] eqn:Ey; [destruct (rev S'); discriminate|].
  destruct (si_base t =? 0) eqn:Eb; lia.
Qed.

Lemma get_log_disk w i e : e_disk (snd (get_log w i e)) = e_disk e.
Proof.
  unfold get_log. destruct (st_closed w); [reflexivity|]. cbv zeta.
  repeat match goal with |- context [match ?x with _ => _ end] => destruct x end; reflexivity.
Qed.

Lemma set_stable_names w k v n e :
  e_fault e = None -> names (e_disk (snd (set_stable w k v n e))) = names (e_disk e).
Proof.
  intros Hf. unfold set_stable. destruct (st_closed w); [reflexivity|].
  destruct (negb (key_ok k)); [reflexivity|].
  rewrite (io_ok _ (inc_stable e true) Hf). reflexivity.
Qed.

(* ---- every call keeps the directory exact ---- *)
Lemma step_dir_exact c nb s o r s' :
  cfg_ok c -> sop_ok o -> nb + 2 < two64 ->
  LInv c nb (ss_wal s) (e_disk (ss_env s)) -> e_fault (ss_env s) = None -> sp_good (sp_of (e_disk (ss_env s))) ->
  step_model c s o = (r, s') ->
  dir_exact (e_disk (ss_env s)) = true -> dir_exact (e_disk (ss_env s')) = true.
Proof.
  intros Hc Ho Hnb HL Hf Hg Hst Hde.
  destruct (call_ok_all c o nb s _ Hc Ho Hnb HL Hf eq_refl Hg) as (r0 & s0 & Hst0 & _ & HL' & _).
  rewrite Hst in Hst0. inversion Hst0; subst r0 s0. clear Hst0.
  pose proof (LInv_exact_cov _ _ _ _ HL Hde) as Hcov.
  pose proof HL' as (_ & Hfail' & _).
  destruct o; cbn [step_model] in Hst.
  - (* StoreLogs *)
    destruct (settle_ok c nb s _ Hc HL Hf eq_refl ltac:(lia)) as (HL1 & _ & _ & He1).
    pose proof HL1 as (_ & Hfail1 & HD1 & _).
    pose proof (settle_cov c nb s HL Hf Hfail1 Hcov) as Hcov1.
    set (s1 := settle c s) in *.
    destruct (store_logs c (ss_wal s1) ls (ss_env s1)) as [[r1 w1] e1] eqn:Es. inversion Hst; subst r s'.
    cbn [ss_wal ss_env] in *. apply (LInv_cov_exact _ _ _ _ HL').
    destruct (LInv_view _ _ _ _ HL1) as (S & t & f & tw & V).
    eapply (store_logs_cov c (ss_wal s1) ls (ss_env s1)); eauto.
    + apply (ext_fault _ _ _ He1).
    + eapply DIs_NoDup; eauto.
    + apply (lv_last0_single V).
  - (* DeleteRange *)
    destruct (settle_ok c nb s _ Hc HL Hf eq_refl ltac:(lia)) as (HL1 & _ & _ & He1).
    pose proof HL1 as (_ & Hfail1 & HD1 & _).
    pose proof (settle_cov c nb s HL Hf Hfail1 Hcov) as Hcov1.
    set (s1 := settle c s) in *.
    destruct (delete_range c (ss_wal s1) mn mx (ss_env s1)) as [[r1 w1] e1] eqn:Es. inversion Hst; subst r s'.
    cbn [ss_wal ss_env] in *. apply (LInv_cov_exact _ _ _ _ HL').
    destruct (LInv_view _ _ _ _ HL1) as (S & t & f & tw & V).
    eapply (delete_range_cov c (ss_wal s1) mn mx (ss_env s1)); eauto.
    + apply (ext_fault _ _ _ He1).
    + eapply DIs_NoDup; eauto.
    + apply (lv_sorted V).
  - (* GetLog *)
    pose proof (get_log_disk (ss_wal s) i (ss_env s)) as Hd.
    destruct (get_log (ss_wal s) i (ss_env s)) as [r1 e1]. inversion Hst; subst r s'. cbn [ss_env snd] in *.
    rewrite Hd. exact Hde.
  - inversion Hst; subst. exact Hde.
  - inversion Hst; subst. exact Hde.
  - (* SetStable *)
    pose proof (set_stable_names (ss_wal s) k v is_nil (ss_env s) Hf) as Hn.
    destruct (set_stable (ss_wal s) k v is_nil (ss_env s)) as [r1 e1]. inversion Hst; subst r s'. cbn [ss_env ss_wal snd] in *.
    apply (LInv_cov_exact _ _ _ _ HL'). eapply cov_names; eauto.
  - (* GetStable *)
    unfold get_stable in Hst. destruct (st_closed (ss_wal s)); inversion Hst; subst; exact Hde.
  - (* Close; Open *)
    pose proof HL as (_ & _ & HD & HN & _).
    destruct (open_wal_ok c nb (ss_env s) Hc Hf HD HN ltac:(lia)) as (w & e' & Hop & _ & _ & Hde').
    rewrite Hop in Hst. inversion Hst; subst. exact Hde'.
Qed.

(* ---- the theorem ---- *)
Theorem live_dir_exact : live_dir_exact_stmt.
Proof.
  intros c steps. induction steps as [|st pre IH] using rev_ind; intros s Hok Hmode.
  { cbn in Hmode. discriminate. }
  assert (Hok0 : hist_ok c pre) by (eapply hist_ok_prefix; exact Hok).
  pose proof (crash_refinement c _ (proj1 Hok) (proj1 (proj2 Hok)) (proj2 (proj2 Hok))) as Hall.
  rewrite hist_run_app in Hmode, Hall. unfold hist_run at 1 in Hmode. unfold hist_run at 1 in Hall. cbn [fold_left] in Hmode, Hall.
  pose proof (hist_invariant c pre Hok0) as (_ & Hga & _ & HM).
  set (h0 := hist_run c hist_init pre) in *.
  unfold hstep_run in Hmode, Hall. destruct (hs_mode h0) as [s0|d] eqn:Em.
  - destruct HM as (_ & HL & Hf & Hsp & _). specialize (IH s0 Hok0 eq_refl).
    destruct st as [o|o j cc| |j cc].
    + destruct (step_model c s0 o) as [r s1] eqn:Est. destruct (step_spec (hs_acked h0) o) as [r' sp'].
      cbn [hs_mode] in Hmode. inversion Hmode; subst s1.
      destruct Hok as (Hc & Hwf & Hshort). apply Forall_app in Hwf. destruct Hwf as (_ & Hwo).
      inversion Hwo as [|? ? Ho _]; subst. cbn [hstep_wf] in Ho.
      assert (Hb : 2 * N.of_nat (length pre) + 2 < two64).
      { unfold short_enough in Hshort. rewrite app_length in Hshort. cbn [length] in Hshort. unfold two64. lia. }
      eapply (step_dir_exact c _ s0 o r s Hc Ho Hb HL Hf); eauto. rewrite Hsp. exact Hga.
    + destruct (step_model c s0 o) as [r s1]. destruct (step_spec (hs_acked h0) o) as [r' sp'].
      destruct (Nat.leb _ j); cbn [hs_mode] in Hmode; discriminate.
    + rewrite Em in Hmode. inversion Hmode; subst. exact IH.
    + rewrite Em in Hmode. inversion Hmode; subst. exact IH.
  - destruct st as [o|o j cc| |j cc].
    + rewrite Em in Hmode. discriminate.
    + rewrite Em in Hmode. discriminate.
    + destruct (open_wal c (env_of d)) as [[w|x] e]; cbn [hs_mode hs_ok] in Hmode, Hall; [|discriminate].
      inversion Hmode; subst s. cbn [ss_env]. apply andb_true_iff in Hall. apply Hall.
    + destruct (open_wal c (env_of d)) as [ores e]. cbn [hs_mode] in Hmode. discriminate.
Qed.

(* ================================================================== *)
(* DeleteRange: the segments wholly inside the range lose their files  *)

Lemma mutate_segs w t e r w' e' :
  e_fault e = None -> NoDup (names (e_disk e)) -> st_failed w = false ->
  mutate w t e = (r, w', e') -> st_failed w' = false -> r = ROk /\ st_segs w' = tx_segs t.
Proof.
  intros Hf ND Hw H Hw'. unfold mutate in H.
  destruct (mutate_gen false w t e) as [[[r1 w1] e1] d1] eqn:Em. inversion H; subst.
  destruct (mutate_gen_files false w t e r w' e' d1 Hf ND Hw Em Hw') as (E1 & E2 & _). auto.
Qed.

Lemma seg_set_listed_inv si l n : listed (seg_set si l) n = true -> n = name_of si \/ listed l n = true.
Proof.
  induction l as [|x r IH]; cbn [seg_set]; intros H.
  - rewrite listed_single in H. apply fname_eqb_eq in H. left. symmetry. exact H.
  - destruct (si_base si <? si_base x).
    + rewrite listed_cons in H. apply orb_true_iff in H. destruct H as [H|H]; [left; apply fname_eqb_eq in H; symmetry; exact H|right; exact H].
    + destruct (si_base si =? si_base x).
      * rewrite listed_cons in H. apply orb_true_iff in H. destruct H as [H|H]; [left; apply fname_eqb_eq in H; symmetry; exact H|].
        right. rewrite listed_cons, H. apply orb_true_r.
      * rewrite listed_cons in H. apply orb_true_iff in H. destruct H as [H|H]; [right; rewrite listed_cons, H; reflexivity|].
        destruct (IH H) as [K|K]; [left; exact K|right; rewrite listed_cons, K; apply orb_true_r].
Qed.

Lemma truncate_head_shape c w nm e r w' e' :
  e_fault e = None -> NoDup (names (e_disk e)) -> st_failed w = false ->
  truncate_head c w nm e = (r, w', e') -> st_failed w' = false ->
  exists D rest, st_segs w = D ++ rest /\ Forall (fun s => max_idx (tail_last (st_tail w)) s < nm) D /\
    match rest with
    | [] => exists si, st_segs w' = [si] /\ si_id si = st_next_id w
    | h :: R => nm <= max_idx (tail_last (st_tail w)) h /\ exists h', name_of h' = name_of h /\ st_segs w' = h' :: R
    end.
Proof.
  intros Hf ND Hw H Hw'. unfold truncate_head in H.
  destruct (head_scan nm (tail_last (st_tail w)) (st_segs w) [] 0) as [[[rest del] ntr] head] eqn:Ehs.
  destruct (head_scan_parts _ _ _ _ _ _ _ _ _ Ehs) as (D & E1 & E2 & E3 & E4 & E5).
  exists D, rest. split; [exact E1|]. split; [exact E4|].
  destruct rest as [|h R]; subst head.
  - unfold create_next in H. cbv beta iota zeta in H. change (tail_info []) with (@None seginfo) in H. cbv beta iota in H.
    match type of H with mutate _ _ ?e0 = _ => destruct (mutate_segs _ _ e0 _ _ _ Hf ND Hw H Hw') as (_ & Es) end.
    cbn [tx_segs seg_set] in Es. eexists. split; [exact Es|reflexivity].
  - split; [exact E5|].
    match type of H with mutate _ _ ?e0 = _ => destruct (mutate_segs _ _ e0 _ _ _ Hf ND Hw H Hw') as (_ & Es) end.
    cbn [tx_segs] in Es. rewrite seg_set_head in Es by reflexivity. eexists. split; [|exact Es]. reflexivity.
Qed.

Lemma tt_finish_shape c w del t' ntr' X t0 tw e r w' e' nm :
  e_fault e = None -> NoDup (names (e_disk e)) -> st_failed w = false ->
  tt_finish c w del t' ntr' (X ++ [t0]) tw e = (r, w', e') -> st_failed w' = false ->
  Forall (fun s => si_base s < si_base t0) X -> name_of t' = name_of t0 -> si_max t' = nm ->
  forall n, listed (st_segs w') n = true -> snd n = st_next_id w \/ listed (X ++ [t0]) n = true.
Proof.
  intros Hf ND Hw H Hw' HX Hname Hmax n Hn. unfold tt_finish in H. cbv zeta in H.
  assert (Hbase : si_base t' = si_base t0) by (apply (f_equal fst) in Hname; exact Hname).
  rewrite (seg_set_last t' X t0 HX Hbase) in H.
  unfold create_next in H. rewrite tail_info_app, Hmax in H. cbv beta iota zeta in H.
  match type of H with mutate ?w0 _ ?e0 = _ => destruct (mutate_segs w0 _ e0 _ _ _ Hf ND Hw H Hw') as (_ & Es) end.
  cbn [tx_segs] in Es. rewrite Es in Hn. apply seg_set_listed_inv in Hn. destruct Hn as [->|Hn]; [left; reflexivity|].
  right. rewrite listed_app, listed_single in *. rewrite <- Hname. exact Hn.
Qed.

Lemma truncate_tail_shape c w nm e w' e' :
  e_fault e = None -> NoDup (names (e_disk e)) -> st_failed w = false ->
  StronglySorted lt_base (st_segs w) ->
  truncate_tail c w nm e = (ROk, w', e') -> st_failed w' = false ->
  forall n, listed (st_segs w') n = true ->
    snd n = st_next_id w \/ exists y, In y (st_segs w) /\ name_of y = n /\ si_base y <= nm.
Proof.
  intros Hf ND Hw Hsorted H Hw' n Hn. rewrite truncate_tail_unfold in H. cbv zeta in H.
  destruct (tail_scan nm (last_index (st_segs w) (st_tail w)) (rev (st_segs w)) [] 0) as [[rrest del] ntr] eqn:Ets.
  destruct (tail_scan_parts _ _ _ _ _ _ _ _ Ets) as (Xd & E1 & E2 & E3 & E4).
  assert (Esegs : st_segs w = rev rrest ++ rev Xd).
  { rewrite <- rev_app_distr, <- E1, rev_involutive. reflexivity. }
  destruct rrest as [|t0 rr].
  - unfold create_next in H. change (tail_info []) with (@None seginfo) in H. cbv beta iota zeta in H.
    destruct (mutate_segs w _ e _ _ _ Hf ND Hw H Hw') as (_ & Es). cbn [tx_segs seg_set] in Es.
    rewrite Es, listed_single in Hn. apply fname_eqb_eq in Hn. subst n. left. reflexivity.
  - cbn [rev] in *.
    assert (HX : Forall (fun s => si_base s < si_base t0) (rev rr)).
    { rewrite Forall_forall. intros z Hz. rewrite Esegs, <- app_assoc in Hsorted.
      apply (sorted_app_lt (rev rr) ([t0] ++ rev Xd) z t0 Hsorted Hz). left. reflexivity. }
    assert (Hfin : snd n = st_next_id w \/ listed (rev rr ++ [t0]) n = true ->
                   snd n = st_next_id w \/ exists y, In y (st_segs w) /\ name_of y = n /\ si_base y <= nm).
    { intros [K|K]; [left; exact K|right]. apply listed_spec in K. destruct K as (y & Hy & Hyn).
      exists y. split; [rewrite Esegs; apply in_or_app; left; exact Hy|]. split; [exact Hyn|].
      apply in_app_or in Hy. destruct Hy as [Hy|[<-|[]]]; [|exact E4].
      rewrite Forall_forall in HX. specialize (HX _ Hy). cbn beta in HX. lia. }
    destruct (si_sealed t0).
    + apply Hfin. eapply tt_finish_shape in H; try eassumption; reflexivity.
    + destruct (st_tail w) as [tw|]; [|discriminate].
      destruct (seg_force_seal tw e) as [[r1 tw'] e1] eqn:Efs.
      destruct (seg_force_seal_names _ _ _ _ _ Hf Efs) as (N1 & F1).
      assert (ND1 : NoDup (names (e_disk e1))) by (rewrite N1; exact ND).
      destruct r1; try discriminate.
      apply Hfin. eapply tt_finish_shape in H; try eassumption; reflexivity.
Qed.

(* order of the index ranges along the segment list of a live state *)
Lemma chain_order S t A x B y C :
  S ++ [t] = A ++ x :: B ++ y :: C -> linked (S ++ [t]) -> Forall sst S ->
  si_max x < si_base y /\ si_min y = si_base y /\ In x S.
Proof.
  intros E Hl Hs.
  set (P := A ++ x :: B).
  assert (EP : S ++ [t] = P ++ y :: C) by (unfold P; rewrite <- app_assoc; exact E).
  destruct (exists_last (l := y :: C)) as (C' & z & EC); [discriminate|].
  assert (ES : S = P ++ C').
  { rewrite EC, app_assoc in EP. apply app_inj_tail in EP. apply EP. }
  assert (HsP : Forall sst P) by (rewrite ES in Hs; apply Forall_app in Hs; apply Hs).
  assert (HlP : linked (P ++ [y])).
  { rewrite EP in Hl. replace (P ++ y :: C) with ((P ++ [y]) ++ C) in Hl by (rewrite <- app_assoc; reflexivity).
    eapply linked_app_l; eauto. }
  split.
  - pose proof (linked_app_lt P y HlP HsP) as Hlt. rewrite Forall_forall in Hlt. apply Hlt.
    unfold P. apply in_or_app. right. left. reflexivity.
  - split.
    + destruct (exists_last (l := P)) as (P' & q & EQ); [unfold P; destruct A; discriminate|].
      rewrite EQ, <- app_assoc in HlP. cbn [app] in HlP. apply (linked_mid P' q y [] HlP).
    + rewrite ES. apply in_or_app. left. unfold P. apply in_or_app. right. left. reflexivity.
Qed.

Lemma lv_range {c nb w d S t f tw} (V : lview c nb w d S t f tw) x :
  In x (st_segs w) -> si_min x <= max_idx (tail_last (st_tail w)) x ->
  first_index (st_segs w) (st_tail w) <= si_min x /\
  max_idx (tail_last (st_tail w)) x <= last_index (st_segs w) (st_tail w).
Proof.
  intros Hin Hne. rewrite (lv_segs _ _ _ _ _ _ _ _ V) in *.
  pose proof (lv_twf V) as (_ & _ & Hb1 & _ & Hbm & _).
  pose proof (lv_tok _ _ _ _ _ _ _ _ V) as (Hu & _).
  pose proof (lv_linked _ _ _ _ _ _ _ _ V) as Hl. pose proof (lv_Ssst V) as Hs.
  pose proof (lv_sealed _ _ _ _ _ _ _ _ V) as Hso.
  set (T := tail_last (st_tail w)) in *.
  assert (Hfirst : first_index (S ++ [t]) (st_tail w) <= hd_min S t).
  { unfold first_index, hd_min. fold T. destruct S as [|s S']; cbn [app hd].
    - destruct (negb (si_sealed t) && (T =? 0)); lia.
    - destruct (negb (si_sealed s) && (T =? 0)); lia. }
  apply in_app_or in Hin. destruct Hin as [Hin|[<-|[]]].
  - (* a sealed segment *)
    assert (Hsx : si_sealed x = true) by (rewrite Forall_forall in Hso; apply (Hso x Hin)).
    unfold max_idx in *. rewrite Hsx in *.
    split; [pose proof (hd_min_le S t x Hs Hl Hin); lia|].
    pose proof (linked_app_lt S t Hl Hs) as Hlt. rewrite Forall_forall in Hlt. specialize (Hlt x Hin). cbn beta in Hlt.
    unfold last_index. fold T. destruct (0 <? T) eqn:ET.
    + unfold T in *. rewrite (lv_tail_last V) in *. unfold tl_of in *. destruct (llen (df_ents f) =? 0); lia.
    + rewrite rev_app_distr. cbn [rev app]. destruct (rev S) as [|y ys] eqn:Er.
      { exfalso. apply (f_equal (@rev _)) in Er. rewrite rev_involutive in Er. subst S. destruct Hin. }
      destruct (si_base t =? 0) eqn:Eb; lia.
  - (* the tail *)
    unfold max_idx in *. rewrite Hu in *. split.
    + destruct (list_eq_dec_nil S) as [->|HneS]; [unfold hd_min in Hfirst; cbn [hd] in Hfirst; lia|].
      destruct (lv_hd_min_lt V HneS). lia.
    + unfold last_index. fold T. destruct (0 <? T) eqn:ET; lia.
Qed.

Lemma delete_range_drops c nb w e S t f tw mn mx w' e' :
  lview c nb w (e_disk e) S t f tw -> e_fault e = None -> mx + 1 < two64 ->
  delete_range c w mn mx e = (ROk, w', e') -> st_failed w' = false ->
  forall x, In x (st_segs w) -> seg_inside mn mx (tail_last (st_tail w)) x = true ->
  listed (st_segs w') (name_of x) = false.
Proof.
  intros V Hf Hmx H Hw' x Hin Hins.
  unfold seg_inside in Hins. fold (max_idx (tail_last (st_tail w)) x) in Hins.
  apply andb_true_iff in Hins. destruct Hins as (Hins & I3). apply andb_true_iff in Hins. destruct Hins as (I1 & I2).
  destruct (lv_range V x Hin ltac:(lia)) as (R1 & R2).
  pose proof (lv_sorted V) as Hsorted.
  assert (ND : NoDup (names (e_disk e))) by (eapply DIs_NoDup; apply (lv_dis _ _ _ _ _ _ _ _ V)).
  pose proof (lv_failed _ _ _ _ _ _ _ _ V) as Hw.
  assert (Hwfx : si_base x <= si_min x /\ si_id x < st_next_id w).
  { pose proof (lv_wf _ _ _ _ _ _ _ _ V) as Hwf. rewrite Forall_forall in Hwf. rewrite (lv_segs _ _ _ _ _ _ _ _ V) in Hin.
    destruct (Hwf x Hin) as (_ & _ & _ & _ & A & B). auto. }
  destruct Hwfx as (Hbx & Hidx).
  unfold delete_range in H. rewrite (lv_closed _ _ _ _ _ _ _ _ V) in H.
  destruct (mx <? mn) eqn:Emm; [exfalso; lia|]. rewrite Hw in H.
  destruct ((mx <? first_index (st_segs w) (st_tail w)) || (last_index (st_segs w) (st_tail w) <? mn)) eqn:Eout; [exfalso; lia|].
  destruct (listed (st_segs w') (name_of x)) eqn:El; [exfalso|reflexivity].
  destruct (mn <=? first_index (st_segs w) (st_tail w)) eqn:Emn.
  - (* head truncation *)
    rewrite (N.mod_small (mx + 1) two64) in H by exact Hmx.
    destruct (truncate_head_shape c w (mx + 1) e _ _ _ Hf ND Hw H Hw') as (D & rest & E1 & E2 & E3).
    destruct rest as [|h R].
    + destruct E3 as (si & Es & Eid). rewrite Es, listed_single in El. apply fname_eqb_eq in El.
      apply (f_equal snd) in El. cbn in El. lia.
    + destruct E3 as (Hh & h' & Hn' & Es). rewrite Es, listed_cons, Hn', <- listed_cons in El.
      apply listed_spec in El. destruct El as (y & Hy & Hyn).
      assert (y = x).
      { apply (sorted_base_inj (st_segs w)); [exact Hsorted| |exact Hin|apply (f_equal fst) in Hyn; exact Hyn].
        rewrite E1. apply in_or_app. right. exact Hy. }
      subst y. destruct Hy as [<-|Hy]; [lia|].
      apply in_split in Hy. destruct Hy as (Ra & Rb & ER). subst R.
      rewrite (lv_segs _ _ _ _ _ _ _ _ V) in E1.
      destruct (chain_order S t D h Ra x Rb E1 (lv_linked _ _ _ _ _ _ _ _ V) (lv_Ssst V)) as (C1 & _ & C3).
      pose proof (lv_sealed _ _ _ _ _ _ _ _ V) as Hso. rewrite Forall_forall in Hso. destruct (Hso h C3) as (Hsh & _).
      unfold max_idx in Hh. rewrite Hsh in Hh. lia.
  - (* tail truncation *)
    destruct (last_index (st_segs w) (st_tail w) <=? mx); [|discriminate].
    destruct (truncate_tail_shape c w (mn - 1) e _ _ Hf ND Hw Hsorted H Hw' _ El) as [K|(y & Hy & Hyn & Hyb)].
    + cbn in K. lia.
    + assert (y = x).
      { apply (sorted_base_inj (st_segs w)); [exact Hsorted|exact Hy|exact Hin|apply (f_equal fst) in Hyn; exact Hyn]. }
      subst y. apply in_split in Hin. destruct Hin as (A & B & EA).
      destruct (list_eq_dec_nil A) as [->|HneA].
      * cbn [app] in EA. rewrite EA in Emn, R1. unfold first_index in Emn, R1.
        assert (ET : negb (si_sealed x) && (tail_last (st_tail w) =? 0) = false).
        { unfold max_idx in I3. destruct (si_sealed x); [reflexivity|]. cbn [negb andb]. lia. }
        rewrite ET in Emn, R1. lia.
      * destruct (exists_last HneA) as (A' & z & EZ). subst A. rewrite (lv_segs _ _ _ _ _ _ _ _ V) in EA.
        rewrite <- app_assoc in EA. cbn [app] in EA.
        destruct (chain_order S t A' z [] x B EA (lv_linked _ _ _ _ _ _ _ _ V) (lv_Ssst V)) as (_ & C2 & _). lia.
Qed.

Theorem delete_reclaims : delete_reclaims_stmt.
Proof.
  intros c steps s mn mx Hok Hmode Hret s0 s'.
  assert (Hok0 : hist_ok c steps) by (eapply hist_ok_prefix; exact Hok).
  pose proof (hist_invariant c steps Hok0) as (_ & Hga & _ & HM). rewrite Hmode in HM.
  destruct HM as (_ & HL & Hf & Hsp & _).
  destruct Hok as (Hc & Hwf & Hshort). pose proof Hwf as Hwf2. apply Forall_app in Hwf2. destruct Hwf2 as (_ & Hwo).
  inversion Hwo as [|? ? Ho _]; subst. cbn [hstep_wf sop_ok] in Ho.
  assert (Hb : 2 * N.of_nat (length steps) + 2 < two64).
  { unfold short_enough in Hshort. rewrite app_length in Hshort. cbn [length] in Hshort. unfold two64. lia. }
  set (nb := 2 * N.of_nat (length steps)) in *.
  rewrite <- Hsp in Hga.
  destruct (call_ok_all c (ODelete mn mx) nb s _ Hc Ho Hb HL Hf eq_refl Hga) as (r & s1 & Hst & _ & HL' & _).
  assert (Hde : dir_exact (e_disk (ss_env s')) = true).
  { apply (live_dir_exact c (steps ++ [HOp (ODelete mn mx)]) s' (conj Hc (conj Hwf Hshort))).
    rewrite hist_run_app. unfold hist_run at 1. cbn [fold_left].
    destruct (hstep_run_op c (hist_run c hist_init steps) s (ODelete mn mx) Hmode) as (_ & _ & Hm'). exact Hm'. }
  unfold s' in *. rewrite Hst in *. cbn [fst snd] in *. subst r.
  pose proof (LInv_exact_cov _ _ _ _ HL' Hde) as Hcov.
  assert (H2 : forall n f, lookup n (dk_files (e_disk (ss_env s1))) = Some f -> listed (st_segs (ss_wal s1)) n = true).
  { intros n f Hl. apply Hcov. apply in_names_lookup. congruence. }
  split; [|split; [exact H2|intros x Hx; eapply LInv_listed_files; eauto]].
  intros x Hx Hins.
  destruct (settle_ok c nb s _ Hc HL Hf eq_refl ltac:(lia)) as (HL1 & _ & _ & He1). fold s0 in HL1, He1.
  destruct (LInv_view _ _ _ _ HL1) as (S & t & f & tw & V).
  cbn [step_model] in Hst. fold s0 in Hst.
  destruct (delete_range c (ss_wal s0) mn mx (ss_env s0)) as [[r1 w1] e1] eqn:Ed. inversion Hst; subst r1 s1.
  cbn [ss_wal ss_env] in *. pose proof HL' as (_ & Hfail' & _).
  pose proof (delete_range_drops c _ _ _ S t f tw mn mx w1 e1 V (ext_fault _ _ _ He1) Ho Ed Hfail' x Hx Hins) as Hdrop.
  destruct (lookup (name_of x) (dk_files (e_disk e1))) as [g|] eqn:El; [|reflexivity].
  rewrite (H2 _ _ El) in Hdrop. discriminate.
Qed.

(* ---- the example history of LiveDir.v satisfies the guards ---- *)
Lemma ex_log_ok_5_1 : log_ok (ex_log 5 1). Proof. solve_log_ok. Qed.
Lemma ex_log_ok_6_1 : log_ok (ex_log 6 1). Proof. solve_log_ok. Qed.
Lemma ex_log_ok_7_1 : log_ok (ex_log 7 1). Proof. solve_log_ok. Qed.

Lemma hist_live_trunc_ok : hist_ok cfg128 hist_live_trunc.
Proof.
  unfold hist_live_trunc, hist_live_head, hist_live_stores. cbn [map app].
  split; [exact cfg128_ok|]. split; [|unfold short_enough; cbn [length]; lia].
  repeat (apply Forall_cons; [cbn [hstep_wf sop_ok];
    first [ exact I
          | split; [apply Forall_cons; [first [exact ex_log_ok_1_1|exact ex_log_ok_2_1|exact ex_log_ok_3_1|exact ex_log_ok_4_1
                                              |exact ex_log_ok_5_1|exact ex_log_ok_6_1|exact ex_log_ok_7_1]|apply Forall_nil]
                   |vm_compute; reflexivity]
          | unfold two64; lia ]|]).
  apply Forall_nil.
Qed.

Print Assumptions live_dir_exact.
Print Assumptions delete_reclaims.
