(* CrashCalls4.v -- StoreLogs: arithmetic of the segment writer (no uint32/uint64
   wrap under the guards), check_logs, the append, the base-index reset. *)
From RW Require Import Base.Bytes Base.BytesFacts Fmt.Codec Fmt.CodecFacts Fmt.Frame Wal.Model Wal.Spec Wal.Hist
  Wal.CrashInv Wal.CrashFacts0 Wal.CrashFacts1 Wal.CrashFacts2 Wal.CrashFacts3 Wal.CrashFacts4 Wal.CrashFacts5
  Wal.CrashFacts6 Wal.CrashGlue Wal.CrashCalls1 Wal.CrashCalls3 Gen.Constants.
From Coq Require Import ZifyN ZifyNat ZifyBool.
Open Scope N_scope.

(* ---- sizes ---- *)
Lemma pad_len_lt n : pad_len n < 8.
Proof. unfold pad_len. apply N.mod_lt. lia. Qed.

Lemma enc_frame_size_ge n : 8 <= enc_frame_size n.
Proof. unfold enc_frame_size. lia. Qed.

Lemma index_frame_size_le n : index_frame_size n <= 4 * n + 15.
Proof.
  unfold index_frame_size. destruct (n =? 0); [lia|]. unfold enc_frame_size.
  pose proof (pad_len_lt (n * 4)). lia.
Qed.

Lemma frames_size_acc ls : forall acc,
  fold_left (fun a l => a + enc_frame_size (enc_len l)) ls acc =
  acc + fold_left (fun a l => a + enc_frame_size (enc_len l)) ls 0.
Proof.
  induction ls as [|l ls IH]; intros acc; cbn [fold_left]; [lia|].
  rewrite IH. rewrite (IH (0 + _)). lia.
Qed.

Lemma frames_size_cons l ls : frames_size (l :: ls) = enc_frame_size (enc_len l) + frames_size ls.
Proof. unfold frames_size. cbn [fold_left]. rewrite frames_size_acc. lia. Qed.

Lemma frames_size_ge ls : 8 * llen ls <= frames_size ls.
Proof.
  induction ls as [|l ls IH]; [cbn; lia|].
  rewrite frames_size_cons, llen_cons. pose proof (enc_frame_size_ge (enc_len l)). lia.
Qed.

(* ---- check_logs ---- *)
Fixpoint chk (last : N) (ls : list log) : bool :=
  match ls with
  | [] => true
  | l :: r => ((last =? 0) || (l_index l =? last + 1)) && chk (l_index l) r
  end.

Lemma log_ok_encodes l : log_ok l -> exists b, encode_log l = Some b.
Proof. intros (Hw & _). destruct (decode_encode l Hw) as (b & E & _). eauto. Qed.

Lemma check_logs_spec ls : forall last, last + 1 < two64 -> Forall log_ok ls ->
  exists n, check_logs last ls = (if chk last ls then ROk else RErrNonMono, n).
Proof.
  induction ls as [|l r IH]; intros last Hlast Hok; [exists 0; reflexivity|].
  inversion Hok as [|? ? Hl Hr]; subst. cbn [check_logs chk].
  destruct (log_ok_encodes l Hl) as (b & Eb). destruct Hl as (_ & Hl1 & Hl2 & _).
  rewrite (N.mod_small (last + 1) two64) by exact Hlast.
  destruct (last =? 0) eqn:Z.
  - replace (0 <? last) with false by lia. cbn [andb orb]. rewrite Eb.
    destruct (IH (l_index l) Hl2 Hr) as (n & En). rewrite En. eexists. reflexivity.
  - replace (0 <? last) with true by lia. cbn [andb orb].
    destruct (l_index l =? last + 1) eqn:E.
    + cbn [negb andb]. rewrite Eb. destruct (IH (l_index l) Hl2 Hr) as (n & En). rewrite En. eexists. reflexivity.
    + cbn [negb andb]. eexists. reflexivity.
Qed.

Lemma chk_consecutive r : forall i, 1 <= i -> chk i r = consecutive (i + 1) r.
Proof.
  induction r as [|l r IH]; intros i Hi; [reflexivity|].
  cbn [chk consecutive]. replace (i =? 0) with false by lia. cbn [orb].
  destruct (l_index l =? i + 1) eqn:E; [|reflexivity]. cbn [andb].
  apply N.eqb_eq in E. rewrite E. apply IH. lia.
Qed.

Lemma chk_store last l0 r : 1 <= l_index l0 ->
  chk last (l0 :: r) = ((last =? 0) || (l_index l0 =? last + 1)) && consecutive (l_index l0) (l0 :: r).
Proof.
  intros H. cbn [chk consecutive]. rewrite N.eqb_refl. cbn [andb]. rewrite chk_consecutive by exact H. reflexivity.
Qed.

Lemma consecutive_bound ls : forall i, ls <> [] -> consecutive i ls = true ->
  Forall log_ok ls -> i + llen ls < two64.
Proof.
  induction ls as [|l r IH]; intros i Hne Hc Hok; [congruence|].
  cbn [consecutive] in Hc. apply andb_true_iff in Hc. destruct Hc as (Hi & Hc). apply N.eqb_eq in Hi.
  inversion Hok as [|? ? (_ & _ & Hl & _) Hr]; subst. rewrite llen_cons.
  destruct r as [|l' r'].
  - change (llen (@nil log)) with 0. lia.
  - specialize (IH (l_index l + 1) ltac:(discriminate) Hc Hr). lia.
Qed.

Lemma append_sizes L off n k F h :
  L < two30 -> 8 * n <= off -> off <= L + 8 -> 8 * k <= F -> F < two30 -> 1 <= k -> (h = 0 \/ h = 32) ->
  let n' := n + k in
  let buf := h + F in
  let seal := L <? (off + (buf + index_frame_size n') mod two32) mod two32 in
  let buf2 := if seal then buf + index_frame_size n' else buf in
  let istart := if seal then off + buf + 8 else 0 in
  let total := buf2 + 8 in
  let end' := (off + total) mod two32 in
  8 * n' <= end' /\ end' < two32 /\ (istart = 0 -> end' <= L + 8) /\ end' <> 0.
Proof.
  intros HL Hn Hoff Hk HF Hk1 Hh. cbv zeta.
  pose proof (index_frame_size_le (n + k)) as Hidx. revert Hidx. generalize (index_frame_size (n + k)). intros X Hidx.
  assert (T32 : two32 = 4294967296) by reflexivity. assert (T30 : two30 = 1073741824) by reflexivity.
  rewrite (N.mod_small (h + F + X) two32) by lia.
  rewrite (N.mod_small (off + (h + F + X)) two32) by lia.
  destruct (L <? off + (h + F + X)) eqn:Es.
  - rewrite (N.mod_small (off + (h + F + X + 8)) two32) by lia. repeat split; lia.
  - rewrite (N.mod_small (off + (h + F + 8)) two32) by lia. repeat split; lia.
Qed.

Lemma skipn_app_le {A} k (a b : list A) : (k <= length a)%nat -> skipn k (a ++ b) = skipn k a ++ b.
Proof.
  intros H. rewrite skipn_app. replace (k - length a)%nat with O by lia. reflexivity.
Qed.

Lemma toobig_false ls : Forall log_ok ls -> existsb (fun l => MaxEntrySize <? enc_len l) ls = false.
Proof.
  induction ls as [|l r IH]; intros H; [reflexivity|]. inversion H as [|? ? (_ & _ & _ & Hl) Hr]; subst.
  cbn [existsb]. rewrite IH by exact Hr. destruct (MaxEntrySize <? enc_len l) eqn:E; [lia|reflexivity].
Qed.

Lemma no_pend_update d d' n f' :
  dk_files d' = update n f' (dk_files d) -> df_pend f' = None ->
  (forall m g, m <> n -> lookup m (dk_files d) = Some g -> df_pend g = None) -> no_pend d'.
Proof.
  intros Hf Hp H m g. rewrite Hf, lookup_update. destruct (fname_eqb m n) eqn:E.
  - intros Hg; inversion Hg; subst. exact Hp.
  - apply fname_eqb_neq in E. apply H. exact E.
Qed.

Lemma seg_append_ok c nb (A : spst -> Prop) w e0 e S t f tw l0 r :
  cfg_ok c -> lview c nb w (e_disk e) S t f tw -> ext (DP c nb A) e0 e ->
  df_seal f = 0 -> Forall log_ok (l0 :: r) -> frames_size (l0 :: r) < two30 ->
  l_index l0 = si_base t + llen (df_ents f) -> consecutive (l_index l0) (l0 :: r) = true ->
  let a' := {| sp_log := slog_of (hd_min S t) (lv_es (e_disk e) S t f ++ (l0 :: r)); sp_kv := dk_stable (e_disk e) |} in
  A (sp_of (e_disk e)) -> A a' ->
  exists tw' e',
    seg_append tw (l0 :: r) e = (ROk, tw', e') /\ ext (DP c nb A) e0 e' /\
    LInv c nb {| st_next_id := st_next_id w; st_segs := st_segs w; st_tail := Some tw';
                 st_rotate := if 0 <? ws_index_start tw' then Some (ws_index_start tw') else None;
                 st_failed := st_failed w; st_closed := st_closed w |} (e_disk e') /\
    sp_of (e_disk e') = a' /\ e_m e' = e_m e.
Proof.
  intros Hc V He Hse Hok HF Hidx Hcons a' HAa HAa'.
  set (ls := l0 :: r) in *. set (d := e_disk e) in *.
  pose proof (ext_fault _ _ _ He) as Hf.
  pose proof (lv_tw _ _ _ _ _ _ _ _ V) as (Tn & Tb & Tm & Tl & Tnn & To & Ti & Tc).
  pose proof (lv_twf V) as (_ & Hlim & Hb1 & _ & Hbm & _).
  pose proof (lv_file _ _ _ _ _ _ _ _ V) as Hfile. pose proof (lv_pend _ _ _ _ _ _ _ _ V) as Hp.
  pose proof (lv_tok _ _ _ _ _ _ _ _ V) as Htok. pose proof Htok as (Hu & Ht'). rewrite Hfile in Ht'.
  destruct Ht' as ((Z1 & Z2 & Z3 & Z4 & Z5) & _ & Hdir & _ & Hmc & _).
  specialize (Z3 Hse).
  destruct Hc as (Hc1 & Hc2 & Hc3 & Hc4).
  assert (Hk1 : 1 <= llen ls) by (unfold ls; rewrite llen_cons; lia).
  assert (Hh : (if ws_hdr tw then 32 else 0) = 0 \/ (if ws_hdr tw then 32 else 0) = 32) by (destruct (ws_hdr tw); auto).
  destruct (append_sizes (c_seg_size c) (df_end f) (llen (df_ents f)) (llen ls) (frames_size ls)
              (if ws_hdr tw then 32 else 0) Hc4 Z1 Z3 (frames_size_ge ls) HF Hk1 Hh) as (Q1 & Q2 & Q3 & Q4).
  assert (Hbound : si_base t + llen (df_ents f ++ ls) < two64).
  { rewrite llen_app. assert (Hne : ls <> []) by (unfold ls; discriminate).
    pose proof (consecutive_bound ls (l_index l0) Hne Hcons Hok). lia. }
  assert (Hk : (N.to_nat (si_min t - si_base t) <= length (df_ents f))%nat).
  { unfold llen in Hmc. destruct (N.of_nat (length (df_ents f)) =? 0) eqn:Z; lia. }
  assert (Hn'0 : (llen (df_ents f) + llen ls =? 0) = false) by lia.
  unfold seg_append. fold ls. unfold ls at 1.
  rewrite Ti, Hse. change (0 <? 0) with false. cbn iota.
  rewrite (toobig_false ls Hok). rewrite Tb, Tnn, Hidx, N.eqb_refl. cbn [negb].
  rewrite Tl, Hlim, To, Tn.
  set (n' := llen (df_ents f) + llen ls) in *.
  set (buf := (if ws_hdr tw then 32 else 0) + frames_size ls) in *.
  set (seal := c_seg_size c <? (df_end f + (buf + index_frame_size n') mod two32) mod two32) in *.
  set (buf2 := if seal then buf + index_frame_size n' else buf) in *.
  set (istart := if seal then df_end f + buf + 8 else 0) in *.
  set (total := buf2 + 8) in *.
  set (b := {| pb_ents := ls; pb_end := (df_end f + total) mod two32; pb_seal := istart |}).
  rewrite (io_ok _ e Hf). cbn [negb].
  set (e1 := io_env (AWrite (name_of t) (df_end f) total b) e).
  rewrite (io_ok _ e1 eq_refl). cbn [negb].
  set (e2 := io_env (ASync (name_of t)) e1).
  pose proof (lv_dis _ _ _ _ _ _ _ _ V) as HD. pose proof (lv_meta _ _ _ _ _ _ _ _ V) as Hm.
  set (ps := {| ps_next_id := st_next_id w; ps_segs := S ++ [t] |}) in *.
  assert (Hfz : fsz_ok (c_seg_size c) (df_ents f ++ pb_ents b) (pb_end b) (pb_seal b)).
  { cbn [b pb_ents pb_end pb_seal]. unfold fsz_ok. rewrite llen_app. fold n'.
    split; [exact Q1|]. split; [exact Q2|]. split; [exact Q3|].
    split; [intros _; exact Q4|]. intros _. unfold ls. destruct (df_ents f); discriminate. }
  (* after the write *)
  assert (HD1 : DIs c nb (e_disk e1)).
  { apply (DIs_write_tail c nb d ps S t f (df_end f) total b HD Hm eq_refl Hfile Hp Hse Hfz Hbound). }
  assert (Ed1 : e_disk e1 = {| dk_files := update (name_of t) (with_pend f b) (dk_files d); dk_meta := dk_meta d;
                              dk_stable := dk_stable d; dk_inited := dk_inited d |}).
  { apply (apply_write d (name_of t) (df_end f) total b f Hfile Hp). }
  assert (Hm1 : dk_meta (e_disk e1) = Some ps) by (rewrite Ed1; exact Hm).
  assert (Hneq : forall s, In s S -> name_of s <> name_of t) by (intros s0 Hs0; apply (DIs_sealed_neq c nb d ps S t s0 HD Hm eq_refl Hs0)).
  destruct (dread_tail_file c nb (e_disk e1) ps S t HD1 Hm1 eq_refl) as (R1 & R1u).
  assert (Hse1 : sealed_es (e_disk e1) S = sealed_es d S).
  { apply (sealed_es_update d (e_disk e1) S t (with_pend f b)); [rewrite Ed1; reflexivity|exact Hneq]. }
  assert (Ht1 : tail_es (e_disk e1) t = skipn (N.to_nat (si_min t - si_base t)) (df_ents f) ++ ls).
  { unfold tail_es, file_ents. rewrite Ed1. cbn [dk_files]. rewrite lookup_update_eq.
    unfold cur_ents. cbn [with_pend df_pend df_ents b pb_ents]. apply skipn_app_le. exact Hk. }
  assert (Ht1u : tail_es (unpend (e_disk e1)) t = skipn (N.to_nat (si_min t - si_base t)) (df_ents f)).
  { unfold tail_es. rewrite file_ents_unpend. rewrite Ed1. cbn [dk_files]. rewrite lookup_update_eq. reflexivity. }
  assert (Hst1 : dk_stable (e_disk e1) = dk_stable d) by (rewrite Ed1; reflexivity).
  assert (Hs1 : sp_of (e_disk e1) = a').
  { unfold sp_of. rewrite R1, Hse1, Ht1, Hst1. unfold a', lv_es. fold d. rewrite app_assoc. reflexivity. }
  assert (Hs1u : sp_of (unpend (e_disk e1)) = sp_of d).
  { unfold sp_of. rewrite R1u, Hse1, Ht1u. cbn [unpend dk_stable]. rewrite Hst1.
    rewrite (lv_read _ _ _ _ _ _ _ _ V). reflexivity. }
  assert (HP1 : DP c nb A (e_disk e1)).
  { split; [exact HD1|]. split; [rewrite Hs1; exact HAa'|rewrite Hs1u; exact HAa]. }
  assert (He1 : ext (DP c nb A) e0 e1) by (apply ext_io; [exact He|exact I|exact HP1]).
  (* after the sync *)
  assert (Hf1 : lookup (name_of t) (dk_files (e_disk e1)) = Some (with_pend f b)).
  { rewrite Ed1. cbn [dk_files]. apply lookup_update_eq. }
  assert (HD2 : DIs c nb (e_disk e2)).
  { apply (DIs_sync_tail c nb (e_disk e1) ps S t (with_pend f b) HD1 Hm1 eq_refl Hf1). }
  set (f2 := synced_file (with_pend f b)).
  assert (Ed2 : e_disk e2 = {| dk_files := update (name_of t) f2 (dk_files (e_disk e1)); dk_meta := dk_meta (e_disk e1);
                              dk_stable := dk_stable (e_disk e1); dk_inited := dk_inited (e_disk e1) |}).
  { apply (apply_sync (e_disk e1) (name_of t) (with_pend f b) Hf1). }
  assert (Hm2 : dk_meta (e_disk e2) = Some ps) by (rewrite Ed2; exact Hm1).
  assert (HN2 : no_pend (e_disk e2)).
  { apply (no_pend_update (e_disk e1) (e_disk e2) (name_of t) f2); [rewrite Ed2; reflexivity|reflexivity|].
    intros m g Hmn. rewrite Ed1. cbn [dk_files]. rewrite lookup_update_neq by exact Hmn.
    apply (lv_nopend _ _ _ _ _ _ _ _ V). }
  destruct (dread_tail_file c nb (e_disk e2) ps S t HD2 Hm2 eq_refl) as (R2 & _).
  assert (Hse2 : sealed_es (e_disk e2) S = sealed_es d S).
  { rewrite <- Hse1. apply (sealed_es_update (e_disk e1) (e_disk e2) S t f2); [rewrite Ed2; reflexivity|exact Hneq]. }
  assert (Ht2 : tail_es (e_disk e2) t = skipn (N.to_nat (si_min t - si_base t)) (df_ents f) ++ ls).
  { unfold tail_es, file_ents. rewrite Ed2. cbn [dk_files]. rewrite lookup_update_eq.
    unfold f2, synced_file, cur_ents. cbn [with_pend df_pend df_ents b pb_ents]. apply skipn_app_le. exact Hk. }
  assert (Hs2 : sp_of (e_disk e2) = a').
  { unfold sp_of. rewrite R2, Hse2, Ht2. rewrite Ed2. cbn [dk_stable]. rewrite Hst1.
    unfold a', lv_es. fold d. rewrite app_assoc. reflexivity. }
  assert (HP2 : DP c nb A (e_disk e2)) by (apply DP_no_pend; [exact HD2|exact HN2|rewrite Hs2; exact HAa']).
  assert (He2 : ext (DP c nb A) e0 e2) by (apply ext_io; [exact He1|exact I|exact HP2]).
  eexists _, e2. split; [reflexivity|]. split; [exact He2|]. split; [|split; [exact Hs2|reflexivity]].
  cbn [ws_index_start].
  split; [apply (lv_closed _ _ _ _ _ _ _ _ V)|]. split; [apply (lv_failed _ _ _ _ _ _ _ _ V)|].
  split; [exact HD2|]. split; [exact HN2|].
  split; [rewrite Hm2; unfold persistent, ps; cbn; rewrite (lv_segs _ _ _ _ _ _ _ _ V); reflexivity|].
  exists t, f2. eexists. split; [cbn [st_segs]; rewrite (lv_segs _ _ _ _ _ _ _ _ V); apply tail_info_app|].
  split; [rewrite Ed2; cbn [dk_files]; apply lookup_update_eq|]. split; [reflexivity|].
  split; [|reflexivity].
  unfold tw_ok. cbn [ws_name ws_base ws_min ws_limit ws_n ws_off ws_index_start ws_commit_idx].
  unfold f2, synced_file, cur_ents, cur_end, cur_seal. cbn [with_pend df_pend df_ents df_end df_seal b pb_ents pb_end pb_seal].
  rewrite llen_app. fold n'.
  split; [reflexivity|]. split; [reflexivity|]. split; [exact Tm|]. split; [symmetry; exact Hlim|].
  split; [reflexivity|]. split; [reflexivity|]. split; [reflexivity|].
  unfold tl_of. rewrite llen_app. fold n' in Hn'0 |- *. rewrite Hn'0. reflexivity.
Qed.
