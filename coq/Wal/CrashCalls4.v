(* CrashCalls4.v -- StoreLogs: arithmetic of the segment writer (no uint32/uint64
   wrap under the guards), check_logs, the append, the base-index reset. *)
From RW Require Import Base.Bytes Base.BytesFacts Fmt.Codec Fmt.CodecFacts Fmt.Frame Wal.Model Wal.Spec Wal.Hist
  Wal.CrashInv Wal.CrashFacts0 Wal.CrashFacts1 Wal.CrashFacts2 Wal.CrashFacts3 Wal.CrashFacts4 Wal.CrashFacts5
  Wal.CrashFacts6 Wal.CrashGlue Wal.CrashCalls1 Wal.CrashCalls3 Gen.Constants.
From Coq Require Import ZifyN ZifyNat ZifyBool.
Open Scope N_scope.

(* ---- sizes ---- *)
Lemma pad_len_lt n : pad_len n < 8.
Proof. unfold pad_len. apply N.mod_lt. lia. Qed.

Lemma enc_frame_size_ge n : 8 <= enc_frame_size n.
Proof. unfold enc_frame_size. lia. Qed.

Lemma index_frame_size_le n : index_frame_size n <= 4 * n + 15.
Proof.
  unfold index_frame_size. destruct (n =? 0); [lia|]. unfold enc_frame_size.
  pose proof (pad_len_lt (n * 4)). lia.
Qed.

Lemma frames_size_acc ls : forall acc,
  fold_left (fun a l => a + enc_frame_size (enc_len l)) ls acc =
  acc + fold_left (fun a l => a + enc_frame_size (enc_len l)) ls 0.
Proof.
  induction ls as [|l ls IH]; intros acc; cbn [fold_left]; [lia|].
  rewrite IH. rewrite (IH (0 + _)). lia.
Qed.

Lemma frames_size_cons l ls : frames_size (l :: ls) = enc_frame_size (enc_len l) + frames_size ls.
Proof. unfold frames_size. cbn [fold_left]. rewrite frames_size_acc. lia. Qed.

Lemma frames_size_ge ls : 8 * llen ls <= frames_size ls.
Proof.
  induction ls as [|l ls IH]; [cbn; lia|].
  rewrite frames_size_cons, llen_cons. pose proof (enc_frame_size_ge (enc_len l)). lia.
Qed.

(* ---- check_logs ---- *)
Fixpoint chk (last : N) (ls : list log) : bool :=
  match ls with
  | [] => true
  | l :: r => ((last =? 0) || (l_index l =? last + 1)) && chk (l_index l) r
  end.

Lemma log_ok_encodes l : log_ok l -> exists b, encode_log l = Some b.
Proof. intros (Hw & _). destruct (decode_encode l Hw) as (b & E & _). eauto. Qed.

Lemma check_logs_spec ls : forall last, last + 1 < two64 -> Forall log_ok ls ->
  exists n, check_logs last ls = (if chk last ls then ROk else RErrNonMono, n).
Proof.
  induction ls as [|l r IH]; intros last Hlast Hok; [exists 0; reflexivity|].
  inversion Hok as [|? ? Hl Hr]; subst. cbn [check_logs chk].
  destruct (log_ok_encodes l Hl) as (b & Eb). destruct Hl as (_ & Hl1 & Hl2 & _).
  rewrite (N.mod_small (last + 1) two64) by exact Hlast.
  destruct (last =? 0) eqn:Z.
  - replace (0 <? last) with false by lia. cbn [andb orb]. rewrite Eb.
    destruct (IH (l_index l) Hl2 Hr) as (n & En). rewrite En. eexists. reflexivity.
  - replace (0 <? last) with true by lia. cbn [andb orb].
    destruct (l_index l =? last + 1) eqn:E.
    + cbn [negb andb]. rewrite Eb. destruct (IH (l_index l) Hl2 Hr) as (n & En). rewrite En. eexists. reflexivity.
    + cbn [negb andb]. eexists. reflexivity.
Qed.

Lemma chk_consecutive r : forall i, 1 <= i -> chk i r = consecutive (i + 1) r.
Proof.
  induction r as [|l r IH]; intros i Hi; [reflexivity|].
  cbn [chk consecutive]. replace (i =? 0) with false by lia. cbn [orb].
  destruct (l_index l =? i + 1) eqn:E; [|reflexivity]. cbn [andb].
  apply N.eqb_eq in E. rewrite E. apply IH. lia.
Qed.

Lemma chk_store last l0 r : 1 <= l_index l0 ->
  chk last (l0 :: r) = ((last =? 0) || (l_index l0 =? last + 1)) && consecutive (l_index l0) (l0 :: r).
Proof.
  intros H. cbn [chk consecutive]. rewrite N.eqb_refl. cbn [andb]. rewrite chk_consecutive by exact H. reflexivity.
Qed.

Lemma consecutive_bound ls : forall i, ls <> [] -> consecutive i ls = true ->
  Forall log_ok ls -> i + llen ls < two64.
Proof.
  induction ls as [|l r IH]; intros i Hne Hc Hok; [congruence|].
  cbn [consecutive] in Hc. apply andb_true_iff in Hc. destruct Hc as (Hi & Hc). apply N.eqb_eq in Hi.
  inversion Hok as [|? ? (_ & _ & Hl & _) Hr]; subst. rewrite llen_cons.
  destruct r as [|l' r'].
  - change (llen (@nil log)) with 0. lia.
  - specialize (IH (l_index l + 1) ltac:(discriminate) Hc Hr). lia.
Qed.

Lemma append_sizes L off n k F h :
  L < two30 -> 8 * n <= off -> off <= L + 8 -> 8 * k <= F -> F < two30 -> 1 <= k -> (h = 0 \/ h = 32) ->
  let n' := n + k in
  let buf := h + F in
  let seal := L <? (off + (buf + index_frame_size n') mod two32) mod two32 in
  let buf2 := if seal then buf + index_frame_size n' else buf in
  let istart := if seal then off + buf + 8 else 0 in
  let total := buf2 + 8 in
  let end' := (off + total) mod two32 in
  8 * n' <= end' /\ end' < two32 /\ (istart = 0 -> end' <= L + 8) /\ end' <> 0.
Proof.
  intros HL Hn Hoff Hk HF Hk1 Hh. cbv zeta.
  pose proof (index_frame_size_le (n + k)) as Hidx. revert Hidx. generalize (index_frame_size (n + k)). intros X Hidx.
  assert (T32 : two32 = 4294967296) by reflexivity. assert (T30 : two30 = 1073741824) by reflexivity.
  rewrite (N.mod_small (h + F + X) two32) by lia.
  rewrite (N.mod_small (off + (h + F + X)) two32) by lia.
  destruct (L <? off + (h + F + X)) eqn:Es.
  - rewrite (N.mod_small (off + (h + F + X + 8)) two32) by lia. repeat split; lia.
  - rewrite (N.mod_small (off + (h + F + 8)) two32) by lia. repeat split; lia.
Qed.

Lemma skipn_app_le {A} k (a b : list A) : (k <= length a)%nat -> skipn k (a ++ b) = skipn k a ++ b.
Proof.
  intros H. rewrite skipn_app. replace (k - length a)%nat with O by lia. reflexivity.
Qed.

Lemma toobig_false ls : Forall log_ok ls -> existsb (fun l => MaxEntrySize <? enc_len l) ls = false.
Proof.
  induction ls as [|l r IH]; intros H; [reflexivity|]. inversion H as [|? ? (_ & _ & _ & Hl) Hr]; subst.
  cbn [existsb]. rewrite IH by exact Hr. destruct (MaxEntrySize <? enc_len l) eqn:E; [lia|reflexivity].
Qed.

Lemma no_pend_update d d' n f' :
  dk_files d' = update n f' (dk_files d) -> df_pend f' = None ->
  (forall m g, m <> n -> lookup m (dk_files d) = Some g -> df_pend g = None) -> no_pend d'.
Proof.
  intros Hf Hp H m g. rewrite Hf, lookup_update. destruct (fname_eqb m n) eqn:E.
  - intros Hg; inversion Hg; subst. exact Hp.
  - apply fname_eqb_neq in E. apply H. exact E.
Qed.

Lemma seg_append_ok c nb (A : spst -> Prop) w e0 e S t f tw l0 r :
  cfg_ok c -> lview c nb w (e_disk e) S t f tw -> ext (DP c nb A) e0 e ->
  df_seal f = 0 -> Forall log_ok (l0 :: r) -> frames_size (l0 :: r) < two30 ->
  l_index l0 = si_base t + llen (df_ents f) -> consecutive (l_index l0) (l0 :: r) = true ->
  let a' := {| sp_log := slog_of (hd_min S t) (lv_es (e_disk e) S t f ++ (l0 :: r)); sp_kv := dk_stable (e_disk e) |} in
  A (sp_of (e_disk e)) -> A a' ->
  exists tw' e',
    seg_append tw (l0 :: r) e = (ROk, tw', e') /\ ext (DP c nb A) e0 e' /\
    LInv c nb {| st_next_id := st_next_id w; st_segs := st_segs w; st_tail := Some tw';
                 st_rotate := if 0 <? ws_index_start tw' then Some (ws_index_start tw') else None;
                 st_failed := st_failed w; st_closed := st_closed w |} (e_disk e') /\
    sp_of (e_disk e') = a' /\ e_m e' = e_m e.
Proof.
  intros Hc V He Hse Hok HF Hidx Hcons a' HAa HAa'.
  set (ls := l0 :: r) in *. set (d := e_disk e) in *.
  pose proof (ext_fault _ _ _ He) as Hf.
  pose proof (lv_tw _ _ _ _ _ _ _ _ V) as (Tn & Tb & Tm & Tl & Tnn & To & Ti & Tc).
  pose proof (lv_twf V) as (_ & Hlim & Hb1 & _ & Hbm & _).
  pose proof (lv_file _ _ _ _ _ _ _ _ V) as Hfile. pose proof (lv_pend _ _ _ _ _ _ _ _ V) as Hp.
  pose proof (lv_tok _ _ _ _ _ _ _ _ V) as Htok. pose proof Htok as (Hu & Ht'). rewrite Hfile in Ht'.
  destruct Ht' as ((Z1 & Z2 & Z3 & Z4 & Z5) & _ & Hdir & _ & Hmc & _).
  specialize (Z3 Hse).
  destruct Hc as (Hc1 & Hc2 & Hc3 & Hc4).
  assert (Hk1 : 1 <= llen ls) by (unfold ls; rewrite llen_cons; lia).
  assert (Hh : (if ws_hdr tw then 32 else 0) = 0 \/ (if ws_hdr tw then 32 else 0) = 32) by (destruct (ws_hdr tw); auto).
  destruct (append_sizes (c_seg_size c) (df_end f) (llen (df_ents f)) (llen ls) (frames_size ls)
              (if ws_hdr tw then 32 else 0) Hc4 Z1 Z3 (frames_size_ge ls) HF Hk1 Hh) as (Q1 & Q2 & Q3 & Q4).
  assert (Hbound : si_base t + llen (df_ents f ++ ls) < two64).
  { rewrite llen_app. assert (Hne : ls <> []) by (unfold ls; discriminate).
    pose proof (consecutive_bound ls (l_index l0) Hne Hcons Hok). lia. }
  assert (Hk : (N.to_nat (si_min t - si_base t) <= length (df_ents f))%nat).
  { unfold llen in Hmc. destruct (N.of_nat (length (df_ents f)) =? 0) eqn:Z; lia. }
  assert (Hn'0 : (llen (df_ents f) + llen ls =? 0) = false) by lia.
  unfold seg_append. fold ls. unfold ls at 1.
  rewrite Ti, Hse. change (0 <? 0) with false. cbn iota.
  rewrite (toobig_false ls Hok). rewrite Tb, Tnn, Hidx, N.eqb_refl. cbn [negb].
  rewrite Tl, Hlim, To, Tn.
  set (n' := llen (df_ents f) + llen ls) in *.
  set (buf := (if ws_hdr tw then 32 else 0) + frames_size ls) in *.
  set (seal := c_seg_size c <? (df_end f + (buf + index_frame_size n') mod two32) mod two32) in *.
  set (buf2 := if seal then buf + index_frame_size n' else buf) in *.
  set (istart := if seal then df_end f + buf + 8 else 0) in *.
  set (total := buf2 + 8) in *.
  set (b := {| pb_ents := ls; pb_end := (df_end f + total) mod two32; pb_seal := istart |}).
  rewrite (io_ok _ e Hf). cbn [negb].
  set (e1 := io_env (AWrite (name_of t) (df_end f) total b) e).
  rewrite (io_ok _ e1 eq_refl). cbn [negb].
  set (e2 := io_env (ASync (name_of t)) e1).
  pose proof (lv_dis _ _ _ _ _ _ _ _ V) as HD. pose proof (lv_meta _ _ _ _ _ _ _ _ V) as Hm.
  set (ps := {| ps_next_id := st_next_id w; ps_segs := S ++ [t] |}) in *.
  assert (Hfz : fsz_ok (c_seg_size c) (df_ents f ++ pb_ents b) (pb_end b) (pb_seal b)).
  { cbn [b pb_ents pb_end pb_seal]. unfold fsz_ok. rewrite llen_app. fold n'.
    split; [exact Q1|]. split; [exact Q2|]. split; [exact Q3|].
    split; [intros _; exact Q4|]. intros _. unfold ls. destruct (df_ents f); discriminate. }
  (* after the write *)
  assert (HD1 : DIs c nb (e_disk e1)).
  { apply (DIs_write_tail c nb d ps S t f (df_end f) total b HD Hm eq_refl Hfile Hp Hse Hfz Hbound). }
  assert (Ed1 : e_disk e1 = {| dk_files := update (name_of t) (with_pend f b) (dk_files d); dk_meta := dk_meta d;
                              dk_stable := dk_stable d; dk_inited := dk_inited d |}).
  { apply (apply_write d (name_of t) (df_end f) total b f Hfile Hp). }
  assert (Hm1 : dk_meta (e_disk e1) = Some ps) by (rewrite Ed1; exact Hm).
  assert (Hneq : forall s, In s S -> name_of s <> name_of t) by (intros s0 Hs0; apply (DIs_sealed_neq c nb d ps S t s0 HD Hm eq_refl Hs0)).
  destruct (dread_tail_file c nb (e_disk e1) ps S t HD1 Hm1 eq_refl) as (R1 & R1u).
  assert (Hse1 : sealed_es (e_disk e1) S = sealed_es d S).
  { apply (sealed_es_update d (e_disk e1) S t (with_pend f b)); [rewrite Ed1; reflexivity|exact Hneq]. }
  assert (Ht1 : tail_es (e_disk e1) t = skipn (N.to_nat (si_min t - si_base t)) (df_ents f) ++ ls).
  { unfold tail_es, file_ents. rewrite Ed1. cbn [dk_files]. rewrite lookup_update_eq.
    unfold cur_ents. cbn [with_pend df_pend df_ents b pb_ents]. apply skipn_app_le. exact Hk. }
  assert (Ht1u : tail_es (unpend (e_disk e1)) t = skipn (N.to_nat (si_min t - si_base t)) (df_ents f)).
  { unfold tail_es. rewrite file_ents_unpend. rewrite Ed1. cbn [dk_files]. rewrite lookup_update_eq. reflexivity. }
  assert (Hst1 : dk_stable (e_disk e1) = dk_stable d) by (rewrite Ed1; reflexivity).
  assert (Hs1 : sp_of (e_disk e1) = a').
  { unfold sp_of. rewrite R1, Hse1, Ht1, Hst1. unfold a', lv_es. fold d. rewrite app_assoc. reflexivity. }
  assert (Hs1u : sp_of (unpend (e_disk e1)) = sp_of d).
  { unfold sp_of. rewrite R1u, Hse1, Ht1u. cbn [unpend dk_stable]. rewrite Hst1.
    rewrite (lv_read _ _ _ _ _ _ _ _ V). reflexivity. }
  assert (HP1 : DP c nb A (e_disk e1)).
  { split; [exact HD1|]. split; [rewrite Hs1; exact HAa'|rewrite Hs1u; exact HAa]. }
  assert (He1 : ext (DP c nb A) e0 e1) by (apply ext_io; [exact He|exact I|exact HP1]).
  (* after the sync *)
  assert (Hf1 : lookup (name_of t) (dk_files (e_disk e1)) = Some (with_pend f b)).
  { rewrite Ed1. cbn [dk_files]. apply lookup_update_eq. }
  assert (HD2 : DIs c nb (e_disk e2)).
  { apply (DIs_sync_tail c nb (e_disk e1) ps S t (with_pend f b) HD1 Hm1 eq_refl Hf1). }
  set (f2 := synced_file (with_pend f b)).
  assert (Ed2 : e_disk e2 = {| dk_files := update (name_of t) f2 (dk_files (e_disk e1)); dk_meta := dk_meta (e_disk e1);
                              dk_stable := dk_stable (e_disk e1); dk_inited := dk_inited (e_disk e1) |}).
  { apply (apply_sync (e_disk e1) (name_of t) (with_pend f b) Hf1). }
  assert (Hm2 : dk_meta (e_disk e2) = Some ps) by (rewrite Ed2; exact Hm1).
  assert (HN2 : no_pend (e_disk e2)).
  { apply (no_pend_update (e_disk e1) (e_disk e2) (name_of t) f2); [rewrite Ed2; reflexivity|reflexivity|].
    intros m g Hmn. rewrite Ed1. cbn [dk_files]. rewrite lookup_update_neq by exact Hmn.
    apply (lv_nopend _ _ _ _ _ _ _ _ V). }
  destruct (dread_tail_file c nb (e_disk e2) ps S t HD2 Hm2 eq_refl) as (R2 & _).
  assert (Hse2 : sealed_es (e_disk e2) S = sealed_es d S).
  { rewrite <- Hse1. apply (sealed_es_update (e_disk e1) (e_disk e2) S t f2); [rewrite Ed2; reflexivity|exact Hneq]. }
  assert (Ht2 : tail_es (e_disk e2) t = skipn (N.to_nat (si_min t - si_base t)) (df_ents f) ++ ls).
  { unfold tail_es, file_ents. rewrite Ed2. cbn [dk_files]. rewrite lookup_update_eq.
    unfold f2, synced_file, cur_ents. cbn [with_pend df_pend df_ents b pb_ents]. apply skipn_app_le. exact Hk. }
  assert (Hs2 : sp_of (e_disk e2) = a').
  { unfold sp_of. rewrite R2, Hse2, Ht2. rewrite Ed2. cbn [dk_stable]. rewrite Hst1.
    unfold a', lv_es. fold d. rewrite app_assoc. reflexivity. }
  assert (HP2 : DP c nb A (e_disk e2)) by (apply DP_no_pend; [exact HD2|exact HN2|rewrite Hs2; exact HAa']).
  assert (He2 : ext (DP c nb A) e0 e2) by (apply ext_io; [exact He1|exact I|exact HP2]).
  eexists _, e2. split; [reflexivity|]. split; [exact He2|]. split; [|split; [exact Hs2|reflexivity]].
  cbn [ws_index_start].
  split; [apply (lv_closed _ _ _ _ _ _ _ _ V)|]. split; [apply (lv_failed _ _ _ _ _ _ _ _ V)|].
  split; [exact HD2|]. split; [exact HN2|].
  split; [rewrite Hm2; unfold persistent, ps; cbn; rewrite (lv_segs _ _ _ _ _ _ _ _ V); reflexivity|].
  exists t, f2. eexists. split; [cbn [st_segs]; rewrite (lv_segs _ _ _ _ _ _ _ _ V); apply tail_info_app|].
  split; [rewrite Ed2; cbn [dk_files]; apply lookup_update_eq|]. split; [reflexivity|].
  split; [|reflexivity].
  unfold tw_ok. cbn [ws_name ws_base ws_min ws_limit ws_n ws_off ws_index_start ws_commit_idx].
  unfold f2, synced_file, cur_ents, cur_end, cur_seal. cbn [with_pend df_pend df_ents df_end df_seal b pb_ents pb_end pb_seal].
  rewrite llen_app. fold n'.
  split; [reflexivity|]. split; [reflexivity|]. split; [exact Tm|]. split; [symmetry; exact Hlim|].
  split; [reflexivity|]. split; [reflexivity|]. split; [reflexivity|].
  unfold tl_of. rewrite llen_app. fold n' in Hn'0 |- *. rewrite Hn'0. reflexivity.
Qed.

(* ---- StoreLogs ---- *)
Definition store_go (last : N) (ls : list log) (w : wal) (e : env) : result * wal * env :=
  let '(res, nbytes) := check_logs last ls in
  match res with
  | ROk =>
      match st_tail w with
      | None => (RErrOther, w, e)
      | Some tw =>
          let '(r, tw', e1) := seg_append tw ls e in
          match r with
          | ROk =>
              let e2 := add_m e1 (fun m =>
                {| m_bytes_written := (m_bytes_written m + nbytes) mod two64;
                   m_entries_written := m_entries_written m + llen ls;
                   m_appends := m_appends m + 1; m_bytes_read := m_bytes_read m;
                   m_entries_read := m_entries_read m; m_rotations := m_rotations m;
                   m_head_trunc := m_head_trunc m; m_tail_trunc := m_tail_trunc m;
                   m_stable_gets := m_stable_gets m; m_stable_sets := m_stable_sets m |}) in
              (ROk, {| st_next_id := st_next_id w; st_segs := st_segs w; st_tail := Some tw';
                       st_rotate := if 0 <? ws_index_start tw' then Some (ws_index_start tw') else None;
                       st_failed := st_failed w; st_closed := st_closed w |}, e2)
          | _ => (r, w, e1)
          end
      end
  | _ => (res, w, e)
  end.

Lemma store_logs_unfold c w ls e :
  store_logs c w ls e =
  if st_closed w then (RErrClosed, w, e)
  else match ls with
  | [] => (ROk, w, e)
  | l0 :: _ =>
      if st_failed w then (RErrFailed, w, e)
      else
        let last := last_index (st_segs w) (st_tail w) in
        match tail_info (st_segs w) with
        | None => (RErrOther, w, e)
        | Some ti =>
            if (last =? 0) && negb (l_index l0 =? si_base ti) then
              let '(r, w1, e1, dels) := reset_first c w (l_index l0) e in
              match r with
              | ROk => let '(r2, w2, e2) := store_go last ls w1 e1 in (r2, w2, delete_files dels e2)
              | _ => (r, w1, e1)
              end
            else store_go last ls w e
        end
  end.
Proof. reflexivity. Qed.

Lemma store_go_ok c nb (A : spst -> Prop) w e0 e S t f tw last l0 r :
  cfg_ok c -> lview c nb w (e_disk e) S t f tw -> ext (DP c nb A) e0 e ->
  df_seal f = 0 -> Forall log_ok (l0 :: r) -> frames_size (l0 :: r) < two30 -> last + 1 < two64 ->
  (chk last (l0 :: r) = true -> l_index l0 = si_base t + llen (df_ents f)) ->
  let a'' := {| sp_log := slog_of (hd_min S t) (lv_es (e_disk e) S t f ++ (l0 :: r)); sp_kv := dk_stable (e_disk e) |} in
  A (sp_of (e_disk e)) -> (chk last (l0 :: r) = true -> A a'') ->
  exists res w' e', store_go last (l0 :: r) w e = (res, w', e') /\ ext (DP c nb A) e0 e' /\
    LInv c nb w' (e_disk e') /\ st_segs w' = st_segs w /\
    (if chk last (l0 :: r) then res = ROk /\ sp_of (e_disk e') = a''
     else res_class res = RErrOther /\ sp_of (e_disk e') = sp_of (e_disk e)).
Proof.
  intros Hc V He Hse Hok HF Hlast Hidx a'' HA HA'.
  assert (HL : LInv c nb w (e_disk e)).
  { split; [apply (lv_closed _ _ _ _ _ _ _ _ V)|]. split; [apply (lv_failed _ _ _ _ _ _ _ _ V)|].
    split; [apply (lv_dis _ _ _ _ _ _ _ _ V)|]. split; [apply (lv_nopend _ _ _ _ _ _ _ _ V)|].
    split; [rewrite (lv_meta _ _ _ _ _ _ _ _ V); unfold persistent; rewrite (lv_segs _ _ _ _ _ _ _ _ V); reflexivity|].
    exists t, f, tw. split; [rewrite (lv_segs _ _ _ _ _ _ _ _ V); apply tail_info_app|].
    split; [apply (lv_file _ _ _ _ _ _ _ _ V)|]. split; [apply (lv_tail _ _ _ _ _ _ _ _ V)|].
    split; [apply (lv_tw _ _ _ _ _ _ _ _ V)|apply (lv_rot _ _ _ _ _ _ _ _ V)]. }
  unfold store_go. destruct (check_logs_spec (l0 :: r) last Hlast Hok) as (nbytes & Ech). rewrite Ech.
  destruct (chk last (l0 :: r)) eqn:Echk.
  - rewrite (lv_tail _ _ _ _ _ _ _ _ V).
    assert (Hcons : consecutive (l_index l0) (l0 :: r) = true).
    { inversion Hok as [|? ? (_ & H1 & _) _]; subst. rewrite (chk_store last l0 r H1) in Echk.
      apply andb_true_iff in Echk. apply Echk. }
    destruct (seg_append_ok c nb A w e0 e S t f tw l0 r Hc V He Hse Hok HF (Hidx eq_refl) Hcons HA (HA' eq_refl))
      as (tw' & e1 & Happ & He1 & HL1 & Hs1 & _).
    rewrite Happ. eexists _, _, _. split; [reflexivity|]. split; [apply ext_add_m; exact He1|].
    split; [exact HL1|]. split; [reflexivity|]. split; [reflexivity|exact Hs1].
  - eexists _, _, _. split; [reflexivity|]. split; [exact He|]. split; [exact HL|]. split; [reflexivity|]. split; reflexivity.
Qed.

Lemma lv_log_cases {c nb w d S t f tw} (V : lview c nb w d S t f tw) :
  (lv_es d S t f = [] /\ S = [] /\ llen (df_ents f) = 0 /\ dread d = sl_empty /\ si_min t = si_base t)
  \/ (lv_es d S t f <> [] /\ dread d = {| sl_first := hd_min S t; sl_ents := lv_es d S t f |} /\
      spec_last (dread d) = si_base t + llen (df_ents f) - 1 /\ 2 <= si_base t + llen (df_ents f)).
Proof.
  pose proof (lv_read _ _ _ _ _ _ _ _ V) as Hr. fold (lv_es d S t f) in Hr.
  pose proof (lv_es_nil V) as Hn. pose proof (lv_len V) as Hl. pose proof (lv_min_cond V) as Hmc.
  pose proof (lv_twf V) as (_ & _ & Hb1 & _ & Hbm & _).
  destruct (list_eq_dec_nil (lv_es d S t f)) as [Ee|Ee].
  - left. destruct Hn as (Hn & _). destruct (Hn Ee) as (ES & Hz). rewrite Ee in Hr.
    rewrite Hz in Hmc. cbn in Hmc. auto.
  - right. split; [exact Ee|]. destruct (slog_of_first (hd_min S t) _ Ee) as (E1 & E2 & E3).
    assert (Hd : dread d = {| sl_first := hd_min S t; sl_ents := lv_es d S t f |}).
    { rewrite Hr. destruct (lv_es d S t f); [congruence|reflexivity]. }
    split; [exact Hd|]. rewrite Hd. unfold spec_last. cbn [sl_ents sl_first].
    assert (Hie : sl_is_empty {| sl_first := hd_min S t; sl_ents := lv_es d S t f |} = false).
    { unfold sl_is_empty. cbn [sl_ents]. destruct (lv_es d S t f); [congruence|reflexivity]. }
    rewrite Hie.
    assert (Hpos : 0 < llen (lv_es d S t f)) by (apply llen_pos; exact Ee).
    destruct (list_eq_dec_nil S) as [ES|Hne].
    + subst S. unfold hd_min in *. cbn [hd] in *. lia.
    + destruct (lv_hd_min_lt V Hne) as (Hlt & Hmt).
      assert (1 <= hd_min S t).
      { pose proof (lv_Swf V) as Hw. destruct S as [|s S']; [congruence|]. inversion Hw as [|? ? (Hsb & Hsm) _]; subst.
        unfold hd_min. cbn [hd]. lia. }
      lia.
Qed.

Lemma store_logs_ok c nb w e ls a :
  cfg_ok c -> LInv c nb w (e_disk e) -> e_fault e = None -> st_rotate w = None -> nb + 1 < two64 ->
  sp_of (e_disk e) = a -> logs_ok ls -> frames_size ls < two30 ->
  exists r w' e', store_logs c w ls e = (r, w', e') /\
    result_eqb (res_class r) (fst (step_spec a (OStore ls))) = true /\
    LInv c (nb + 1) w' (e_disk e') /\ sp_of (e_disk e') = snd (step_spec a (OStore ls)) /\
    ext (DP c (nb + 1) (fun x => x = a \/ x = snd (step_spec a (OStore ls)))) e e'.
Proof.
  intros Hc HL Hf Hrot Hnb Hsp Hok HF. set (d := e_disk e) in *.
  pose proof (LInv_nid _ _ _ _ HL) as Hnid.
  assert (HL1 : LInv c (nb + 1) w d) by (eapply LInv_mono; [|exact HL]; lia).
  destruct (LInv_view _ _ _ _ HL1) as (S & t & f & tw & V).
  set (a' := snd (step_spec a (OStore ls))).
  set (A := fun x : spst => x = a \/ x = a').
  assert (He0 : ext (DP c (nb + 1) A) e e).
  { apply ext_refl; [exact Hf|]. eapply LInv_DP; [exact HL1|left; exact Hsp]. }
  rewrite store_logs_unfold. rewrite (lv_closed _ _ _ _ _ _ _ _ V).
  destruct ls as [|l0 r].
  - exists ROk, w, e. split; [reflexivity|]. cbn [step_spec spec_store fst snd] in *. split; [reflexivity|].
    split; [exact HL1|]. split; [fold d; rewrite Hsp; unfold a'; destruct a; reflexivity|exact He0].
  - rewrite (lv_failed _ _ _ _ _ _ _ _ V). cbv zeta. rewrite (lv_segs _ _ _ _ _ _ _ _ V), tail_info_app.
    rewrite <- (lv_segs _ _ _ _ _ _ _ _ V). rewrite (lv_last V).
    assert (Hse : df_seal f = 0).
    { pose proof (lv_rot _ _ _ _ _ _ _ _ V) as Hr. rewrite Hrot in Hr. destruct (0 <? df_seal f) eqn:E; [discriminate|lia]. }
    pose proof (Forall_inv Hok) as Hl0. pose proof Hl0 as (_ & Hl0a & Hl0b & _).
    assert (Hspec : step_spec a (OStore (l0 :: r)) =
              if consecutive (l_index l0) (l0 :: r) && (sl_is_empty (dread d) || (l_index l0 =? spec_last (dread d) + 1))
              then (ROk, {| sp_log := {| sl_first := if sl_is_empty (dread d) then l_index l0 else sl_first (dread d);
                                         sl_ents := sl_ents (dread d) ++ (l0 :: r) |}; sp_kv := dk_stable d |})
              else (RErrOther, a)).
    { cbn [step_spec spec_store]. rewrite <- Hsp. cbn [sp_of sp_log sp_kv]. fold d.
      destruct (consecutive (l_index l0) (l0 :: r) && (sl_is_empty (dread d) || (l_index l0 =? spec_last (dread d) + 1))); reflexivity. }
    destruct (lv_log_cases V) as [(Ees & ES & Hn0 & Hdr & Hmb)|(Ees & Hdr & Hlast & H2)].
    + (* the log is empty *)
      rewrite Hdr in *. change (spec_last sl_empty) with 0 in *. change (sl_is_empty sl_empty) with true in Hspec.
      cbn [orb andb sl_first sl_ents sl_empty app] in Hspec. rewrite andb_true_r in Hspec.
      change (0 =? 0) with true. cbn [andb].
      assert (Hchk : chk 0 (l0 :: r) = consecutive (l_index l0) (l0 :: r)).
      { rewrite (chk_store 0 l0 r Hl0a). reflexivity. }
      assert (Ha : a = {| sp_log := sl_empty; sp_kv := dk_stable d |}) by (rewrite <- Hsp; unfold sp_of; rewrite Hdr; reflexivity).
      destruct (l_index l0 =? si_base t) eqn:Eb; cbn [negb].
      * (* append at the tail's base *)
        apply N.eqb_eq in Eb.
        set (a'' := {| sp_log := slog_of (hd_min S t) (lv_es d S t f ++ (l0 :: r)); sp_kv := dk_stable d |}).
        assert (Ea'' : a'' = {| sp_log := {| sl_first := l_index l0; sl_ents := l0 :: r |}; sp_kv := dk_stable d |}).
        { unfold a''. rewrite Ees, ES. unfold hd_min. cbn [hd app slog_of]. rewrite Hmb, Eb. reflexivity. }
        destruct (store_go_ok c (nb + 1) A w e e S t f tw 0 l0 r Hc V He0 Hse Hok HF) as (res & w' & e' & Hgo & He' & HL' & _ & Hres).
        -- unfold two64; lia.
        -- intros _. rewrite Hn0. lia.
        -- left. exact Hsp.
        -- intros Hck. right. unfold a'. rewrite Hspec. rewrite <- Hchk, Hck. cbn [snd]. fold d. exact Ea''.
        -- rewrite Hgo. exists res, w', e'. split; [reflexivity|]. unfold a' in *. rewrite Hspec in *. rewrite <- Hchk in *.
           fold d in Hres. destruct (chk 0 (l0 :: r)); cbn [fst snd].
           ++ destruct Hres as (-> & Hs'). split; [reflexivity|]. split; [exact HL'|]. split; [rewrite Hs'; exact Ea''|exact He'].
           ++ destruct Hres as (Hrc & Hs'). split; [rewrite Hrc; reflexivity|]. split; [exact HL'|]. split; [congruence|exact He'].
      * (* the empty first segment is re-based first *)
        subst S. cbn [app] in *.
        assert (Elast : last_index (st_segs w) (st_tail w) = 0).
        { rewrite (lv_last V). rewrite Hdr. reflexivity. }
        unfold reset_first. rewrite Elast. change (0 <? 0) with false. cbn iota.
        rewrite (lv_segs _ _ _ _ _ _ _ _ V). rewrite tail_info_app. cbn [app].
        rewrite (N.eqb_sym (si_base t) (l_index l0)), Eb.
        cbn [seg_del]. rewrite N.eqb_refl. unfold create_next. change (tail_info []) with (@None seginfo).
        replace (0 <? l_index l0) with true by lia.
        rewrite (N.mod_small (l_index l0) two64) by lia.
        rewrite (N.mod_small (st_next_id w + 1) two64) by lia. cbn [seg_set].
        set (si := new_segment c (st_next_id w) (l_index l0)).
        destruct (mutate_newtail_ok c (nb + 1) A true w e e (st_next_id w) [] (l_index l0) [name_of t] Hc He0)
          as (w1 & e1 & Hmut & He1 & HL1' & Hs1 & Hr1 & Hsegs1 & Hnid1 & Htail1).
        -- apply (lv_nopend _ _ _ _ _ _ _ _ V).
        -- exact Hrot.
        -- apply (lv_failed _ _ _ _ _ _ _ _ V).
        -- apply (lv_closed _ _ _ _ _ _ _ _ V).
        -- fold d. intros ps E. rewrite (lv_meta _ _ _ _ _ _ _ _ V) in E. inversion E. cbn. lia.
        -- lia.
        -- constructor.
        -- constructor.
        -- lia.
        -- lia.
        -- exact I.
        -- intros n [<-|[]]. cbn [app]. rewrite listed_single. apply fname_eqb_neq.
           unfold name_of, new_segment. cbn. intros E. inversion E. apply N.eqb_neq in Eb. congruence.
        -- left. cbn. fold d. symmetry; exact Ha.
        -- cbn [app] in Hmut. fold si in Hmut. rewrite Hmut.
           fold si in Hs1, Hsegs1, Htail1. cbn [app] in Hsegs1.
           assert (Hs1a : sp_of (e_disk e1) = a) by (rewrite Hs1; cbn; fold d; symmetry; exact Ha).
           destruct (LInv_view _ _ _ _ HL1') as (S1 & t1 & f1 & tw1 & V1).
           assert (ES1 : S1 = [] /\ t1 = si).
           { pose proof (lv_segs _ _ _ _ _ _ _ _ V1) as E. rewrite Hsegs1 in E.
             destruct S1 as [|x S1']; [inversion E; auto|]. destruct S1'; inversion E. }
           destruct ES1 as (-> & ->).
           assert (Etw1 : tw1 = new_wseg si).
           { pose proof (lv_tail _ _ _ _ _ _ _ _ V1) as E. rewrite Htail1 in E. inversion E. reflexivity. }
           subst tw1.
           pose proof (lv_tw _ _ _ _ _ _ _ _ V1) as (_ & _ & _ & _ & Tn1 & _ & Ti1 & _). cbn in Tn1, Ti1.
           assert (Hn1 : llen (df_ents f1) = 0) by lia. assert (Hse1 : df_seal f1 = 0) by lia.
           assert (Hen1 : df_ents f1 = []) by (apply llen_0; exact Hn1).
           set (a'' := {| sp_log := slog_of (hd_min [] si) (lv_es (e_disk e1) [] si f1 ++ (l0 :: r)); sp_kv := dk_stable (e_disk e1) |}).
           assert (Hst1 : dk_stable (e_disk e1) = dk_stable d).
           { pose proof Hs1a as E. rewrite Ha in E. unfold sp_of in E. inversion E. reflexivity. }
           assert (Ea'' : a'' = {| sp_log := {| sl_first := l_index l0; sl_ents := l0 :: r |}; sp_kv := dk_stable d |}).
           { unfold a'', lv_es, sealed_es, hd_min. rewrite Hen1, Hst1. cbn. rewrite skipn_nil. reflexivity. }
           destruct (store_go_ok c (nb + 1) A w1 e e1 [] si f1 (new_wseg si) 0 l0 r Hc V1 He1 Hse1 Hok HF)
             as (res & w2 & e2 & Hgo & He2 & HL2 & Esw2 & Hres).
           ++ unfold two64; lia.
           ++ intros _. rewrite Hn1. cbn. lia.
           ++ left. exact Hs1a.
           ++ intros Hck. right. unfold a'. rewrite Hspec. rewrite <- Hchk, Hck. cbn [snd]. fold d. exact Ea''.
           ++ rewrite Hgo.
              assert (Hm2 : dk_meta (e_disk e2) = Some (persistent w2)) by apply HL2.
              assert (Hdel : forall n, In n [name_of t] -> listed (ps_segs (persistent w2)) n = false).
              { intros n [<-|[]]. cbn [persistent ps_segs].
                rewrite Esw2, Hsegs1. rewrite listed_single. apply fname_eqb_neq.
                unfold name_of, si, new_segment. cbn. intros E. inversion E. apply N.eqb_neq in Eb. congruence. }
              destruct (DP_delete_files c (nb + 1) A e (persistent w2) [name_of t] e2 He2 Hm2 Hdel) as (He3 & Hd3).
              exists res, w2, (delete_files [name_of t] e2). split; [reflexivity|].
              assert (HL3 : LInv c (nb + 1) w2 (e_disk (delete_files [name_of t] e2))).
              { rewrite Hd3. apply LInv_del_disk; [exact HL2|exact Hdel]. }
              assert (Hs3 : sp_of (e_disk (delete_files [name_of t] e2)) = sp_of (e_disk e2)).
              { rewrite Hd3. unfold del_disk. cbn [fold_left]. unfold sp_of. cbn [apply_act dk_stable]. f_equal.
                apply (dread_delete (e_disk e2) (name_of t) (persistent w2) Hm2). apply Hdel. left; reflexivity. }
              unfold a' in *. rewrite Hspec in *. rewrite <- Hchk in *.
              destruct (chk 0 (l0 :: r)); cbn [fst snd].
              ** destruct Hres as (-> & Hs'). split; [reflexivity|]. split; [exact HL3|]. split; [|exact He3].
                 rewrite Hs3, Hs'. fold d. exact Ea''.
              ** destruct Hres as (Hrc & Hs'). split; [rewrite Hrc; reflexivity|]. split; [exact HL3|]. split; [|exact He3].
                 rewrite Hs3, Hs'. exact Hs1a.
    + (* the log is not empty *)
      assert (Hl1 : 1 <= spec_last (dread d)) by lia.
      destruct (spec_last (dread d) =? 0) eqn:Z; [lia|]. cbn [andb].
      rewrite Hdr in Hspec. cbn [sl_is_empty sl_ents sl_first] in Hspec.
      assert (Hie : sl_is_empty {| sl_first := hd_min S t; sl_ents := lv_es d S t f |} = false) by (unfold sl_is_empty; cbn [sl_ents]; destruct (lv_es d S t f); [congruence|reflexivity]).
      rewrite Hie in Hspec. cbn [orb] in Hspec. rewrite <- Hdr in Hspec.
      assert (Hchk : chk (spec_last (dread d)) (l0 :: r) =
                     consecutive (l_index l0) (l0 :: r) && (l_index l0 =? spec_last (dread d) + 1)).
      { rewrite (chk_store _ l0 r Hl0a). rewrite Z. cbn [orb]. apply andb_comm. }
      set (a'' := {| sp_log := slog_of (hd_min S t) (lv_es d S t f ++ (l0 :: r)); sp_kv := dk_stable d |}).
      assert (Ea'' : a'' = {| sp_log := {| sl_first := hd_min S t; sl_ents := lv_es d S t f ++ (l0 :: r) |}; sp_kv := dk_stable d |}).
      { unfold a''. f_equal. destruct (lv_es d S t f); [congruence|reflexivity]. }
      destruct (store_go_ok c (nb + 1) A w e e S t f tw (spec_last (dread d)) l0 r Hc V He0 Hse Hok HF) as (res & w' & e' & Hgo & He' & HL' & _ & Hres).
      * pose proof (lv_tok _ _ _ _ _ _ _ _ V) as (_ & Ht'). rewrite (lv_file _ _ _ _ _ _ _ _ V) in Ht'.
        destruct Ht' as (_ & _ & _ & _ & _ & Hbd). unfold cur_ents in Hbd. rewrite (lv_pend _ _ _ _ _ _ _ _ V) in Hbd. lia.
      * intros Hck. rewrite Hchk in Hck. apply andb_true_iff in Hck. lia.
      * left. exact Hsp.
      * intros Hck. right. unfold a'. rewrite Hspec. rewrite <- Hchk, Hck. cbn [snd]. fold d. exact Ea''.
      * rewrite Hgo. exists res, w', e'. split; [reflexivity|]. unfold a' in *. rewrite Hspec in *. rewrite <- Hchk in *.
        fold d in Hres. destruct (chk (spec_last (dread d)) (l0 :: r)); cbn [fst snd].
        -- destruct Hres as (-> & Hs'). split; [reflexivity|]. split; [exact HL'|]. split; [|exact He'].
           rewrite Hs'. exact Ea''.
        -- destruct Hres as (Hrc & Hs'). split; [rewrite Hrc; reflexivity|]. split; [exact HL'|]. split; [congruence|exact He'].
Qed.
