(* SeqFactsMain.v -- every sequential history of the WAL model refines the
   contiguous-log specification (the statement seq_refinement_stmt of Hist.v). *)
From RW Require Import Base.Bytes Base.BytesFacts Fmt.Codec Fmt.CodecFacts Fmt.Frame
  Wal.Model Wal.Spec Wal.Hist Wal.SeqInv Wal.SeqFactsBase Wal.SeqFactsAbs Wal.SeqFactsTxn Wal.SeqFactsOps1
  Wal.SeqFactsOps2 Wal.SeqFactsOps3 Gen.Constants.
From Coq Require Import ZifyN ZifyNat ZifyBool.
Open Scope N_scope.

Definition s_abs (s : sstate) : slog := abs (ss_wal s) (e_disk (ss_env s)).
Definition s_kv (s : sstate) : list kv := dk_stable (e_disk (ss_env s)).
Definition s_nid (s : sstate) : N := st_next_id (ss_wal s).

(* ------------------------------------------------------------------ *)
(* the initial Open                                                     *)
Lemma initial_inv c s0 : cfg_ok c -> initial c = Some s0 ->
  SInv c s0 /\ s_abs s0 = sl_empty /\ s_kv s0 = [] /\ s_nid s0 = 1 /\ e_m (ss_env s0) = zero_metrics.
Proof.
  intros Hc. unfold initial, open_wal. rewrite (cfg_codec_check c Hc).
  change (dk_inited (e_disk fresh_env)) with false. cbv iota.
  rewrite (io_ok AInitMeta fresh_env eq_refl). cbn [negb].
  change (armed (io_post AInitMeta fresh_env) && fx_list (e_fx (io_post AInitMeta fresh_env))) with false. cbv iota.
  change (dk_meta (e_disk (io_post AInitMeta fresh_env))) with (@None pstate). cbv iota zeta.
  cbn [ps_segs ps_next_id open_segs rev_append]. cbv iota.
  change (dk_files (e_disk (io_post AInitMeta fresh_env))) with (@nil (fname * dfile)).
  cbn [map filter tail_info last]. change ((0 + 1) mod two64) with 1.
  set (si := new_segment c 0 1). cbn [seg_set].
  rewrite (io_ok _ _ (io_post_fault AInitMeta fresh_env)). cbn [negb].
  rewrite seg_create_ok; [|reflexivity|cbn; lia|reflexivity].
  cbn [delete_files fold_left]. intros H. inversion H; subst s0. clear H.
  set (w0 := {| st_next_id := 0; st_segs := []; st_tail := None; st_rotate := None;
                st_failed := false; st_closed := false |}).
  assert (HI := new_tail_inv c w0 (e_disk (io_post AInitMeta fresh_env)) [] 1 Hc ltac:(lia)
                  ltac:(unfold two64; lia) ltac:(unfold two64; cbn; lia)).
  cbv zeta in HI. fold si in HI.
  assert (HI' : WInvS c (wal_with (st_next_id w0 + 1) ([] ++ [si]) (Some (new_wseg si)) w0)
            (apply_act (apply_act (e_disk (io_post AInitMeta fresh_env))
                          (ACommit {| ps_next_id := st_next_id w0 + 1; ps_segs := [] ++ [si] |}))
               (ACreate (name_of si) (si_size_limit si))) [] si (new_wseg si)).
  { apply HI; try reflexivity; try constructor. }
  unfold SInv, s_abs, s_kv, s_nid. cbn [ss_wal ss_env].
  split; [split; [reflexivity|exists [], si, (new_wseg si); exact HI']|].
  split; [exact (abs_empty_tail _ _ _ _ _ _ HI' eq_refl)|]. repeat split; reflexivity.
Qed.

(* ------------------------------------------------------------------ *)
(* the pending rotation runs before a mutating call                      *)
Lemma settle_ok c s : cfg_ok c -> SInv c s -> s_nid s + 1 < two64 ->
  exists ss t tw,
    e_fault (ss_env (settle c s)) = None /\
    WInvS c (ss_wal (settle c s)) (e_disk (ss_env (settle c s))) ss t tw /\ ws_index_start tw = 0 /\
    s_abs (settle c s) = s_abs s /\ s_kv (settle c s) = s_kv s /\
    s_nid s <= s_nid (settle c s) /\ s_nid (settle c s) <= s_nid s + 1.
Proof.
  intros Hc (He & ss & t & tw & HI) Hnid. unfold settle.
  assert (Hro : st_rotate (ss_wal s) = (if 0 <? ws_index_start tw then Some (ws_index_start tw) else None))
    by apply HI.
  rewrite Hro. destruct (N.ltb_spec 0 (ws_index_start tw)) as [Hp|Hp].
  - destruct (rotate_ok c _ _ ss t tw Hc He HI Hp Hnid)
      as (w' & e' & ss' & t' & tw' & Hr & He' & HI' & His' & Habs & Hst & Hid & _).
    rewrite Hr. exists ss', t', tw'. unfold s_abs, s_kv, s_nid. cbn [ss_wal ss_env].
    split; [exact He'|]. split; [exact HI'|]. split; [exact His'|]. split; [exact Habs|].
    split; [exact Hst|]. split; lia.
  - exists ss, t, tw. split; [exact He|]. split; [exact HI|]. split; [lia|].
    split; [reflexivity|]. split; [reflexivity|]. split; lia.
Qed.

(* ------------------------------------------------------------------ *)
(* one operation                                                        *)
Lemma step_ok c s o sp r s' :
  cfg_ok c -> sop_ok o -> SInv c s -> s_nid s + 2 < two64 ->
  sp_log sp = s_abs s -> sp_kv sp = s_kv s ->
  step_model c s o = (r, s') ->
  SInv c s' /\ res_class r = fst (step_spec sp o) /\
  s_abs s' = sp_log (snd (step_spec sp o)) /\ s_kv s' = sp_kv (snd (step_spec sp o)) /\
  s_nid s <= s_nid s' /\ s_nid s' <= s_nid s + 2.
Proof.
  intros Hc Hop HS Hnid Hlog Hkv Hstep.
  destruct o as [ls|mn mx|i| | |k v n|k|]; cbn [step_model step_spec] in *.
  - (* StoreLogs *)
    destruct (settle_ok c s Hc HS ltac:(lia)) as (ss & t & tw & He & HI & His & Habs & Hst & Hid1 & Hid2).
    destruct Hop as [Hok Hfs].
    destruct (store_logs_ok c _ _ ss t tw ls Hc He HI His ltac:(unfold s_nid in *; lia) Hok Hfs)
      as (r0 & w' & e' & Hsl & He' & HI' & Hst' & Hid3 & Hid4 & Hres).
    rewrite Hsl in Hstep. inversion Hstep; subst r s'. clear Hstep.
    unfold s_abs, s_kv, s_nid in *. cbn [ss_wal ss_env]. rewrite Hlog, <- Habs.
    split; [split; assumption|].
    destruct (spec_store _ ls) as [a'|]; cbn [fst snd sp_log sp_kv]; destruct Hres as (Hr & Ha & _).
    + subst r0. repeat split; auto; try congruence; lia.
    + repeat split; auto; try congruence; lia.
  - (* DeleteRange *)
    destruct (settle_ok c s Hc HS ltac:(lia)) as (ss & t & tw & He & HI & His & Habs & Hst & Hid1 & Hid2).
    destruct (delete_range_ok c _ _ ss t tw mn mx Hc He HI His ltac:(unfold s_nid in *; lia) Hop)
      as (r0 & w' & e' & Hsl & He' & HI' & Hst' & Hid3 & Hid4 & Hres).
    rewrite Hsl in Hstep. inversion Hstep; subst r s'. clear Hstep.
    unfold s_abs, s_kv, s_nid in *. cbn [ss_wal ss_env]. rewrite Hlog, <- Habs.
    split; [split; assumption|].
    destruct (spec_delete _ mn mx) as [a'|]; cbn [fst snd sp_log sp_kv]; destruct Hres as (Hr & Ha & _).
    + subst r0. repeat split; auto; try congruence; lia.
    + repeat split; auto; try congruence; lia.
  - (* GetLog *)
    destruct HS as (He & ss & t & tw & HI).
    destruct (get_log_ok c _ _ ss t tw i HI) as (r0 & e' & Hg & Hd & Hf & Hr & _).
    rewrite Hg in Hstep. inversion Hstep; subst r s'. clear Hstep.
    unfold SInv, s_abs, s_kv, s_nid in *. cbn [ss_wal ss_env]. rewrite Hd, Hf, Hlog.
    split; [split; [exact He|exists ss, t, tw; exact HI]|].
    subst r0. destruct (spec_get _ i); cbn [fst snd res_class]; repeat split; auto; lia.
  - (* FirstIndex *)
    inversion Hstep; subst r s'. destruct HS as (He & ss & t & tw & HI).
    destruct (first_last_ok _ _ _ _ _ _ HI) as [H1 _]. rewrite H1. unfold s_abs in Hlog. rewrite Hlog.
    cbn [fst snd res_class]. split; [split; [exact He|exists ss, t, tw; exact HI]|]. repeat split; auto; lia.
  - (* LastIndex *)
    inversion Hstep; subst r s'. destruct HS as (He & ss & t & tw & HI).
    destruct (first_last_ok _ _ _ _ _ _ HI) as [_ H1]. rewrite H1. unfold s_abs in Hlog. rewrite Hlog.
    cbn [fst snd res_class]. split; [split; [exact He|exists ss, t, tw; exact HI]|]. repeat split; auto; lia.
  - (* Set *)
    destruct HS as (He & ss & t & tw & HI).
    destruct (set_stable_ok c _ _ ss t tw k v n He HI) as (r0 & e' & Hs & He' & HI' & Ha & _ & _ & Hres & _).
    rewrite Hs in Hstep. inversion Hstep; subst r s'. clear Hstep.
    unfold SInv, s_abs, s_kv, s_nid in *. cbn [ss_wal ss_env]. rewrite Ha.
    split; [split; [exact He'|exists ss, t, tw; exact HI']|].
    rewrite Hkv. destruct (key_ok k); inversion Hres; subst; cbn [fst snd sp_log sp_kv].
    + repeat split; auto; try congruence; lia.
    + destruct n; repeat split; auto; try congruence; lia.
  - (* Get *)
    destruct HS as (He & ss & t & tw & HI).
    rewrite (get_stable_ok c _ _ ss t tw k HI) in Hstep. inversion Hstep; subst r s'. clear Hstep.
    unfold SInv, s_abs, s_kv, s_nid in *. cbn [ss_wal ss_env fst snd res_class].
    change (e_disk (inc_stable (ss_env s) false)) with (e_disk (ss_env s)).
    split; [split; [exact He|exists ss, t, tw; exact HI]|]. rewrite Hkv. repeat split; auto; lia.
  - (* Close; Open *)
    destruct HS as (He & ss & t & tw & HI).
    destruct (reopen_ok c _ _ ss t tw Hc He HI ltac:(unfold s_nid in *; lia))
      as (w' & e' & ss' & t' & tw' & Ho & He' & HI' & _ & Ha & Hst & Hid1 & Hid2 & _).
    rewrite Ho in Hstep. inversion Hstep; subst r s'. clear Hstep.
    unfold SInv, s_abs, s_kv, s_nid in *. cbn [ss_wal ss_env fst snd res_class].
    split; [split; [exact He'|exists ss', t', tw'; exact HI']|]. repeat split; auto; try congruence; lia.
Qed.

(* ------------------------------------------------------------------ *)
(* histories                                                            *)
Lemma run_ok c : forall os s sp,
  cfg_ok c -> Forall sop_ok os -> SInv c s -> s_nid s + 2 * N.of_nat (length os) < two64 ->
  sp_log sp = s_abs s -> sp_kv sp = s_kv s ->
  map res_class (fst (run_model c s os)) = fst (run_spec sp os) /\
  s_abs (snd (run_model c s os)) = sp_log (snd (run_spec sp os)) /\
  s_kv (snd (run_model c s os)) = sp_kv (snd (run_spec sp os)) /\
  SInv c (snd (run_model c s os)) /\
  s_nid (snd (run_model c s os)) <= s_nid s + 2 * N.of_nat (length os).
Proof.
  induction os as [|o os IH]; intros s sp Hc Hops HS Hnid Hlog Hkv.
  - cbn [run_model run_spec fst snd map]. split; [reflexivity|]. split; [auto|]. split; [auto|].
    split; [exact HS|lia].
  - inversion Hops as [|? ? Hop Hops']; subst. cbn [run_model run_spec].
    destruct (step_model c s o) as [r s1] eqn:Estep.
    cbn [length] in Hnid.
    destruct (step_ok c s o sp r s1 Hc Hop HS ltac:(lia) Hlog Hkv Estep) as (HS1 & Hr & Ha & Hk & Hid1 & Hid2).
    destruct (step_spec sp o) as [r' sp1]. cbn [fst snd] in *.
    specialize (IH s1 sp1 Hc Hops' HS1 ltac:(lia) (eq_sym Ha) (eq_sym Hk)).
    destruct (run_model c s1 os) as [rs s2]. destruct (run_spec sp1 os) as [rs' sp2]. cbn [fst snd map] in *.
    destruct IH as (I1 & I2 & I3 & I4 & I5). split; [congruence|]. split; [exact I2|]. split; [exact I3|].
    split; [exact I4|cbn [length]; lia].
Qed.

Theorem seq_refinement : seq_refinement_stmt.
Proof.
  unfold seq_refinement_stmt. intros c os s0 Hc Hops Hshort Hinit.
  destruct (initial_inv c s0 Hc Hinit) as (HS & Ha & Hk & Hid & _).
  assert (H := run_ok c os s0 {| sp_log := sl_empty; sp_kv := [] |} Hc Hops HS).
  destruct (run_model c s0 os) as [rs s1]. destruct (run_spec _ os) as [rs' sp1]. cbn [fst snd] in H.
  destruct H as (H1 & H2 & H3 & _); auto.
  rewrite Hid. unfold short_enough in Hshort. unfold two64. lia.
Qed.

(* what is known about every state a history reaches *)
Definition spec_init : spst := {| sp_log := sl_empty; sp_kv := [] |}.

Lemma reach_inv c os s0 :
  cfg_ok c -> Forall sop_ok os -> short_enough os -> initial c = Some s0 ->
  let s1 := snd (run_model c s0 os) in
  SInv c s1 /\ s_nid s1 + 2 < two64 /\
  s_abs s1 = sp_log (snd (run_spec spec_init os)) /\ s_kv s1 = sp_kv (snd (run_spec spec_init os)).
Proof.
  intros Hc Hops Hshort Hinit. cbv zeta.
  destruct (initial_inv c s0 Hc Hinit) as (HS & Ha & Hk & Hid & _).
  unfold short_enough in Hshort.
  destruct (run_ok c os s0 spec_init Hc Hops HS) as (_ & H2 & H3 & H4 & H5); auto.
  { rewrite Hid. unfold two64. lia. }
  rewrite Hid in H5. split; [exact H4|]. split; [unfold two64; lia|]. split; assumption.
Qed.

Lemma step_reach c s o :
  cfg_ok c -> sop_ok o -> SInv c s -> s_nid s + 2 < two64 ->
  let sp := {| sp_log := s_abs s; sp_kv := s_kv s |} in
  SInv c (snd (step_model c s o)) /\
  res_class (fst (step_model c s o)) = fst (step_spec sp o) /\
  s_abs (snd (step_model c s o)) = sp_log (snd (step_spec sp o)) /\
  s_kv (snd (step_model c s o)) = sp_kv (snd (step_spec sp o)).
Proof.
  intros Hc Hop HS Hnid sp. destruct (step_model c s o) as [r s'] eqn:E.
  destruct (step_ok c s o sp r s' Hc Hop HS Hnid eq_refl eq_refl E) as (H1 & H2 & H3 & H4 & _).
  cbn [fst snd]. auto.
Qed.
