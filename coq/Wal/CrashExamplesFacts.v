(* CrashExamplesFacts.v -- the example histories satisfy the guards of the theorems. *)
From RW Require Import Base.Bytes Base.BytesFacts Fmt.Codec Fmt.Frame Wal.Model Wal.Spec Wal.Hist
  Wal.CrashInv Wal.CrashThm Wal.CrashExamples Gen.Constants.
From Coq Require Import ZifyN ZifyNat ZifyBool.
Open Scope N_scope.

Ltac solve_log_ok :=
  unfold log_ok, wf_log, ex_log, wf_time, ex_time, wf_bytes, wf_byte, two64, two63, len;
  cbn [l_index l_term l_type l_data l_ext l_time t_sec t_nsec t_zone repeat length];
  repeat split; try lia; try (repeat constructor; lia); try (vm_compute; discriminate).

Lemma ex_log_ok_1_1 : log_ok (ex_log 1 1). Proof. solve_log_ok. Qed.
Lemma ex_log_ok_2_1 : log_ok (ex_log 2 1). Proof. solve_log_ok. Qed.
Lemma ex_log_ok_3_1 : log_ok (ex_log 3 1). Proof. solve_log_ok. Qed.
Lemma ex_log_ok_3_2 : log_ok (ex_log 3 2). Proof. solve_log_ok. Qed.
Lemma ex_log_ok_3_7 : log_ok (ex_log 3 7). Proof. solve_log_ok. Qed.
Lemma ex_log_ok_4_1 : log_ok (ex_log 4 1). Proof. solve_log_ok. Qed.

Lemma cfg128_ok : cfg_ok cfg128.
Proof. unfold cfg_ok, cfg128, two64, two30. cbn. repeat split; try lia. left. reflexivity. Qed.
Lemma cfg256_ok : cfg_ok cfg256.
Proof. unfold cfg_ok, cfg256, two64, two30. cbn. repeat split; try lia. left. reflexivity. Qed.

Ltac solve_sop_ok :=
  cbn [hstep_wf sop_ok];
  first [ exact I
        | split; [repeat (apply Forall_cons; [first [exact ex_log_ok_1_1|exact ex_log_ok_2_1|exact ex_log_ok_3_1
                                            |exact ex_log_ok_3_2|exact ex_log_ok_3_7|exact ex_log_ok_4_1]|]); apply Forall_nil
                 | vm_compute; reflexivity ]
        | unfold two64; lia
        | unfold wf_bytes, wf_byte, two31, len; cbn [length]; repeat split; try (repeat constructor; lia); lia ].

Ltac solve_hist_ok cfgok :=
  split; [exact cfgok|]; split; [repeat (apply Forall_cons; [solve_sop_ok|]); apply Forall_nil | unfold short_enough; cbn [length]; lia].

Lemma hist_rotation_before_commit_ok : hist_ok cfg128 hist_rotation_before_commit.
Proof. unfold hist_rotation_before_commit. solve_hist_ok cfg128_ok. Qed.
Lemma hist_rotation_after_commit_ok : hist_ok cfg128 hist_rotation_after_commit.
Proof. unfold hist_rotation_after_commit. solve_hist_ok cfg128_ok. Qed.
Lemma hist_batch_kept_ok : hist_ok cfg128 hist_batch_kept.
Proof. unfold hist_batch_kept. solve_hist_ok cfg128_ok. Qed.
Lemma hist_batch_lost_ok : hist_ok cfg128 hist_batch_lost.
Proof. unfold hist_batch_lost. solve_hist_ok cfg128_ok. Qed.
Lemma hist_trunc_after_forceseal_ok : hist_ok cfg256 hist_trunc_after_forceseal.
Proof. unfold hist_trunc_after_forceseal. solve_hist_ok cfg256_ok. Qed.
Lemma hist_trunc_after_commit_ok : hist_ok cfg256 hist_trunc_after_commit.
Proof. unfold hist_trunc_after_commit. solve_hist_ok cfg256_ok. Qed.
Lemma hist_nested_ok : hist_ok cfg128 hist_nested.
Proof. unfold hist_nested. solve_hist_ok cfg128_ok. Qed.
Lemma hist_head_trunc_ok : hist_ok cfg128 hist_head_trunc.
Proof. unfold hist_head_trunc. solve_hist_ok cfg128_ok. Qed.
