(* CrashCalls5.v -- settle (awaiting the background rotation) and call_ok for StoreLogs. *)
From RW Require Import Base.Bytes Base.BytesFacts Fmt.Codec Fmt.CodecFacts Fmt.Frame Wal.Model Wal.Spec Wal.Hist
  Wal.CrashInv Wal.CrashFacts0 Wal.CrashFacts1 Wal.CrashFacts2 Wal.CrashFacts3 Wal.CrashFacts4 Wal.CrashFacts5
  Wal.CrashFacts6 Wal.CrashGlue Wal.CrashCalls1 Wal.CrashCalls3 Wal.CrashCalls4 Gen.Constants.
From Coq Require Import ZifyN ZifyNat ZifyBool.
Open Scope N_scope.

Lemma settle_ok c nb s a :
  cfg_ok c -> LInv c nb (ss_wal s) (e_disk (ss_env s)) -> e_fault (ss_env s) = None ->
  sp_of (e_disk (ss_env s)) = a -> nb + 1 < two64 ->
  LInv c (nb + 1) (ss_wal (settle c s)) (e_disk (ss_env (settle c s))) /\
  st_rotate (ss_wal (settle c s)) = None /\
  sp_of (e_disk (ss_env (settle c s))) = a /\
  ext (DP c (nb + 1) (eq a)) (ss_env s) (ss_env (settle c s)).
Proof.
  intros Hc HL Hf Hsp Hnb. unfold settle. destruct (st_rotate (ss_wal s)) as [istart|] eqn:Er.
  - destruct (rotate_ok c nb (ss_wal s) (ss_env s) istart Hc HL Hf Hnb Er) as (w' & e' & Hrot & HL' & Hr' & Hs' & He').
    rewrite Hrot. cbn [ss_wal ss_env]. rewrite Hsp in *. auto.
  - split; [eapply LInv_mono; [|exact HL]; lia|]. split; [exact Er|]. split; [exact Hsp|].
    apply ext_refl; [exact Hf|]. eapply LInv_DP; [eapply LInv_mono; [|exact HL]; lia|symmetry; exact Hsp].
Qed.

Lemma call_store c ls : call_ok c (OStore ls).
Proof.
  intros nb s a Hc (Hok & HF) Hnb HL Hf Hsp Hg. cbn [step_model].
  destruct (settle_ok c nb s a Hc HL Hf Hsp ltac:(lia)) as (HL1 & Hr1 & Hs1 & He1).
  set (s1 := settle c s) in *.
  destruct (store_logs_ok c (nb + 1) (ss_wal s1) (ss_env s1) ls a Hc HL1 (ext_fault _ _ _ He1) Hr1 ltac:(lia) Hs1 Hok HF)
    as (r & w' & e' & Hst & Hres & HL' & Hs' & He').
  rewrite Hst. exists r, {| ss_wal := w'; ss_env := e' |}. split; [reflexivity|]. cbn [ss_wal ss_env].
  replace (nb + 2) with (nb + 1 + 1) by lia.
  split; [exact Hres|]. split; [exact HL'|]. split; [exact Hs'|].
  eapply ext_trans; [|exact He'].
  eapply ext_mono; [|exact He1]. intros d HP. eapply DP_mono; [| |exact HP]; [lia|]. intros x Hx. left. congruence.
Qed.
