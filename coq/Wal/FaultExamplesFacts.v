(* FaultExamplesFacts.v -- the example fault histories satisfy the guards of the theorem. *)
From RW Require Import Base.Bytes Base.BytesFacts Fmt.Codec Fmt.Frame Wal.Model Wal.Spec Wal.Hist Wal.FaultHist
  Wal.CrashInv Wal.CrashThm Wal.CrashExamples Wal.CrashExamplesFacts Wal.FaultExamples Wal.FaultCor Gen.Constants.
From Coq Require Import ZifyN ZifyNat ZifyBool.
Open Scope N_scope.

Lemma ex_log_ok_2_2 : log_ok (ex_log 2 2). Proof. solve_log_ok. Qed.
Lemma ex_log_ok_3_5 : log_ok (ex_log 3 5). Proof. solve_log_ok. Qed.
Lemma ex_log_ok_5_1 : log_ok (ex_log 5 1). Proof. solve_log_ok. Qed.
Lemma ex_log_ok_6_1 : log_ok (ex_log 6 1). Proof. solve_log_ok. Qed.
Lemma ex_log_ok_7_1 : log_ok (ex_log 7 1). Proof. solve_log_ok. Qed.
Lemma ex_log_ok_2_7 : log_ok (ex_log 2 7). Proof. solve_log_ok. Qed.

Ltac solve_fsop_ok :=
  cbn [fstep_wf sop_ok];
  first [ exact I
        | split; [repeat (apply Forall_cons; [first [exact ex_log_ok_1_1|exact ex_log_ok_2_1|exact ex_log_ok_3_1
                                            |exact ex_log_ok_2_2|exact ex_log_ok_3_5|exact ex_log_ok_4_1|exact ex_log_ok_5_1|exact ex_log_ok_6_1|exact ex_log_ok_7_1|exact ex_log_ok_2_7]|]); apply Forall_nil
                 | vm_compute; reflexivity ]
        | unfold two64; lia
        | unfold wf_bytes, wf_byte, two31, len; cbn [length]; repeat split; try (repeat constructor; lia); lia ].

Ltac solve_fhist_ok cfgok :=
  split; [exact cfgok|]; split; [repeat (apply Forall_cons; [solve_fsop_ok|]); apply Forall_nil | unfold short_enough; cbn [length]; lia].

Lemma fh_fsync_then_shorter_ok : fault_hist_ok cfg256 fh_fsync_then_shorter.
Proof. unfold fh_fsync_then_shorter. solve_fhist_ok cfg256_ok. Qed.
Lemma fh_fsync_then_restart_ok : fault_hist_ok cfg256 fh_fsync_then_restart.
Proof. unfold fh_fsync_then_restart. solve_fhist_ok cfg256_ok. Qed.
Lemma fh_trunc_create_fails_ok : fault_hist_ok cfg256 fh_trunc_create_fails.
Proof. unfold fh_trunc_create_fails. solve_fhist_ok cfg256_ok. Qed.
Lemma fh_rotation_commit_fails_ok : fault_hist_ok cfg128 fh_rotation_commit_fails.
Proof. unfold fh_rotation_commit_fails. solve_fhist_ok cfg128_ok. Qed.
Lemma fh_fault_in_open_ok : fault_hist_ok cfg128 fh_fault_in_open.
Proof. unfold fh_fault_in_open. solve_fhist_ok cfg128_ok. Qed.
Lemma fh_misc_ok : fault_hist_ok cfg256 fh_misc.
Proof. unfold fh_misc. solve_fhist_ok cfg256_ok. Qed.
Lemma fh_delete_fails_ok : fault_hist_ok cfg128 fh_delete_fails.
Proof. unfold fh_delete_fails. solve_fhist_ok cfg128_ok. Qed.
Lemma fh_reset_delete_fails_ok : fault_hist_ok cfg256 fh_reset_delete_fails.
Proof. unfold fh_reset_delete_fails. solve_fhist_ok cfg256_ok. Qed.
Lemma fh_list_fails_ok : fault_hist_ok cfg128 fh_list_fails.
Proof. unfold fh_list_fails. solve_fhist_ok cfg128_ok. Qed.
Lemma fh_trunc_create_leaves_ok : fault_hist_ok cfg256 fh_trunc_create_leaves.
Proof. unfold fh_trunc_create_leaves. solve_fhist_ok cfg256_ok. Qed.
Lemma fh_rotate_create_leaves_ok : fault_hist_ok cfg128 fh_rotate_create_leaves.
Proof. unfold fh_rotate_create_leaves. solve_fhist_ok cfg128_ok. Qed.
Lemma fh_commit_lands_ok : fault_hist_ok cfg128 fh_commit_lands.
Proof. unfold fh_commit_lands. solve_fhist_ok cfg128_ok. Qed.
Lemma fh_set_lands_ok : fault_hist_ok cfg256 fh_set_lands.
Proof. unfold fh_set_lands. solve_fhist_ok cfg256_ok. Qed.
