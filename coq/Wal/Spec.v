(* Spec.v -- the reference the properties talk about: a contiguous log from
   index to entry (plus the abstraction function from the WAL model state to
   it) and the sequential/crash histories over which the theorems quantify.
   Definitions only. *)
From RW Require Import Base.Bytes Fmt.Codec Fmt.Frame Wal.Model Gen.Constants.
Open Scope N_scope.

(* ------------------------------------------------------------------ *)
(* contiguous log                                                       *)
Record slog := { sl_first : N; sl_ents : list log }.   (* sl_ents = [] : empty, sl_first = 0 *)

Definition sl_empty : slog := {| sl_first := 0; sl_ents := [] |}.
Definition sl_is_empty (s : slog) : bool := match sl_ents s with [] => true | _ => false end.
Definition spec_first (s : slog) : N := if sl_is_empty s then 0 else sl_first s.
Definition spec_last (s : slog) : N :=
  if sl_is_empty s then 0 else sl_first s + llen (sl_ents s) - 1.
Definition spec_get (s : slog) (i : N) : option log :=
  if sl_is_empty s || (i <? sl_first s) || (spec_last s <? i) then None
  else nth_error (sl_ents s) (N.to_nat (i - sl_first s)).

Fixpoint consecutive (i : N) (ls : list log) : bool :=
  match ls with
  | [] => true
  | l :: r => (l_index l =? i) && consecutive (i + 1) r
  end.

(* None = the call must return an error and change nothing *)
Definition spec_store (s : slog) (ls : list log) : option slog :=
  match ls with
  | [] => Some s
  | l0 :: _ =>
      if consecutive (l_index l0) ls && (sl_is_empty s || (l_index l0 =? spec_last s + 1))
      then Some {| sl_first := if sl_is_empty s then l_index l0 else sl_first s;
                   sl_ents := sl_ents s ++ ls |}
      else None
  end.

Definition spec_delete (s : slog) (mn mx : N) : option slog :=
  if (mx <? mn) || sl_is_empty s || (mx <? sl_first s) || (spec_last s <? mn) then Some s
  else if mn <=? sl_first s then
    if spec_last s <=? mx then Some sl_empty
    else Some {| sl_first := mx + 1; sl_ents := skipn (N.to_nat (mx + 1 - sl_first s)) (sl_ents s) |}
  else if spec_last s <=? mx then
    Some {| sl_first := sl_first s; sl_ents := firstn (N.to_nat (mn - sl_first s)) (sl_ents s) |}
  else None.

(* ------------------------------------------------------------------ *)
(* abstraction of the model state                                       *)
Definition file_ents (n : fname) (d : disk) : list log :=
  match lookup n (dk_files d) with Some f => cur_ents f | None => [] end.

(* entries of one listed segment that are logically in the log *)
Definition seg_visible (tl : N) (d : disk) (s : seginfo) : list log :=
  let mx := if si_sealed s then si_max s else tl in
  if (mx =? 0) || (mx <? si_min s) then []
  else firstn (N.to_nat (mx - si_min s + 1))
              (skipn (N.to_nat (si_min s - si_base s)) (file_ents (name_of s) d)).

Definition abs (w : wal) (d : disk) : slog :=
  let es := flat_map (seg_visible (tail_last (st_tail w)) d) (st_segs w) in
  match es with
  | [] => sl_empty
  | _ => {| sl_first := first_index (st_segs w) (st_tail w); sl_ents := es |}
  end.

(* ------------------------------------------------------------------ *)
(* guards: what the properties quantify over                            *)
Definition log_ok (l : log) : Prop :=
  wf_log l /\ 1 <= l_index l /\ l_index l + 1 < two64 /\ enc_len l <= MaxEntrySize.
Definition logs_ok (ls : list log) : Prop := Forall log_ok ls.
Definition log_okb (l : log) : bool :=
  match encode_log l with Some _ => true | None => false end
  && (1 <=? l_index l) && (l_index l + 1 <? two64) && (enc_len l <=? MaxEntrySize).

(* codec id accepted by Open and a segment size for which no segment ever
   reaches 2^32 bytes (the code's uint32 offsets) *)
Definition two30 : N := 1073741824.
Definition cfg_ok (c : cfg) : Prop :=
  (c_codec c = BinaryCodecID \/ FirstExternalCodecID <= c_codec c) /\ c_codec c < two64 /\
  0 < c_seg_size c /\ c_seg_size c < two30.

(* ------------------------------------------------------------------ *)
(* sequential histories (C05, C08, C20)                                 *)
Inductive sop :=
| OStore (ls : list log) | ODelete (mn mx : N) | OGet (i : N) | OFirst | OLast
| OSet (k v : bytes) (is_nil : bool) | OGetS (k : bytes)
| OReopen.                                   (* Close; Open *)

Record sstate := { ss_wal : wal; ss_env : env }.

(* the background rotation runs before the next mutating call (awaitRotation) *)
Definition settle (c : cfg) (s : sstate) : sstate :=
  match st_rotate (ss_wal s) with
  | Some _ => let '(w', e') := rotate c (ss_wal s) (ss_env s) in {| ss_wal := w'; ss_env := e' |}
  | None => s
  end.

Definition step_model (c : cfg) (s : sstate) (o : sop) : result * sstate :=
  match o with
  | OStore ls =>
      let s1 := settle c s in
      let '(r, w', e') := store_logs c (ss_wal s1) ls (ss_env s1) in (r, {| ss_wal := w'; ss_env := e' |})
  | ODelete mn mx =>
      let s1 := settle c s in
      let '(r, w', e') := delete_range c (ss_wal s1) mn mx (ss_env s1) in (r, {| ss_wal := w'; ss_env := e' |})
  | OGet i => let '(r, e') := get_log (ss_wal s) i (ss_env s) in (r, {| ss_wal := ss_wal s; ss_env := e' |})
  | OFirst => (first_index_op (ss_wal s), s)
  | OLast => (last_index_op (ss_wal s), s)
  | OSet k v n => let '(r, e') := set_stable (ss_wal s) k v n (ss_env s) in (r, {| ss_wal := ss_wal s; ss_env := e' |})
  | OGetS k => let '(r, e') := get_stable (ss_wal s) k (ss_env s) in (r, {| ss_wal := ss_wal s; ss_env := e' |})
  | OReopen =>
      (* Close (a pending rotation is abandoned), then Open on the same disk *)
      let '(r, e') := open_wal c (ss_env s) in
      match r with
      | OOk w' => (ROk, {| ss_wal := w'; ss_env := e' |})
      | OErr x => (x, {| ss_wal := close (ss_wal s); ss_env := e' |})
      end
  end.

Fixpoint run_model (c : cfg) (s : sstate) (os : list sop) : list result * sstate :=
  match os with
  | [] => ([], s)
  | o :: r => let '(x, s1) := step_model c s o in
              let '(xs, s2) := run_model c s1 r in (x :: xs, s2)
  end.

(* the specification side: a contiguous log and a key/value map *)
Record spst := { sp_log : slog; sp_kv : list kv }.

Definition res_class (r : result) : result :=         (* all error kinds are "an error" *)
  match r with
  | ROk | RVal _ | RLog _ | RBytes _ | RErrNotFound => r
  | _ => RErrOther
  end.

Definition step_spec (s : spst) (o : sop) : result * spst :=
  match o with
  | OStore ls => match spec_store (sp_log s) ls with
                 | Some l' => (ROk, {| sp_log := l'; sp_kv := sp_kv s |})
                 | None => (RErrOther, s)
                 end
  | ODelete mn mx => match spec_delete (sp_log s) mn mx with
                     | Some l' => (ROk, {| sp_log := l'; sp_kv := sp_kv s |})
                     | None => (RErrOther, s)
                     end
  | OGet i => match spec_get (sp_log s) i with
              | Some l => (RLog l, s)
              | None => (RErrNotFound, s)
              end
  | OFirst => (RVal (spec_first (sp_log s)), s)
  | OLast => (RVal (spec_last (sp_log s)), s)
  | OSet k v n => if key_ok k then (ROk, {| sp_log := sp_log s; sp_kv := kv_set k v (sp_kv s) |})
                  else (if n then ROk else RErrOther, s)
  | OGetS k => (RBytes (kv_get k (sp_kv s)), s)
  | OReopen => (ROk, s)
  end.

Fixpoint run_spec (s : spst) (os : list sop) : list result * spst :=
  match os with
  | [] => ([], s)
  | o :: r => let '(x, s1) := step_spec s o in
              let '(xs, s2) := run_spec s1 r in (x :: xs, s2)
  end.

Definition sop_ok (o : sop) : Prop :=
  match o with
  | OStore ls => logs_ok ls /\ frames_size ls < two30      (* one batch stays below 1 GiB *)
  | ODelete mn mx => mx + 1 < two64
  | OGet i => i < two64
  | OSet k v _ => wf_bytes k /\ wf_bytes v /\ len v < two31
  | _ => True
  end.

Definition fresh_env : env :=
  {| e_acts := []; e_disk := empty_disk; e_fault := None; e_fx := fx_none; e_m := zero_metrics |}.

(* the initial Open on an empty directory *)
Definition initial (c : cfg) : option sstate :=
  match open_wal c fresh_env with
  | (OOk w, e) => Some {| ss_wal := w; ss_env := e |}
  | _ => None
  end.
