(* FaultSim2.v -- lock-step simulation (see FaultSim.v) for the WAL-level
   operations: rotation, StoreLogs, DeleteRange, stable Set, Open. *)
From RW Require Import Base.Bytes Base.BytesFacts Fmt.Codec Fmt.Frame Wal.Model Wal.Spec Wal.Hist
  Wal.CrashInv Wal.CrashFacts0 Wal.CrashFacts1 Wal.CrashFacts2 Wal.CrashFacts3 Wal.CrashFacts4 Wal.CrashCalls4
  Wal.FaultSim Gen.Constants.
From Coq Require Import ZifyN ZifyNat ZifyBool.
Open Scope N_scope.

Lemma seg_create_some si e sw e' : seg_create si e = (Some sw, e') ->
  sw = new_wseg si /\ lookup (name_of si) (dk_files (e_disk e)) = None.
Proof.
  unfold seg_create. destruct (si_base si =? 0); [intros E; inversion E|].
  destruct (lookup _ _).
  - destruct (io _ e) as [ok e1]. intros E; inversion E.
  - destruct (io _ e) as [ok e1]. destruct ok; intros E; inversion E; auto.
Qed.

Lemma io_files_commit ps e ok e1 : io (ACommit ps) e = (ok, e1) -> dk_files (e_disk e1) = dk_files (e_disk e).
Proof.
  destruct (io_cases (ACommit ps) e) as [(e' & E & D & _)|(_ & e' & E & D & _)]; rewrite E; intros K; inversion K; subst; rewrite D; reflexivity.
Qed.

Lemma mutate_gen_ok_facts defer w t e w' e' dl : mutate_gen defer w t e = (ROk, w', e', dl) ->
  st_tail w' = (match tx_create t with None => tx_tail t | Some si => Some (new_wseg si) end) /\
  (forall si, tx_create t = Some si -> lookup (name_of si) (dk_files (e_disk e)) = None) /\
  dl = (if defer then tx_delete t else []) /\
  st_segs w' = tx_segs t /\ st_next_id w' = tx_next_id t /\
  st_rotate w' = st_rotate w /\ st_failed w' = st_failed w /\ st_closed w' = st_closed w.
Proof.
  unfold mutate_gen. destruct (io _ e) as [ok e1] eqn:Eio. destruct ok; cbn [negb]; [|intros E; inversion E].
  pose proof (io_files_commit _ _ _ _ Eio) as Hfl.
  destruct (tx_create t) as [si|].
  - destruct (seg_create si e1) as [sw e2] eqn:Es. destruct sw as [sw|]; intros E; inversion E; subst.
    destruct (seg_create_some _ _ _ _ Es) as (-> & Hl). cbn. repeat split; auto.
    intros si' K. inversion K; subst. rewrite <- Hfl. exact Hl.
  - intros E; inversion E; subst. cbn. repeat split; auto. intros si K; discriminate.
Qed.

(* ------------------------------------------------------------------ *)
(* rotation                                                             *)
Definition rot_none (w : wal) : wal :=
  {| st_next_id := st_next_id w; st_segs := st_segs w; st_tail := st_tail w;
     st_rotate := None; st_failed := st_failed w; st_closed := st_closed w |}.

Lemma sh_rotate c w ec w' ec' : e_fault ec = None -> rotate c w ec = (w', ec') -> shok ec ec'.
Proof.
  intros Hf. unfold rotate. destruct (st_rotate w); [|intros E; inversion E; subst; apply shok_refl; exact Hf].
  destruct (st_closed w); [intros E; inversion E; subst; apply shok_refl; exact Hf|].
  destruct (tail_info _); [|intros E; inversion E; subst; apply shok_add_m; exact Hf].
  destruct (create_next _ _ _ _) as [[nid segs2] si].
  match goal with |- context [mutate ?w0 ?t ?e0] => destruct (mutate w0 t e0) as [[r1 w1] e1] eqn:Em end.
  intros E; inversion E; subst. eapply shok_trans; [apply shok_add_m; exact Hf|].
  eapply sh_mutate; [|exact Em]. exact Hf.
Qed.

Lemma rotate_lock o c w e ec w' e' wc' ec' : R o e ec ->
  rotate c w e = (w', e') -> rotate c w ec = (wc', ec') ->
  (w' = wc' /\ R o e' ec') \/
  (e_fault e' = None /\ st_rotate w <> None /\ st_closed w = false /\
   ((w' = rot_none w /\ e_disk e' = e_disk e) \/
    (w' = set_failed (rot_none w) /\
     exists ps, drel o (e_disk e') (apply_act (e_disk ec) (ACommit ps)) /\
                pfx ec ec' (apply_act (e_disk ec) (ACommit ps))))).
Proof.
  intros HR. unfold rotate. destruct (st_rotate w) as [istart|] eqn:Er; [|intros E1 E2; inversion E1; inversion E2; subst; left; auto].
  destruct (st_closed w) eqn:Ecl; [intros E1 E2; inversion E1; inversion E2; subst; left; auto|].
  destruct (tail_info _); [|intros E1 E2; inversion E1; inversion E2; subst; left; split; [reflexivity|apply R_add_m; exact HR]].
  destruct (create_next _ _ _ _) as [[nid segs2] si].
  match goal with |- context [mutate ?w0 ?t (add_m e ?f)] =>
    destruct (mutate w0 t (add_m e f)) as [[r1 w1] e1] eqn:Em; destruct (mutate w0 t (add_m ec f)) as [[rc1 wc1] ec1] eqn:Emc;
    pose proof (mutate_lock o w0 t (add_m e f) (add_m ec f) _ _ _ _ _ _ (R_add_m o e ec f f HR) Em Emc) as HL end.
  intros E1 E2; inversion E1; inversion E2; subst.
  destruct HL as [(A & B & C & _)|(A & B & [(C1 & C2)|(C0 & C1 & C2 & C3 & C4)])].
  - left. auto.
  - right. split; [exact A|]. split; [discriminate|]. split; [reflexivity|]. left. split; [unfold rot_none; rewrite Ecl; exact C1|exact C2].
  - right. split; [exact A|]. split; [discriminate|]. split; [reflexivity|]. right. split; [unfold rot_none, set_failed; cbn; rewrite Ecl; exact C1|].
    eexists. split; [exact C3|]. eapply pfx_shift; [apply aext_add_m|exact C4].
Qed.

(* ------------------------------------------------------------------ *)
(* resetEmptyFirstSegmentBaseIndex                                      *)
Lemma sh_reset_first c w nbase ec r w' ec' dl : e_fault ec = None ->
  reset_first c w nbase ec = (r, w', ec', dl) -> shok ec ec'.
Proof.
  intros Hf. unfold reset_first. destruct (0 <? _); [intros E; inversion E; subst; apply shok_refl; exact Hf|].
  destruct (tail_info _) as [t|].
  - destruct (si_base t =? nbase); [apply sh_mutate_gen; exact Hf|].
    destruct (create_next _ _ _ _) as [[nid segs2] si]. apply sh_mutate_gen; exact Hf.
  - destruct (create_next _ _ _ _) as [[nid segs2] si]. apply sh_mutate_gen; exact Hf.
Qed.

Lemma reset_first_lock o c w nbase e ec r w1 e1 dl rc wc1 ec1 dlc : R o e ec ->
  reset_first c w nbase e = (r, w1, e1, dl) -> reset_first c w nbase ec = (rc, wc1, ec1, dlc) ->
  (r = rc /\ w1 = wc1 /\ dl = dlc /\ R o e1 ec1 /\
   (rc = ROk -> forall ti, tail_info (st_segs w) = Some ti -> si_base ti <> nbase ->
    dl = [name_of ti] /\ exists si, st_tail w1 = Some (new_wseg si) /\ lookup (name_of si) (dk_files (e_disk e)) = None)) \/
  (e_fault e1 = None /\ r = RErrIO /\ dl = [] /\
   ((w1 = w /\ e_disk e1 = e_disk e) \/
    (rc = ROk /\ w1 = set_failed w /\
     exists ps, drel o (e_disk e1) (apply_act (e_disk ec) (ACommit ps)) /\
                pfx ec ec1 (apply_act (e_disk ec) (ACommit ps))))).
Proof.
  intros HR. unfold reset_first. destruct (0 <? _).
  { intros E1 E2; inversion E1; inversion E2; subst. left. repeat split; auto; try apply HR; discriminate. }
  assert (Gen : forall t, mutate_gen true w t e = (r, w1, e1, dl) -> mutate_gen true w t ec = (rc, wc1, ec1, dlc) ->
    (r = rc /\ w1 = wc1 /\ dl = dlc /\ R o e1 ec1 /\
     (rc = ROk ->
      (st_tail w1 = tx_tail t /\ tx_create t = None \/ exists si, st_tail w1 = Some (new_wseg si) /\ lookup (name_of si) (dk_files (e_disk e)) = None) /\
      dl = tx_delete t)) \/
    (e_fault e1 = None /\ r = RErrIO /\ dl = [] /\
     ((w1 = w /\ e_disk e1 = e_disk e) \/
      (rc = ROk /\ w1 = set_failed w /\
       exists ps, drel o (e_disk e1) (apply_act (e_disk ec) (ACommit ps)) /\
                  pfx ec ec1 (apply_act (e_disk ec) (ACommit ps)))))).
  { intros t E1 E2. destruct (mutate_gen_lock o true w t e ec _ _ _ _ _ _ _ _ HR E1 E2) as [(A & B & C & D & _)|(A & B & C & [D|(D0 & D1 & D2 & D3 & D4)])].
    - left. split; [exact A|]. split; [exact B|]. split; [exact C|]. split; [exact D|]. intros Hr. subst rc r.
      destruct (mutate_gen_ok_facts _ _ _ _ _ _ _ E1) as (F1 & F2 & F3 & _). split; [|exact F3].
      destruct (tx_create t) as [si|]; [right; exists si; split; [exact F1|apply F2; reflexivity]|left; auto].
    - right. auto.
    - right. split; [exact A|]. split; [exact B|]. split; [exact C|]. right. split; [exact D0|]. split; [exact D1|]. eexists; split; eauto. }
  destruct (tail_info _) as [t|] eqn:Eti.
  - destruct (si_base t =? nbase) eqn:Eb.
    + intros E1 E2. destruct (Gen _ E1 E2) as [(A & B & C & D & E)|F]; [left|right; exact F].
      split; [exact A|]. split; [exact B|]. split; [exact C|]. split; [exact D|]. intros Hr ti K Hne. injection K as <-. lia.
    + destruct (create_next _ _ _ _) as [[nid segs2] si].
      intros E1 E2. destruct (Gen _ E1 E2) as [(A & B & C & D & E)|F]; [left|right; exact F].
      split; [exact A|]. split; [exact B|]. split; [exact C|]. split; [exact D|]. intros Hr ti K Hne. injection K as <-.
      destruct (E Hr) as ([(_ & E1')|E1'] & E2'); cbn in *; [discriminate|]. split; [exact E2'|exact E1'].
  - destruct (create_next _ _ _ _) as [[nid segs2] si].
    intros E1 E2. destruct (Gen _ E1 E2) as [(A & B & C & D & E)|F]; [left|right; exact F].
    split; [exact A|]. split; [exact B|]. split; [exact C|]. split; [exact D|]. intros Hr ti K; discriminate.
Qed.

(* ------------------------------------------------------------------ *)
(* StoreLogs                                                            *)
Lemma sh_store_go last ls w ec r w' ec' : e_fault ec = None -> store_go last ls w ec = (r, w', ec') -> shok ec ec'.
Proof.
  intros Hf. unfold store_go. destruct (check_logs last ls) as [res nbytes].
  destruct res; [|intros E; inversion E; subst; apply shok_refl; exact Hf ..].
  destruct (st_tail w) as [tw|]; [|intros E; inversion E; subst; apply shok_refl; exact Hf].
  destruct (seg_append tw ls ec) as [[r1 tw1] e1] eqn:Ea. pose proof (sh_seg_append _ _ _ _ _ _ Hf Ea) as H1.
  destruct r1; intros E; inversion E; subst; exact H1.
Qed.

Lemma store_go_lock o last ls w e ec r w' e' rc wc' ec' : R o e ec ->
  (forall tw, st_tail w = Some tw -> o = Some (ws_name tw) -> wguard (e_disk e) (ws_name tw) (ws_off tw)) ->
  store_go last ls w e = (r, w', e') -> store_go last ls w ec = (rc, wc', ec') ->
  (r = rc /\ w' = wc' /\ R o e' ec' /\
   (rc = ROk -> ls <> [] -> forall tw, st_tail w = Some tw -> R (clr o (ws_name tw)) e' ec')) \/
  (rc = ROk /\ ls <> [] /\ r = RErrIO /\ w' = w /\ e_fault e' = None /\
   exists tw, st_tail w = Some tw /\
     (e_disk e' = e_disk e \/
      (drel (clr o (ws_name tw)) (e_disk e') (apply_act (e_disk ec) (append_act tw ls)) /\
       pfx ec ec' (apply_act (e_disk ec) (append_act tw ls))))).
Proof.
  intros HR Hg. unfold store_go. destruct (check_logs last ls) as [res nbytes].
  destruct res; [|intros E1 E2; inversion E1; inversion E2; subst; left; repeat split; auto; try apply HR; discriminate ..].
  destruct (st_tail w) as [tw|] eqn:Et; [|intros E1 E2; inversion E1; inversion E2; subst; left; repeat split; auto; try apply HR; discriminate].
  destruct (seg_append tw ls e) as [[r1 tw1] e1] eqn:Ea. destruct (seg_append tw ls ec) as [[rc1 twc1] ec1] eqn:Eac.
  destruct (seg_append_lock o tw ls e ec _ _ _ _ _ _ HR (Hg tw eq_refl) Ea Eac)
    as (A1 & A2 & [(-> & -> & B3 & B4)|(-> & B0 & -> & -> & B3 & B4)]).
  - destruct rc1; intros E1 E2; inversion E1; inversion E2; subst; left;
      try (split; [reflexivity|]; split; [reflexivity|]; split; [exact B3|]; discriminate).
    split; [reflexivity|]. split; [reflexivity|]. split; [apply R_add_m; exact B3|].
    intros _ Hne tw' K. inversion K; subst. apply R_add_m. apply B4; auto.
  - intros E1 E2; inversion E1; inversion E2; subst. right.
    split; [reflexivity|]. split; [exact B0|]. split; [reflexivity|]. split; [reflexivity|]. split; [exact B3|].
    exists tw. split; [reflexivity|]. destruct B4 as [B4|(B4 & B5)]; [left; exact B4|right].
    split; [exact B4|]. eapply pfx_more; [exact B5|apply aext_add_m].
Qed.

Lemma sh_store_logs c w ls ec r w' ec' : e_fault ec = None -> store_logs c w ls ec = (r, w', ec') -> shok ec ec'.
Proof.
  intros Hf. rewrite store_logs_unfold. destruct (st_closed w); [intros E; inversion E; subst; apply shok_refl; exact Hf|].
  destruct ls as [|l0 ls']; [intros E; inversion E; subst; apply shok_refl; exact Hf|].
  destruct (st_failed w); [intros E; inversion E; subst; apply shok_refl; exact Hf|]. cbv zeta.
  destruct (tail_info _) as [ti|]; [|intros E; inversion E; subst; apply shok_refl; exact Hf].
  destruct (_ && _); [|apply sh_store_go; exact Hf].
  destruct (reset_first c w (l_index l0) ec) as [[[r1 w1] e1] dels] eqn:Er.
  pose proof (sh_reset_first _ _ _ _ _ _ _ _ Hf Er) as H1.
  destruct r1; try (intros E; inversion E; subst; exact H1).
  destruct (store_go _ _ w1 e1) as [[r2 w2] e2] eqn:Eg. pose proof (sh_store_go _ _ _ _ _ _ _ (proj2 H1) Eg) as H2.
  intros E; inversion E; subst. eapply shok_trans; [exact H1|]. eapply shok_trans; [exact H2|].
  apply sh_delete_files. apply H2.
Qed.

(* what the real run of a failed StoreLogs leaves behind *)
Definition store_failed (o : option fname) (c : cfg) (w : wal) (ls : list log) (e ec : env)
  (w' : wal) (e' : env) (rc : result) (ec' : env) : Prop :=
  (w' = w /\ e_disk e' = e_disk e) \/
  (w' = set_failed w /\
   exists ps, drel o (e_disk e') (apply_act (e_disk ec) (ACommit ps)) /\ pfx ec ec' (apply_act (e_disk ec) (ACommit ps))) \/
  (w' = w /\ rc = ROk /\ ls <> [] /\
   exists tw, st_tail w = Some tw /\
     drel (clr o (ws_name tw)) (e_disk e') (apply_act (e_disk ec) (append_act tw ls)) /\
     pfx ec ec' (apply_act (e_disk ec) (append_act tw ls))) \/
  (exists l0 ls' w1 ec1 dels tw1 dm,
     ls = l0 :: ls' /\ reset_first c w (l_index l0) ec = (ROk, w1, ec1, dels) /\ w' = w1 /\ st_tail w1 = Some tw1 /\
     rc = ROk /\ (dm = e_disk ec1 \/ dm = apply_act (e_disk ec1) (append_act tw1 ls)) /\
     pfx ec ec' dm /\ drel None (e_disk e') (del_disk dels dm)).

Definition stale_tail (o : option fname) (w : wal) (d : disk) : Prop :=
  forall n, o = Some n ->
    lookup n (dk_files d) <> None /\
    exists ti tw, tail_info (st_segs w) = Some ti /\ st_tail w = Some tw /\ ws_name tw = n /\ name_of ti = n /\
                  wguard d n (ws_off tw).

Lemma del_disk_drel o ns : forall d dc, drel o d dc -> drel o (del_disk ns d) (del_disk ns dc).
Proof.
  induction ns as [|n ns IH]; intros d dc H; [exact H|].
  unfold del_disk. cbn [fold_left]. apply IH. apply drel_act_simple; [exact I|exact H].
Qed.
Lemma del_disk_drel_stale n ns : forall d dc, drel (Some n) d dc -> In n ns -> drel None (del_disk ns d) (del_disk ns dc).
Proof.
  induction ns as [|m ns IH]; intros d dc H Hin; [destruct Hin|].
  unfold del_disk. cbn [fold_left]. destruct Hin as [->|Hin].
  - apply del_disk_drel. apply drel_delete_stale. exact H.
  - apply IH; [|exact Hin]. apply drel_act_simple; [exact I|exact H].
Qed.

Lemma delete_files_real ns : forall e,
  e_disk (delete_files ns e) = del_disk ns (e_disk e) /\ e_fault (delete_files ns e) = e_fault e.
Proof.
  induction ns as [|n ns IH]; intros e; [split; reflexivity|].
  unfold delete_files, del_disk. cbn [fold_left]. fold (delete_files ns (snd (io (ADelete n) e))).
  fold (del_disk ns (apply_act (e_disk e) (ADelete n))).
  destruct (IH (snd (io (ADelete n) e))) as (A & B). rewrite A, B. unfold io. cbn [is_delete snd e_disk e_fault]. auto.
Qed.

Lemma store_logs_lock o c w ls e ec r w' e' rc wc' ec' : R o e ec -> stale_tail o w (e_disk e) ->
  store_logs c w ls e = (r, w', e') -> store_logs c w ls ec = (rc, wc', ec') ->
  (r = rc /\ w' = wc' /\ R o e' ec' /\ (rc = ROk -> ls <> [] -> R None e' ec')) \/
  (e_fault e' = None /\ r = RErrIO /\ store_failed o c w ls e ec w' e' rc ec').
Proof.
  intros HR Hst. rewrite !store_logs_unfold.
  destruct (st_closed w); [intros E1 E2; inversion E1; inversion E2; subst; left; repeat split; auto; try apply HR; discriminate|].
  destruct ls as [|l0 ls']; [intros E1 E2; inversion E1; inversion E2; subst; left; repeat split; auto; try apply HR; congruence|].
  set (ls := l0 :: ls') in *.
  destruct (st_failed w); [intros E1 E2; inversion E1; inversion E2; subst; left; repeat split; auto; try apply HR; discriminate|]. cbv zeta.
  destruct (tail_info _) as [ti|] eqn:Eti; [|intros E1 E2; inversion E1; inversion E2; subst; left; repeat split; auto; try apply HR; discriminate].
  assert (Hg : forall tw, st_tail w = Some tw -> o = Some (ws_name tw) -> wguard (e_disk e) (ws_name tw) (ws_off tw)).
  { intros tw Ht Ho. destruct (Hst _ Ho) as (_ & ti' & tw' & _ & Ht' & _ & _ & G). rewrite Ht in Ht'. inversion Ht'; subst. exact G. }
  destruct (_ && _) eqn:Ereset.
  2:{ intros E1 E2. destruct (store_go_lock o _ ls w e ec _ _ _ _ _ _ HR Hg E1 E2) as [(A & B & C & D)|(A & B & C & D & E & tw & Et & F)].
      - left. split; [exact A|]. split; [exact B|]. split; [exact C|]. intros Hr Hne.
        destruct o as [n|]; [|destruct (st_tail w) as [tw|] eqn:Et; [specialize (D Hr Hne tw eq_refl); exact D|exact C]].
        destruct (Hst n eq_refl) as (_ & ti' & tw & _ & Et & En & _). specialize (D Hr Hne tw Et). rewrite En in D.
        unfold clr in D. rewrite fname_eqb_refl in D. exact D.
      - right. split; [exact E|]. split; [exact C|]. destruct F as [F|(F1 & F2)].
        + left. auto.
        + right. right. left. split; [exact D|]. split; [exact A|]. split; [exact B|]. exists tw. auto. }
  destruct (reset_first c w (l_index l0) e) as [[[r1 w1] e1] dels] eqn:Er.
  destruct (reset_first c w (l_index l0) ec) as [[[rc1 wc1] ec1] delsc] eqn:Erc.
  assert (Hbase : si_base ti <> l_index l0) by lia.
  destruct (reset_first_lock o c w (l_index l0) e ec _ _ _ _ _ _ _ _ HR Er Erc) as [(-> & -> & -> & B & C)|(A & -> & -> & [(-> & C)|(-> & -> & ps & C1 & C2)])].
  - destruct rc1; try (intros E1 E2; inversion E1; inversion E2; subst; left; split; [reflexivity|]; split; [reflexivity|]; split; [exact B|]; discriminate).
    destruct (C eq_refl ti Eti Hbase) as (-> & si & Ctail & Hl).
    destruct (store_go _ ls wc1 e1) as [[r2 w2] e2] eqn:Eg. destruct (store_go _ ls wc1 ec1) as [[rc2 wc2] ec2] eqn:Egc.
    assert (Hg1 : forall tw, st_tail wc1 = Some tw -> o = Some (ws_name tw) -> wguard (e_disk e1) (ws_name tw) (ws_off tw)).
    { intros tw Ht Ho. exfalso. destruct (Hst _ Ho) as (Hex & _).
      rewrite Ctail in Ht. inversion Ht; subst tw. cbn [new_wseg ws_name] in Hex. apply Hex. exact Hl. }
    pose proof (sh_reset_first _ _ _ _ _ _ _ _ (proj2 HR) Erc) as Hsh1.
    pose proof (sh_store_go _ _ _ _ _ _ _ (proj2 Hsh1) Egc) as Hsh2.
    assert (Hdel : forall n, o = Some n -> In n [name_of ti]).
    { intros n Ho. destruct (Hst n Ho) as (_ & ti' & tw' & Eti' & _ & _ & En & _). rewrite Eti in Eti'. inversion Eti'; subst. left; reflexivity. }
    destruct (store_go_lock o _ ls wc1 e1 ec1 _ _ _ _ _ _ B Hg1 Eg Egc) as [(-> & -> & G3 & G4)|(-> & G0 & -> & -> & G3 & tw & Et & G4)].
    + remember (delete_files [name_of ti] e2) as e3 eqn:He3. remember (delete_files [name_of ti] ec2) as ec3 eqn:Hec3.
      intros E1 E2; injection E1 as <- <- <-; injection E2 as <- <- <-. subst e3 ec3. left.
      destruct (delete_files_lock o [name_of ti] e2 ec2 G3) as (D1 & _ & _ & _ & _ & D6).
      split; [reflexivity|]. split; [reflexivity|]. split; [exact D1|]. intros _ _.
      destruct o as [n|]; [apply (D6 n eq_refl (Hdel n eq_refl))|exact D1].
    + remember (delete_files [name_of ti] e2) as e3 eqn:He3. remember (delete_files [name_of ti] ec2) as ec3 eqn:Hec3.
      intros E1 E2; injection E1 as <- <- <-; injection E2 as <- <- <-. subst e3 ec3. right.
      destruct (delete_files_real [name_of ti] e2) as (D4 & D3).
      split; [rewrite D3; exact G3|]. split; [reflexivity|]. right. right. right.
      pose proof (proj1 (sh_delete_files [name_of ti] ec2 (proj2 Hsh2))) as D2'.
      destruct G4 as [G4|(G4 & G5)].
      * exists l0, ls', wc1, ec1, [name_of ti], tw, (e_disk ec1).
        split; [reflexivity|]. split; [exact Erc|]. split; [reflexivity|]. split; [exact Et|]. split; [reflexivity|].
        split; [left; reflexivity|].
        split; [eapply pfx_more; [apply pfx_end; apply Hsh1|eapply aext_trans; [apply Hsh2|exact D2']]|].
        rewrite D4, G4. destruct o as [n|].
        -- apply (del_disk_drel_stale n); [apply B|apply Hdel; reflexivity].
        -- apply del_disk_drel. apply B.
      * exists l0, ls', wc1, ec1, [name_of ti], tw, (apply_act (e_disk ec1) (append_act tw ls)).
        split; [reflexivity|]. split; [exact Erc|]. split; [reflexivity|]. split; [exact Et|]. split; [reflexivity|].
        split; [right; reflexivity|].
        split; [eapply pfx_shift; [apply Hsh1|]; eapply pfx_more; [exact G5|exact D2']|].
        rewrite D4. destruct o as [n|].
        -- apply (del_disk_drel_stale n); [|apply Hdel; reflexivity].
           assert (Hcl : clr (Some n) (ws_name tw) = Some n).
           { unfold clr. destruct (fname_eqb n (ws_name tw)) eqn:E; [|reflexivity]. apply fname_eqb_eq in E. exfalso.
             destruct (Hst n eq_refl) as (Hex & _). rewrite Ctail in Et. inversion Et; subst tw. cbn [new_wseg ws_name] in E. subst n. apply Hex. exact Hl. }
           rewrite Hcl in G4. exact G4.
        -- apply del_disk_drel. exact G4.
  - intros E1 _. inversion E1; subst. right. split; [exact A|]. split; [reflexivity|]. left. auto.
  - intros E1 E2. inversion E1; subst. right. split; [exact A|]. split; [reflexivity|]. right. left. split; [reflexivity|].
    exists ps. split; [exact C1|].
    destruct (store_go _ ls wc1 ec1) as [[rc2 wc2] ec2] eqn:Egc.
    pose proof (sh_reset_first _ _ _ _ _ _ _ _ (proj2 HR) Erc) as Hsh1.
    pose proof (sh_store_go _ _ _ _ _ _ _ (proj2 Hsh1) Egc) as Hsh2.
    inversion E2; subst. eapply pfx_more; [exact C2|]. eapply aext_trans; [apply Hsh2|]. apply sh_delete_files. apply Hsh2.
Qed.

